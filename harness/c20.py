"""C20 — loading and unloading plugins keeps the dispatcher consistent and ordered."""
import json, os, re, warnings
warnings.simplefilter('ignore')
import boot
from lib import wire
from lib.shrink import shrink_seq

TABLES = ['T20']
RULE = ('histories of dispatcher operations, every one run on the real code and on the extracted model and compared after EVERY operation '
        '(reply class + exact callback order; the model receives the observed order as its set-iteration oracle, so it validates the real '
        'result instead of predicting it).  "syn": Irc.addCallback/removeCallback on synthetic IrcCallback objects with generated '
        'callBefore/callAfter (acyclic by construction, random/cyclic, self-referencing, unknown names, case variants, Owner-/Misc-shaped '
        'precedence borrowed from the real classes).  "live": a booted bot (Owner, Misc, Config + bundled plugins + synthetic plugin '
        'packages on disk) driven through the real `load`/`unload`/`reload` commands as an owner, with injected ImportError / other import '
        'exception / raising __init__ / raising die().  Direct oracle on the implementation after every operation: names registered once '
        '(case-insensitively), every declared constraint between registered callbacks holds in the list order, Owner at index 0, the '
        'registered set equals the set the history asked for (failed operations change nothing, Owner never leaves), every Irc object of the bot '
        '(two networks sharing irclib._callbacks, operations issued through either, plus one Irc created after the history) sees the same list, and '
        'at the end of a live history every synthetic plugin command, bare and plugin-qualified, is sent on every network: answered by a loaded '
        'plugin that has it (or the ambiguity error naming exactly the loaded holders), never by an unloaded one.  The final-state resolution '
        '(called plugin / ambiguous set / invalid, under generated defaultPlugins + importantPlugins settings) and the per-Irc views are also '
        'compared with the extracted model.  non-trivial = history with at least 2 operations')
TRUSTED = ['liveness: the model logs die() calls (s_dead); the synthetic plugins hold a handle that die() releases and that their commands need, '
           'so a registered-but-torn-down instance is observable (direct oracle after every operation; die() sequence compared with the model at the end)',
           'command resolution is modelled for plugins without sub-command groups and without disabled commands; callbacks.canonicalName is a Section '
           'variable (extracted instance: drop TAB - _ SPACE and ASCII-lower; generators use alphanumeric names); `L >= maxL` on two prefixes of '
           'the token list is modelled as comparison of lengths; tokenising and nested commands are C13/C14',
           'T20 also pins (fail-closed) that no write to self.callbacks in class Irc rebinds the attribute outside __init__ and that Irc.__init__ '
           'defaults to the module-level _callbacks list; the Coq lemma callbacks_never_rebound recomputes it on the regenerated inventory',
           'str.lower() enters the model as a Section variable (theorems hold for any fold function); the extracted instance is the ASCII fold '
           'and the generators use ASCII names',
           'ircutils.strEqual(name, "Owner") (rfc1459 fold) is modelled by the same fold as getCallback (they agree on every name that folds to "owner")',
           'plugin.loadPluginModule: the name lookup is modelled (exact directory entry, else first case-insensitive full match of the escaped name in '
           'os.listdir order; the world is given in that order and contains every synthetic plugin directory); two plugin directories differing only in '
           'case are outside the generators; the import itself is reduced to ImportError / other exception / module',
           'module-level reload() hooks of a plugin module and the supybot.plugins.<Name> flag are not modelled',
           'sys.modules is not modelled: since fix C20.F24 Owner.reload reads it with .get() and only to find an optional module-level reload() hook',
           'T20: shapes of Owner.callPrecedence, Misc.callPrecedence, IrcCallback.callPrecedence asserts + firewall default, the strEqual guards and the '
           'except ImportError clause of Owner.reload are re-read from the source on every run (fail-closed)']
ASSUMPTIONS = ['a plugin whose die() raises: the exception is swallowed by log.firewall (die is in IrcCallback.__firewalled__ and, since the '
               'MetaFirewall repair, wrapped for every plugin class: pinned in T20); the instance counts as torn down',
               'world.testing/log.testing off (log.firewall active); Python asserts enabled (no -O)',
               'callback objects in the list are pairwise distinct objects (hypothesis NoDup ids of the theorems)',
               'single-threaded use of Irc.addCallback (the source says "This *isn\'t* threadsafe!")']
LEVEL_TEXT = ('Coq theorems over an executable Gallina model of Irc.addCallback/_sortCallbacks/getCallback/removeCallback, the three callPrecedence shapes and '
              'Owner.load/unload/reload (as repaired by fixes C20.F21 import part, F22, F23, F24): for EVERY set-iteration oracle the sorted list is a permutation of '
              'the old list plus the new callback and satisfies every precedence edge, or AssertionError is raised and the list is unchanged; a ranked '
              '(acyclic) edge set is never rejected, a closed walk (incl. a self-reference) always is; every resolvable callBefore/callAfter is honoured; '
              'Owner-shaped callback ends up first; names stay unique and Owner stays registered and first over all histories; a failed load keeps the '
              'registered list (full statement); a reload whose import fails keeps the registered set; a reload whose new constructor / old die() raises still '
              'loses the plugin (refuting witness, known finding C20.F21); history-level invariant (registered once, topological order of all declared '
              'constraints, Owner first) by induction over histories, failed operations leave a permutation on the stated domain; command resolution '
              '(findCallbacksForArgs/finalEval): only commands of registered callbacks resolve, invalid iff nobody has it, plugin-qualified form never '
              'shadowed, bare form = holders narrowed by the three documented rules; all Irc objects see one list (table lemma callbacks_never_rebound).  Tied to the source by regenerated shape tables and a per-operation differential run.')
LEVEL_NOTE = ('Trusted: Coq kernel, gen_tables/t20.py, extraction + OCaml driver, the Python harness; str.lower and callbacks.canonicalName are Section variables; '
              'Python code is modelled not verified.  NOT modelled (gap audit): (1) command renames (Owner.rename/unrename, supybot.commands.renames re-applied by '
              'plugin.loadPluginClass on the CLASS): probed clean across reload/unload/load, but a stored rename whose target the new code defines makes '
              'loadPluginClass assert, i.e. a replace-phase failure of reload (known finding C20.F21) and a plugin that can then be neither loaded nor unrenamed; '
              '(2) the persisted flag supybot.plugins.<Name> (probed: follows load/unload, stays True after a C20.F21 loss) and Owner._loadPlugins, which at every new '
              'network connect loads whatever is flagged and not registered; (3) disabled commands and plugins with sub-command groups in command resolution; '
              'tokenising/nested commands (C13/C14); (4) deprecated plugins (Deprecated is an ImportError: covered as such), entry-point plugins '
              '(loadPluginFromEntrypoint), a plugin directory whose Class has another name than the directory, two directories differing only in case; '
              '(5) the module-level reload(x) hook of the NEW module and reload(module.config) are inside the try block and count as "import fails"; '
              '(6) Irc.addCallback is documented as not thread-safe: single-threaded histories only; (7) object identity of callbacks is an id counter, '
              'callbacks with custom __eq__/__hash__ are outside the model.')
TECHNIQUE = 'Coq proof (loop invariant over the layered extraction, for all oracles; induction over histories) + regenerated tables + extracted-model differential correspondence'
EXPLANATION = 'C20: model of the callback list (src/irclib.py, Owner plugin); theorems in coq/C20/Props.v'

# prefix families (Al/Alpha, Qa/Qabx, Ga/Gamma, Ze/Zeta): a name lookup that is not a FULL match would confuse them
SYN_PLUGINS = ['Alpha', 'Beta', 'Gamma', 'Delta', 'Epsi', 'Zeta', 'Al', 'Qa', 'Qabx', 'Ga', 'Ze']
SHORT_PLUGINS = ['Al', 'Qa', 'Ga', 'Ze']
BUNDLED = ['Owner', 'Misc', 'Config', 'Utilities', 'Dunno', 'Karma', 'Plugin']   # (Plugin is a prefix of the bundled PluginDownloader)
_env = {}


# ----------------------------------------------------------------------------------------------------
# the implementation side
def env():
    if _env:
        return _env
    d = boot.boot()
    import supybot.conf as conf, supybot.irclib as irclib, supybot.ircmsgs as ircmsgs, supybot.plugin as plugin
    import supybot.ircdb as ircdb, supybot.world as world, supybot.log as log
    assert not world.testing and not log.testing
    # two synthetic plugin directories: loadPluginModule lists the configured directories in order, so the short member of
    # every prefix family (second directory) is listed AFTER the long one (first directory) whatever the file system does
    pd = os.path.join(d, 'plugins20')
    pd2 = os.path.join(d, 'plugins20b')
    os.makedirs(pd, exist_ok=True)
    os.makedirs(pd2, exist_ok=True)
    conf.supybot.directories.plugins.setValue([pd, pd2, os.path.join(boot.REPO, 'plugins')])
    conf.supybot.abuse.flood.command.setValue(False)
    conf.supybot.abuse.flood.command.invalid.setValue(False)
    pdir = {}
    for n in SYN_PLUGINS:
        pdir[n] = os.path.join(pd2 if n in SHORT_PLUGINS else pd, n)
        os.makedirs(pdir[n], exist_ok=True)
        with open(os.path.join(pdir[n], '__init__.py'), 'w') as f:
            f.write(PLUGIN_SRC % {'n': n, 'l': n.lower()})
        with open(os.path.join(pdir[n], 'ctl.json'), 'w') as f:
            json.dump({}, f)
    # two networks, as a bot with two configured networks has them: both Irc objects are built with the default
    # `callbacks=_callbacks`, i.e. they share the ONE module-level dispatcher list
    class Drv:
        def reconnect(self, *a, **k): pass
        def die(self): pass
    for net in ('other', 'late'):
        conf.registerNetwork(net)
        conf.supybot.networks.get(net).servers.set('should.not.need.this:6667')
    del irclib._callbacks[:]

    def mk_irc(net):
        x = irclib.Irc(net)
        x.driver = Drv()
        while x.takeMsg():
            pass
        x.feedMsg(ircmsgs.IrcMsg(':srv 001 test :welcome'))
        while x.takeMsg():
            pass
        return x
    irc = mk_irc('test')
    irc2 = mk_irc('other')
    u = ircdb.users.newUser()
    u.name = 'boss'
    u.addCapability('owner')
    u.addHostmask('boss!u@h')
    ircdb.users.setUser(u)
    om = plugin.loadPluginModule('Owner')
    mm = plugin.loadPluginModule('Misc')
    _env.update(dict(dir=d, pd=pd, pd2=pd2, pdir=pdir, irc=irc, ircs=[irc, irc2], mk_irc=mk_irc, world=world, irclib=irclib, ircmsgs=ircmsgs, plugin=plugin, conf=conf,
                     owner_cp=om.Class.__dict__['callPrecedence'], misc_cp=mm.Class.__dict__['callPrecedence'],
                     modules={'Owner': om, 'Misc': mm}))
    return _env


PLUGIN_SRC = '''
import json, os
from supybot import callbacks
def _ctl():
    with open(os.path.join(os.path.dirname(__file__), 'ctl.json')) as f:
        return json.load(f)
_c = _ctl()
if _c.get('imp') == 1:
    import nonexistent_module_for_c20
if _c.get('imp') == 2:
    raise RuntimeError('boom at import')
def reload(x=None):
    # the optional module-level reload() hook of a plugin module: Owner.reload calls old_module.reload() before importing the
    # new code and new_module.reload(x) after it
    if x is None and _ctl().get('imp') == 3:
        raise RuntimeError('boom in the module reload() hook')
    return 'carried-over state'
class %(n)s(callbacks.Plugin):
    callBefore = tuple(_c.get('before', ()))
    callAfter = tuple(_c.get('after', ()))
    def __init__(self, irc):
        super().__init__(irc)
        if _ctl().get('init'):
            raise RuntimeError('boom in __init__')
        # the plugin "holds something" (a handle) that its commands need and that die() releases
        import builtins
        self._c20 = builtins.__dict__.setdefault('_c20_probe', {'serial': 0, 'dies': []})
        self._c20['serial'] += 1
        self._serial = self._c20['serial']
        self._handle = ['open']
    def die(self):
        self._c20['dies'].append(('%(n)s', self._serial))
        self._handle = None
        if _ctl().get('die'):
            raise RuntimeError('boom in die')
        super().die()
def _mk(cmd):
    def f(self, irc, msg, args):
        self._handle[0]                     # a torn-down instance cannot answer
        irc.reply('pong-%(n)s-' + cmd)
    f.__name__ = cmd
    return f
for _cmd in _c.get('cmds', ()):
    setattr(%(n)s, _cmd, _mk(_cmd))
Class = %(n)s
'''


def set_ctl(e, name, **kw):
    with open(os.path.join(e['pdir'][name], 'ctl.json'), 'w') as f:
        json.dump(kw, f)


def spec_of(world, name):
    for s in world:
        if s[0].lower() == name.lower():
            return s
    return None


def mk_syn(e, spec):
    name, kind, before, after, cmds = spec
    d = {'callBefore': tuple(before), 'callAfter': tuple(after)}
    if kind == 1:
        d['callPrecedence'] = e['owner_cp']
    elif kind == 2:
        d['callPrecedence'] = e['misc_cp']
    cls = type('Syn', (e['irclib'].IrcCallback,), d)
    o = cls()
    o._n = name
    cls.name = lambda self: self._n
    return o


def exn_class(ex):
    return 'AssertionError' if isinstance(ex, AssertionError) else 'OtherError'


def say(e, text, h=0):
    irc = e['ircs'][h]
    irc.feedMsg(e['ircmsgs'].privmsg('test', text, prefix='boss!u@h'))
    out = []
    while True:
        m = irc.takeMsg()
        if not m:
            break
        out.append(m.args[-1])
    return out


def reply_class(out):
    if len(out) == 1 and out[0] == 'The operation succeeded.':
        return ['ok', 0]
    if len(out) == 1 and out[0].startswith('Error: '):
        return ['ok', 1]
    if len(out) == 1 and out[0].startswith('An error has occurred'):
        return ['raise', '*']
    return ['?', out]


def names(e, h=0):
    return [c.name() for c in e['ircs'][h].callbacks]


def impl_step(e, world, op, h=0):
    """run one operation on the real code through Irc object number h; returns the canonical reply"""
    irc, plugin = e['ircs'][h], e['plugin']
    k = op[0]
    if k == 'add':
        try:
            irc.addCallback(mk_syn(e, op[1]))
            return ['ok', 0]
        except Exception as ex:
            return ['raise', exn_class(ex)]
    if k == 'remove':
        irc.removeCallback(op[1])
        return ['ok', 0]
    if k == 'boot':
        try:
            plugin.loadPluginClass(irc, plugin.loadPluginModule(op[1]))
            return ['ok', 0]
        except Exception as ex:
            return ['raise', exn_class(ex)]
    name = op[1]
    sp = spec_of(world, name[:-3] if (k == 'load' and name.endswith('.py')) else name)     # Owner.load strips '.py'
    syn = sp is not None and sp[0] in SYN_PLUGINS
    flags = {'load': lambda: dict(imp=op[2], init=op[3]), 'unload': lambda: dict(die=op[2]),
             'reload': lambda: dict(imp=op[2], init=op[3], die=op[4])}[k]()
    if syn and any(flags.values()):
        set_ctl(e, sp[0], cmds=sp[4], before=sp[2], after=sp[3], **flags)     # inject the failure into the named plugin
    try:
        return reply_class(say(e, k + ' ' + name, h))
    finally:
        if syn and any(flags.values()):
            set_ctl(e, sp[0], cmds=sp[4], before=sp[2], after=sp[3])


def base_ctl(e, world):
    """every synthetic plugin of the history gets its constraints and commands on disk before the first operation
    (whatever name an operation later resolves to, the plugin imported is the one the world describes)"""
    for sp in world:
        if sp[0] in SYN_PLUGINS:
            set_ctl(e, sp[0], cmds=sp[4], before=sp[2], after=sp[3])


def drop_late(e):
    while len(e['ircs']) > 2:
        x = e['ircs'].pop()
        if x in e['world'].ircs:
            e['world'].ircs.remove(x)


def die_log():
    import builtins
    return builtins.__dict__.setdefault('_c20_probe', {'serial': 0, 'dies': []})['dies']


def reset(e):
    drop_late(e)
    del die_log()[:]
    shared = e['irclib']._callbacks
    for x in e['ircs']:
        x.callbacks = shared          # (a mutated tree may have rebound it)
    del shared[:]
    for n in SYN_PLUGINS:
        set_ctl(e, n)


def impl_run(e, inp, upto=None):
    """-> list of (reply, names-after) per operation"""
    reset(e)
    base_ctl(e, inp['world'])
    out = []
    via = inp.get('via') or [0] * len(inp['ops'])
    for op, h in list(zip(inp['ops'], via))[:upto]:
        r = impl_step(e, inp['world'], op, h)
        out.append((r, names(e)))
    return out


# ----------------------------------------------------------------------------------------------------
# the model side
OPC = {'add': 0, 'remove': 1, 'boot': 2, 'load': 3, 'unload': 4, 'reload': 5}


def wire_case(inp, trace):
    ops = []
    for op, (_, hint) in zip(inp['ops'], trace):
        k = op[0]
        if k == 'add':
            a = [op[1], hint]
        elif k == 'remove':
            a = [op[1]]
        elif k == 'boot':
            a = [op[1], hint]
        elif k == 'load':
            a = [op[1], op[2], bool(op[3]), hint]
        elif k == 'unload':
            a = [op[1], bool(op[2])]
        else:
            a = [op[1], op[2], bool(op[3]), bool(op[4]), hint]
        ops.append([OPC[k], a])
    return [0, [inp['world'], ops]]


def dec_trace(out, inp):
    res = []
    for op, o in zip(inp['ops'], out):
        r = wire.r(o[0])
        r = [r[0], r[1]]
        if r[0] == 'raise' and op[0] in ('load', 'unload', 'reload'):
            r[1] = '*'          # the bot only says "An error has occurred"
        elif r[0] == 'raise' and r[1] != 'AssertionError':
            r[1] = 'OtherError'
        res.append((r, wire.ls(o[1])))
    return res


# ----------------------------------------------------------------------------------------------------
# the direct oracle: the property text evaluated on the implementation
def declared(e, cb):
    """(kind, before names, after names) as the object declares them"""
    f = type(cb).__dict__.get('callPrecedence')
    f = getattr(f, '__wrapped__', f)
    if cb.name() == 'Owner' or f is e['owner_cp']:
        return 1, (), ()
    if cb.name() == 'Misc' or f is e['misc_cp']:
        return 2, (), ()
    return 0, tuple(cb.callBefore), tuple(cb.callAfter)


def check_state(e, want):
    """-> failure text or None.  `want`: folded names the history asked to be registered (None = unknown)"""
    cbs = list(e['irc'].callbacks)
    low = [c.name().lower() for c in cbs]
    if len(set(low)) != len(low):
        return 'a plugin is registered more than once: %r' % [c.name() for c in cbs]
    pos = {n: i for i, n in enumerate(low)}
    for i, c in enumerate(cbs):
        kind, before, after = declared(e, c)
        if kind == 1 and i != 0:
            return 'the core dispatcher %s is registered but not first: %r' % (c.name(), [x.name() for x in cbs])
        if kind == 2 and i != len(cbs) - 1:
            return '%s declares itself after every other plugin but is not last: %r' % (c.name(), [x.name() for x in cbs])
        for n in before:
            j = pos.get(n.lower())
            if j is not None and not i < j:
                return '%s declares callBefore %s but the order is %r' % (c.name(), n, [x.name() for x in cbs])
        for n in after:
            j = pos.get(n.lower())
            if j is not None and not j < i:
                return '%s declares callAfter %s but the order is %r' % (c.name(), n, [x.name() for x in cbs])
    if want is not None and sorted(low) != sorted(want):
        return 'registered plugins %r, but the history asked for %r' % (sorted(low), sorted(want))
    return None


def spec_update(want, world, op, reply):
    """the set of (folded) plugin names the history asks for, after `op` answered `reply`"""
    k = op[0]
    ok = reply == ['ok', 0]
    if k == 'add':
        return want | {op[1][0].lower()} if ok else want
    if k == 'remove':
        return want - {op[1].lower()}
    n = op[1].lower()
    if k in ('boot', 'load'):
        sp = spec_of(world, op[1][:-3] if (k == 'load' and op[1].endswith('.py')) else op[1])
        return want | {sp[0].lower()} if (ok and sp is not None) else want
    if k == 'unload':
        return want - {n} if n != 'owner' else want
    return want      # reload never changes the set


DEFAULT_IMPORTANT = ['Admin', 'Channel', 'Config', 'Misc', 'Owner', 'User']


def apply_cfg(e, inp):
    """install the history's defaultPlugins configuration; -> the complete configuration the dispatcher then sees
    (the entries registered by the Owner module itself included), for the model"""
    import supybot.registry as registry
    conf = e['conf']
    dp = conf.supybot.commands.defaultPlugins
    cfg = inp.get('cfg') or {}
    for name in list(e.setdefault('cfg_added', [])):
        try:
            dp.unregister(name)
        except Exception:
            pass
    e['cfg_added'] = []
    for cmd, plug in cfg.get('defaults', []):
        if cmd not in dp._children:
            e['cfg_added'].append(cmd)
        conf.registerGlobalValue(dp, cmd, registry.String(plug, ''))
        dp.get(cmd).set(plug)
    dp.importantPlugins.setValue(set(cfg.get('important', DEFAULT_IMPORTANT)))
    full = [[k, v()] for k, v in sorted(dp._children.items()) if k != 'importantPlugins']
    return [full, sorted(dp.importantPlugins())]


def resolution_queries(inp):
    """canonical token lists to resolve at the end of a live history"""
    qs = []
    for sp in inp['world']:
        if sp[0] not in SYN_PLUGINS:
            continue                  # commands of bundled plugins are real ones (quit, flush, ...): never sent
        p = sp[0].lower()
        for cmd in sp[4]:
            for q in ([cmd], [p, cmd]):
                if q not in qs:
                    qs.append(q)
    return qs


def observe(out):
    """bot reply -> ['call', Plugin, command] | ['ambiguous', sorted names] | ['invalid']"""
    if len(out) == 1 and out[0].startswith('pong-'):
        _, plug, cmd = out[0].split('-', 2)
        return ['call', plug, cmd]
    m = re.match(r'Error: The command "[^"]*" is available in the (.*) plugins\.', out[0]) if len(out) == 1 else None
    if m:
        return ['ambiguous', sorted(x for x in re.split(r', and | and |, ', m.group(1)) if x)]
    return ['invalid']


def check_commands(e, inp, want):
    """direct oracle for the command-set clause + the observations for the model comparison.
    -> (failure text or None, [(query, observation)])"""
    obs = []
    bad = None
    loaded = [sp for sp in inp['world'] if sp[0].lower() in want]
    for q in resolution_queries(inp):
        o = observe(say(e, ' '.join(q)))
        obs.append((q, o))
        if bad:
            continue
        cmd = q[-1]
        if len(q) == 2:
            holders = [sp[0] for sp in loaded if sp[0].lower() == q[0] and cmd in sp[4]]
            # a loaded plugin may also own a command called like the first token: then that command is what is meant
            alt = [sp[0] for sp in loaded if q[0] in sp[4]]
            if holders and o != ['call', holders[0], cmd]:
                bad = 'command %r of loaded plugin %s: bot answered %r' % (' '.join(q), holders[0], o)
            if not holders and o[0] == 'call' and not (o[1] in alt and o[2] == q[0]):
                bad = '%r answered %r although no loaded plugin %s has command %s' % (' '.join(q), o, q[0], cmd)
        else:
            holders = sorted(sp[0] for sp in loaded if cmd in sp[4])
            if not holders and o[0] != 'invalid':
                bad = 'command %r answered %r but no loaded plugin has it' % (cmd, o)
            elif holders and o[0] == 'call' and (o[1] not in holders or o[2] != cmd):
                bad = 'command %r answered by %r; loaded plugins having it: %r' % (cmd, o, holders)
            elif holders and o[0] == 'ambiguous' and (o[1] != holders or len(holders) < 2):
                bad = 'command %r reported ambiguous between %r; loaded plugins having it: %r' % (cmd, o[1], holders)
            elif holders and o[0] == 'invalid':
                bad = 'command %r of loaded plugin(s) %r is not answered' % (cmd, holders)
    return bad, obs


def check_alive(e):
    """what is registered must be working: no registered synthetic plugin instance has been torn down by die(), and no
    instance is torn down twice"""
    for c in e['ircs'][0].callbacks:
        if hasattr(c, '_handle') and c._handle is None:
            return 'plugin %s is registered but its instance has been torn down by die() (it cannot answer any more)' % c.name()
    log = die_log()
    if len(set(log)) != len(log):
        twice = sorted({x for x in log if log.count(x) > 1})
        return 'die() was called more than once on the same instance: %r' % (twice,)
    return None


def networks_agree(e, what):
    """every Irc object of the bot must see the same dispatcher list (it is one shared list object)"""
    ref = names(e, 0)
    for h in range(1, len(e['ircs'])):
        if names(e, h) != ref:
            return '%s: network %s has plugins %r but network %s has %r' % (
                what, e['ircs'][0].network, ref, e['ircs'][h].network, names(e, h))
    return None


def oracle_run(e, inp, late=True):
    """run the history on the implementation (operation i through Irc object via[i]); -> (trace, failure text or None);
    e['last_obs'] = (cfg, observations), e['last_views'] = callback names per Irc object (a late-created one included)"""
    reset(e)
    base_ctl(e, inp['world'])
    e['last_obs'] = e['last_views'] = e['last_dies'] = None
    full_cfg = apply_cfg(e, inp)
    trace, want = [], set()
    live = False
    via = inp.get('via') or [0] * len(inp['ops'])
    for op, h in zip(inp['ops'], via):
        if op[0] in ('load', 'unload', 'reload') and e['ircs'][h].getCallback('Owner') is None:
            break       # no dispatcher to talk to: the rest of the history is meaningless (an earlier check has flagged its loss)
        r = impl_step(e, inp['world'], op, h)
        trace.append((r, names(e, h)))
        live = live or op[0] in ('load', 'unload', 'reload')
        want = spec_update(want, inp['world'], op, r)
        if r[0] == '?':
            return trace, 'unexpected reply to %r: %r' % (op, r[1])
        bad = check_state(e, want) or check_alive(e) or networks_agree(e, 'after %r issued on network %s' % (op, e['ircs'][h].network))
        if bad:
            return trace, ('after %r: %s' % (op, bad)) if not bad.startswith('after') else bad
    if len(trace) == len(inp['ops']):
        e['last_dies'] = [n for n, _ in die_log()]
    if late and len(trace) == len(inp['ops']):
        e['ircs'].append(e['mk_irc']('late'))       # an Irc created after the history (a later `connect`)
        e['last_views'] = [names(e, h) for h in range(len(e['ircs']))]
        bad = networks_agree(e, 'an Irc object created after the history')
        if bad:
            return trace, bad
    if live and 'owner' in want and len(trace) == len(inp['ops']):
        bad, obs = check_commands(e, inp, want)
        e['last_obs'] = (full_cfg, obs)
        if bad:
            return trace, bad
        for h in range(1, len(e['ircs'])):
            for q, o in obs:
                o2 = observe(say(e, ' '.join(q), h))
                if o2 != o:
                    return trace, 'command %r: network %s answers %r, network %s answers %r' % (
                        ' '.join(q), e['ircs'][0].network, o, e['ircs'][h].network, o2)
    return trace, None


# ----------------------------------------------------------------------------------------------------
# classes of known findings (static predicates on the input)
def _added_specs(inp):
    out = []
    for op in inp['ops']:
        if op[0] == 'add':
            out.append(op[1])
        elif op[0] in ('boot', 'load', 'reload'):
            sp = spec_of(inp['world'], op[1])
            if sp is not None:
                out.append(sp)
    return out


def has_self_reference(inp):
    return any(sp[1] == 0 and sp[0].lower() in [x.lower() for x in list(sp[2]) + list(sp[3])] for sp in _added_specs(inp))


def has_cycle(inp):
    """the declared constraints of the plugins the history ever adds contain a cycle of length >= 2"""
    specs = {}
    for sp in _added_specs(inp):
        specs.setdefault(sp[0].lower(), []).append(sp)
    edges = set()
    for n, sps in specs.items():
        for sp in sps:
            if sp[1] == 1:
                edges |= {(n, m) for m in specs if m != n}
            elif sp[1] == 2:
                edges |= {(m, n) for m in specs if m != n}
            else:
                if n in [x.lower() for x in list(sp[2]) + list(sp[3])]:
                    continue        # self-reference: the implementation drops all its constraints
                edges |= {(n, m.lower()) for m in sp[2] if m.lower() in specs and m.lower() != n}
                edges |= {(m.lower(), n) for m in sp[3] if m.lower() in specs and m.lower() != n}
    # cycle detection
    succ = {}
    for a, b in edges:
        succ.setdefault(a, set()).add(b)
    state = {}

    def dfs(v):
        state[v] = 1
        for w in succ.get(v, ()):
            if state.get(w) == 1 or (w not in state and dfs(w)):
                return True
        state[v] = 2
        return False
    return any(v not in state and dfs(v) for v in list(succ))


def has_failing_reload(inp):
    """known finding C20.F21 (the part left): a reload whose import succeeds and whose new constructor raises
    (a raising die() is swallowed by log.firewall since the MetaFirewall fix and is no failure any more)"""
    return any(op[0] == 'reload' and op[2] == 0 and op[3] for op in inp['ops'])


def has_reload_after_failed_import(inp):
    """abstract replay per plugin name of (registered, module popped from sys.modules): true when a `reload` reaches a registered plugin
    whose module an earlier failed import (in load or reload) has popped and no successful import has re-entered since"""
    reg, popped = {}, {}
    for op in inp['ops']:
        if op[0] not in ('boot', 'load', 'unload', 'reload') or spec_of(inp['world'], op[1]) is None:
            continue
        x = op[1].lower()
        if op[0] == 'unload':
            reg[x] = False
        elif op[0] in ('boot', 'load'):
            if reg.get(x):
                continue                      # "already loaded": nothing is imported
            imp, init = (0, 0) if op[0] == 'boot' else (op[2], op[3])
            popped[x] = imp >= 1
            reg[x] = imp == 0 and not init
        else:
            if not reg.get(x):
                continue                      # "There was no plugin": nothing is imported
            if popped.get(x):
                return True
            popped[x] = op[2] >= 1
            if op[2] >= 2 or (op[2] == 0 and (op[3] or op[4])):
                reg[x] = False                # the other reload defect (failing_reload)
    return False


CLASSES = {'failing_reload': has_failing_reload}


# ----------------------------------------------------------------------------------------------------
# generators
NAMES = ['A', 'a', 'B', 'b', 'Cc', 'cC', 'D', 'E', 'F', 'G', 'Owner', 'owner', 'Misc', 'X9']


def gen_syn(rng):
    style = rng.choice(['acyclic', 'acyclic', 'acyclic', 'random', 'random', 'selfref', 'hostile'])
    n = rng.randint(1, 8)
    pool = rng.sample(['A', 'B', 'Cc', 'D', 'E', 'F', 'G', 'H'], n)
    rank = {x: i for i, x in enumerate(rng.sample(pool, len(pool)))}
    owner = rng.random() < 0.5
    misc = rng.random() < 0.4
    ops = []
    order = rng.sample(pool, len(pool))
    if owner:
        order.insert(rng.randrange(len(order) + 1) if rng.random() < 0.3 else 0, 'Owner')
    if misc:
        order.insert(rng.randrange(len(order) + 1), 'Misc')

    def variant(x):
        r = rng.random()
        return x.lower() if r < 0.15 else x.upper() if r < 0.3 else x
    for x in order:
        if x == 'Owner':
            ops.append(['add', ['Owner', 1, [], [], []]])
            continue
        if x == 'Misc':
            ops.append(['add', ['Misc', 2, [], [], []]])
            continue
        before, after = [], []
        for y in pool:
            if y == x:
                continue
            if style == 'acyclic':
                if rng.random() < 0.3:
                    (before if rank[x] < rank[y] else after).append(variant(y))
            elif rng.random() < (0.12 if style == 'random' else 0.3):
                (before if rng.random() < 0.5 else after).append(variant(y))
        if rng.random() < 0.2:
            (before if rng.random() < 0.5 else after).append(rng.choice(['Nope', 'zz', '']))
        if style == 'acyclic' and misc and rng.random() < 0.2:
            before.append('Misc')
        if style == 'acyclic' and owner and rng.random() < 0.2:
            after.append('owner')
        if style in ('selfref', 'hostile') and rng.random() < 0.35:
            (before if rng.random() < 0.5 else after).insert(0, variant(x))
        if style == 'hostile' and rng.random() < 0.3:
            (before if rng.random() < 0.5 else after).append(rng.choice(['Owner', 'Misc']))
        ops.append(['add', [variant(x) if style == 'hostile' else x, 0, before, after, []]])
    # removals and re-adds, duplicates
    for _ in range(rng.choice([0, 0, 1, 2, 3])):
        i = rng.randrange(len(ops) + 1)
        j = rng.random()
        if j < 0.5:
            ops.insert(i, ['remove', variant(rng.choice(pool + ['Owner', 'Nope']))])
        else:
            src = [o for o in ops if o[0] == 'add']
            o = rng.choice(src)
            ops.insert(i, ['add', [variant(o[1][0])] + o[1][1:]])
    return {'world': [], 'ops': ops}


def gen_live(rng, bundled_ok):
    style = rng.choice(['clean', 'clean', 'clean', 'clean', 'failing', 'failing', 'cyclic', 'selfref', 'dotted'])
    k = rng.randint(2, 7)
    pool = rng.sample(SYN_PLUGINS, k)
    rank = {x: i for i, x in enumerate(rng.sample(pool, k))}
    world = [['Owner', 1, [], [], BUNDLED_CMDS.get('Owner', [])], ['Misc', 2, [], [], BUNDLED_CMDS.get('Misc', [])],
             ['Config', 0, [], [], BUNDLED_CMDS.get('Config', [])]]
    extra = [b for b in bundled_ok if b not in ('Owner', 'Misc', 'Config')]
    for b in extra:
        world.append([b, 0] + [list(x) for x in BUNDLED_PREC.get(b, ((), ()))] + [BUNDLED_CMDS.get(b, [])])
    for x in pool:
        before, after = [], []
        for y in pool + extra[:2]:
            if y == x:
                continue
            if y in rank:
                if rng.random() < 0.3:
                    (before if rank[x] < rank[y] else after).append(y)
            elif rng.random() < 0.1:
                before.append(y)
        if rng.random() < 0.15:
            before.append('Misc')
        if rng.random() < 0.15:
            after.append('Owner')
        if rng.random() < 0.15:
            before.append('NoSuchPlugin')
        if style == 'cyclic' and rng.random() < 0.5:
            r = rng.random()
            if r < 0.35:
                before.append('Owner')
            elif r < 0.6:
                after.append('Misc')
            else:
                y = rng.choice(pool)
                if y != x:
                    (after if rank[x] < rank[y] else before).append(y)
        if style == 'selfref' and rng.random() < 0.5:
            (before if rng.random() < 0.5 else after).insert(0, x)
        cmds = ['cmd' + x.lower()]
        if rng.random() < 0.6:
            cmds.append('shared')
        if rng.random() < 0.4:
            cmds.append(x.lower())                         # a command called like its own plugin
        if rng.random() < 0.3:
            cmds.append(rng.choice(pool).lower())          # ... or like another plugin
        if rng.random() < 0.2:
            cmds.append('common')
        world.append([x, 0, before, after, sorted(set(cmds))])
    ops = [['boot', 'Owner']]
    rest = ['Misc', 'Config'] if rng.random() < 0.8 else ['Config']
    rng.shuffle(rest)
    ops += [['boot', x] for x in rest]

    def variant(x):
        r = rng.random()
        x = x.lower() if r < 0.3 else x.upper() if r < 0.4 else x.swapcase() if r < 0.45 else x
        if style == 'dotted' and rng.random() < 0.4 and x:
            i = rng.randrange(len(x))
            x = x[:i] + rng.choice(['.', '.*', '(', '\\w', '+', '?']) + x[i + 1:]   # regular-expression metacharacters (was finding C20.F25)
        return x
    cands = pool + extra + ['Owner', 'Misc', 'Config', 'NoSuchPlugin']
    for _ in range(rng.randint(2, 12)):
        x = variant(rng.choice(pool if rng.random() < 0.75 else cands))
        r = rng.random()
        if r < 0.5 and rng.random() < 0.08:
            x += '.py'                               # Owner.load strips it
        fail = style == 'failing' and rng.random() < 0.4 and x.replace('.py', '').capitalize() in SYN_PLUGINS   # failures are injected into synthetic plugins only
        if r < 0.5:
            imp = rng.choice([1, 2, 0]) if fail else 0
            ops.append(['load', x, imp, int(fail and imp == 0)])
        elif r < 0.75:
            ops.append(['unload', x, int(fail)])
        else:
            imp = rng.choice([1, 1, 2, 3, 0, 0]) if fail else 0      # 3: the old module's reload() hook raises
            init = int(fail and imp == 0 and rng.random() < 0.5)
            die = int(fail and imp == 0 and not init)
            ops.append(['reload', x, imp, init, die])
    cfg = {}
    r = rng.random()
    if r < 0.4:
        cfg['defaults'] = [[c, rng.choice(pool + ['Config', 'NoSuchPlugin', ''])] for c in rng.sample(['shared', 'common'] + [x.lower() for x in pool], 2)]
    if rng.random() < 0.4:
        # the standard important plugins stay (the harness itself relies on `load` resolving to Owner when Karma, which has a
        # `load` command of its own, is loaded)
        cfg['important'] = DEFAULT_IMPORTANT + rng.sample(pool, rng.randint(1, min(2, len(pool))))
    via = [rng.choice([0, 0, 1]) for _ in ops]
    # the model's `files` is the world in os.listdir order (it decides matched_names[0] when a name with '.' matches several)
    # (every synthetic plugin directory exists on disk whether or not this history uses it: all of them are in the world)
    world += [[x, 0, [], [], ['cmd' + x.lower()]] for x in SYN_PLUGINS if x not in pool]
    order = {n: i for i, n in enumerate(os.listdir(env()['pd']) + os.listdir(env()['pd2']))}
    world = [sp for sp in world if sp[0] not in order] + sorted([sp for sp in world if sp[0] in order], key=lambda sp: order[sp[0]])
    return {'world': world, 'ops': ops, 'cfg': cfg, 'via': via}


BUNDLED_CMDS = {}      # name -> flat command names (what isCommandMethod accepts)
BUNDLED_PREC = {}      # name -> (callBefore, callAfter) read from the loaded class


def probe_bundled(e):
    ok = []
    for b in BUNDLED:
        try:
            c = e['plugin'].loadPluginModule(b).Class
            BUNDLED_PREC[b] = (tuple(c.callBefore), tuple(c.callAfter))
            import inspect
            from supybot.callbacks import canonicalName
            BUNDLED_CMDS[b] = sorted(n for n in dir(c) if n == canonicalName(n) and inspect.isfunction(getattr(c, n, None))
                                     and inspect.getargs(getattr(c, n).__code__)[0] == ['self', 'irc', 'msg', 'args'])
            ok.append(b)
        except Exception:
            pass
    return ok


CORPUS = [
    # was C20.F26: the module-level reload() hook of the old module raising lost the plugin (called after removeCallback, outside the try)
    {'world': [['Owner', 1, [], [], []], ['Alpha', 0, [], [], ['cmdalpha']]],
     'ops': [['boot', 'Owner'], ['load', 'Alpha.py', 0, 0], ['reload', 'Alpha', 3, 0, 0], ['reload', 'alpha', 0, 0, 0], ['reload', 'Alpha.py', 0, 0, 0]]},
    # a reload whose import fails must put the old instance back UNTOUCHED (a seeded change calling die() before the import was only
    # weakly caught: the plugins held nothing that die() released, and nobody looked whether what is registered still works)
    {'world': [['Owner', 1, [], [], []], ['Alpha', 0, [], [], ['cmdalpha']], ['Beta', 0, [], [], ['cmdbeta']]],
     'ops': [['boot', 'Owner'], ['load', 'Alpha', 0, 0], ['load', 'Beta', 0, 0], ['reload', 'Alpha', 1, 0, 0], ['reload', 'Alpha', 2, 0, 0],
             ['reload', 'Alpha', 0, 0, 0], ['reload', 'beta', 0, 0, 1], ['unload', 'Beta', 1]]},
    # was C20.F25: names with regular-expression metacharacters matched other plugins (`load Alph.` registered Alpha, `load .*` the first
    # directory entry, `load (` died with re.error); fixed: re.escape -> "No plugin named ..."
    {'world': [['Owner', 1, [], [], []], ['Alpha', 0, [], [], ['cmdalpha']], ['Beta', 0, [], [], ['cmdbeta']]],
     'ops': [['boot', 'Owner'], ['load', 'Alph.', 0, 0]]},
    {'world': [['Owner', 1, [], [], []], ['Alpha', 0, [], [], ['cmdalpha']], ['Beta', 0, [], [], ['cmdbeta']]],
     'ops': [['boot', 'Owner'], ['load', '.*', 0, 0]]},
    {'world': [['Owner', 1, [], [], []], ['Alpha', 0, [], [], ['cmdalpha']], ['Beta', 0, [], [], ['cmdbeta']]],
     'ops': [['boot', 'Owner'], ['load', '(', 0, 0], ['load', 'b.ta', 0, 0], ['reload', 'Alph.', 0, 0, 0], ['load', '\\w+', 0, 0],
             ['load', 'Alpha', 0, 0], ['load', 'Alph.', 0, 0], ['reload', 'A.*', 0, 0, 0]]},
    # was C20.F23: self-reference dropped every constraint of S silently (fixed: rejected)
    {'world': [], 'ops': [['add', ['A0', 0, [], [], []]], ['add', ['A1', 0, [], [], []]], ['add', ['S', 0, ['S', 'A0', 'A1'], [], []]]]},
    # was C20.F22 (direct addCallback): cycle rejected but left appended (fixed: list unchanged)
    {'world': [], 'ops': [['add', ['A', 0, [], [], []]], ['add', ['B', 0, ['A'], ['A'], []]], ['add', ['C', 0, ['B'], [], []]]]},
    {'world': [], 'ops': [['add', ['A', 0, [], [], []]], ['add', ['a', 0, [], [], []]], ['remove', 'A'], ['add', ['a', 0, [], [], []]]]},
    {'world': [], 'ops': [['add', ['Owner', 1, [], [], []]], ['add', ['Misc', 2, [], [], []]], ['add', ['A', 0, ['misc'], ['OWNER'], []]],
                          ['add', ['B', 0, ['A'], [], []]], ['add', ['C', 0, [], ['B'], []]], ['remove', 'a']]},
    {'world': [], 'ops': [['add', ['A', 0, [], [], []]], ['add', ['Owner', 1, [], [], []]], ['add', ['O2', 1, [], [], []]]]},
    {'world': [['Owner', 1, [], [], []], ['Misc', 2, [], [], []], ['Config', 0, [], [], []], ['Alpha', 0, [], [], ['cmdalpha']],
               ['Beta', 0, ['Alpha'], [], ['cmdbeta']]],
     'ops': [['boot', 'Owner'], ['boot', 'Misc'], ['boot', 'Config'], ['load', 'Alpha', 0, 0], ['load', 'beta', 0, 0], ['load', 'ALPHA', 0, 0],
             ['unload', 'owner', 0], ['reload', 'OWNER', 0, 0, 0], ['reload', 'Alpha', 1, 0, 0], ['unload', 'Alpha', 1], ['load', 'Alpha', 2, 0],
             ['load', 'Alpha', 0, 1], ['load', 'Alpha', 1, 0], ['load', 'Alpha', 0, 0], ['reload', 'beta', 0, 0, 0], ['unload', 'Nope', 0]]},
    # was C20.F21 (import part): reload when the module raises something other than ImportError (fixed: plugin kept)
    {'world': [['Owner', 1, [], [], []], ['Alpha', 0, [], [], ['cmdalpha']]],
     'ops': [['boot', 'Owner'], ['load', 'Alpha', 0, 0], ['reload', 'Alpha', 2, 0, 0], ['reload', 'Alpha', 0, 0, 0]]},
    # reload with a raising constructor loses the plugin (known finding C20.F21)
    {'world': [['Owner', 1, [], [], []], ['Alpha', 0, [], [], ['cmdalpha']]],
     'ops': [['boot', 'Owner'], ['load', 'Alpha', 0, 0], ['reload', 'Alpha', 0, 1, 0]]},
    # was C20.F24: reload after a reload that failed with ImportError raised KeyError and lost the plugin (fixed)
    {'world': [['Owner', 1, [], [], []], ['Gamma', 0, [], [], ['cmdgamma']]],
     'ops': [['boot', 'Owner'], ['load', 'Gamma', 0, 0], ['reload', 'Gamma', 1, 0, 0], ['reload', 'gamma', 0, 0, 0]]},
    # prefix families and case variants: the name lookup of loadPluginModule must be a FULL case-insensitive match
    # (a seeded change turning re.search('(?i)^%s$') into re.match(name, x, re.I) was missed: no prefix-related names in the world)
    {'world': [['Owner', 1, [], [], []], ['Misc', 2, [], [], []], ['Al', 0, [], [], ['cmdal']], ['Alpha', 0, [], [], ['cmdalpha']],
               ['Qa', 0, [], [], ['cmdqa']], ['Qabx', 0, [], [], ['cmdqabx']], ['Ga', 0, [], [], ['cmdga']], ['Gamma', 0, [], [], ['cmdgamma']],
               ['Ze', 0, [], [], ['cmdze']], ['Zeta', 0, [], [], ['cmdzeta']]],
     'ops': [['boot', 'Owner'], ['boot', 'Misc'], ['load', 'alpha', 0, 0], ['load', 'QABX', 0, 0], ['load', 'al', 0, 0], ['load', 'qa', 0, 0],
             ['reload', 'al', 0, 0, 0], ['reload', 'QA', 0, 0, 0], ['unload', 'aL', 0], ['load', 'ga', 0, 0], ['load', 'ze', 0, 0],
             ['reload', 'ze', 0, 0, 0], ['load', 'gamma', 0, 0], ['reload', 'ga', 1, 0, 0], ['load', 'AL', 0, 0]]},
    {'world': [['Owner', 1, [], [], []], ['Plugin', 0, [], [], []]],
     'ops': [['boot', 'Owner'], ['load', 'plugin', 0, 0], ['reload', 'PLUGIN', 0, 0, 0]]},
    # two networks: unload/reload/load issued on one network must be seen by the other and by an Irc created later
    # (a seeded change rebinding self.callbacks in Irc.removeCallback was missed by a one-Irc harness)
    {'world': [['Owner', 1, [], [], []], ['Misc', 2, [], [], []], ['Alpha', 0, [], [], ['cmdalpha']], ['Beta', 0, [], [], ['cmdbeta']],
               ['Gamma', 0, [], [], ['cmdgamma']]],
     'ops': [['boot', 'Owner'], ['boot', 'Misc'], ['load', 'Alpha', 0, 0], ['load', 'Beta', 0, 0], ['unload', 'Alpha', 0],
             ['reload', 'Beta', 0, 0, 0], ['load', 'Gamma', 0, 0], ['unload', 'Beta', 0]],
     'via': [0, 0, 0, 1, 0, 1, 0, 1]},
    # command resolution: own-name rule, default plugin, important plugin, ambiguity, qualified form, unloaded plugin
    {'world': [['Owner', 1, [], [], []], ['Misc', 2, [], [], []],
               ['Alpha', 0, [], [], ['alpha', 'cmdalpha', 'common', 'shared']], ['Beta', 0, [], [], ['alpha', 'cmdbeta', 'common', 'shared']],
               ['Gamma', 0, [], [], ['cmdgamma', 'shared', 'third']], ['Delta', 0, [], [], ['cmddelta', 'third', 'zeta']],
               ['Zeta', 0, [], [], ['cmdzeta', 'third']]],
     'ops': [['boot', 'Owner'], ['boot', 'Misc'], ['load', 'Alpha', 0, 0], ['load', 'Beta', 0, 0], ['load', 'Gamma', 0, 0],
             ['load', 'Delta', 0, 0], ['load', 'Zeta', 0, 0], ['unload', 'zeta', 0]],
     'cfg': {'defaults': [['shared', 'Gamma'], ['common', 'NoSuchPlugin']], 'important': DEFAULT_IMPORTANT + ['Delta']}},
    {'world': [['Owner', 1, [], [], []], ['Misc', 2, [], [], []],
               ['Alpha', 0, [], [], ['cmdalpha', 'shared']], ['Beta', 0, [], [], ['cmdbeta', 'shared']]],
     'ops': [['boot', 'Owner'], ['boot', 'Misc'], ['load', 'Alpha', 0, 0], ['load', 'Beta', 0, 0], ['reload', 'Alpha', 2, 0, 0]],
     'cfg': {'defaults': [['shared', 'Alpha']]}},
    # was C20.F22: cyclic load reported an error but the plugin stayed registered behind Misc (fixed)
    {'world': [['Owner', 1, [], [], []], ['Misc', 2, [], [], []], ['Alpha', 0, ['Owner'], [], ['cmdalpha']]],
     'ops': [['boot', 'Owner'], ['boot', 'Misc'], ['load', 'Alpha', 0, 0]]},
]


# ----------------------------------------------------------------------------------------------------
def run(ctx):
    e = env()
    rng = ctx.rng
    bundled_ok = probe_bundled(e)
    ctx.notes.append('bundled plugins used: %s' % ' '.join(bundled_ok))
    cases = [(c, 'corpus') for c in CORPUS]
    for _ in range(ctx.n(1000)):
        cases.append((gen_syn(rng), 'syn'))
    for _ in range(ctx.n(220)):
        cases.append((gen_live(rng, bundled_ok), 'live'))
    traces, fails, observed, views, dies = [], [], [], [], []
    for i, (inp, kind) in enumerate(cases):
        # an Irc object created after the history: always for live histories, for every third synthetic one (cost)
        tr, bad = oracle_run(e, inp, late=(kind != 'syn' or i % 3 == 0))
        observed.append(e['last_obs'])
        views.append(e['last_views'])
        dies.append(e['last_dies'])
        sub = kind
        if kind != 'corpus':
            sub += ('-selfref' if has_self_reference(inp) else '-cyclic' if has_cycle(inp) else
                    '-failing-reload' if (has_failing_reload(inp) or has_reload_after_failed_import(inp)) else '-clean')
        ctx.case(sub, inp, nontrivial=len(inp['ops']) >= 2)
        traces.append(tr)
        if bad:
            ctx.fail(inp, bad)
    outs = ctx.model([wire_case(inp, tr) for (inp, _), tr in zip(cases, traces)])
    for (inp, kind), tr, o in zip(cases, traces, outs):
        if o is None:
            continue
        mt = dec_trace(o, inp)
        it = [([r[0], r[1]], n) for r, n in tr]
        if mt != it:
            i = next((i for i, (a, b) in enumerate(zip(mt, it)) if a != b), min(len(mt), len(it)))
            ctx.disagree(inp, mt[i:i + 1], it[i:i + 1], 'operation #%d %r' % (i, inp['ops'][i] if i < len(inp['ops']) else None))
    # command resolution in the final state of every live history: model vs bot
    rq = [(inp, tr, ob) for (inp, _), tr, ob in zip(cases, traces, observed) if ob]
    outs = ctx.model([[1, wire_case(inp, tr)[1] + [ob[0], [q for q, _ in ob[1]]]] for inp, tr, ob in rq])
    for (inp, tr, ob), o in zip(rq, outs):
        if o is None:
            continue
        for (q, seen), m in zip(ob[1], o):
            mo = (['invalid'] if m[0] == 0 else ['ambiguous', sorted(wire.ls(m[1]))] if m[0] == 1
                  else ['call', wire.s(m[1]), q[m[2] - 1]])
            if mo != seen:
                ctx.disagree(inp, mo, seen, 'resolution of %r in the final state' % ' '.join(q))
                break
    # what every Irc object (two networks + one created afterwards) sees at the end: model vs bot
    vq = [(inp, tr, vw) for (inp, _), tr, vw in zip(cases, traces, views) if vw]
    outs = ctx.model([[2, wire_case(inp, tr)[1] + [(inp.get('via') or [0] * len(inp['ops'])), len(vw) - 2]] for inp, tr, vw in vq])
    for (inp, tr, vw), o in zip(vq, outs):
        if o is not None and [wire.ls(x) for x in o] != vw:
            ctx.disagree(inp, [wire.ls(x) for x in o], vw, 'callback lists seen by the Irc objects at the end of the history')
    # the die() log of the synthetic plugins over the whole history: model vs bot
    dq = [(inp, tr, dl) for (inp, kind), tr, dl in zip(cases, traces, dies) if dl is not None and inp['world']]
    outs = ctx.model([[3, wire_case(inp, tr)[1]] for inp, tr, dl in dq])
    for (inp, tr, dl), o in zip(dq, outs):
        if o is None:
            continue
        md = [n for n in (wire.s(x) for x in o) if n in SYN_PLUGINS]
        if md != dl:
            ctx.disagree(inp, md, dl, 'sequence of die() calls on the synthetic plugins')
    apply_cfg(e, {})
    reset(e)


def replay(ctx, inp):
    e = env()
    probe_bundled(e)
    _, bad = oracle_run(e, inp)
    reset(e)
    return bad


def shrink(ctx, inp):
    def fails(ops):
        return replay(ctx, dict(inp, ops=[o for o, _ in ops], via=[h for _, h in ops])) is not None
    pairs = list(zip(inp['ops'], inp.get('via') or [0] * len(inp['ops'])))
    pairs = shrink_seq(pairs, fails, budget=150)
    return dict(inp, ops=[o for o, _ in pairs], via=[h for _, h in pairs])
