"""C08 — connection registration (CAP/SASL) obeys the protocol for any server behaviour.
Also hosts the shared driver for C09 (same state machine, other oracle)."""
import base64, itertools
import boot
from lib import wire

TABLES = ['T08']
RULE = ('server message sequences over a 40-letter alphabet (CAP LS/ACK/NAK/NEW/DEL single and multi-line, with values, sasl with and '
        'without mechanism lists, sts policies; AUTHENTICATE +, 400-byte chunk, garbage; 903-908; 375/376/422; 433; PING; ERROR; '
        'driver reset): exhaustive up to length 2 (quick) / 3 (thorough) plus random sequences up to length 14, under 7 SASL '
        'configurations x secure/insecure transport.  The real irclib.Irc (stub driver whose reconnect() resets the Irc object as '
        'SocketDriver does) is fed message by message; EVERY real step is replayed as one model step from a snapshot of the real state '
        'and state/outputs/swallowed-exception diffed; the trace predicates of the property are evaluated on the real trace; "requested only what '
        'the server advertises" is judged against the server-side set (LS/NEW add, DEL withdraws; diffed against the model upd), with directed '
        'advertise / NAK-or-withhold / DEL / NEW-or-LS sequences; "credentials only after ACK sasl" and "CAP END only when nothing is outstanding" '
        'are judged against the server\'s own books (requested = the CAP REQ lines seen, ACKed/NAKed = its own messages; diffed against the model '
        'upd_ack), never the bot\'s sets; the three capability sets must be distinct objects after every step; sequences and games on second / '
        'third connections (after resets); every message goes through the REAL Irc.feedMsg (tagging, nick/server bookkeeping, dispatch, '
        'IrcState.addMsg; no plugin callbacks), numerics that rename the bot to another nick or to one of its alternates included; the fast queue is part of every compared state, TAKE events drain it through the real takeMsg, '
        'and batches of several server lines followed by ERROR / driver reset check that nothing queued before a reset is handed to the driver '
        'after it and that the first line of a connection is CAP LS. '
        'Liveness: lock-step games of the real Irc against the conformant-server strategy of coq/C08/Model.v (python mirror, diffed against the '
        'extracted strategy on every history) for every configuration (incl. PLAIN responses of 396/400/404/796/800/804 base64 characters) x '
        'fixed and random servers/choices, with 0-3 nick rejections (432/433/437) placed before the CAP LS reply, between LS and ACK, during the '
        'SASL exchange, after 903 / CAP END (strategyN): CONNECTED or connection dropped within 2*|mechanisms|+3+rejections rounds; the nick '
        'generator state (alternates left, configured nick proposed) is part of every compared step; '
        'authenticate_generator vs the model auth_gen on every length 0..1300 and through base64 for 0..975 raw bytes. '
        'non-trivial = distinct (config, state, message) step')
TRUSTED = ['base64 validity of AUTHENTICATE payloads and the credential chunk lists are inputs computed with the real code',
           'ecdsa signing is an opaque oracle (key unreadable in the explored configurations); scram is unavailable (pyxmpp2_scram missing) and filtered by resetSasl',
           'NICK/USER/PASS/MODE arguments are not compared (nick selection is random in _getNextNick)',
           'ghost fields (sasl acknowledged on this connection, CAP END count) exist only in the model']
ASSUMPTIONS = ['Irc.feedMsg firewall swallows handler exceptions (log.testing off); stub driver: reconnect() = irc.reset() synchronously']
EXPLANATION = 'C08: CAP/SASL registration state machine; theorems in coq/C08/Props.v'
LEVEL_TEXT = ('Coq theorems over an executable Gallina model of the CAP/SASL registration handlers of irclib.Irc driven by the IrcStateFsm table '
              'regenerated from the source, for every sequence of server messages, every configuration and every oracle outcome: requested '
              'capabilities were advertised and wanted, also against the server-side advertised set under any LS/NEW/DEL interleaving; echo-message is only requested with labeled-response; credentials are only sent after '
              'sasl was acknowledged and in answer to an AUTHENTICATE; CAP END at most once per connection and never during an '
              'authentication; CAP END is never sent with a request outstanding (every sequence, CAP NEW/DEL included: C08.F7 fixed); the final '
              'line of a CAP LS during the negotiation is always answered by CAP REQ, CAP END or a deliberate abort unless a request is '
              'outstanding (C08.F24 fixed); the chunking contract of authenticate_generator for every string; liveness against every conformant '
              'server strategy within 2*|mechanisms|+3 rounds for every configuration with PLAIN/EXTERNAL mechanisms, sasl.required or not (C08.F25 fixed), '
              'and within 3 rounds for configurations that do not want sasl (ECDSA challenge round / SCRAM: not proved, exercised by the harness); the same '
              'against servers that reject the nick any number K of times at any round (+K rounds; C08.F26 fixed); a reset yields the initial state, but not after an STS reconnect inside a CAP LS line (finding F23). '
              'Tie: FSM table/expect lists/requested set and the shapes of the repaired guards regenerated by AST; per-step refinement check of the real Irc object.')
LEVEL_NOTE = ('Trusted: Coq kernel, gen_tables.py, extraction + driver, harness; stub driver semantics (reset on reconnect); base64/credential '
              'chunks as inputs; liveness against a conformant server is stated for the model server strategy only (see DESIGN). '
              'Modelled, not verified / not modelled (gap audit): every step runs through the real Irc.feedMsg; of its pre-processing the model has the '
              'nick bookkeeping (_nickSetters overwrite irc.nick before the handler: Model.nick_setter; table NICK_SETTERS), under the assumptions that '
              'the configured alternates are distinct, that a random nick variant is new, and that a numeric in _nickSetters carries at least one '
              'argument (without one feedMsg raises IndexError before the handler; never fed); irc.server, message tags, IrcState.addMsg (004/005 -> '
              'supported umodes filter of do376) and plugin callbacks (postTransition, inFilter, the callbacks themselves; none loaded) are not modelled; '
              'ECDSA with a readable key (signature = opaque oracle; probed by hand: the challenge round and the wrong-size-challenge abort behave as '
              'modelled) and SCRAM (module absent) are outside the liveness theorem; zombie/die() during registration and requireStarttls are never '
              'configured; one Irc object per rig except the two configurations that first set up a second network with SASL credentials; takeMsg\'s '
              'labels / outFilter / throttling of the normal queue are not modelled (only the fast queue is).')
TECHNIQUE = 'Coq proof (invariants over fold of step; per-step output lemmas) + regenerated FSM table + per-step refinement check'

CHUNK = 'A' * 400


def _mods():
    boot.boot()
    import supybot.irclib as irclib, supybot.conf as conf, supybot.ircmsgs as ircmsgs, supybot.ircutils as ircutils
    import supybot.ircdb as ircdb, supybot.drivers as drivers
    return irclib, conf, ircmsgs, ircutils, ircdb, drivers


def transport(secure):
    """secure: bool (TLS with validation / cleartext) or a triple (ssl, any certificate validation configured, forced verification)"""
    if isinstance(secure, (list, tuple)):
        return tuple(bool(x) for x in secure)
    return (bool(secure), bool(secure), False)


def is_secure(secure):
    """the property's notion: the policy arrived over a verified TLS connection"""
    ssl, anyval, force = transport(secure)
    return force or (ssl and anyval)


def line_of(msg):
    """a queued / taken IrcMsg in the normalised form of the output log"""
    return [0, msg.command, list(msg.args) if msg.command in ('CAP', 'AUTHENTICATE', 'PONG') else []]


class StubDriver:
    def __init__(self, irc, log, secure, drivers):
        self.irc, self.log = irc, log
        self.ssl, self._anyval, force = transport(secure)
        self.currentServer = drivers.Server('irc.example.org', 6667, 3, force)

    def anyCertValidationEnabled(self):
        return self._anyval

    def reconnect(self, wait=False, reset=True, server=None):
        srv = None
        if server is not None:
            srv = [server.hostname, server.port, server.attempt, bool(server.force_tls_verification)]
        self.log.append([1, wire.opt(srv), bool(wait)])
        if reset:
            self.irc.reset()

    def die(self):
        self.log.append([2])


CONFIGS = [
    {'name': 'nosasl', 'user': '', 'pw': '', 'mechs': ['plain'], 'required': False},
    {'name': 'plain', 'user': 'jilles', 'pw': 'sesame', 'mechs': ['plain'], 'required': False},
    {'name': 'plain-required', 'user': 'jilles', 'pw': 'sesame', 'mechs': ['plain'], 'required': True},
    {'name': 'ecdsa+plain', 'user': 'jilles', 'pw': 'sesame', 'mechs': ['ecdsa-nist256p-challenge', 'plain'], 'required': False,
     'ecdsa': '/nonexistent/key.pem'},
    {'name': 'external+plain', 'user': 'jilles', 'pw': 'sesame', 'mechs': ['external', 'plain'], 'required': False, 'cert': 'c.pem'},
    {'name': 'external-required', 'user': '', 'pw': '', 'mechs': ['external'], 'required': True, 'cert': 'c.pem'},
    {'name': 'longpw', 'user': 'u' * 200, 'pw': 'p' * 200, 'mechs': ['plain'], 'required': False},
] + [
    # PLAIN responses of exactly / just around a whole number of 400-character chunks (raw 2*10+2+len(pw) bytes)
    {'name': 'b64-%d' % (4 * ((22 + n + 2) // 3)), 'user': 'u' * 10, 'pw': 'p' * n, 'mechs': ['plain'], 'required': False}
    for n in (275, 276, 278, 279, 575, 576, 578, 579)
] + [
    # a server password and user modes (PASS between CAP LS and NICK, MODE after the MOTD)
    {'name': 'password+umodes', 'user': 'jilles', 'pw': 'sesame', 'mechs': ['plain'], 'required': False, 'password': 'hunter2', 'umodes': '+iw'},
    # ANOTHER network with SASL credentials was set up first in the same process: this one has none and must not request sasl
    # (fixed C08.F27: resetSasl used to add 'sasl' to the class attribute REQUEST_CAPABILITIES shared by all networks)
    {'name': 'nosasl-next-to-a-sasl-network', 'user': '', 'pw': '', 'mechs': ['plain'], 'required': False, 'other_network_has_sasl': True},
    {'name': 'required-nosasl-next-to-a-sasl-network', 'user': '', 'pw': '', 'mechs': ['plain'], 'required': True, 'other_network_has_sasl': True},
    # the same network after its SASL credentials were removed and the driver reconnected (it negotiated with credentials before)
    {'name': 'nosasl-after-credentials-were-removed', 'user': '', 'pw': '', 'mechs': ['plain'], 'required': False, 'had_credentials_before': True},
]


class Rig:
    """one real Irc object + stub driver + output log"""

    def __init__(self, mods, cfg, secure):
        irclib, conf, ircmsgs, ircutils, ircdb, drivers = mods
        self.mods, self.cfg, self.secure = mods, cfg, is_secure(secure)
        net = conf.supybot.networks.get('test')
        net.sasl.username.setValue(cfg['user'])
        net.sasl.password.setValue(cfg['pw'])
        net.sasl.mechanisms.setValue(cfg['mechs'])
        net.sasl.required.setValue(cfg['required'])
        net.sasl.ecdsa_key.setValue(cfg.get('ecdsa', ''))
        net.certfile.setValue(cfg.get('cert', ''))
        # REQUEST_CAPABILITIES is a class attribute that only ever grows: start each rig from the pristine set
        irclib.Irc.REQUEST_CAPABILITIES = set(x for x in irclib.Irc.REQUEST_CAPABILITIES if x != 'sasl')
        net.password.setValue(cfg.get('password', ''))
        net.umodes.setValue(cfg.get('umodes', ''))
        if cfg.get('other_network_has_sasl'):
            import supybot.world as world
            try:
                other = conf.supybot.networks.get('netb')
            except Exception:
                other = conf.registerNetwork('netb')
            other.sasl.username.setValue('someone'); other.sasl.password.setValue('else'); other.sasl.mechanisms.setValue(['plain'])
            o = irclib.Irc('netb', callbacks=[])
            if o in world.ircs:
                world.ircs.remove(o)
            # ... and that network NEGOTIATES first: the end of a CAP LS and a CAP NEW (where the wanted set is computed)
            o.driver = StubDriver(o, [], secure, drivers)
            for a in (('*', 'LS', 'sasl batch'), ('*', 'ACK', 'batch sasl'), ('*', 'NEW', 'away-notify')):
                m = ircmsgs.IrcMsg(prefix='irc.example.org', command='CAP', args=a)
                try:
                    o.dispatchCommand(m.command, m.args)(m)
                except Exception:
                    pass
        self.class_caps = set(irclib.Irc.REQUEST_CAPABILITIES)      # must be the same when the rig is closed
        self.log = []
        if cfg.get('had_credentials_before'):
            net.sasl.username.setValue('someone'); net.sasl.password.setValue('else')
        irc = irclib.Irc('test', callbacks=[])
        self.irc = irc
        irc.driver = StubDriver(irc, self.log, secure, drivers)
        if cfg.get('had_credentials_before'):
            for a in (('*', 'LS', 'sasl batch'), ('*', 'NEW', 'away-notify')):
                m = ircmsgs.IrcMsg(prefix='irc.example.org', command='CAP', args=a)
                try:
                    irc.dispatchCommand(m.command, m.args)(m)
                except Exception:
                    pass
            net.sasl.username.setValue(cfg['user']); net.sasl.password.setValue(cfg['pw'])
        orig = irc.sendMsg

        def sendMsg(msg):
            if msg.command in ('CAP', 'AUTHENTICATE', 'PONG'):
                self.log.append([0, msg.command, list(msg.args)])
            else:
                self.log.append([0, msg.command, []])
            return orig(msg)
        irc.sendMsg = sendMsg
        self.stored = []
        self._saved_add = ircdb.IrcNetwork.addStsPolicy
        log = self.log
        ircdb.IrcNetwork.addStsPolicy = lambda netself, host, policy: log.append([3, host, policy])
        irc.reset()
        self.init_out = list(self.log)
        del self.log[:]
        self.base_nick = net.nick() or conf.supybot.nick()
        authstring = b'\0'.join([cfg['user'].encode(), cfg['user'].encode(), cfg['pw'].encode()])
        self.cred_chunks = list(ircutils.authenticate_generator(authstring))
        # the model gets the base64 strings and does the chunking itself (auth_gen)
        wanted = irc._wantedCapabilities() if hasattr(irc, '_wantedCapabilities') else irc.REQUEST_CAPABILITIES
        self.wcfg = [sorted(wanted), cfg['required'], list(irc.sasl_next_mechanisms),
                     base64.b64encode(authstring).decode(), base64.b64encode(cfg['user'].encode()).decode(), [],
                     bool(cfg.get('password')), bool(cfg.get('umodes')), self.secure, 'irc.example.org', 3, len(conf.supybot.nick.alternates())]

    def close(self):
        irclib, conf, ircmsgs, ircutils, ircdb, drivers = self.mods
        self.class_caps_after = set(irclib.Irc.REQUEST_CAPABILITIES)
        ircdb.IrcNetwork.addStsPolicy = self._saved_add
        import supybot.world as world
        if self.irc in world.ircs:
            world.ircs.remove(self.irc)

    def snapshot(self):
        irc = self.irc
        st = irc.state
        d = irc.authenticate_decoder
        dec = [] if not d else [[[c.decode('latin1') for c in d.chunks], bool(d.ready)]]
        return [st.fsm.state.value, [[k, wire.opt(v)] for k, v in st.capabilities_ls.items()],
                sorted(st.capabilities_req), sorted(st.capabilities_ack), sorted(st.capabilities_nak),
                list(irc.sasl_next_mechanisms), wire.opt(irc.sasl_current_mechanism), bool(irc.sasl_authenticated),
                dec, bool(irc.afterConnect), bool(irc.zombie),
                # the nick generator: alternates left; the configured nick itself has already been proposed
                len(irc.alternateNicks), self.base_nick in irc.triedNicks,
                # irc.fastqueue: the lines queued for the driver and not taken yet
                [line_of(x) for x in irc.fastqueue],
                # feedMsg's bookkeeping: irc.nick is no longer the configured nick; it is the k-th of the alternates that are left
                irc.nick != self.base_nick, wire.opt(None if irc.afterConnect else self.alt_index(irc.nick))]

    def alt_index(self, nick):
        """position of nick among the alternates that are left, expanded as _getNextNick expands them"""
        left = [(a % self.base_nick) if '%s' in a else a for a in self.irc.alternateNicks]
        return left.index(nick) if nick in left else None

    def feed(self, m):
        """m: wire-form message; returns (outputs, swallowed exception name or None)"""
        irclib, conf, ircmsgs, ircutils, ircdb, drivers = self.mods
        irc = self.irc
        del self.log[:]
        if m[0] == 5:
            irc.reset()
            return list(self.log), None
        cmd = {0: 'CAP', 1: 'AUTHENTICATE', 3: 'ERROR', 4: 'PING'}.get(m[0]) or ('%03d' % m[1])
        args = m[2] if m[0] == 2 else m[1]
        msg = ircmsgs.IrcMsg(prefix='irc.example.org', command=cmd, args=tuple(args))
        # the REAL Irc.feedMsg: tagging, nick/server bookkeeping, dispatch, IrcState.addMsg, (no) callbacks; its firewall swallows the
        # handler's exception, so the dispatcher is wrapped to see which one it was
        box = {}
        orig = irc.dispatchCommand

        def dispatch(command, args=None):
            method = orig(command, args)
            if method is None:
                return None

            def handler(m):
                try:
                    return method(m)
                except Exception as e:
                    box['exc'] = type(e).__name__
                    raise
            return handler
        irc.dispatchCommand = dispatch
        try:
            irc.feedMsg(msg)
        finally:
            del irc.dispatchCommand
        return list(self.log), box.get('exc')


def b64_bits(snapshot_dec, args):
    """the two oracle bits of an AUTHENTICATE step: does b64decode of the joined chunks succeed, is it empty"""
    chunks = list(snapshot_dec[0][0]) if snapshot_dec else []
    if args and args[0] != '+':
        chunks.append(args[0])
    try:
        raw = base64.b64decode(''.join(chunks).encode('latin1'))
        return True, raw == b''
    except Exception:
        return False, False


def canon_state(s):
    return [s[0], s[1], sorted(s[2]), sorted(s[3]), sorted(s[4]), s[5], s[6], s[7], s[8], s[9], s[10], s[11], bool(s[12]), s[13], bool(s[14]), s[15]]


def dec_state(v):
    return [v[0], [[wire.s(e[0]), wire.opt(wire.o(e[1], wire.s))] for e in v[1]], sorted(wire.ls(v[2])), sorted(wire.ls(v[3])),
            sorted(wire.ls(v[4])), wire.ls(v[5]), wire.opt(wire.o(v[6], wire.s)), bool(v[7]),
            [[wire.ls(d[0]), bool(d[1])] for d in v[8]], bool(v[9]), bool(v[10]), v[11], bool(v[12]), dec_out(v[13]), bool(v[14]), wire.opt(wire.o(v[15]))]


def dec_out(v):
    out = []
    for o in v:
        if o[0] == 0:
            out.append([0, wire.s(o[1]), wire.ls(o[2])])
        elif o[0] == 1:
            out.append([1, [[wire.s(x[0]), x[1], x[2], bool(x[3])] for x in ([o[1]] if o[1] else [])], bool(o[2])])
        elif o[0] == 2:
            out.append([2])
        else:
            out.append([3, wire.s(o[1]), wire.s(o[2])])
    return out


EXN_BY_CODE = wire.EXN

LS_BODIES = ['sasl', 'sasl=PLAIN,EXTERNAL', 'sasl=EXTERNAL', 'multi-prefix sasl batch', 'echo-message', 'echo-message labeled-response batch',
             'batch foo', '', 'sts=port=6697,duration=300', 'sts=port=x', 'sts', 'sasl sts=port=6697 away-notify', '=~batch ~=sasl=plain',
             'sts=duration=1,port=+66_97 batch']
ALPHABET = ([[0, ['*', 'LS', b]] for b in LS_BODIES] +
            [[0, ['*', 'LS', '*', 'away-notify chghost']], [0, ['*', 'ls', 'x', 'batch']],
             [0, ['*', 'ACK', 'sasl']], [0, ['*', 'ACK', 'batch multi-prefix']], [0, ['*', 'NAK', 'sasl']], [0, ['*', 'NAK', 'batch']],
             [0, ['*', 'ACK', '']], [0, ['*', 'ACK']], [0, ['*', 'NEW', 'batch']], [0, ['*', 'NEW', 'sasl=PLAIN echo-message']],
             [0, ['*', 'DEL', 'sasl']], [0, ['*', 'DEL', 'batch=x']], [0, ['*', 'LIST', 'x']], [0, ['*']],
             [0, ['*', 'LS', 'labeled-response']], [0, ['*', 'DEL', 'labeled-response']], [0, ['*', 'NEW', 'echo-message']],
             [0, ['*', 'NEW', 'labeled-response']], [0, ['*', 'DEL', 'echo-message labeled-response']],
             [1, ['+']], [1, [CHUNK]], [1, ['QUJD']], [1, ['A']], [1, []],
             [2, 903, ['test', 'ok']], [2, 904, ['test', 'failed']], [2, 906, ['test']], [2, 908, ['test', 'PLAIN,EXTERNAL', 'are available']], [2, 908, ['test']],
             [2, 375, ['test', 'motd']], [2, 376, ['test', 'end']], [2, 422, ['test', 'no motd']], [2, 433, ['*', 'test', 'in use']], [2, 1, ['test', 'welcome']],
             [2, 1, ['other', 'welcome']], [2, 5, ['test`', 'CHANTYPES=#', 'are supported']], [2, 433, ['*', 'other', 'in use']], [2, 4, ['test', 'srv', 'v', 'iow', 'abc']],
             [3, ['Closing link: x']], [3, ['Reconnecting too fast']], [3, []], [4, ['x']], [5]])


def ack_all(rig):
    """a conformant reply to the outstanding requests"""
    st = rig.irc.state
    out = sorted(st.capabilities_req - st.capabilities_ack - st.capabilities_nak)
    return [0, ['*', 'ACK', ' '.join(out)]] if out else None


def cap_names(capstring):
    """the capability names a CAP LS / CAP NEW argument advertises (=, ~ prefixes and =value stripped)"""
    out = []
    for item in capstring.split():
        item = item.lstrip('=~')
        out.append(item.split('=', 1)[0])
    return out


def server_advertised(adv, args):
    """the server's own view of what it currently advertises on this connection: LS and NEW add, DEL withdraws.
    Independent of the bot's capabilities_ls (mirror of coq/C08/PassE.v `upd`)"""
    if len(args) < 2:
        return
    sub = args[1].lower()
    if sub == 'ls' and len(args) == 4 and args[2] == '*':
        adv.update(cap_names(args[3]))
    elif sub in ('ls', 'new') and len(args) == 3:
        adv.update(cap_names(args[2]))
    elif sub == 'del' and len(args) == 3:
        for cap in args[2].split():
            adv.discard(cap.split('=')[0])


ACK_STEPS = {}      # (server-acknowledged before, CAP arguments) -> after: diffed against the model's `upd_ack`
ADV_STEPS = {}      # (advertised before, CAP arguments) -> advertised after: diffed against the model's `upd` at the end of the run


class Trace:
    """the property's trace predicates, evaluated on the real run (per connection)"""

    def __init__(self, ctx, inp_base, wanted, required):
        self.ctx, self.base, self.wanted, self.required = ctx, inp_base, set(wanted), required
        self.new_conn()
        self.fails = []
        self.adv = set()
        self.pending = None      # lines queued on the CURRENT connection and not yet taken (set from the rig at the first step)
        self.fresh = True        # nothing was taken yet on this connection

    def new_conn(self):
        self.ends = 0
        self.sasl_acked = False
        self.saw_newdel = False
        self.second_ls = 0
        # the server's own books for this connection: what the bot requested (from its CAP REQ lines), what the server ACKed / NAKed
        # (from its messages) -- never read from the bot's capabilities_req/ack/nak
        self.srv_req, self.srv_ack, self.srv_nak = set(), set(), set()

    def step(self, idx, m, before, after, out, rig):
        ls_after = set(k for k, _ in after[1])
        ack_before, ack_after = set(before[3]), set(after[3])
        if m[0] == 5:
            self.adv = set()         # the driver reconnected: a new connection
        elif m[0] == 0:
            before_adv = sorted(self.adv)
            server_advertised(self.adv, m[1])
            ADV_STEPS[(tuple(before_adv), tuple(m[1]))] = sorted(self.adv)
        if m[0] == 0 and len(m[1]) >= 2 and m[1][1].lower() in ('new', 'del'):
            self.saw_newdel = True
        if m[0] == 0 and len(m[1]) == 3 and m[1][1].lower() in ('ack', 'nak'):
            before_ack = sorted(self.srv_ack)
            (self.srv_ack if m[1][1].lower() == 'ack' else self.srv_nak).update(m[1][2].split())
            ACK_STEPS[(tuple(before_ack), tuple(m[1]))] = sorted(self.srv_ack)
        if 'sasl' in self.srv_ack:
            self.sasl_acked = True
        st = rig.irc.state
        if st.capabilities_req is st.capabilities_ack or st.capabilities_req is st.capabilities_nak or st.capabilities_ack is st.capabilities_nak:
            self.fail(idx, 'state-aliased', 'capabilities_req / capabilities_ack / capabilities_nak are one and the same set object: '
                                            'after a reset this state does not start from scratch')
        reset_seen = False
        for o in out:
            if o[0] == 1 or o[0] == 2:
                reset_seen = True
                self.new_conn()          # what follows in this step belongs to the next connection
                continue
            if reset_seen and o[0] == 0 and o[1] == 'CAP' and o[2][:1] in (['REQ'], ['END']):
                self.fail(idx, 'req-after-reset', 'CAP %s queued for the NEW connection by the handler that triggered the reconnect '
                                                  '(state not fresh)' % ' '.join(o[2]))
                if o[2][:1] == ['END']:
                    self.ends += 1
                else:
                    self.srv_req.update(o[2][1].split())
                continue
            if o[0] == 0 and o[1] == 'CAP' and o[2][:1] == ['REQ']:
                caps = o[2][1].split()
                self.srv_req.update(caps)
                if 'sasl' in caps and not rig.wcfg[2]:
                    self.fail(idx, 'req-sasl-without-credentials', "requested 'sasl' on a network without any usable SASL mechanism")
                for c in caps:
                    if c not in self.wanted:
                        self.fail(idx, 'req-unwanted', 'requested %r which is not in the wanted set' % c)
                    if c not in ls_after:
                        self.fail(idx, 'req-unadvertised', 'requested %r which the server did not advertise' % c)
                    elif c not in self.adv:
                        self.fail(idx, 'req-withdrawn', 'requested %r which the server does not advertise (any more): it advertises %r'
                                  % (c, sorted(self.adv)))
                if 'echo-message' in caps and 'labeled-response' not in caps and 'labeled-response' not in ack_after:
                    self.fail(idx, 'echo-without-label', 'echo-message requested without labeled-response')
            if o[0] == 0 and o[1] == 'CAP' and o[2][:1] == ['END']:
                self.ends += 1
                if self.ends > 1:
                    self.fail(idx, 'cap-end-twice', 'CAP END sent twice on one connection')
                outstanding = (set(after[2]) - set(after[3]) - set(after[4])) | (self.srv_req - self.srv_ack - self.srv_nak)
                if outstanding:
                    self.fail(idx, 'cap-end-outstanding', 'CAP END with requests outstanding (requested, neither ACKed nor NAKed by the server): %r'
                              % sorted(outstanding))
                if after[0] in (30, 80):
                    self.fail(idx, 'cap-end-during-sasl', 'CAP END while an authentication is outstanding')
            if o[0] == 0 and o[1] == 'AUTHENTICATE' and self.is_credential(o[2], rig):
                if not self.sasl_acked:
                    self.fail(idx, 'creds-before-ack', 'credentials sent although the server never acknowledged sasl on this connection')
                if m[0] != 1:
                    self.fail(idx, 'creds-uninvited', 'credentials sent without an AUTHENTICATE from the server')
        # liveness, local form: a final CAP LS during the negotiation must be answered by CAP REQ or CAP END
        if (m[0] == 0 and len(m[1]) == 3 and m[1][1].lower() == 'ls' and before[0] == 20 and after[0] == 20 and not reset_seen
                and not any(o[0] == 0 and o[1] == 'CAP' for o in out) and not (set(after[2]) - set(after[3]) - set(after[4]))):
            self.fail(idx, 'stall-after-ls', 'the final CAP LS %r is answered by neither CAP REQ nor CAP END: a conformant server now waits forever' % m[1][2],
                      ls=sorted(ls_after), ack=sorted(ack_after))
        if reset_seen or m[0] == 5:
            # after a reset everything starts from scratch
            if after[1] or after[2] or after[3] or after[4]:
                self.fail(idx, 'reset-not-fresh', 'after the reconnect ls=%r req=%r ack=%r nak=%r' % (after[1], after[2], after[3], after[4]))
            if m[0] == 5:
                self.new_conn()

    def queued(self, m, out):
        """book-keeping of what the driver may legitimately be handed: a reset drops everything queued before it"""
        lines = lambda os: [o for o in os if o[0] == 0]
        marks = [i for i, o in enumerate(out) if o[0] in (1, 2)]
        if m[0] == 5:
            self.pending, self.fresh = lines(out), True
        elif marks:
            self.pending, self.fresh = lines(out[marks[-1] + 1:]), True
        else:
            self.pending = self.pending + lines(out)

    def take(self, idx, taken):
        """the driver takes everything that is queued (takeMsg until None)"""
        if taken != self.pending:
            stale = [t for t in taken if t not in self.pending]
            self.fail(idx, 'stale-line-after-reset' if stale else 'queue-mismatch',
                      'the driver was handed %r; queued on this connection and not yet sent: %r%s'
                      % (taken, self.pending, ' -- lines of a previous connection survived the reset' if stale else ''))
        if self.fresh and taken and taken[0] != [0, 'CAP', ['LS', '302']]:
            self.fail(idx, 'first-line-not-cap-ls', 'the first line sent on a new connection is %r, not CAP LS 302' % (taken[0],))
        if taken:
            self.fresh = False
        self.pending = []

    def is_credential(self, args, rig):
        return bool(args) and args[0] in rig.cred_chunks and rig.cfg['user'] != '' and rig.irc is not None and args[0] != '+'

    def fail(self, idx, kind, detail, **extra):
        self.fails.append(dict(extra, step=idx, kind=kind, detail=detail))


MECH_NAMES = ('PLAIN', 'EXTERNAL', 'ECDSA-NIST256P-CHALLENGE')


def srv_out(o):
    """a real output as the server classifies it (wire form of Model.gOut): mechanism name / '*' vs credential chunk"""
    if o[0] == 0 and o[1] == 'AUTHENTICATE' and o[2] and o[2][0] not in MECH_NAMES and o[2][0] != '*':
        return [4, o[2][0]]
    if o[0] == 1:
        return [1, [], o[2]]
    return list(o)


def welcome(motd):
    return [[2, 1, ['*']], [2, 375, ['*']], [2, 372, ['*']], [2, 376, ['*']]] if motd else [[2, 1, ['*']], [2, 422, ['*']]]


def ls_reply(lines):
    if not lines:
        return [[0, ['*', 'LS', '']]]
    return [[0, ['*', 'LS', '*', l]] for l in lines[:-1]] + [[0, ['*', 'LS', lines[-1]]]]


def answer1(srv, n, o):
    """mirror of Model.answer1; srv = [cap, ls lines, motd]"""
    cap, lines, motd = srv
    if not cap:
        return welcome(motd) if o[0] == 0 and o[1] == 'USER' else []
    if o[0] == 0 and o[1] == 'CAP':
        a = o[2]
        if a[:1] == ['LS']:
            return ls_reply(lines)
        if a[:1] == ['REQ']:
            return [[0, ['*', 'ACK' if n % 2 == 0 else 'NAK', a[1]]]] if len(a) > 1 else []
        if a[:1] == ['END']:
            return welcome(motd)
        return []
    if o[0] == 0 and o[1] == 'AUTHENTICATE':
        if not o[2]:
            return []
        if o[2][0] == '*':
            return [[2, 906, ['*']]]
        return [[1, ['+']]] if n % 3 == 0 else [[2, 904, ['*']]] if n % 3 == 1 else [[2, 908, ['*', 'plain']], [2, 904, ['*']]]
    if o[0] == 4:
        return [[2, 903 if n % 2 == 0 else 904, ['*']]] if len(o[1]) != 400 else []
    return []


def strategy(srv, choices, hist):
    """mirror of Model.strategy: hist = output batches, newest first"""
    if not hist:
        return []
    off = sum(len(b) for b in hist[1:])
    out = []
    for i, o in enumerate(hist[0]):
        n = choices[off + i] if off + i < len(choices) else 0
        out += answer1(srv, n, o)
    return out


def answerN(srv, fr, t, n, o):
    """mirror of Model.answerN; t = [rej, due, bad]"""
    cap, lines, motd = srv
    rej, due, bad = t
    if o[0] == 0 and o[1] == 'NICK':
        if fr or not bad:
            return [], t
        if n % 2 == 1 and rej > 0:
            return [[2, 433, ['*']]], [rej - 1, due, True]
        return (welcome(motd) if due else []), [rej, False, False]
    trig = (o[0] == 0 and o[1] == 'CAP' and o[2][:1] == ['END']) if cap else (o[0] == 0 and o[1] == 'USER')
    if trig:
        return ([], [rej, True, True]) if bad else (welcome(motd), t)
    return answer1(srv, n, o), t


def roundN(srv, plan, i, t, choices, batch):
    fr = i in plan and not t[2] and t[0] > 0
    t0 = [t[0] - 1, t[1], True] if fr else t
    out = [[2, 433, ['*']]] if fr else []
    for k, o in enumerate(batch):
        r, t0 = answerN(srv, fr, t0, choices[k] if k < len(choices) else 0, o)
        out += r
    return out, t0


def strategyN(srv, plan, k, choices, hist):
    """mirror of Model.strategyN: hist = output batches, newest first"""
    return strategyN_state(srv, plan, k, choices, hist)[0]


def strategyN_state(srv, plan, k, choices, hist):
    t, off, out = [k, False, False], 0, []
    for i, b in enumerate(hist[::-1]):
        out, t = roundN(srv, plan, i, t, choices[off:], b)
        off += len(b)
    return out, t


class Game:
    """bot and conformant server in lock step; the liveness clause: within 2*|mechanisms|+3 rounds the bot is CONNECTED or has
    dropped the connection (coq/C08/Props.v C08_liveness*)"""

    def __init__(self, rig, srv, choices, plan=(), rejections=0):
        self.rig, self.srv, self.choices, self.plan, self.k = rig, srv, choices, list(plan), rejections
        self.hist = [[srv_out(o) for o in rig.init_out]]
        self.bound = 2 * len(rig.wcfg[2]) + 3 + rejections
        self.rounds, self.finished, self.calls, self.verdict = 0, False, [], None
        self.batch = None

    def next_round(self):
        if self.batch is not None:
            self.hist.insert(0, self.batch)
        if self.finished:
            return None
        msgs, self.sst = strategyN_state(self.srv, self.plan, self.k, self.choices, self.hist)
        self.calls.append(([list(b) for b in self.hist], msgs))
        if not msgs or self.rounds >= self.bound:
            self.verdict = ('the server has nothing left to answer' if not msgs else 'still registering after %d rounds' % self.rounds)
            return None
        self.rounds += 1
        self.batch = []
        return [list(m) for m in msgs]

    def observe(self, out, after):
        self.batch += [srv_out(o) for o in out]
        if after[0] in (70, 80) or any(o[0] in (1, 2) for o in out):
            self.finished = True


def run_sequence(ctx, mods, cfgi, secure, seq, model=True, kind='seq', oracle=None):
    cfg = CONFIGS[cfgi]
    rig = Rig(mods, cfg, secure)
    steps = []
    tr = Trace(ctx, None, rig.wcfg[0], cfg['required'])
    extra = []
    game = None
    if 'sasl' in rig.wcfg[0] and not rig.wcfg[2]:
        extra.append({'step': 0, 'kind': 'wants-sasl-without-credentials',
                      'detail': "this network has no usable SASL mechanism, yet 'sasl' is among the capabilities it will request: %r" % rig.wcfg[0]})
    try:
        queue, idx = list(seq), -1
        while queue or game:
            if not queue:
                nxt = game.next_round()
                if nxt is None:
                    break
                queue = nxt
                continue
            m = queue.pop(0)
            idx += 1
            if isinstance(m, list) and m and m[0] == 'CONF':
                game = Game(rig, m[1], m[2], *m[3:5])
                continue
            if m == 'ACKALL':
                m = ack_all(rig)
                if m is None:
                    continue
            if tr.pending is None:
                tr.pending = [line_of(x) for x in rig.irc.fastqueue]
            if m == 'TAKE':
                taken = []
                while len(taken) < 500:
                    x = rig.irc.takeMsg()
                    if x is None:
                        break
                    taken.append(line_of(x))
                ctx.case('%s-TAKE' % kind, {'cfg': cfgi, 'taken': taken}, nontrivial=False)
                tr.take(idx, taken)
                continue
            before = rig.snapshot()
            wm = list(m)
            if m[0] == 1:
                ok, empty = b64_bits(before[8], m[1])
                wm = [1, m[1], ok, empty]
            if m[0] == 2 and m[2]:
                # canonical first argument: "1" = the configured nick, "0" = another one (see Model.nick_setter)
                k = rig.alt_index(m[2][0])
                wm = [2, m[1], ['1' if m[2][0] == rig.base_nick else chr(97 + k) if k is not None and k < 26 else '0'] + list(m[2][1:])]
            out, exc = rig.feed(m)
            after = rig.snapshot()
            steps.append((rig.wcfg, before, wm, after, out, exc))
            tr.step(idx, m, before, after, out, rig)
            tr.queued(m, out)
            if game:
                game.observe(out, after)
            if oracle:
                oracle(idx, m, before, after, out, rig, extra)
        if game and not game.finished:
            last = rig.snapshot()
            extra.append({'step': idx, 'kind': 'conformant-stall', 'fsm': last[0], 'mechs_left': len(last[5]), 'required': bool(cfg['required']),
                          'server_awaits_nick': bool(game.sst[2]), 'alternates_left': last[11], 'base_nick_proposed': bool(last[12]),
                          'detail': 'against a protocol-conformant server (%s) the bot is neither CONNECTED nor has it dropped the connection: %s; '
                                    'fsm=%d after %d rounds (bound %d)' % ('CAP-aware' if game.srv[0] else 'without CAP', game.verdict, last[0],
                                                                           game.rounds, game.bound)})
        wanted_now = rig.irc._wantedCapabilities() if hasattr(rig.irc, '_wantedCapabilities') else rig.irc.REQUEST_CAPABILITIES
        if 'sasl' in wanted_now and not rig.wcfg[2]:
            extra.append({'step': max(idx, 0), 'kind': 'wants-sasl-without-credentials',
                          'detail': "this network has no usable SASL mechanism, yet 'sasl' is now among the capabilities it will request: %r" % sorted(wanted_now)})
    finally:
        rig.close()
    if rig.class_caps_after != rig.class_caps:
        extra.append({'step': 0, 'kind': 'class-capabilities-mutated',
                      'detail': 'Irc.REQUEST_CAPABILITIES (class attribute, shared by every network) changed during the run: +%r -%r'
                                % (sorted(rig.class_caps_after - rig.class_caps), sorted(rig.class_caps - rig.class_caps_after))})
    if game and model:
        outs = ctx.model([[7, [game.srv, game.plan, game.k, game.choices, h]] if (game.k or game.plan) else [5, [game.srv, game.choices, h]]
                          for h, _ in game.calls])
        for (h, msgs), mo in zip(game.calls, outs):
            ctx.case('strategy', {'srv': game.srv, 'hist': h}, nontrivial=False)
            if mo is None:
                continue
            mm = [[0, wire.ls(x[1])] if x[0] == 0 else [1, wire.ls(x[1])] if x[0] == 1 else [2, x[1], wire.ls(x[2])] for x in mo]
            if mm != msgs:
                ctx.disagree({'srv': game.srv, 'choices': game.choices, 'plan': game.plan, 'k': game.k, 'hist': h}, mm, msgs, 'conformant-server strategy (python mirror vs extracted)')
    inp_base = {'cfg': cfgi, 'secure': secure, 'seq': seq}
    if model and steps:
        outs = ctx.model([[0, [w, b, m]] for (w, b, m, a, o, e) in steps])
        for (w, b, m, a, o, e), mo in zip(steps, outs):
            ctx.case('%s-%s' % (kind, ['CAP', 'AUTH', 'NUM', 'ERROR', 'PING', 'RESET'][m[0]]), {'cfg': cfgi, 'state': b, 'msg': m})
            if mo is None:
                continue
            ms, mout = canon_state(dec_state(mo[0])), dec_out(mo[1])
            mexc = EXN_BY_CODE[mo[2][0]] if mo[2] else None
            iexc = e if (e is None or e in EXN_BY_CODE.values()) else ('ValueError' if e == 'Error' else e)
            if ms != canon_state(a) or mout != o or mexc != iexc:
                ctx.disagree(dict(inp_base, state=b, msg=m), [ms, mout, mexc], [canon_state(a), o, iexc], 'Irc handler step')
    else:
        for (w, b, m, a, o, e) in steps:
            ctx.case('%s-%s' % (kind, ['CAP', 'AUTH', 'NUM', 'ERROR', 'PING', 'RESET'][m[0]]), {'cfg': cfgi, 'state': b, 'msg': m})
    return tr.fails + extra


CAPNAMES = ['echo-message', 'labeled-response', 'batch', 'sasl', 'away-notify', 'multi-prefix']


def gen_del_seq(rng):
    """advertise / refuse or withhold / withdraw / advertise something else: what CAP DEL must undo"""
    x = rng.choice(['batch', 'away-notify', 'multi-prefix', 'echo-message', 'sasl', 'account-tag'])
    y = rng.choice([c for c in ['labeled-response', 'chghost', 'batch', 'away-notify', 'echo-message'] if c != x])
    seq = [[0, ['*', 'LS', rng.choice([x, x + ' server-time', 'extended-join ' + x + '=v'])]]]
    seq.append(rng.choice([[0, ['*', 'NAK', x]], 'ACKALL', [0, ['*', 'NAK', x + ' server-time']], [0, ['*', 'NAK', 'extended-join ' + x]]]))
    if rng.random() < 0.6:
        seq.append([2, rng.choice([376, 422]), ['n', 'end']])
    seq.append([0, ['*', 'DEL', rng.choice([x, x + '=v', 'zzz ' + x])]])
    if rng.random() < 0.3:
        seq.append(rng.choice(ALPHABET))
    seq.append([0, ['*', rng.choice(['NEW', 'NEW', 'LS']), rng.choice([y, y + ' ' + x + '2', 'setname'])]])
    seq.append('ACKALL')
    return seq


def gen_batch_seq(rng):
    """several server lines in ONE read batch (no takeMsg in between), the link goes away, then the driver takes what is queued"""
    seq = ['TAKE'] if rng.random() < 0.7 else []
    for _ in range(rng.randint(1, 3)):
        seq.append([0, ['*', 'LS', rng.choice(['sasl batch', 'sasl', 'batch away-notify', 'echo-message labeled-response'])]])
        if rng.random() < 0.5:
            seq.append('TAKE')
        seq.append(rng.choice(['ACKALL', [0, ['*', 'NAK', 'sasl batch']], [0, ['*', 'ACK', 'sasl']]]))
        if rng.random() < 0.4:
            seq.append('TAKE')
        if rng.random() < 0.6:
            seq.append([1, ['+']])
        if rng.random() < 0.3:
            seq.append([2, rng.choice([903, 904]), ['n', 'x']])
        seq.append(rng.choice([[3, ['Closing link: x']], [5], [3, ['Reconnecting too fast']], [0, ['*', 'ACK', 'zzz']], [0, ['*', 'LS', 'sts']]]))
        if rng.random() < 0.8:
            seq.append('TAKE')
    seq.append('TAKE')
    return seq


def gen_seq(rng):
    n = rng.randint(3, 14)
    seq = []
    for _ in range(n):
        r = rng.random()
        if r < 0.08:
            seq.append('TAKE')
        elif r < 0.2:
            seq.append('ACKALL')
        elif r < 0.35:     # directed: advertise / withdraw single wanted capabilities at any time
            seq.append([0, ['*', rng.choice(['LS', 'NEW', 'NEW', 'DEL', 'DEL', 'ACK', 'NAK']),
                            ' '.join(rng.sample(CAPNAMES, rng.choice([1, 1, 2])))]])
        elif r < 0.40:
            seq.append([2, rng.choice([375, 376, 422]), ['n', 'x']])
        else:
            seq.append(rng.choice(ALPHABET))
    if rng.random() < 0.5:
        seq.insert(0, [0, ['*', 'LS', rng.choice(LS_BODIES)]])
    return seq


def sequences(ctx):
    rng = ctx.rng
    out = []
    for s in CORPUS:
        out.append((s['cfg'], s['secure'], s['seq'], 'corpus'))
    depth = 3 if ctx.tier == 'thorough' else 2
    cfgs = range(len(CONFIGS))
    small = ALPHABET if depth == 2 else ALPHABET
    for n in range(1, depth + 1):
        for t in itertools.product(range(len(small)), repeat=n):
            if n == 3 and (t[0] * 7 + t[1] * 3 + t[2]) % 4:        # a quarter of the depth-3 cube per run
                continue
            for ci in (cfgs if n < 2 else [(t[0] + t[-1]) % len(CONFIGS)]):
                out.append((ci, (t[0] + ci) % 2 == 0, [small[i] for i in t], 'exhaustive-len%d' % n))
    for _ in range(ctx.n(1900)):
        out.append((rng.randrange(len(CONFIGS)), rng.random() < 0.5, gen_seq(rng), 'random'))
    for _ in range(ctx.n(200)):
        out.append((rng.randrange(len(CONFIGS)), True, gen_del_seq(rng), 'directed-del'))
    for _ in range(ctx.n(200)):
        out.append((rng.randrange(len(CONFIGS)), True, gen_batch_seq(rng), 'batch-then-disconnect'))
    # lock-step games against a protocol-conformant server (the strategy of coq/C08/Model.v), every configuration:
    # ACK everything + SASL succeeds / NAK everything, every mechanism fails / 908 then 904, then success / no CAP support
    for ci in cfgs:
        for srv, choices in (([True, ['multi-prefix sasl batch'], True], [0] * 40), ([True, ['multi-prefix', 'sasl=PLAIN,EXTERNAL batch'], False], [1] * 40),
                             ([True, ['sasl echo-message'], True], [2, 4] * 20), ([False, [], True], []), ([True, [], False], [0] * 40)):
            out.append((ci, True, [['CONF', srv, choices]], 'conformant'))
    # ... on a second / third connection (the state must start from scratch after a reset): NAK everything; 908 then success
    for ci in cfgs:
        out.append((ci, True, [[5], ['CONF', [True, ['multi-prefix sasl batch'], True], [1] * 40]], 'conformant-reconnected'))
        out.append((ci, True, [[0, ['*', 'LS', 'sasl batch']], 'ACKALL', [5], [5], ['CONF', [True, ['sasl echo-message'], True], [2, 4] * 20]], 'conformant-reconnected'))
    # ... the same with the server rejecting the nick 1-3 times: before the CAP LS reply (round 0), between LS and ACK (1), during the SASL
    # exchange (2, 3), after 903 / CAP END (4; without SASL: 2), and combinations; beyond the configured alternates (2) too
    for ci in cfgs:
        for plan, k, choices in (([0], 1, [0] * 40), ([1], 1, [0] * 40), ([2], 1, [0] * 40), ([3], 2, [0] * 5 + [1] * 35), ([4], 1, [0] * 40),
                                 ([2], 2, [0] * 5 + [1] + [0] * 34), ([0, 2], 2, [0] * 40), ([1, 3], 2, [0] * 40), ([2, 4], 2, [0] * 40),
                                 ([0, 1, 2], 3, [0] * 40), ([4], 3, [1] * 40)):
            out.append((ci, True, [['CONF', [True, ['multi-prefix sasl batch'], True], choices, plan, k]], 'conformant-nick'))
        out.append((ci, True, [['CONF', [False, [], True], [1] * 40, [0], 2]], 'conformant-nick'))
    for _ in range(ctx.n(400)):
        lines = [' '.join(rng.sample(CAPNAMES + ['sasl=PLAIN', 'sasl=EXTERNAL,PLAIN', 'account-tag', 'sts=port=6697,duration=5'], rng.randint(0, 4)))
                 for _ in range(rng.choice([0, 1, 1, 1, 2, 3]))]
        srv = [rng.random() < 0.85, lines, rng.random() < 0.5]
        k = rng.choice([0, 0, 1, 1, 2, 2, 3])
        plan = sorted(rng.sample(range(7), rng.randint(1, 3))) if k else []
        out.append((rng.randrange(len(CONFIGS)), rng.random() < 0.7, [['CONF', srv, [rng.randrange(6) for _ in range(40)], plan, k]], 'conformant'))
    return out


CORPUS = [
    # Irc.feedMsg's nick bookkeeping in front of the handlers: a numeric renames the bot to its first alternate (the next 433 pops exactly that
    # alternate: `assert newNick != self.nick` fires, no NICK), to another nick (after the alternates the configured nick itself is proposed)
    {'cfg': 0, 'secure': True, 'seq': [[2, 5, ['test`', 'CHANTYPES=#', 'are supported']], [2, 433, ['*', 'test', 'in use']], [2, 433, ['*', 'x', 'in use']],
                                       [2, 433, ['*', 'x', 'in use']], [2, 433, ['*', 'x', 'in use']]]},
    {'cfg': 1, 'secure': True, 'seq': [[2, 1, ['other', 'welcome']], [2, 433, ['*', 'x', 'in use']], [2, 433, ['*', 'x', 'in use']], [2, 433, ['*', 'x', 'in use']],
                                       [2, 433, ['*', 'x', 'in use']], [5], [2, 433, ['*', 'x', 'in use']]]},
    {'cfg': 1, 'secure': True, 'seq': [[2, 4, ['test_', 'srv', 'v', 'iow', 'abc']], [2, 433, ['*', 'x', 'in use']], [2, 433, ['*', 'x', 'in use']], [2, 376, ['test_', 'end']],
                                       [2, 433, ['*', 'x', 'in use']]]},
    # one read batch: AUTHENTICATE + and ERROR :Closing link with no takeMsg in between: the queued credentials must not be the first
    # thing sent on the next connection; CAP ACK then ERROR: no stale CAP END ahead of CAP LS
    {'cfg': 1, 'secure': True, 'seq': ['TAKE', [0, ['*', 'LS', 'sasl batch']], 'TAKE', [0, ['*', 'ACK', 'batch sasl']], 'TAKE', [1, ['+']],
                                       [3, ['Closing link: x']], 'TAKE']},
    {'cfg': 0, 'secure': True, 'seq': ['TAKE', [0, ['*', 'LS', 'batch']], 'TAKE', [0, ['*', 'ACK', 'batch']], [3, ['Closing link: x']], 'TAKE',
                                       [0, ['*', 'LS', 'batch']], 'ACKALL', 'TAKE']},
    {'cfg': 1, 'secure': True, 'seq': [[0, ['*', 'LS', 'sasl']], [0, ['*', 'ACK', 'sasl']], [5], 'TAKE']},
    # a second (and third) connection: reset, then a server that NAKs the request containing sasl / answers it piecewise
    {'cfg': 1, 'secure': True, 'seq': [[5], [0, ['*', 'LS', 'sasl batch']], [0, ['*', 'NAK', 'batch sasl']], [1, ['+']], [2, 376, ['n', 'end']]]},
    {'cfg': 1, 'secure': True, 'seq': [[0, ['*', 'LS', 'sasl batch']], 'ACKALL', [5], [5], [0, ['*', 'LS', 'sasl batch multi-prefix']],
                                       [0, ['*', 'ACK', 'batch']], [0, ['*', 'NAK', 'sasl']], [0, ['*', 'ACK', 'multi-prefix']], [2, 376, ['n', 'end']]]},
    {'cfg': 1, 'secure': True, 'seq': [[3, ['Closing link: x']], [0, ['*', 'LS', 'sasl batch']], [0, ['*', 'NAK', 'batch sasl']], [1, ['+']]]},
    # CAP DEL of a capability that was advertised but never acknowledged (withheld echo-message / NAKed batch), then CAP NEW / LS:
    # the withdrawn capability must not be requested
    {'cfg': 0, 'secure': True, 'seq': [[0, ['*', 'LS', 'batch echo-message']], 'ACKALL', [2, 376, ['n', 'end']], [0, ['*', 'DEL', 'echo-message']],
                                       [0, ['*', 'NEW', 'labeled-response']]]},
    {'cfg': 0, 'secure': True, 'seq': [[0, ['*', 'LS', 'batch']], [0, ['*', 'NAK', 'batch']], [2, 376, ['n', 'end']], [0, ['*', 'DEL', 'batch']],
                                       [0, ['*', 'NEW', 'away-notify']]]},
    {'cfg': 0, 'secure': True, 'seq': [[0, ['*', 'LS', '*', 'batch=x away-notify']], [0, ['*', 'DEL', 'batch=y']], [0, ['*', 'LS', 'chghost']]]},
    # fixed C08.F26 (old witness, must stay fixed): more nick rejections than configured alternates
    {'cfg': 0, 'secure': True, 'seq': [['CONF', [True, ['multi-prefix sasl batch'], True], [1] * 40, [0], 3]]},
    {'cfg': 1, 'secure': True, 'seq': [['CONF', [True, ['multi-prefix sasl batch'], True], [0] * 5 + [1] * 55, [3], 5]]},
    # fixed C08.F25 (old witness, must stay fixed): sasl.required and the conformant server fails every mechanism: the bot must drop the connection
    {'cfg': 2, 'secure': True, 'seq': [['CONF', [True, ['multi-prefix', 'sasl=PLAIN,EXTERNAL batch'], False], [1] * 40]]},
    {'cfg': 2, 'secure': True, 'seq': [['CONF', [True, ['sasl batch'], True], [0, 0, 0, 0, 0, 1]]]},
    # fixed C08.F7 (old witness, must stay fixed): CAP NEW during SASL, then 903 -> CAP END with REQ batch outstanding
    {'cfg': 1, 'secure': True, 'seq': [[0, ['*', 'LS', 'sasl']], [0, ['*', 'ACK', 'sasl']], [0, ['*', 'NEW', 'batch']], [2, 903, ['n', 'ok']]]},
    # ... and the negotiation must still end once the late request is answered (after success / after every mechanism failed)
    {'cfg': 1, 'secure': True, 'seq': [[0, ['*', 'LS', 'sasl']], [0, ['*', 'ACK', 'sasl']], [0, ['*', 'NEW', 'batch']], [2, 903, ['n', 'ok']],
                                       [0, ['*', 'ACK', 'batch']], [2, 376, ['n', 'end']]]},
    {'cfg': 1, 'secure': True, 'seq': [[0, ['*', 'LS', 'sasl']], [0, ['*', 'ACK', 'sasl']], [0, ['*', 'NEW', 'batch']], [2, 904, ['n', 'failed']],
                                       [0, ['*', 'NAK', 'batch']], [2, 376, ['n', 'end']]]},
    # the same with the AUTHENTICATE exchange
    {'cfg': 1, 'secure': True, 'seq': [[0, ['*', 'LS', 'sasl']], [0, ['*', 'ACK', 'sasl']], [1, ['+']], [0, ['*', 'NEW', 'batch']],
                                       [2, 903, ['n', 'ok']]]},
    # happy path, plain
    {'cfg': 1, 'secure': True, 'seq': [[0, ['*', 'LS', 'multi-prefix sasl batch']], 'ACKALL', [1, ['+']], [2, 903, ['n', 'ok']],
                                       [2, 375, ['n', 'motd']], [2, 376, ['n', 'end']]]},
    # STS over an insecure link in the middle of an LS line
    {'cfg': 1, 'secure': False, 'seq': [[0, ['*', 'LS', 'sasl sts=port=6697 away-notify']]]},
    # fixed C08.F24 (old witness, must stay fixed): echo-message alone: nothing is requested, so the negotiation must end
    {'cfg': 0, 'secure': True, 'seq': [[0, ['*', 'LS', 'echo-message']]]},
    # labeled-response acknowledged, withdrawn, then echo-message offered on its own
    {'cfg': 0, 'secure': True, 'seq': [[0, ['*', 'LS', 'labeled-response']], 'ACKALL', [2, 376, ['n', 'end']],
                                       [0, ['*', 'DEL', 'labeled-response']], [0, ['*', 'NEW', 'echo-message']]]},
]


def _cls_sts_mid_line(inp):
    """F23: a reconnect (STS over an insecure link, or an unsolicited ACK/NAK) happened inside a handler that kept running"""
    return inp.get('kind') in ('reset-not-fresh', 'req-after-reset')


# C08.F7 (cap_new_before_end) and C08.F24 (echo_message_only) are fixed: no class attributes a failure to them any more
# C08.F25 (required_sasl_failed_no_abort) and C08.F26 (nick_alternates_exhausted) are fixed too
CLASSES = {'handler_continues_after_reconnect': _cls_sts_mid_line}


def run(ctx):
    mods = _mods()
    for cfgi, secure, seq, kind in sequences(ctx):
        for f in run_sequence(ctx, mods, cfgi, secure, seq, kind=kind):
            ctx.fail(dict({k: v for k, v in f.items() if k != 'detail'}, cfg=cfgi, secure=secure, seq=seq), f['detail'])
    # parseStsPolicy on its own
    irclib, conf, ircmsgs, ircutils, ircdb, drivers = mods
    pols = ['port=6697', 'port=6697,duration=300', 'duration=300', 'port=', 'port', 'port=abc', 'port=+6_6', 'port=6__6', 'port=_6', 'port=6_',
            'port=-1,duration=x', 'port=1,duration=', 'a=b,port=2,port=3', '', ',', 'port=1,duration=00_1,x', 'port=0x10', 'duration=5,port=9,preload']
    cases = [(p, d) for p in pols for d in (False, True)]
    outs = ctx.model([[1, [p, d]] for p, d in cases])

    class L:
        def error(self, *a):
            pass
    # the oracle's server-side advertised set against the model's `upd` (the set the theorem C08_req_advertised_by_server is about)
    akeys = list(ADV_STEPS.items())[:6000]
    aouts = ctx.model([[8, [[0, list(args)], list(before)]] for (before, args), _ in akeys])
    for ((before, args), after), mo in zip(akeys, aouts):
        ctx.case('advertised-set', {'before': list(before), 'args': list(args)}, nontrivial=False)
        if mo is not None and sorted(wire.ls(mo)) != after:
            ctx.disagree({'before': list(before), 'args': list(args)}, sorted(wire.ls(mo)), after, 'server-side advertised set (python oracle vs model upd)')
    ADV_STEPS.clear()
    kkeys = list(ACK_STEPS.items())[:4000]
    kouts = ctx.model([[9, [[0, list(args)], list(before)]] for (before, args), _ in kkeys])
    for ((before, args), after), mo in zip(kkeys, kouts):
        ctx.case('acknowledged-set', {'before': list(before), 'args': list(args)}, nontrivial=False)
        if mo is not None and sorted(wire.ls(mo)) != after:
            ctx.disagree({'before': list(before), 'args': list(args)}, sorted(wire.ls(mo)), after, 'server-side acknowledged set (python oracle vs model upd_ack)')
    ACK_STEPS.clear()
    # authenticate_generator against the model's auth_gen: every length 0..1300 of the (already encoded) string, and through base64
    gcases = [('A' * n, None) for n in range(1301)] + [(base64.b64encode(b'x' * k).decode(), k) for k in range(0, 976)]
    gouts = ctx.model([[6, g] for g, _ in gcases])
    for (g, k), mo in zip(gcases, gouts):
        inp = {'authstring_len': len(g), 'raw_len': k}
        ctx.case('authenticate_generator', inp)
        impl = list(ircutils.authenticate_generator(g, base64ify=False)) if k is None else list(ircutils.authenticate_generator(b'x' * k))
        if mo is not None and wire.ls(mo) != impl:
            ctx.disagree(inp, [len(x) for x in wire.ls(mo)], [len(x) for x in impl], 'authenticate_generator chunk lengths')
        # the contract itself, on the implementation: full chunks, then exactly one short chunk ('+' when nothing is left)
        if not (impl and all(len(c) == 400 for c in impl[:-1]) and len(impl[-1]) < 400 and impl[-1] != ''
                and ''.join(impl[:-1]) + (impl[-1] if impl[-1] != '+' or g.endswith('+') else '') == g):
            ctx.fail(dict(inp, kind='chunking'), 'authenticate_generator(%d chars) = chunks of %r: not full chunks followed by one short terminator'
                     % (len(g), [len(c) for c in impl]))
    for (p, d), mo in zip(cases, outs):
        inp = {'policy': p, 'parseDuration': d}
        ctx.case('parseStsPolicy', inp)
        r = ircutils.parseStsPolicy(L(), p, parseDuration=d)
        impl = None if r is None else [r['port'], r.get('duration', 0)]
        if mo is not None and (None if mo == [] else mo[0]) != impl:
            ctx.disagree(inp, mo, impl, 'parseStsPolicy')


def replay(ctx, inp):
    mods = _mods()
    if inp.get('kind') == 'chunking':
        irclib, conf, ircmsgs, ircutils, ircdb, drivers = mods
        g = 'A' * inp['authstring_len']
        impl = list(ircutils.authenticate_generator(g, base64ify=False))
        if not (impl and all(len(c) == 400 for c in impl[:-1]) and len(impl[-1]) < 400 and impl[-1] != ''):
            return 'authenticate_generator(%d chars) = chunks of %r' % (len(g), [len(c) for c in impl])
        return None
    if 'seq' not in inp:
        return None
    sub = type(ctx)(ctx.pid, ctx.tier, ctx.seed, {'model_ok': False})
    fails = run_sequence(sub, mods, inp['cfg'], inp['secure'], inp['seq'], model=False)
    for f in fails:
        if 'kind' not in inp or f['kind'] == inp['kind']:
            return f['detail']
    return None


def shrink(ctx, inp):
    if 'seq' not in inp:
        return inp
    from lib.shrink import shrink_seq
    mods = _mods()

    def fails(seq):
        sub = type(ctx)(ctx.pid, ctx.tier, ctx.seed, {'model_ok': False})
        return any(f['kind'] == inp['kind'] for f in run_sequence(sub, mods, inp['cfg'], inp['secure'], seq, model=False))
    seq = shrink_seq(inp['seq'], fails, budget=120)
    sub = type(ctx)(ctx.pid, ctx.tier, ctx.seed, {'model_ok': False})
    fs = [f for f in run_sequence(sub, mods, inp['cfg'], inp['secure'], seq, model=False) if f['kind'] == inp['kind']]
    return dict(inp, seq=seq, step=fs[0]['step']) if fs else inp
