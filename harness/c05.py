"""C05 — IRC message parse/serialise round-trips; parsing is total."""
import datetime, itertools
import boot
from lib import wire
from lib.shrink import shrink_seq

TABLES = ['T05']
RULE = ('raw lines: corpus + exhaustive strings over a 10-letter hostile alphabet (length<=4 quick, <=6 thorough) + '
        'grammar-aware mutations of valid lines; structured messages: generated (tags, prefix, command, args) built with the '
        'keyword constructor.  Every case is run on ircmsgs.IrcMsg and on the extracted model and diffed; the round-trip, '
        'totality and re-serialisation laws are evaluated directly on the implementation.  non-trivial = distinct input '
        'that is not the empty line')
TRUSTED = ['datetime.strptime enters the model as a Section variable valid_time (the harness evaluates the real strptime '
           'on the time tag the model reports)']
ASSUMPTIONS = ['world.testing/log.testing off; Python asserts enabled (no -O)']
LEVEL_TEXT = ('Coq theorems over an executable Gallina model of ircmsgs.py (tag escaping, tag dict, string branch of IrcMsg.__init__, __str__): '
              'tag-value round trip for all strings, str() stable under its cache, parse(serialize m) = norm m for all well-formed m (any tags, prefix, middles, arbitrary trailing), '
              'parsing total for EVERY string, the nick/user/host split after the try included (C05_parse_total: a value or MalformedIrcMsg, nothing else; findings F3 and F30 repaired; '
              'C05_split_hostmask_total: splitHostmask answers on all isUserHostmask accepts and the pieces rejoin); the receive path drivers.parseMsg = strip() + IrcMsg is modelled too: total (C05_parsemsg_total), terminator-insensitive (C05_parse_terminator), round trip for every message whose line loses only its CR LF to strip() (C05_parsemsg_serialize_on_domain) and refuted outside (C05_parsemsg_roundtrip_refuted = known finding C05.F32); the model is tied to the source by a regenerated '
              'escape table / except-clause list and by a differential run (exhaustive short hostile lines + generated messages) against the real IrcMsg on every check.')
LEVEL_NOTE = ('Trusted: Coq kernel, gen_tables.py, ExtrOcamlBasic extraction + OCaml driver, the Python harness; datetime.strptime is a Section '
              'variable (any function); Python code is modelled not verified; the re-serialisation clause is the _str cache (trivial in the model, checked directly on the implementation).')
TECHNIQUE = 'Coq proof (induction over strings/token lists) + regenerated tables + extracted-model differential correspondence'
EXPLANATION = 'C05: parse/serialise model of src/ircmsgs.py; theorems in coq/C05/Props.v'

ALPHA = [' ', ':', '@', ';', '=', '\\', '\r', '\n', 'a', 'é', '!']
HM_ALPHA = ['!', '@', 'a', ' ', '\n', '\xa0']
FMT = '%Y-%m-%dT%H:%M:%S.%fZ'


def _ircmsgs():
    boot.boot()
    import supybot.ircmsgs as ircmsgs
    return ircmsgs


def strptime_ok(v):
    try:
        datetime.datetime.strptime(v, FMT)
        return True
    except ValueError:
        return False


def impl_parse(ircmsgs, line):
    try:
        m = ircmsgs.IrcMsg(line)
    except ircmsgs.MalformedIrcMsg:
        return ('raise', 'MalformedIrcMsg'), None
    except Exception as e:
        return ('raise', type(e).__name__), None
    return ('ok', [[[k, v] for k, v in m.server_tags.items()], m.prefix, m.command, list(m.args), m.nick, m.user, m.host]), m


def dec_msg(v):
    tags = [[wire.s(kv[0]), wire.o(kv[1], wire.s)] for kv in v[0]]
    return [tags, wire.s(v[1]), wire.s(v[2]), wire.ls(v[3])] + [wire.s(x) for x in v[4:7]]


def model_parse_pick(out, line, opt=False):
    """the model returns the result for valid_time=true and =false; pick by the real strptime on the time tag.
    opt: the payload is an option (drivers.parseMsg: None for a blank line)"""
    dec = (lambda v: wire.o(v, dec_msg)) if opt else dec_msg
    r_true, r_false = wire.r(out[0], dec), wire.r(out[1], dec)
    if r_true == r_false:
        return r_true
    # they differ only when a time tag with a value exists: r_true is Ok with that tag
    tv = dict((k, v) for k, v in r_true[1][0]).get('time') if (r_true[0] == 'ok' and r_true[1] is not None) else None
    return r_true if (tv is not None and strptime_ok(tv)) else r_false


# C05.F3 (valueless time tag -> TypeError) and C05.F30 (prefix a!b@c!d -> ValueError out of splitHostmask) are repaired;
# their witnesses stay in CORPUS_LINES.  C05.F32 (known finding): drivers.parseMsg strips the line, so whitespace at the
# very end of the last argument (or at the very start/end of the line) does not survive the receive path.
def edge_ws(g):
    """the line of this message loses more than its CR LF to str.strip(): first or last character is whitespace"""
    c = g['command']
    first = '@' if g['tags'] else (':' if g['prefix'] else c[:1])
    last = (g['args'][-1][-1:] or ':') if g['args'] else c[-1:]
    return first.strip() == '' or last.strip() == ''


CLASSES = {'recv_edge_ws': lambda inp: inp.get('op') == 'recv' and edge_ws(inp['msg'])}


def check_line(ctx, ircmsgs, line, mout, kind):
    """one raw line: correspondence + direct oracle"""
    inp = {'op': 'parse', 'line': line}
    ctx.case(kind, inp, nontrivial=bool(line))
    ir, m = impl_parse(ircmsgs, line)
    if mout is not None:
        mr = model_parse_pick(mout, line)
        if mr != ir:
            ctx.disagree(inp, mr, ir, 'IrcMsg(line)')
    # oracle 1: totality
    if ir[0] == 'raise' and ir[1] != 'MalformedIrcMsg':
        ctx.fail(inp, 'parsing raised %s instead of MalformedIrcMsg' % ir[1])
    # oracle 2: re-serialising a parsed line gives back that line (modulo the final newline the parser adds)
    if m is not None:
        want = line if line.endswith('\n') else line + '\n'
        if str(m) != want:
            ctx.fail(inp, 'str(IrcMsg(line)) = %r' % str(m))


def check_hostmask(ctx, ircutils, h, mout):
    inp = {'op': 'hostmask', 'hostmask': h}
    ctx.case('hostmask', inp, nontrivial=bool(h))
    is_hm = ircutils.isUserHostmask(h)
    try:
        ir = ('ok', list(ircutils.splitHostmask(h)))
    except Exception as e:
        ir = ('raise', type(e).__name__)
    if mout is not None:
        mr = [bool(mout[0]), wire.r(mout[1], lambda v: [wire.s(x) for x in v])]
        if mr != [is_hm, ir]:
            ctx.disagree(inp, mr, [is_hm, ir], 'isUserHostmask / splitHostmask')
    # oracle: what isUserHostmask accepts, splitHostmask splits into pieces that rejoin to it
    if is_hm and (ir[0] != 'ok' or '%s!%s@%s' % tuple(ir[1]) != h):
        ctx.fail(inp, 'isUserHostmask accepts %r but splitHostmask gives %r' % (h, ir))
    if not is_hm and ir != ('raise', 'AssertionError'):
        ctx.fail(inp, 'isUserHostmask rejects %r but splitHostmask gives %r' % (h, ir))


def gen_msg(rng):
    pool = ['a', 'B', 'x y', ':', ' ', '::', 'é', '@', ';', '=', '\\', 'a:b', ' :', '', '\t', 'zz\\s', '\\', 'a\\']
    word = lambda: rng.choice(['PRIVMSG', 'PING', '001', 'a', 'CAP', 'é', '@x', 'x@', 'a:b', 'a;', 'a=', 'P\xa0', '\tQ', 'R\x0c'])
    tags = {}
    if rng.random() < 0.5:
        for _ in range(rng.randint(1, 3)):
            k = rng.choice(['a', 'time', 'b/c', '+d', 'é', 'msgid', 'x-y'])
            v = rng.choice([None, '', 'v', 'a b', 'a;b', 'a\\b', '\\', 'x\ny', 'x\ry', '\\s', 'é ', '2020-01-02T03:04:05.678Z',
                            '2020-13-02T03:04:05.678Z', ' ', ';', '\\\\', 'a\\:', 'x==', '=lead', 'k=v', 'a=b=c;d', '='])
            tags[k] = v
    prefix = rng.choice(['', '', 'nick!user@host', 'irc.server', 'é!u@h', 'n', 'a!b@c!d', 'a!b!c@d', 'a@b!c@d', 'n!u@h@i', '!a!b@c@', 'a!b@c!@',
                         'n!u@', '!u@h', 'n!@h', 'a\xa0!b@c', 'a!b@c\t'])
    nargs = rng.choice([0, 0, 1, 1, 2, 3, 5, 15])
    args = [rng.choice(['#chan', 'nick', 'a', 'é', 'x;y', 'a=b', '@a', 'a:b', 'a:',
                        # whitespace other than the ASCII space is ordinary text in a middle argument
                        '#chan\xa0', '\xa0x', 'a\t', '\tb', '\x0c', '\x1f#c\x1f', '\u2003x', 'y\u2028', '\x0b', 'z\x85']) for _ in range(max(0, nargs - 1))]
    if nargs:
        args.append(rng.choice(pool + ['hello world', ':) hi', ' lead', 'trail ', 'a :b', ':', '']))
    return {'tags': tags, 'prefix': prefix, 'command': word(), 'args': args}


def wf_msg(g):
    """the hypotheses of theorem C05_parse_serialize (wf), in Python: for these the round trip must hold"""
    c = g['command']
    if not c or ' ' in c or c[0] == ':' or any(x in c for x in '\r\n\0'):
        return False
    if not g['prefix'] and not g['tags'] and c[0] == '@':
        return False
    if any(x in g['prefix'] for x in ' \r\n\0'):
        return False
    for a in g['args'][:-1]:
        if not a or ' ' in a or a[0] == ':':
            return False
    if any(ch in a for a in g['args'] for ch in '\r\n\0'):
        return False
    for k, v in g['tags'].items():
        if any(ch in k for ch in ' ;=\r\n\0'):
            return False
    tv = g['tags'].get('time', 0)
    if tv != 0 and (tv is None or tv == '' or not strptime_ok(tv)):
        return False
    return True


def check_msg(ctx, ircmsgs, g, mout, mout2=None):
    inp = {'op': 'build', 'msg': g}
    ctx.case('structured' + ('-tags' if g['tags'] else ''), inp)
    try:
        m = ircmsgs.IrcMsg(prefix=g['prefix'], command=g['command'], args=tuple(g['args']),
                           server_tags=dict(g['tags']) if g['tags'] else None)
        line = str(m)
    except AssertionError:
        return
    except Exception as e:
        ctx.fail(inp, 'building the message raised %s: %s' % (type(e).__name__, e))
        return
    if mout is not None and wire.s(mout) != line:
        ctx.disagree(inp, wire.s(mout), line, 'str(IrcMsg(kw))')
    # messages do not share state: writing into one message's tag dict (Irc.takeMsg adds label=, _makeReply adds
    # +draft/reply= in place) must not show up in a message built afterwards without tags
    if not g['tags']:
        kw = dict(prefix=g['prefix'], command=g['command'], args=tuple(g['args']))
        a = ircmsgs.IrcMsg(**kw)                    # server_tags left to its default
        if not isinstance(a.server_tags, dict) or not isinstance(m.server_tags, dict):
            ctx.fail(inp, 'a message built without tags has server_tags = %r / %r, not a dict' % (a.server_tags, m.server_tags))
        else:
            a.server_tags['verif-leak'] = 'x'
            fresh = ircmsgs.IrcMsg(**kw)
            leaked = bool(fresh.server_tags) or str(fresh) != line
            del a.server_tags['verif-leak']
            if leaked:
                ctx.fail(inp, 'a message built without tags after another one was tagged in place serialises as %r' % str(fresh))
    # the cache: every later str()/len() must give the string the first str() gave (theorem C05_str_stable)
    line2, n = str(m), len(m)
    if mout2 is not None and [wire.s(x) for x in mout2] != [line, line2]:
        ctx.disagree(inp, [wire.s(x) for x in mout2], [line, line2], 'two successive str(IrcMsg(kw))')
    if line2 != line or n != len(line):
        ctx.fail(inp, 'str() is not stable: first %r, second %r, len() %d' % (line, line2, n))
    if wf_msg(g):
        ir, m2 = impl_parse(ircmsgs, line)
        norm = [[k, (v if v != '' else None)] for k, v in g['tags'].items()]
        want = ('ok', [norm, g['prefix'], g['command'], list(g['args'])])
        if ir[0] == 'ok':
            # nick, user, host: either the prefix three times, or three pieces that rejoin to the prefix
            n, u, h = ir[1][4:7]
            if not ((n, u, h) == (g['prefix'],) * 3 or '%s!%s@%s' % (n, u, h) == g['prefix']):
                ctx.fail(inp, 'nick/user/host %r do not rejoin to the prefix %r' % ((n, u, h), g['prefix']))
            ir = ('ok', ir[1][:4])
        if ir != want:
            ctx.fail(inp, 'round trip: built %r, serialised %r, parsed back %r' % (want[1], line, ir))


def check_recv(ctx, ircmsgs, drivers, g, mout):
    """the receive path: drivers.parseMsg(str(msg)) gives the message back (theorem C05_parsemsg_serialize_on_domain)"""
    if not wf_msg(g):
        return
    inp = {'op': 'recv', 'msg': g}
    ctx.case('receive-path' + ('-edge-whitespace' if edge_ws(g) else ''), inp)
    line = str(ircmsgs.IrcMsg(prefix=g['prefix'], command=g['command'], args=tuple(g['args']),
                              server_tags=dict(g['tags']) if g['tags'] else None))
    ir = impl_parsemsg(ircmsgs, drivers, line)
    if mout is not None:
        mr = model_parse_pick(mout, line, opt=True)
        if mr != ir:
            ctx.disagree(inp, mr, ir, 'drivers.parseMsg(str(msg))')
    norm = [[k, (v if v != '' else None)] for k, v in g['tags'].items()]
    want = [norm, g['prefix'], g['command'], list(g['args'])]
    if ir[0] != 'ok' or ir[1] is None or ir[1][:4] != want:
        ctx.fail(inp, 'receive path: built %r, line %r, drivers.parseMsg gives %r' % (want, line, ir))


def impl_parsemsg(ircmsgs, drivers, line):
    try:
        m = drivers.parseMsg(line)
    except ircmsgs.MalformedIrcMsg:
        return ('raise', 'MalformedIrcMsg')
    except Exception as e:
        return ('raise', type(e).__name__)
    if m is None:
        return ('ok', None)
    return ('ok', [[[k, v] for k, v in m.server_tags.items()], m.prefix, m.command, list(m.args), m.nick, m.user, m.host])


def msg_wire(g):
    return [1, [[[k, wire.opt(v)] for k, v in g['tags'].items()], g['prefix'], g['command'], g['args']]]


CORPUS_LINES = [':a!b@c!d PING :x', ':a!b@c@d!e PING', ':a!b@c!d\n PING', ':n!u@h PING', ':n!u@h\n', ':!@ PING', ':a@b!c PING', ':a!b!c@d@e x',
                '', ':', '@', '@a', '@a ', '@a  ', ' ', '  ', ':x', ':x ', 'PING', 'PING :x', ':s PING :x\r\n', '@time :x PING y',
                '@time= :x PING y', '@time=\\ :x PING', '@time=bad :x PING', '@time=2020-01-02T03:04:05.678Z :x PING y',
                '@a=b;a=c;d PING', '@a=\\s\\:\\r\\n\\\\\\x\\ PING', ':p :', ' :', 'a :', ':a b c :d e  f \r\n\r\n', 'A  B   C',
                '@;;= X', '@=', '@a=\\\n X', 'PRIVMSG #c :a\rb', '\n', '\r\n', 'x\n\n', '@a x\n', ':\n', ': x']


def run(ctx):
    ircmsgs = _ircmsgs()
    rng = ctx.rng
    lines = [(l, 'corpus') for l in CORPUS_LINES]
    maxlen = 4 if ctx.scale == 1 else (5 if ctx.scale < 10 else 6)
    for n in range(1, maxlen + 1):
        for t in itertools.product(ALPHA, repeat=n):
            lines.append((''.join(t), 'exhaustive-len%d' % n))
    ctx.exhaustive = True
    ctx.notes.append('raw lines over %r exhaustive up to length %d' % (''.join(ALPHA), maxlen))
    # grammar-aware mutations
    for _ in range(ctx.n(3000)):
        g = gen_msg(rng)
        try:
            base = str(ircmsgs.IrcMsg(prefix=g['prefix'], command=g['command'], args=tuple(g['args']),
                                      server_tags=dict(g['tags']) if g['tags'] else None))
        except Exception:
            base = ':a PRIVMSG #c :x\r\n'
        k = rng.random()
        if k < 0.3:
            i = rng.randrange(len(base) + 1)
            base = base[:i] + rng.choice(ALPHA + ['@time', 'time=', ' :', '  ']) + base[i:]
        elif k < 0.5 and base:
            i = rng.randrange(len(base))
            base = base[:i] + base[i + 1:]
        elif k < 0.6:
            base = base.rstrip('\r\n')
        lines.append((base, 'mutated'))
    outs = ctx.model([[0, l] for l, _ in lines])
    for (l, kind), mo in zip(lines, outs):
        check_line(ctx, ircmsgs, l, mo, kind)
    # the same lines through drivers.parseMsg (strip, then IrcMsg): correspondence + totality
    import supybot.drivers as drivers
    outs = ctx.model([[6, l] for l, _ in lines])
    for (l, kind), mo in zip(lines, outs):
        inp = {'op': 'parsemsg', 'line': l}
        ir = impl_parsemsg(ircmsgs, drivers, l)
        if mo is not None:
            mr = model_parse_pick(mo, l, opt=True)
            if mr != ir:
                ctx.disagree(inp, mr, ir, 'drivers.parseMsg(line)')
        if ir[0] == 'raise' and ir[1] != 'MalformedIrcMsg':
            ctx.fail(inp, 'drivers.parseMsg raised %s instead of MalformedIrcMsg' % ir[1])
    # ircutils.isUserHostmask / splitHostmask on their own: exhaustive over a small alphabet
    import supybot.ircutils as ircutils
    hml = 6 if ctx.scale == 1 else 7
    hms = [''.join(t) for n in range(0, hml + 1) for t in itertools.product(HM_ALPHA, repeat=n)]
    hms += ['nick!user@host', 'a!b@c!d', 'é!ü@ñ', 'a!b@c\n', 'a!b@c\n\n', 'a\u2003!b@c', 'a!b@c\r']
    ctx.notes.append('hostmask strings over %r exhaustive up to length %d' % (''.join(HM_ALPHA), hml))
    ho = ctx.model([[5, h] for h in hms])
    for h, o in zip(hms, ho):
        check_hostmask(ctx, ircutils, h, o)
    # tag value escape/unescape
    vals = [''.join(t) for n in range(0, 5) for t in itertools.product(['\\', ' ', ';', 's', ':', '\n', '\r', 'n', 'é'], repeat=n)]
    eo = ctx.model([[2, v] for v in vals])
    uo = ctx.model([[3, v] for v in vals])
    for v, e, u in zip(vals, eo, uo):
        inp = {'op': 'tagvalue', 'value': v}
        ctx.case('tagvalue', inp)
        ie, iu = ircmsgs.escape_server_tag_value(v), ircmsgs.unescape_server_tag_value(v)
        if e is not None and (wire.s(e) != ie or wire.s(u) != iu):
            ctx.disagree(inp, [wire.s(e), wire.s(u)], [ie, iu], 'escape/unescape')
        if ircmsgs.unescape_server_tag_value(ie) != v:
            ctx.fail(inp, 'unescape(escape(v)) = %r' % ircmsgs.unescape_server_tag_value(ie))
    # structured messages
    gs = [gen_msg(rng) for _ in range(ctx.n(4000))]
    mo = ctx.model([msg_wire(g) for g in gs])
    mo2 = ctx.model([[4, msg_wire(g)[1]] for g in gs])
    for g, o, o2 in zip(gs, mo, mo2):
        check_msg(ctx, ircmsgs, g, o, o2)
    rg = [g for g in gs if wf_msg(g)]
    rlines = []
    for g in rg:
        try:
            rlines.append(str(ircmsgs.IrcMsg(prefix=g['prefix'], command=g['command'], args=tuple(g['args']),
                                             server_tags=dict(g['tags']) if g['tags'] else None)))
        except Exception:
            rlines.append('')
    ro = ctx.model([[6, l] for l in rlines])
    for g, o in zip(rg, ro):
        check_recv(ctx, ircmsgs, drivers, g, o)


def replay(ctx, inp):
    ircmsgs = _ircmsgs()
    sub = type(ctx)(ctx.pid, ctx.tier, ctx.seed, {'model_ok': False})
    if inp['op'] == 'parse':
        check_line(sub, ircmsgs, inp['line'], None, 'replay')
    elif inp['op'] == 'build':
        check_msg(sub, ircmsgs, inp['msg'], None)
    elif inp['op'] == 'recv':
        import supybot.drivers as drivers
        check_recv(sub, ircmsgs, drivers, inp['msg'], None)
    elif inp['op'] == 'parsemsg':
        import supybot.drivers as drivers
        ir = impl_parsemsg(ircmsgs, drivers, inp['line'])
        if ir[0] == 'raise' and ir[1] != 'MalformedIrcMsg':
            sub.fail(inp, 'drivers.parseMsg raised %s' % ir[1])
    elif inp['op'] == 'hostmask':
        import supybot.ircutils as ircutils
        check_hostmask(sub, ircutils, inp['hostmask'], None)
    elif inp['op'] == 'tagvalue':
        v = inp['value']
        if ircmsgs.unescape_server_tag_value(ircmsgs.escape_server_tag_value(v)) != v:
            sub.fail(inp, 'tag value round trip')
    return sub.failures[0]['detail'] if sub.failures else None


def shrink(ctx, inp):
    if inp['op'] != 'parse':
        return inp
    small = shrink_seq(inp['line'], lambda l: replay(ctx, {'op': 'parse', 'line': l}) is not None)
    return {'op': 'parse', 'line': small}
