"""C18 — scheduled events fire exactly once, in time order, with their arguments."""
import types
import boot
from lib import wire
from lib.shrink import shrink_seq

TABLES = ['T18']
RULE = ('histories of addEvent/addPeriodicEvent/removeEvent/rescheduleEvent/run/clock-advance (ties, past times, name reuse, auto names, names of every hashable kind: counter ints, strs with and without % directives, tuples of 0-3 strs, '
        'raising functions, functions that take time, events that add/remove/reschedule events while running, wrong arity) are '
        'interpreted on a fresh real schedule.Schedule() with a virtual clock and instrumented event functions, and on the extracted '
        'model fed with the names the real heappop returned (tie-break oracle); after every operation the result/exception, heap '
        'entries, event names, counter and clock are diffed, at the end the call log and pop log.  A spec tracker written from the '
        'property text judges every call of an event function on the implementation (scheduled? removed? once? due? minimal due '
        'among pending? registered args?) and every completed run() (nothing due left).  non-trivial = distinct history with >= 1 run')
TRUSTED = ['heapq is a bag with an oracle-driven pop in the model; the correspondence run checks that every real heappop returned an '
           'entry of minimal time (model flag obad) — theorems hold for every oracle, i.e. any tie-break',
           'the virtual clock replaces the module attribute `time` of supybot.schedule (time(), sleep()); threading.Lock and real threads are not modelled',
           'instrumented event functions interpret the same action terms as the model (harness/c18.py Env.do)']
ASSUMPTIONS = ['world.testing/log.testing off; Python asserts enabled (no -O); single-threaded use of Schedule (the driver loop); '
               'event functions only raise Exception subclasses; schedule.run() is not called from inside an event']
LEVEL_TEXT = ('Coq theorems over an executable Gallina model of schedule.Schedule (addEvent, removeEvent, rescheduleEvent, periodic wrapper, run loop) '
              'for all histories, all event bodies of the action language, all clocks and all heap tie-breaks: every scheduling is at any time in exactly one '
              'of pending/executed/removed (exactly once, removed never run), executed only when due and minimal among pending, a completed run() leaves nothing due '
              'whatever the events raise, events/heap stay consistent under re-entrant mutation, the periodic wrapper re-adds itself even when f raises; '
              'every history (periodic events, re-entrant / raising / clock-ticking callbacks) refines an abstract bag semantics with a small-step run() (C18_bag_refines), a periodic event with count n fires at most max(n,1) times (C18_periodic_count); '
              'every executed or pending entry carries the arguments it was registered with, also across rescheduleEvent (full statement since the fix of C18.F17). '
              'The model is tied to the source by a fail-closed AST table and a differential run against the real Schedule on every check.')
LEVEL_NOTE = ('Trusted: Coq kernel, gen_tables.py, extraction + OCaml driver, the Python harness; heapq enters as an oracle whose contract '
              '(pop returns a minimal-time entry) is checked on every differential case; Python code is modelled, not verified. '
              'NOT modelled (gap audit): threading.Lock / calls from other threads; run() called from inside an event; event functions raising '
              'BaseException that is not Exception (SystemExit escapes run(), and the bare except of drivers.run() then drops the Schedule driver); '
              'due times that are not numbers (float NaN starves the loop: finding C18.F26; the model has integer times); Schedule.reset(); '
              'the Scheduler plugin model (PModel.v) has no events of OTHER plugins in the schedule and no plugin-less restart (histories with them are '
              'judged on the implementation by the direct oracle only; the id collision they exposed, C18.F25, is repaired), abstracts the scheduler to a '
              'name-unique bag, assumes scheduled commands do not themselves call scheduler commands, and does not model a crash between an event firing '
              'and the next flush of Scheduler.pickle (at-least-once across crashes), nor a failing pickle.dump (would replace the pickle by a truncated file); '
              'liveness at plugin level (a listed request is scheduled and fires) is checked by the oracle, not proved -- proved are at-most-once, '
              'no double scheduling, live closures, listed ids.')
TECHNIQUE = 'Coq proof (state invariant preserved by every primitive, induction over action terms / loop fuel / histories) + regenerated table + extracted-model differential correspondence'
EXPLANATION = 'C18 (scheduler + Scheduler plugin across reload/restart: coq/C18/PModel.v, PProofs.v): model of src/schedule.py in coq/C18/Model.v; invariant proofs in coq/C18/Lemmas.v; theorems in coq/C18/Props.v'

CAP = 150          # calls of event functions per history before it is discarded as non-terminating
FUEL = 400
EXC = {'IndexError': 1, 'ValueError': 2, 'KeyError': 3, 'TypeError': 4, 'AssertionError': 5, 'AttributeError': 6, 'Exception': 12}


class Runaway(BaseException):
    pass


# event names of every hashable kind ("name must be hashable and not an int"): Named k is a str for k < 8 -- some with
# % directives in them -- and a tuple of k - 8 strs for k >= 8 (the model only needs to know how many values
# `template % name` would supply: Model.fmt_args)
STR_NAMES = {0: 'e0', 1: 'e1', 2: 'e2', 3: 'e%s', 4: '%d%%x', 5: 'e5', 6: '%(k)s', 7: 'e7'}
TUPLE_PARTS = ['#chan', 'nick', 'x', 'y', 'z']


def named(k):
    if k < 8:
        return STR_NAMES[k]
    return tuple(TUPLE_PARTS[i % 5] + ('' if i < 5 else str(i)) for i in range(k - 8))


_NAME_BACK = {}
for _k in range(0, 16):
    _NAME_BACK[named(_k)] = _k


def pyname(n):
    return None if n is None else (n[1] if n[0] == 'a' else named(n[1]))


def canon_name(x):
    return [0, x] if isinstance(x, int) else [1, _NAME_BACK[x]]


NAME_POOL = [0, 0, 0, 1, 1, 2, 3, 4, 8, 9, 10, 10, 11]


class Tracker:
    """the property text as a checker of what happens on the implementation"""

    def __init__(self):
        self.pending = {}       # reg -> dict(name, due, args, kw, per)
        self.byname = {}
        self.running = {}       # periodic regs being executed -> record
        self.immediate = {}     # periodic regs added with now=True, before their direct call
        self.removed, self.done, self.unremovable = set(), set(), set()
        self.failures = []      # texts
        self.unspec = None

    def fail(self, text):
        if not self.unspec:
            self.failures.append(text)

    def name_taken(self, reg, name):
        if name in [r['name'] for k, r in self.running.items() if k != reg]:
            self.unspec = 'name of a running periodic event reused'

    def added(self, reg, name, due, args, kw, per=None):
        self.name_taken(reg, name)
        self.pending[reg] = dict(name=name, due=due, args=list(args), kw=dict(kw), per=per)
        self.byname[name] = reg

    def auto_periodic_pending(self):
        """an auto-named periodic event whose current counter name the caller cannot know (it changes at every recurrence)"""
        known = set(self.byname.values())
        return any(p['per'] and p['name'] is None and r not in known
                   for r, p in list(self.pending.items()) + list(self.running.items()))

    def removed_ok(self, name):
        reg = self.byname.pop(name, None)
        if reg is None:
            if self.auto_periodic_pending():
                self.unspec = 'auto-named periodic event addressed by its current counter name'
            return
        del self.pending[reg]
        self.removed.add(reg)

    def remove_failed(self, name):
        """removeEvent(name) raised although the caller holds a valid name of a pending event"""
        reg = self.byname.get(name)
        if reg is not None:
            self.unremovable.add(reg)

    def resched_ok(self, name, t):
        reg = self.byname.get(name)
        if reg is None:
            if self.auto_periodic_pending():
                self.unspec = 'auto-named periodic event addressed by its current counter name'
            return
        self.pending[reg]['due'] = t          # same event, same arguments, new time

    def call(self, reg, a, kw, clock):
        if reg in self.immediate:
            p = self.immediate.pop(reg)
            self.running[reg] = p
            if (list(a), kw) != (p['args'], p['kw']):
                self.fail('periodic event reg %d called with %r %r, registered with %r %r' % (reg, a, kw, p['args'], p['kw']))
            return
        p = self.pending.pop(reg, None)
        if p is None:
            why = ('was removed' if reg in self.removed else 'already ran' if reg in self.done or reg in self.running
                   else 'is not scheduled')
            self.fail('event reg %d ran at clock %d although it %s' % (reg, clock, why))
            return
        for k in [k for k, v in self.byname.items() if v == reg]:
            del self.byname[k]
        if reg in self.unremovable:
            self.fail('event reg %d ran at clock %d although removeEvent(%r) had been called for it (it raised)' % (reg, clock, p['name']))
        if clock < p['due']:
            self.fail('event reg %d due %d ran early at clock %d' % (reg, p['due'], clock))
        others = [q['due'] for q in self.pending.values()]
        if others and min(others) < p['due']:
            self.fail('event reg %d due %d ran while an event due %d was pending' % (reg, p['due'], min(others)))
        if (list(a), kw) != (p['args'], p['kw']):
            self.fail('event reg %d ran with args %r %r, registered with %r %r' % (reg, list(a), kw, p['args'], p['kw']))
        if p['per']:
            self.running[reg] = p
        else:
            self.done.add(reg)

    def exit(self, reg, clock):
        p = self.running.pop(reg, None)
        if p is None:
            return
        per = p['per']
        if per['count'] is not None:
            per['count'] -= 1
        if per['count'] is None or per['count'] > 0:
            p['due'] = clock + per['period']
            self.pending[reg] = p
            if p['name'] is not None and p['name'] not in self.byname:
                self.byname[p['name']] = reg
        else:
            self.done.add(reg)

    def per_failed(self, reg):
        """addPeriodicEvent raised: nothing stays scheduled"""
        self.pending.pop(reg, None)
        self.immediate.pop(reg, None)
        for k in [k for k, v in self.byname.items() if v == reg]:
            del self.byname[k]

    def run_done(self, clock):
        for reg, p in sorted(self.pending.items()):
            if p['due'] < clock:
                self.fail('event reg %d due %d has not run when run() returned at clock %d' % (reg, p['due'], clock))


class Env:
    def __init__(self):
        boot.boot()
        import supybot.schedule as sm
        self.sm = sm
        self.clock = 0
        self.calls, self.pops, self.snaps = [], [], []
        self.nreg = 0
        self.runaway = False
        self.tr = Tracker()
        env = self
        import heapq as real

        class HQ:
            heappush = staticmethod(real.heappush)
            heapify = staticmethod(real.heapify)

            @staticmethod
            def heappop(h):
                x = real.heappop(h)
                env.pops.append([env.clock, env.entry(x)])
                return x
        self.fake_time = types.SimpleNamespace(time=lambda: env.clock, sleep=lambda s: None)
        self.fake_heapq = HQ
        self.saved = (sm.time, sm.heapq)
        sm.time, sm.heapq = self.fake_time, self.fake_heapq
        try:
            self.S = sm.Schedule()
        except Exception:
            self.restore()
            raise

    def restore(self):
        self.sm.time, self.sm.heapq = self.saved
        import supybot.drivers as drivers
        drivers._drivers['Schedule'] = self.sm.schedule     # the module-level instance is the registered driver again

    @staticmethod
    def entry(x):
        return [x[0], canon_name(x[1]), list(x[2]), sorted([int(k[1:]), v] for k, v in x[3].items())]

    def mkfn(self, reg, ar, body):
        env = self

        def f(*a, **kw):
            env.calls.append([env.clock, reg, list(a), sorted([int(k[1:]), v] for k, v in kw.items())])
            if len(env.calls) > CAP:
                env.runaway = True       # sticky: `return` in the wrapper's finally swallows even BaseException
                raise Runaway()
            env.tr.call(reg, a, kw, env.clock)
            try:
                if ar is not None and (len(a) != ar or kw):
                    raise TypeError('f() takes %d positional arguments' % ar)
                env.do(body)
            finally:
                env.tr.exit(reg, env.clock)
        f._reg = reg
        return f

    def do(self, a):
        k = a[0]
        S, tr = self.S, self.tr
        if k == 'nop':
            return
        if k == 'raise':
            raise Exception('boom')
        if k == 'tick':
            self.clock += a[1]
        elif k == 'add':
            _, tag, ar, body, dt, nm, args, kwargs = a
            reg = self.nreg
            self.nreg += 1
            kw = {'k%d' % x: v for x, v in kwargs}
            due = self.clock + dt
            name = S.addEvent(self.mkfn(reg, ar, body), due, name=pyname(nm), args=list(args), kwargs=kw)
            tr.added(reg, name, due, args, kw)
        elif k == 'per':
            _, tag, ar, body, period, nm, nowf, args, kwargs, count = a
            reg = self.nreg
            self.nreg += 1
            kw = {'k%d' % x: v for x, v in kwargs}
            rec = dict(name=pyname(nm), due=self.clock + period, args=list(args), kw=kw, per=dict(period=period, count=count))
            if count is not None and count < 1:
                tr.unspec = 'count < 1'
            if nowf:
                tr.immediate[reg] = rec
            try:
                name = S.addPeriodicEvent(self.mkfn(reg, ar, body), period, name=pyname(nm), now=nowf,
                                          args=list(args), kwargs=kw, count=count)
            except Exception:
                tr.per_failed(reg)
                raise
            if not nowf:
                tr.added(reg, name, rec['due'], args, kw, rec['per'])
                tr.pending[reg]['name'] = rec['name']    # None: the counter name changes at every recurrence
            elif name is not None:
                tr.name_taken(reg, name)
            if nowf and nm is None and reg in tr.pending and name is not None:
                tr.byname[name] = reg                    # the returned id is valid until the next recurrence
        elif k == 'rm':
            try:
                S.removeEvent(pyname(a[1]))
            except Exception:
                tr.remove_failed(pyname(a[1]))
                raise
            tr.removed_ok(pyname(a[1]))
        elif k == 'rs':
            t = self.clock + a[2]
            S.rescheduleEvent(pyname(a[1]), t)
            tr.resched_ok(pyname(a[1]), t)
        elif k == 'seq':
            self.do(a[1])
            self.do(a[2])
        elif k == 'try':
            try:
                self.do(a[1])
            except Exception:
                pass
        else:
            raise ValueError(a)

    def snap(self, res):
        S = self.S
        self.snaps.append([res, sorted(self.entry(x) for x in S.schedule), sorted(canon_name(n) for n in S.events),
                           S.counter, self.clock])

    def top(self, o):
        res = [0, []]
        try:
            if o[0] == 'act':
                self.do(o[1])
            elif o[0] == 'run':
                try:
                    self.S.run()
                except Exception as e:
                    self.tr.fail('run() raised %s' % type(e).__name__)
                    raise
                self.tr.run_done(self.clock)
            elif o[0] == 'adv':
                self.clock += o[1]
        except Exception as e:
            res = [1, EXC.get(type(e).__name__, 12)]
        self.snap(res)


def run_impl(ops):
    """returns dict(snaps, calls, pops, failures, unspec) or None when the history does not terminate"""
    env = Env()
    try:
        for o in ops:
            env.top(o)
    except Runaway:
        return None
    finally:
        env.restore()
    if env.runaway:
        return None
    return dict(snaps=env.snaps, calls=env.calls, pops=env.pops, failures=env.tr.failures, unspec=env.tr.unspec)


# ---------------------------------------------------------------- wire
def w_opt(x):
    return [] if x is None else [x]


def w_name(n):
    return [0, n[1]] if n[0] == 'a' else [1, n[1]]


def w_act(a):
    k = a[0]
    if k == 'nop':
        return [0]
    if k == 'raise':
        return [1]
    if k == 'tick':
        return [2, a[1]]
    if k == 'add':
        _, tag, ar, body, dt, nm, args, kwargs = a
        return [3, tag, w_opt(ar), w_act(body), dt, w_opt(nm[1] if nm else None), list(args), [list(p) for p in kwargs]]
    if k == 'per':
        _, tag, ar, body, period, nm, nowf, args, kwargs, count = a
        return [4, tag, w_opt(ar), w_act(body), period, w_opt(nm[1] if nm else None), bool(nowf), list(args),
                [list(p) for p in kwargs], w_opt(count)]
    if k == 'rm':
        return [5, w_name(a[1])]
    if k == 'rs':
        return [6, w_name(a[1]), a[2]]
    if k == 'seq':
        return [7, w_act(a[1]), w_act(a[2])]
    if k == 'try':
        return [8, w_act(a[1])]
    raise ValueError(a)


def w_op(o):
    return [0, w_act(o[1])] if o[0] == 'act' else ([1] if o[0] == 'run' else [2, o[1]])


def d_argv(v):
    return [list(v[0]), sorted([p[0], p[1]] for p in v[1])]


def d_entry(v):
    return [v[0], v[1]] + d_argv(v[2])


def d_model(out):
    snaps = [[s[0] if s[0][0] else [0, []], sorted(d_entry(e) for e in s[1]), sorted(s[2]), s[3], s[4]] for s in out[0]]
    calls = [[c[0], c[1]] + d_argv(c[2]) for c in out[1]]
    pops = [[p[0], d_entry(p[1])] for p in out[2]]
    return dict(snaps=snaps, calls=calls, pops=pops, flags=out[3], oracle_left=out[4])


# ---------------------------------------------------------------- generators
def g_name(rng):
    return ['n', rng.choice(NAME_POOL)] if rng.random() < 0.75 else ['a', rng.choice([0, 0, 1, 2, 3])]


def g_args(rng):
    args = [rng.randrange(10) for _ in range(rng.choice([0, 0, 1, 1, 2]))]
    kw = [[k, rng.randrange(10)] for k in sorted(rng.sample([0, 1, 2], rng.choice([0, 0, 0, 1, 2])))]
    return args, kw


def g_fn(rng, depth, args, kw):
    r = rng.random()
    ar = None if (r < 0.45 or kw) else (len(args) if r < 0.95 else len(args) + 1)
    return ar, g_body(rng, depth)


def g_body(rng, depth):
    r = rng.random()
    if depth <= 0 or r < 0.45:
        return rng.choice([['nop'], ['nop'], ['nop'], ['raise'], ['tick', rng.choice([0, 1, 2, 5])]])
    if r < 0.7:
        x = g_api(rng, depth - 1)
        return ['try', x] if rng.random() < 0.5 else x
    if r < 0.9:
        return ['seq', g_body(rng, depth - 1), g_body(rng, depth - 1)]
    return ['seq', g_body(rng, depth - 1), ['raise']]


def g_api(rng, depth, tagc=[0]):
    r = rng.random()
    tagc[0] = (tagc[0] + 1) % 1000
    if r < 0.45:
        args, kw = g_args(rng)
        ar, body = g_fn(rng, depth, args, kw)
        nm = None if rng.random() < 0.3 else ['n', rng.choice(NAME_POOL)]
        return ['add', tagc[0], ar, body, rng.choice([-3, -1, 0, 1, 1, 2, 2, 3, 4, 5]), nm, args, kw]
    if r < 0.65:
        args, kw = g_args(rng)
        ar, body = g_fn(rng, depth, args, kw)
        nm = None if rng.random() < 0.2 else ['n', rng.choice(NAME_POOL)]
        return ['per', tagc[0], ar, body, rng.choice([1, 1, 2, 3, 3, 5]), nm, rng.random() < 0.4, args, kw,
                rng.choice([None, None, 1, 2, 2, 3, 3] + ([0] if rng.random() < 0.1 else []))]
    if r < 0.82:
        return ['rm', g_name(rng)]
    return ['rs', g_name(rng), rng.choice([-2, 0, 1, 2, 3, 6])]


def g_history(rng, hostile):
    ops = []
    for _ in range(rng.randint(3, 14)):
        r = rng.random()
        if r < 0.5:
            ops.append(['act', g_api(rng, 2 if hostile else 1)])
        elif r < 0.72:
            ops.append(['adv', rng.choice([0, 1, 1, 2, 3, 5, 8])])
        else:
            ops.append(['run'])
    ops += [['adv', rng.choice([1, 4, 9])], ['run']]
    return ops


A = lambda **k: k
CORPUS = [
    # witnesses of C18.F17 (fixed): reschedule must keep args/kwargs (fixed arity: TypeError swallowed; variadic: called with nothing)
    [['act', ['add', 1, 1, ['nop'], 1, ['n', 0], [7], []]], ['act', ['rs', ['n', 0], 2]], ['adv', 5], ['run']],
    [['act', ['add', 1, None, ['nop'], 1, ['n', 0], [7], [[1, 4]]]], ['act', ['rs', ['n', 0], 2]], ['adv', 5], ['run']],
    # run()'s except handler must not raise whatever the event is called: raising callbacks registered under a tuple of
    # 2 / 0 / 1 / 3 strs and under strs with % directives, each followed by events that must still run in the same run()
    [['act', ['add', 1, None, ['raise'], 1, ['n', 10], [], []]], ['act', ['add', 2, None, ['nop'], 2, ['n', 0], [1], []]],
     ['act', ['add', 3, None, ['nop'], 2, None, [], []]], ['adv', 5], ['run']],
    [['act', ['add', 1, None, ['raise'], 1, ['n', 8], [], []]], ['act', ['add', 2, None, ['raise'], 1, ['n', 9], [], []]],
     ['act', ['add', 3, None, ['raise'], 1, ['n', 11], [], []]], ['act', ['add', 4, None, ['raise'], 1, ['n', 3], [], []]],
     ['act', ['add', 5, None, ['raise'], 1, ['n', 4], [], []]], ['act', ['add', 6, None, ['raise'], 1, ['n', 6], [], []]],
     ['act', ['add', 7, None, ['nop'], 2, ['n', 1], [], []]], ['adv', 5], ['run']],
    [['act', ['per', 1, 1, ['raise'], 2, ['n', 10], False, [5], [], 1]], ['act', ['add', 2, None, ['nop'], 3, ['n', 9], [], []]],
     ['adv', 5], ['run'], ['act', ['rm', ['n', 10]]], ['act', ['rs', ['n', 9], 1]]],
    # Bag.v Examples ex_pull / ex_mixed, replayed on the real Schedule: a callback reschedules a later event (and another
    # adds one) to before the current time -> both fire in the same run(); a periodic event with count 3 among one-shots
    [['act', ['add', 1, None, ['rs', ['n', 1], -5], 1, ['n', 0], [], []]],
     ['act', ['add', 2, None, ['add', 3, None, ['nop'], -1, ['n', 2], [8], []], 50, ['n', 1], [9], []]], ['adv', 2], ['run']],
    [['act', ['add', 1, None, ['nop'], 4, ['n', 1], [1], []]], ['act', ['per', 2, 1, ['raise'], 2, ['n', 0], False, [5], [], 3]],
     ['act', ['add', 3, None, ['nop'], 5, ['n', 2], [], []]], ['act', ['rm', ['n', 2]]],
     ['adv', 3], ['run'], ['adv', 3], ['run'], ['adv', 3], ['run'], ['adv', 3], ['run']],
    # ties, past times, raising event between two others
    [['act', ['add', 1, 0, ['nop'], 2, None, [], []]], ['act', ['add', 2, 0, ['raise'], 2, None, [], []]],
     ['act', ['add', 3, 0, ['nop'], 2, None, [], []]], ['act', ['add', 4, 0, ['nop'], -3, ['n', 1], [], []]], ['adv', 3], ['run']],
    # event removes a tie-mate / adds an event in the past / reschedules another
    [['act', ['add', 1, None, ['rm', ['n', 1]], 1, ['n', 0], [], []]], ['act', ['add', 2, None, ['nop'], 1, ['n', 1], [1], []]],
     ['adv', 2], ['run']],
    [['act', ['add', 1, None, ['add', 5, None, ['nop'], -5, ['n', 2], [3], []], 1, ['n', 0], [], []]],
     ['act', ['add', 2, None, ['nop'], 2, ['n', 1], [], []]], ['adv', 4], ['run']],
    # periodic with count, raising f, now=True; removal of a periodic; reschedule of a periodic
    [['act', ['per', 1, 1, ['raise'], 2, ['n', 0], True, [5], [], 3]], ['adv', 3], ['run'], ['adv', 3], ['run'], ['adv', 3], ['run']],
    [['act', ['per', 1, None, ['nop'], 1, ['n', 0], False, [], [], None]], ['adv', 2], ['run'], ['act', ['rs', ['n', 0], 5]],
     ['adv', 2], ['run'], ['adv', 5], ['run'], ['act', ['rm', ['n', 0]]], ['adv', 5], ['run']],
    [['act', ['per', 1, None, ['tick', 2], 1, None, True, [1], [], 2]], ['act', ['rm', ['a', 0]]], ['adv', 5], ['run']],
    # name reuse after execution and after removal; duplicate name
    [['act', ['add', 1, None, ['nop'], 1, ['n', 0], [], []]], ['act', ['add', 2, None, ['nop'], 1, ['n', 0], [], []]],
     ['act', ['rm', ['n', 0]]], ['act', ['add', 3, None, ['nop'], 1, ['n', 0], [2], []]], ['adv', 2], ['run'],
     ['act', ['add', 4, None, ['nop'], 0, ['n', 0], [], []]], ['adv', 1], ['run']],
]


# ---------------------------------------------------------------- the Scheduler plugin across reload / restart
_PL = {}


class _StubIrc:
    """what the wrapped plugin commands need from their irc argument"""
    network = 'test'
    nested = 0

    def __init__(self):
        self.out = []

    def replySuccess(self, *a, **k):
        self.out.append('ok')

    def reply(self, *a, **k):
        self.out.append('reply')

    def error(self, *a, **k):
        self.out.append('error')
        if k.get('Raise'):
            import supybot.callbacks as callbacks
            raise callbacks.Error()


def _plugin_world():
    if _PL:
        return _PL
    boot.boot()
    import supybot.schedule as sm, supybot.irclib as irclib, supybot.ircmsgs as ircmsgs, supybot.plugin as plugin
    irc = irclib.Irc('test')
    while irc.takeMsg() is not None:
        pass
    mod = plugin.loadPluginModule('Scheduler')
    _PL.update(sm=sm, irc=irc, mod=mod, msg=ircmsgs.privmsg('#test', 'x', prefix='nick!u@h'))
    return _PL


class PTracker:
    """the property text on what the plugin's user sees: every `scheduler add/remind` fires exactly once, after its time,
    a removed event never fires, a repeat fires at most once per run() -- also across reload and restart"""

    def __init__(self):
        self.cmds = {}
        self.epoch = 0
        self.process = 0
        self.failures = []      # (focus, text)

    def fail(self, text, focus='other'):
        self.failures.append((focus, text))

    def added(self, cmd, kind, due, told=None):
        # told: the id the user was given ('Event #3 added.'); it must keep working until the bot restarts
        self.cmds[cmd] = dict(kind=kind, due=due, removed=False, runs=[], reloaded=False, run_ids=[], told=told,
                              process=self.process, refused=False)

    def process_died(self):
        for c in self.cmds.values():
            if c['kind'] == 'foreign' and not c['runs']:
                c['removed'] = True          # gone with the process, legitimately

    def remove_refused(self, key):
        """`scheduler remove <key>` answered 'Invalid event id'"""
        for cmd, c in self.cmds.items():
            if c['told'] == key and c['process'] == self.process and not c['removed'] and not (c['kind'] == 'single' and c['runs']):
                c['refused'] = True

    def reloaded(self):
        for c in self.cmds.values():
            if not c['removed'] and not c['runs']:
                c['reloaded'] = True

    def fired(self, cmd, clock, runid):
        c = self.cmds.get(cmd)
        if c is None:
            self.fail('command C%d ran but was never scheduled' % cmd)
            return
        if c['removed']:
            self.fail('event C%d ran at clock %d although it was removed' % (cmd, clock))
        if c['refused']:
            self.fail('event C%d ran at clock %d although `scheduler remove %s` (the id it was added under) had been asked; the answer was an error' % (cmd, clock, c['told']))
        if c['kind'] in ('single', 'foreign'):
            if clock <= c['due'] - 1 or clock < c['due']:
                self.fail('event C%d due %d ran early at clock %d' % (cmd, c['due'], clock))
            if c['runs']:
                stale = c['reloaded'] and c['runs'][-1][1] < self.epoch     # epoch counts reloads and restarts
                self.fail('one-shot event C%d ran again at clock %d (first run at clock %d)' % (cmd, clock, c['runs'][0][0]),
                          'stale-after-reload' if stale else 'other')
        elif runid in c['run_ids']:
            self.fail('repeating event C%d ran twice in one run() at clock %d' % (cmd, clock))
        c['runs'].append((clock, self.epoch))
        c['run_ids'].append(runid)

    def run_done(self, clock, loaded=True, suppressed=False, listed=()):
        for cmd, c in sorted(self.cmds.items()):
            if loaded and c['kind'] == 'bad' and not c['removed'] and c['due'] < clock and cmd in listed:
                self.fail('event C%d (its command does not tokenize) was due at %d, has fired, and is still listed at clock %d' % (cmd, c['due'], clock))
        if suppressed and loaded:
            # the scheduling user is ignored and the plugin checks that: due one-shots fired, their effect was suppressed
            for c in self.cmds.values():
                if c['kind'] == 'single' and not c['removed'] and not c['runs'] and c['due'] < clock:
                    c['removed'] = True      # must never run later
                    c['suppressed'] = True
        for cmd, c in sorted(self.cmds.items()):
            if c['kind'] in (('single', 'foreign') if loaded else ('foreign',)) and not c['removed'] and not c['runs'] and c['due'] < clock:
                self.fail('event C%d due %d has not run when run() returned at clock %d' % (cmd, c['due'], clock))


def run_plugin(ops):
    """interpret a plugin history on the real Scheduler plugin + the real global Schedule; returns snaps + failures"""
    W = _plugin_world()
    sm, irc, mod, msg = W['sm'], W['irc'], W['mod'], W['msg']
    import os
    S = sm.schedule
    clock = [0]
    fake = types.SimpleNamespace(time=lambda: clock[0], sleep=lambda s: None)
    log, tr = [], PTracker()
    runid = [0]

    class Rec:
        def __init__(self, irc_, msg_, tokens):
            cmd = int(tokens[-1][1:])
            log.append([clock[0], cmd])
            tr.fired(cmd, clock[0], runid[0])
    saved = (sm.time, mod.plugin.time, mod.Class.__dict__.get('Proxy'))
    sm.time, mod.plugin.time = fake, fake
    mod.Class.Proxy = Rec
    S.reset()
    S.counter = 0
    try:
        os.remove(mod.plugin.filename)
    except OSError:
        pass
    checks_ignored = hasattr(mod.Class, '_isIgnored')
    plug = mod.Class(irc)
    ncmd = [0]
    ignored = [False]
    snaps = []

    def drain():
        while True:
            m = irc.takeMsg()
            if m is None:
                return
            if m.command == 'PRIVMSG' and 'Reminder: C' in m.args[1]:
                cmd = int(m.args[1].split('Reminder: C')[1])
                log.append([clock[0], cmd])
                tr.fired(cmd, clock[0], runid[0])

    def snap():
        d = []
        for k, ev in (plug.events.items() if plug is not None else []):
            key = [0, int(k)] if k.isdigit() else [1, int(k[1:])]
            c = int(ev['command'].split('C')[1])
            if ev['type'] == 'single':
                d.append([key, 0, ev['time'], c, 1 if ev['is_reminder'] else 0])
            else:
                d.append([key, 1, ev['time'], c, ev['first_run']])
        sched = sorted([x[0], [0, x[1]] if isinstance(x[1], int) else [1, int(x[1][1:])]] for x in S.schedule)
        snaps.append([d, sched, S.counter, clock[0], sorted(log)])
    try:
        for o in ops:
            k = o[0]
            st = _StubIrc()
            try:
                if plug is None and k in ('padd', 'paddbad', 'premind', 'prepeat', 'premove', 'reload', 'unload'):
                    if k in ('padd', 'paddbad', 'premind', 'prepeat'):
                        ncmd[0] += 1                       # the model numbers requests by position
                elif k in ('padd', 'paddbad', 'premind'):
                    c = ncmd[0]
                    ncmd[0] += 1
                    if k == 'paddbad':
                        # a command that does not tokenize: SyntaxError inside the scheduled function
                        plug.add(st, msg, [str(o[1]), 'echo [oops C%d' % c])
                        if 'ok' in st.out:
                            tr.added(c, 'bad', clock[0] + o[1], told=max(plug.events, key=lambda k: int(k) if k.isdigit() else -1))
                        st.out = []
                    elif k == 'padd':
                        plug.add(st, msg, [str(o[1]), 'echo C%d' % c])
                    else:
                        plug.remind(st, msg, [str(o[1]), 'C%d' % c])
                    if 'ok' in st.out:
                        tr.added(c, 'single', clock[0] + o[1], told=max(plug.events, key=lambda k: int(k) if k.isdigit() else -1))
                elif k == 'prepeat':
                    c = ncmd[0]
                    ncmd[0] += 1
                    name = 'r%d' % o[1]
                    had = name in plug.events
                    plug.repeat(st, msg, (['--delay', str(o[3])] if o[3] else []) + [name, str(o[2]), 'echo C%d' % c])
                    if not had and name in plug.events:
                        tr.added(c, 'repeat', clock[0] + o[3], told=name)
                elif k == 'premove':
                    key = str(o[1][1]) if o[1][0] == 'a' else 'r%d' % o[1][1]
                    listed = plug.events.get(key)
                    plug.remove(st, msg, [key])
                    if listed is not None and 'ok' in st.out:
                        tr.cmds[int(listed['command'].split('C')[1])]['removed'] = True
                    elif 'error' in st.out:
                        tr.remove_refused(key)
                elif k == 'ignore':
                    # the user who scheduled the events is (un)ignored now: ircdb.checkIgnored(msg.prefix, msg.channel)
                    import supybot.ircdb as ircdb
                    if o[1]:
                        ircdb.ignores.add('nick!u@h')
                    elif 'nick!u@h' in [str(h) for h in ircdb.ignores.hostmasks]:
                        ircdb.ignores.remove('nick!u@h')
                    ignored[0] = bool(o[1])
                elif k == 'foreign':
                    # another plugin (Channel kban expiry, AutoMode, Admin rejoin, Ctcp ...) schedules an event of its own
                    c = ncmd[0]
                    ncmd[0] += 1

                    def g(c=c):
                        log.append([clock[0], c])
                        tr.fired(c, clock[0], runid[0])
                    S.addEvent(g, clock[0] + o[1])
                    tr.added(c, 'foreign', clock[0] + o[1])
                elif k == 'newproc':
                    # the bot restarts and the Scheduler plugin is NOT loaded at startup (its pickle stays on disk)
                    if plug is not None:
                        plug.die()
                        plug = None
                    S.reset()
                    S.counter = 0
                    tr.epoch += 1
                    tr.process += 1
                    tr.process_died()
                elif plug is None and k not in ('load', 'adv', 'run', 'restart'):
                    pass                                   # the plugin is unloaded: its commands do not exist
                elif k == 'unload':
                    plug.die()
                    tr.reloaded()
                    tr.epoch += 1
                    plug = None
                elif k == 'load':
                    if plug is None:
                        plug = mod.Class(irc)
                elif k == 'reload':
                    plug.die()
                    tr.reloaded()
                    tr.epoch += 1
                    plug = mod.Class(irc)
                elif k == 'restart':
                    if plug is not None:
                        plug.die()
                    S.reset()
                    S.counter = 0
                    tr.epoch += 1
                    tr.process += 1
                    tr.process_died()
                    plug = mod.Class(irc)
                elif k == 'adv':
                    clock[0] += o[1]
                elif k == 'run':
                    runid[0] += 1
                    S.run()
                    drain()
                    tr.run_done(clock[0], plug is not None, ignored[0] and checks_ignored,
                                listed=[int(ev['command'].split('C')[1]) for ev in plug.events.values()] if plug is not None else ())   # while the plugin is unloaded its own events wait
            except Exception as e:
                if type(e).__name__ not in ('Error', 'AssertionError'):
                    tr.fail('%s raised %s: %s' % (k, type(e).__name__, e))
            drain()
            snap()
    finally:
        try:
            if plug is not None:
                plug.die()
        except Exception:
            pass
        S.reset()
        S.counter = 0
        try:
            import supybot.ircdb as ircdb
            if 'nick!u@h' in [str(h) for h in ircdb.ignores.hostmasks]:
                ircdb.ignores.remove('nick!u@h')
        except Exception:
            pass
        sm.time, mod.plugin.time = saved[0], saved[1]
        if saved[2] is None:
            del mod.Class.Proxy
        else:
            mod.Class.Proxy = saved[2]
    return dict(snaps=snaps, failures=tr.failures)


def w_pop(o):
    k = o[0]
    if k == 'padd':
        return [0, o[1]]
    if k == 'premind':
        return [1, o[1]]
    if k == 'prepeat':
        return [2, o[1], o[2], o[3]]
    if k == 'premove':
        return [3, w_name(o[1])]
    if k == 'ignore':
        return [10, 1 if o[1] else 0]
    if k == 'paddbad':
        return [11, o[1]]
    return {'reload': [4], 'restart': [5], 'run': [7], 'unload': [8], 'load': [9]}.get(k) or [6, o[1]]


def d_psnap(v):
    return [[list(x) for x in v[0]], sorted(v[1]), v[2], v[3], sorted(list(x) for x in v[4])]


def g_plugin_history(rng, foreign=False):
    ops = []
    for _ in range(rng.randint(3, 12)):
        r = rng.random()
        if r < 0.03:
            ops.append(['paddbad', rng.choice([1, 2, 5])])
        elif r < 0.22:
            ops.append(['padd', rng.choice([1, 2, 3, 5, 8, 20])])
        elif r < 0.32:
            ops.append(['premind', rng.choice([1, 2, 4, 9])])
        elif r < 0.42:
            ops.append(['prepeat', rng.choice([0, 0, 1]), rng.choice([2, 3, 5, 7, 12]), rng.choice([0, 0, 2, 6])])
        elif r < 0.52:
            ops.append(['premove', ['a', rng.choice([0, 0, 1, 2, 3])] if rng.random() < 0.7 else ['n', rng.choice([0, 1])]])
        elif r < 0.62:
            ops.append(['reload'])
        elif r < 0.68:
            ops += [['unload']] + [rng.choice([['adv', rng.choice([1, 3, 6, 12])], ['run']]) for _ in range(rng.randint(0, 3))] + [['load']]
        elif r < 0.73:
            ops.append(['restart'])
        elif not foreign and r < 0.77:
            ops.append(['ignore', rng.choice([1, 1, 0])])
        elif foreign and r < 0.80:
            ops.append(['foreign', rng.choice([1, 3, 6, 15, 40])])
        elif foreign and r < 0.83:
            ops += [['newproc']] + [rng.choice([['foreign', rng.choice([2, 9, 40])], ['adv', 2], ['run']]) for _ in range(rng.randint(0, 3))] + [['load']]
        elif r < 0.88:
            ops.append(['adv', rng.choice([1, 2, 3, 4, 6, 10])])
        else:
            ops.append(['run'])
    ops += [['adv', 30], ['run']]
    return ops


PCORPUS = [
    # the reload scenario of mutation C18_8: two one-shots pending, reload, remove one by its listed id, let time pass
    [['padd', 5], ['padd', 5], ['reload'], ['premove', ['a', 1]], ['adv', 6], ['run'], ['adv', 6], ['run']],
    [['padd', 3], ['premind', 4], ['prepeat', 0, 5, 0], ['reload'], ['reload'], ['adv', 6], ['run'], ['adv', 6], ['run']],
    [['prepeat', 0, 3, 2], ['adv', 3], ['run'], ['reload'], ['adv', 4], ['run'], ['premove', ['n', 0]], ['adv', 9], ['run']],
    [['padd', 9], ['padd', 2], ['adv', 3], ['run'], ['restart'], ['padd', 1], ['adv', 7], ['run']],
    # unload, the event comes due while the plugin is away, load: it must run once (after the load), not twice
    [['padd', 2], ['premind', 3], ['prepeat', 0, 4, 0], ['unload'], ['adv', 5], ['run'], ['load'], ['adv', 1], ['run'], ['adv', 9], ['run']],
    # witnesses of C18.F24 (fixed): reload, the event fires, reload / restart: it must not run again
    [['padd', 2], ['reload'], ['adv', 3], ['run'], ['restart'], ['adv', 1], ['run']],
    [['padd', 2], ['reload'], ['adv', 3], ['run'], ['reload'], ['adv', 1], ['run']],
    [['padd', 2], ['unload'], ['adv', 5], ['run'], ['load'], ['adv', 1], ['run']],
    # the scheduling user is ignored when the events come due: they fire (leave the list), their effect is suppressed,
    # and they do not run later when the ignore is lifted; a repeat goes on and runs again afterwards
    [['padd', 2], ['premind', 3], ['prepeat', 0, 4, 0], ['ignore', 1], ['adv', 5], ['run'], ['ignore', 0], ['adv', 5], ['run'], ['reload'], ['adv', 9], ['run']],
    # witness of C18.F27 (fixed): a command that does not tokenize: it fires once (SyntaxError), leaves the list, is not rescheduled
    [['paddbad', 2], ['padd', 3], ['adv', 4], ['run'], ['reload'], ['adv', 1], ['run'], ['restart'], ['adv', 1], ['run']],
    # witness of C18.F25 (fixed): the bot restarts without the plugin, another plugin's event gets id 0, the plugin is
    # loaded: its own pickled event #0 must be scheduled (under a new id) and `scheduler remove 0` must not hit the other one
    [['padd', 50], ['newproc'], ['foreign', 100], ['load'], ['premove', ['a', 0]], ['adv', 200], ['run']],
    [['foreign', 9], ['padd', 5], ['reload'], ['foreign', 2], ['unload'], ['adv', 10], ['run'], ['load'], ['run']],
]


# ---------------------------------------------------------------- check
# C18.F26 (known): addEvent(f, float('nan')): once the NaN entry reaches the top of the heap, `self.schedule[0][0] < time.time()`
# is False for ever and no other event runs.  No bundled caller can produce a NaN due time.
# fixed: C18.F17 (rescheduleEvent dropped args/kwargs) and C18.F24 (after a reload a fired one-shot event stayed
# in the new instance's dict and was run again by the next reload / restart; after unload ... load it ran twice) are
# fixed; their witnesses lead CORPUS / PCORPUS.
CLASSES = {'nan_due': lambda inp: inp.get('special') == 'nan-due'}


def judge(ctx, ops, impl):
    """direct oracle: report the tracker's first failure"""
    if impl['failures']:
        ctx.fail({'ops': ops}, impl['failures'][0])


def compare(ctx, ops, impl, mout):
    inp = {'ops': ops}
    if isinstance(mout, tuple):
        ctx.disagree(inp, mout[1], None, 'model error')
        return
    m = d_model(mout)
    if m['flags'][0] or m['oracle_left']:
        ctx.disagree(inp, m['flags'], [p[1][:2] for p in impl['pops']], 'real heappop returned a non-minimal entry / pop count differs')
        return
    if m['flags'][1]:
        ctx.disagree(inp, 'fuel', None, 'model ran out of fuel')
        return
    for i, (a, b) in enumerate(zip(m['snaps'], impl['snaps'])):
        if a != b:
            ctx.disagree(inp, a, b, 'state after op %d %r' % (i, ops[i][0]))
            return
    if m['calls'] != impl['calls']:
        ctx.disagree(inp, m['calls'], impl['calls'], 'call log')
    elif m['pops'] != impl['pops']:
        ctx.disagree(inp, m['pops'], impl['pops'], 'pop log')


def run(ctx):
    rng = ctx.rng
    cases = [(ops, 'corpus') for ops in CORPUS]
    for _ in range(ctx.n(6000)):
        cases.append((g_history(rng, False), 'structured'))
    for _ in range(ctx.n(3000)):
        cases.append((g_history(rng, True), 'hostile'))
    done = []
    for ops, kind in cases:
        impl = run_impl(ops)
        if impl is None:
            ctx.case('runaway', {'ops': ops}, nontrivial=False)
            continue
        k = kind + ('-unspecified' if impl['unspec'] else '') + ('-ties' if has_ties(impl) else '')
        ctx.case(k, {'ops': ops}, nontrivial=any(o[0] == 'run' for o in ops))
        judge(ctx, ops, impl)
        done.append((ops, impl))
    outs = ctx.model([[FUEL, [p[1][1] for p in impl['pops']], [w_op(o) for o in ops]] for ops, impl in done])
    for (ops, impl), mo in zip(done, outs):
        if mo is not None:
            compare(ctx, ops, impl, mo)
    ctx.notes.append('heappop oracle: every real pop was checked to be of minimal time by the model (obad flag)')
    ctx.case('special-nan', {'special': 'nan-due'}, nontrivial=False)
    d = run_special({'special': 'nan-due'})
    if d:
        ctx.fail({'special': 'nan-due'}, d)
    # ---- the Scheduler plugin on top: add / remind / repeat / remove / reload / restart / time passing
    pcases = [(ops, 'plugin-corpus') for ops in PCORPUS] + [(g_plugin_history(rng), 'plugin') for _ in range(ctx.n(900))] + [(g_plugin_history(rng, True), 'plugin-foreign') for _ in range(ctx.n(500))]
    pdone = []
    for pops, kind in pcases:
        impl = run_plugin(pops)
        kinds = [o[0] for o in pops]
        ctx.case(kind + ('-reload' if 'reload' in kinds else '') + ('-restart' if 'restart' in kinds else ''), {'pops': pops},
                 nontrivial='run' in kinds)
        seen = set()
        for focus, text in impl['failures']:
            if focus not in seen:
                seen.add(focus)
                ctx.fail({'pops': pops, 'focus': focus}, text)
        pdone.append((pops, impl))
    pdone = [(pops, impl) for pops, impl in pdone if not any(o[0] in ('foreign', 'newproc') for o in pops)]
    pouts = ctx.model([[[], [w_pop(o) for o in pops]] for pops, _ in pdone])
    for (pops, impl), mo in zip(pdone, pouts):
        if mo is None:
            continue
        if isinstance(mo, tuple):
            ctx.disagree({'pops': pops}, mo[1], None, 'plugin model error')
            continue
        ms = [d_psnap(v) for v in mo]
        for i, (a, b) in enumerate(zip(ms, impl['snaps'])):
            if a != b:
                ctx.disagree({'pops': pops}, a, b, 'Scheduler plugin state after op %d %r' % (i, pops[i][0]))
                break


def has_ties(impl):
    for s in impl['snaps']:
        ts = [e[0] for e in s[1]]
        if len(ts) != len(set(ts)):
            return True
    return False


def run_special(inp):
    """witnesses that need values outside the model's domain (the model's due times are integers)"""
    if inp.get('special') == 'nan-due':
        boot.boot()
        import supybot.schedule as sm
        clock = [100.0]
        saved = sm.time
        sm.time = types.SimpleNamespace(time=lambda: clock[0], sleep=lambda s: None)
        try:
            S = sm.Schedule()
            ran = []
            S.addEvent(lambda: ran.append('a'), 95.0)
            S.addEvent(lambda: ran.append('nan'), float('nan'))
            S.addEvent(lambda: ran.append('b'), 97.0)
            S.run()
            S.addEvent(lambda: ran.append('c'), 99.0)
            S.run()
        finally:
            sm.time = saved
            import supybot.drivers as drivers
            drivers._drivers['Schedule'] = sm.schedule
        missing = [x for x in ('a', 'b', 'c') if x not in ran]
        if missing:
            return 'events %s are overdue and were not run by two run() calls: the entry with due time NaN sits on top of the heap' % missing
    return None


def replay(ctx, inp):
    if 'special' in inp:
        return run_special(inp)
    if 'pops' in inp:
        want = inp.get('focus')
        for focus, text in run_plugin(inp['pops'])['failures']:
            if want is None or want == focus:
                return text
        return None
    impl = run_impl(inp['ops'])
    if impl is None or not impl['failures']:
        return None
    return impl['failures'][0]


def shrink(ctx, inp):
    if 'special' in inp:
        return inp
    if 'pops' in inp:
        focus = inp.get('focus')
        small = shrink_seq(inp['pops'], lambda ops: replay(ctx, {'pops': ops, 'focus': focus}) is not None)
        return {'pops': small, 'focus': focus}
    small = shrink_seq(inp['ops'], lambda ops: replay(ctx, {'ops': ops}) is not None)
    return {'ops': small}
