"""s-expression codec matching coq/driver/main.ml and Base/Wire.v"""


def enc(v):
    """python -> s-expression text.  int/bool -> int; str -> list of code
    points; None -> (); list/tuple -> list"""
    if v is True:
        return '1'
    if v is False:
        return '0'
    if v is None:
        return '()'
    if isinstance(v, int):
        return str(v)
    if isinstance(v, str):
        return '(' + ' '.join(str(ord(c)) for c in v) + ')'
    if isinstance(v, bytes):
        return '(' + ' '.join(str(c) for c in v) + ')'
    if isinstance(v, (list, tuple)):
        return '(' + ' '.join(enc(x) for x in v) + ')'
    raise TypeError(type(v))


def opt(v):
    """Python Optional -> () | (v)"""
    return [] if v is None else [v]


def dec(s):
    """s-expression text -> nested lists of ints"""
    stack = [[]]
    i, n = 0, len(s)
    while i < n:
        c = s[i]
        if c == '(':
            stack.append([]); i += 1
        elif c == ')':
            top = stack.pop(); stack[-1].append(top); i += 1
        elif c in ' \r\n':
            i += 1
        else:
            j = i + 1
            while j < n and s[j] not in ' ()\r\n':
                j += 1
            stack[-1].append(int(s[i:j])); i = j
    assert len(stack) == 1 and len(stack[0]) == 1, s[:200]
    return stack[0][0]


def s(v):
    """decoded list of code points -> str"""
    return ''.join(map(chr, v))


def ls(v):
    return [s(x) for x in v]


def o(v, f=lambda x: x):
    return None if v == [] else f(v[0])


EXN = {1: 'IndexError', 2: 'ValueError', 3: 'KeyError', 4: 'TypeError', 5: 'AssertionError',
       6: 'AttributeError', 7: 'UnicodeError', 8: 'MalformedIrcMsg', 9: 'SyntaxError',
       10: 'InvalidRegistryValue', 11: 'DuplicateHostmask', 12: 'OtherError'}


def r(v, f=lambda x: x):
    """decoded result -> ('ok', f(payload)) | ('raise', name)"""
    if v[0] == 0:
        return ('ok', f(v[1]))
    return ('raise', EXN[v[1]])
