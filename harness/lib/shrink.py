"""greedy delta-debugging for sequences (str, list, tuple)"""


def shrink_seq(x, fails, budget=400):
    """smallest sub-sequence of x (by chunk deletion) for which fails(x) is truthy"""
    cur = x
    n = 2
    while len(cur) >= 1 and budget > 0:
        chunk = max(1, len(cur) // n)
        reduced = False
        i = 0
        while i < len(cur) and budget > 0:
            cand = cur[:i] + cur[i + chunk:]
            budget -= 1
            try:
                ok = fails(cand)
            except Exception:
                ok = False
            if ok:
                cur = cand
                reduced = True
            else:
                i += chunk
        if not reduced:
            if chunk == 1:
                break
            n = min(len(cur), n * 2) or 1
    return cur
