"""Common protocol of ./check: build, run the per-property harness module,
classify, write evidence/replay, print KNOWN-FINDING / VIOLATION, exit code."""
import collections, hashlib, importlib, json, os, random, sys, time, traceback

HERE = os.path.dirname(os.path.abspath(__file__))
HARNESS = os.path.dirname(HERE)
ROOT = os.path.dirname(HARNESS)
sys.path.insert(0, HARNESS)
import build  # noqa: E402
from lib import modelproc  # noqa: E402
from lib.wire import enc as wire_enc  # noqa: E402

GENERAL_TRUSTED = [
    'Coq 8.16.1 kernel (coqc); vm_compute used in reflection lemmas and witnesses; no native_compute',
    'harness/gen_tables.py (ast-based table/inventory extraction from /repo, fail-closed)',
    'extraction: ExtrOcamlBasic only (bool,option,unit,list,prod,sumbool,sumor; andb,orb inlined); N/Z/positive/nat kept as Coq datatypes; OCaml 4.13.1',
    'coq/driver/main.ml (int<->Z conversion, s-expression reader/printer)',
    'per-property Python harness: generators, canonicalisation, diff, direct oracle, classifier',
    'CPython 3.12 for every primitive the model treats as given (see DESIGN.md section 4)',
    'all Python code is modelled, not verified: the theorems are about the Gallina model; the tie is regenerated tables + correspondence run',
]


def canon(x):
    return json.dumps(x, sort_keys=True, ensure_ascii=True, default=repr)


class Ctx:
    def __init__(self, pid, tier, seed, b):
        self.pid, self.tier, self.seed, self.build = pid, tier, seed, b
        self.rng = random.Random(seed)
        self.scale = 1 if tier == 'quick' else int(os.environ.get('VERIF_THOROUGH_SCALE', '10'))
        self.evaluations = 0
        self.nontrivial = set()
        self.samples = []
        self.dist = collections.Counter()
        self.failures = []        # direct property failures on the implementation
        self.disagreements = []   # model vs implementation
        self.notes = []
        self.exhaustive = False
        self.model_calls = 0
        self.known_counts = {}
        self.xsamples = []
        self.findings, self.classes = [], {}
        self.model_broken = None if b['model_ok'] else 'model binary did not build'

    # -- model access -------------------------------------------------
    def model(self, cases):
        if self.model_broken:
            return [None] * len(cases)
        try:
            out = modelproc.run(self.pid, cases)
        except Exception as e:  # model crashed: correspondence cannot be established
            self.model_broken = 'modelrun failed: %s' % e
            return [None] * len(cases)
        self.model_calls += len(cases)
        if len(self.xsamples) < 240:
            step = max(1, len(cases) // 40)
            for c, o in list(zip(cases, out))[::step][:40]:
                if o is not None and not (isinstance(o, tuple) and o and o[0] == '!error') and len(wire_enc(c)) < 4000:
                    self.xsamples.append((c, o))
        return out

    # -- bookkeeping --------------------------------------------------
    def case(self, kind, inp, nontrivial=True):
        """count one explored case; kind feeds the distribution table"""
        self.evaluations += 1
        self.dist[kind] += 1
        if nontrivial:
            self.nontrivial.add(hashlib.blake2b(canon(inp).encode(), digest_size=8).digest())
        if len(self.samples) < 12 and (self.dist[kind] <= 2):
            self.samples.append({'kind': kind, 'input': inp})

    def fail(self, inp, detail, cls=None, kind='direct'):
        """the property fails on the implementation for this input.  Failures of a recorded class are
        counted but only the first 300 per finding are kept, so that they can never crowd out an
        unknown failure (kept up to 2000)."""
        hit = None
        for kf in getattr(self, 'findings', []):
            pred = getattr(self, 'classes', {}).get(kf['class'])
            try:
                if pred and pred(inp):
                    hit = kf['id']
                    break
            except Exception:
                pass
        if hit is not None:
            self.known_counts[hit] = self.known_counts.get(hit, 0) + 1
            if self.known_counts[hit] > 300:
                return
        elif sum(1 for f in self.failures if f.get('hit') is None) >= 2000:
            return
        self.failures.append({'input': inp, 'detail': detail, 'class': cls, 'kind': kind, 'hit': hit})

    def disagree(self, inp, model, impl, what=''):
        if len(self.disagreements) < 2000:
            self.disagreements.append({'input': inp, 'model': model, 'impl': impl, 'what': what})

    def n(self, base):
        """case budget scaled by tier"""
        return int(base * self.scale)


def load_findings(pid):
    p = os.path.join(ROOT, 'findings', pid + '.json')
    if not os.path.exists(p):
        return []
    data = json.load(open(p))
    return [f for f in data.get('findings', []) if f.get('property', pid) == pid and 'fixed' not in f]


def write_json(path, obj):
    os.makedirs(os.path.dirname(path), exist_ok=True)
    tmp = path + '.tmp%d' % os.getpid()
    with open(tmp, 'w') as f:
        json.dump(obj, f, indent=1, ensure_ascii=True, default=repr)
        f.write('\n')
    os.replace(tmp, path)


def to_coq(v):
    """decoded wire value (nested lists of ints) -> Coq term of type Base.Wire.value"""
    if isinstance(v, bool):
        v = int(v)
    if isinstance(v, int):
        return '(I (%d)%%Z)' % v
    return '(L [' + '; '.join(to_coq(x) for x in v) + '])'


def thorough_checks(pid, ctx):
    """thorough tier: (1) evaluate a sample of the cases inside Coq with vm_compute and compare with what the
    extracted binary answered (guards extraction + OCaml glue); (2) coqchk -o on the property theorems"""
    import subprocess
    from lib import wire
    out = {'broken': []}
    coq = os.path.join(ROOT, 'coq')
    flags = build.coq_flags()
    samples = ctx.xsamples[:200]
    if samples:
        cases = [wire.dec(wire.enc(c)) for c, _ in samples]
        body = ('From Coq Require Import List ZArith Bool.\nImport ListNotations.\nRequire Import Base.Wire.\nRequire %s.Model.\n'
                'Definition cases : list value := [%s].\nDefinition expected : list value := [%s].\n'
                'Definition agree := forallb (fun p => value_eqb (%s.Model.run (fst p)) (snd p)) (combine cases expected).\n'
                'Eval vm_compute in (agree, length cases).\n'
                % (pid, ';\n '.join(to_coq(c) for c in cases), ';\n '.join(to_coq(o) for _, o in samples), pid))
        # outside the coq tree: a stray .v file there would enter other checks' concurrent `make`
        zdir = os.path.join(ROOT, '.work', 'zcross_%s_%d' % (pid, os.getpid()))
        os.makedirs(zdir, exist_ok=True)
        path = os.path.join(zdir, 'Zcross.v')
        try:
            with open(path, 'w') as f:
                f.write(body)
            p = subprocess.run(['bash', '-c', 'ulimit -s unlimited 2>/dev/null; exec timeout 900 coqc "$@"', 'coqc'] + flags + [path],
                               cwd=coq, stdout=subprocess.PIPE, stderr=subprocess.STDOUT, text=True)
            ok = p.returncode == 0 and '= (true, %d' % len(cases) in p.stdout.replace('\n', ' ')
            out['cross'] = {'cases': len(cases), 'agree': ok}
            if not ok:
                out['broken'].append('vm_compute cross-check of the extracted binary failed: ' + p.stdout[-600:])
        finally:
            import shutil
            shutil.rmtree(zdir, ignore_errors=True)
    p = subprocess.run(['timeout', '1500', 'coqchk', '-silent', '-o'] + flags + ['%s.Props' % pid], cwd=coq,
                       stdout=subprocess.PIPE, stderr=subprocess.STDOUT, text=True)
    txt = p.stdout
    out['coqchk'] = {'rc': p.returncode, 'report': txt[txt.find('CONTEXT SUMMARY'):][:3000] if 'CONTEXT SUMMARY' in txt else txt[-1500:]}
    if p.returncode != 0:
        out['broken'].append('coqchk rejected %s.Props: %s' % (pid, txt[-600:]))
    return out


def main(argv):
    import argparse
    ap = argparse.ArgumentParser()
    ap.add_argument('pid')
    ap.add_argument('--tier', default=os.environ.get('VERIF_TIER', 'quick'))
    ap.add_argument('--replay')
    a = ap.parse_args(argv)
    pid = a.pid
    tier = a.tier if a.tier in ('quick', 'thorough') else 'quick'
    seed = int(os.environ.get('VERIF_SEED', '0') or 0)
    os.environ.setdefault('PYTHONHASHSEED', '0')
    t0 = time.time()
    mod = importlib.import_module('c' + pid[1:])

    if a.replay:
        rp = json.load(open(a.replay))
        b = {'model_ok': os.path.exists(modelproc.exe(pid))}
        ctx = Ctx(pid, tier, seed, b)
        if rp.get('input') is None:
            print('replay: no concrete input in %s (broken obligation: %s)' % (a.replay, rp.get('broken')))
            return 2
        d = mod.replay(ctx, rp['input'])
        print('replay %s: %s' % (a.replay, 'property FAILS: %s' % (d,) if d else 'property holds on this input'))
        return 1 if d else 0

    b = build.build_for(pid, getattr(mod, 'TABLES', None))
    ctx = Ctx(pid, tier, seed, b)
    findings = load_findings(pid)
    classes = getattr(mod, 'CLASSES', {})
    ctx.findings, ctx.classes = findings, classes

    broken = []   # proof obligations / correspondence that no longer check
    if b['shape_error']:
        broken.append('table extraction (source shape changed): ' + b['shape_error'])
    if not b['model_ok']:
        broken.append('model build/extraction failed: ' + b.get('model_log', '')[-1200:])
    for h in b['gate']:
        broken.append('forbidden vernacular: ' + h)
    pr = b['props']
    if not pr['ok']:
        broken.append('Coq proof obligations of %s do not check: %s' % (pid, pr['log'][-1500:]))

    crash = None
    try:
        mod.run(ctx)
    except Exception:
        crash = traceback.format_exc()
        broken.append('harness crashed (implementation API changed?): ' + crash[-1500:])
    if ctx.model_broken and b['model_ok']:
        broken.append(ctx.model_broken)

    def classify(ctx):
        known, unknown = collections.defaultdict(list), []
        for f in ctx.failures:
            hit = f.get('hit')
            (known[hit].append(f) if hit else unknown.append(f))
        return known, unknown

    known, unknown = classify(ctx)
    if ctx.disagreements:
        broken.append('correspondence model<->implementation: %d disagreement(s); first: %s'
                      % (len(ctx.disagreements), canon(ctx.disagreements[0])[:1500]))

    # a broken obligation with no failing input yet: widen the search once
    if broken and not unknown and crash is None and tier == 'quick' and hasattr(mod, 'run'):
        first = time.time() - t0
        ctx.scale = 4 if first < 40 else (2 if first < 150 else 1)      # keep the widened search within minutes
        ctx.notes.append('obligation broken; widened search (scale x%d, second seed)' % ctx.scale)
        ctx.rng = random.Random(seed + 7919)
        nd = len(ctx.disagreements)
        try:
            mod.run(ctx)
        except Exception:
            pass
        del ctx.disagreements[nd + 50:]
        known, unknown = classify(ctx)

    # known findings: print while the witness still fails on the implementation
    known_lines = []
    for kf in findings:
        try:
            d = mod.replay(ctx, kf['witness'])
        except Exception as e:
            d = None
            ctx.notes.append('replay of %s crashed: %r' % (kf['id'], e))
        if d:
            known_lines.append('KNOWN-FINDING: property=%s %s: %s' % (pid, kf['id'], kf['what']))
        elif known.get(kf['id']):
            # witness no longer fails but class still produces failures -> still the same finding
            known_lines.append('KNOWN-FINDING: property=%s %s: %s (witness passes; %d other inputs of the class fail)'
                               % (pid, kf['id'], kf['what'], len(known[kf['id']])))

    thorough_extra = {}
    if tier == 'thorough' and b['model_ok'] and pr['ok']:
        thorough_extra = thorough_checks(pid, ctx)
        for x in thorough_extra.get('broken', []):
            broken.append(x)
    theorems = pr.get('theorems', [])
    declared = pr.get('declared', [])
    obligations = max(len(declared), 1)
    discharged = len(theorems) if pr['ok'] else 0
    axioms = sorted({x for t in theorems for x in t['axioms']})
    cov = {
        'obligations': obligations, 'discharged': discharged,
        'checker_cmd': 'coqc (full .vo build via coq_makefile/make, then coqc %s/Props.v with Print Assumptions under every theorem)' % pid,
        'trusted_base': GENERAL_TRUSTED + getattr(mod, 'TRUSTED', []) + (['axioms: ' + ', '.join(axioms)] if axioms else ['axioms: none (every property theorem is closed under the global context)']),
        'theorems': [{'name': t['name'], 'assumptions': 'closed' if t['closed'] else t['axioms']} for t in theorems],
        'evaluations': ctx.evaluations, 'distinct_nontrivial': len(ctx.nontrivial),
        'rule': getattr(mod, 'RULE', ''), 'samples': ctx.samples[:12] or [{'note': 'no case explored'}],
        'traces_validated_against_impl': ctx.model_calls,
        'disagreements': len(ctx.disagreements), 'input_distribution': dict(ctx.dist),
        'tables_regenerated': b['tables'], 'exhaustive': bool(ctx.exhaustive),
        'known_findings_reported': [l for l in known_lines], 'notes': ctx.notes,
        'explanation': getattr(mod, 'EXPLANATION', ''),
    }
    if thorough_extra:
        cov['coqchk_axioms'] = thorough_extra.get('coqchk')
        cov['vm_compute_crosscheck'] = thorough_extra.get('cross')
    viol_lines = []
    rc = 0
    stamp = '%s_%d' % (pid, int(time.time()))
    if unknown:
        # shrink and report (one replay per distinct detail-class, at most 3)
        seen = set()
        for f in unknown:
            key = str(f['detail'])[:60]
            if key in seen or len(seen) >= 3:
                continue
            seen.add(key)
            inp = f['input']
            if hasattr(mod, 'shrink'):
                try:
                    inp = mod.shrink(ctx, inp)
                except Exception:
                    pass
            path = os.path.join(ROOT, 'replay', '%s_%d.json' % (stamp, len(seen)))
            write_json(path, {'property': pid, 'input': inp, 'original_input': f['input'], 'detail': f['detail'],
                              'kind': f['kind'], 'broken': broken, 'replay_cmd': './check %s --replay %s' % (pid, path)})
            viol_lines.append('VIOLATION property=%s replay=%s' % (pid, path))
        rc = 1
    elif broken:
        path = os.path.join(ROOT, 'replay', '%s_broken.json' % stamp)
        write_json(path, {'property': pid, 'input': None, 'broken': broken,
                          'disagreements': ctx.disagreements[:20],
                          'note': 'a proof obligation or the model/implementation correspondence no longer checks; '
                                  'the search found no input on which the property itself fails'})
        viol_lines.append('VIOLATION property=%s replay=%s no-failing-input-found' % (pid, path))
        rc = 1
    ev = {'property_id': pid, 'tier': tier, 'seed': seed, 'level': 'proof', 'coverage': cov,
          'assumptions': getattr(mod, 'ASSUMPTIONS', []), 'wall_s': round(time.time() - t0, 2),
          'violations': len(viol_lines)}
    write_json(os.path.join(ROOT, 'evidence', pid + '.json'), ev)
    for l in known_lines:
        print(l)
    for l in viol_lines:
        print(l)
    print('%s %s: theorems %d/%d, cases %d (nontrivial distinct %d), model runs %d, disagreements %d, failures known=%d unknown=%d, %.1fs'
          % (pid, tier, discharged, obligations, ctx.evaluations, len(ctx.nontrivial), ctx.model_calls, len(ctx.disagreements),
             sum(ctx.known_counts.values()), len(unknown), time.time() - t0))
    if broken:
        for x in broken:
            print('  broken:', x[:600].replace('\n', ' | '))
    return rc
