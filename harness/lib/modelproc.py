"""run the extracted model binary on a batch of cases (sharded over cores)"""
import os, subprocess
from concurrent.futures import ThreadPoolExecutor
from . import wire

ROOT = os.path.dirname(os.path.dirname(os.path.dirname(os.path.abspath(__file__))))
def exe(pid):
    return os.path.join(ROOT, 'coq', 'bin', 'modelrun_' + pid)


class ModelError(Exception):
    pass


def _shard(pid, lines):
    p = subprocess.run(['bash', '-c', 'ulimit -s unlimited 2>/dev/null; exec "$0" "$1"', exe(pid), pid],
                       input='\n'.join(lines) + '\n', stdout=subprocess.PIPE, stderr=subprocess.PIPE, text=True)
    out = p.stdout.split('\n')
    if out and out[-1] == '':
        out.pop()
    if p.returncode != 0 or len(out) != len(lines):
        raise ModelError('modelrun %s rc=%s got %d/%d lines: %s' % (pid, p.returncode, len(out), len(lines), p.stderr[-500:]))
    return out


def run(pid, cases, jobs=None):
    """cases: list of python values (wire-encodable).  returns decoded outputs."""
    if not cases:
        return []
    jobs = jobs or min(os.cpu_count() or 4, 16)
    lines = [wire.enc(c) for c in cases]
    n = max(1, min(jobs, len(lines) // 200 + 1))
    size = (len(lines) + n - 1) // n
    shards = [lines[i:i + size] for i in range(0, len(lines), size)]
    with ThreadPoolExecutor(len(shards)) as ex:
        outs = list(ex.map(lambda sh: _shard(pid, sh), shards))
    res = []
    for o in outs:
        for line in o:
            if line.startswith('!error'):
                res.append(('!error', line))
            else:
                res.append(wire.dec(line))
    return res
