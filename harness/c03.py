"""C03 — capability decisions follow the documented precedence for every database state."""
import contextlib, io, itertools
import boot
from lib import wire

TABLES = ['T03']
RULE = ('databases sampled from the product: recognised user (capability subset of a 14-element pool incl. owner, anti, channel, '
        'anti-channel, mixed-case and rfc1459-pair spellings; ignore; secure; hostmask match / login only / no match) x channel entries '
        '(capability subsets, defaultAllow) x global default set x registeredUsers set x default flag x the three ignore* flags x asked '
        'capability (plain, anti, channel, anti-channel, case variants, hostile strings).  Each case: real ircdb.checkCapability (fresh '
        'UsersDictionary/ChannelsDictionary, real conf registry) vs extracted model; direct oracle = anti-symmetry, owner rule, case '
        'variants, totality, and an independent decision-list spec evaluated on the real objects.  non-trivial = distinct (db, cap, flags)')
TRUSTED = ['user lookup (users.getUser, checkHostmask) enters this model as an input taken from the real objects; it is modelled in C04',
           "str.lower() on channel names is modelled for ASCII only (generators use ASCII-cased channel names)"]
ASSUMPTIONS = ['world.testing off (the testing shortcut of checkCapability is not modelled)']
EXPLANATION = 'C03: model of the capability algebra and ircdb.checkCapability; theorems in coq/C03/Props.v'
LEVEL_TEXT = ('Coq theorems over an executable Gallina model of the capability string algebra, CapabilitySet/UserCapabilitySet and '
              'ircdb.checkCapability/_checkCapabilityForUnknownUser, for every database, capability string and flag setting: totality on '
              'well-formed capabilities, capability/anti-capability give opposite answers (default flags, sets built by add), owner rule, '
              'case-insensitivity, refinement of a readable decision-list spec.  Tie: regenerated fold table / whitespace set / chantypes / '
              'defaultOff + differential run of the extracted model against the real function on sampled databases.')
LEVEL_NOTE = ('Trusted: Coq kernel, gen_tables.py, extraction + driver, harness; user lookup is an input (C04); conf registry plumbing is '
              'exercised, not modelled; non-ASCII str.lower() outside the model.')
TECHNIQUE = 'Coq proof (case analysis + set invariant by induction over add) + regenerated tables + extracted-model differential correspondence'

H_MATCH = 'nick!user@host.example'
H_OTHER = 'other!u@elsewhere'


def _mods():
    boot.boot()
    import supybot.ircdb as ircdb, supybot.conf as conf, supybot.ircutils as ircutils
    return ircdb, conf, ircutils


USER_POOL = ['owner', 'admin', 'foo', '-foo', 'Foo', 'x[y]', '-x{y}', '#chan,op', '#chan,foo', '#chan,-foo', '#Chan,-op',
             '#other,op', 'trusted', '-bar']
CHAN_POOL = ['foo', '-foo', 'op', 'bar', '-x{y}', 'baz', '#other,-foo']
DEF_POOL = ['-owner', '-admin', 'foo', '-foo', '-bar', 'x[y]', 'baz', '-trusted']
ASK = ['foo', '-foo', 'FOO', 'owner', '-owner', 'admin', 'bar', '-bar', 'x{y}', '-X[Y]', '#chan,foo', '#chan,-foo', '#CHAN,Foo',
       '#chan,op', '#chan,-op', '#other,foo', '#new,voice', '#new,-voice', '#chan,bar', 'baz', '-baz', 'qux', '-qux', '#chan,qux',
       'trusted', '#chan,x[y]', '#other,-foo', 'a,b', '#c,', '-#chan,foo', '#chan,#other,foo']
HOSTILE = ['', ' ', 'a b', ' a', 'a ', '-', '--x', '#c,-', '#c, x', ' ', '#c,a b', ',', '#,x', '-,', 'owner ', '- owner',
           '#' + 'c' * 49 + ',x', '#' + 'c' * 50 + ',x', '#c\x07,x', '&c,x', '!c,-x', '+c,x', 'é', '-é', '#é,É']


def nested(c):
    """class of finding F21: a channel capability whose capability part is itself a channel capability"""
    ircdb, _, _ = _mods()
    if not ircdb.isChannelCapability(c):
        return False
    return ircdb.isChannelCapability(ircdb.fromChannelCapability(c)[1])


CLASSES = {'nested_channel_capability': lambda inp: 'cap' in inp and nested(inp['cap'])}


def gen_db(rng):
    kind = rng.choice(['none', 'match', 'match', 'match', 'authonly', 'secure-authonly', 'secure-match'])
    caps = [c for c in USER_POOL if rng.random() < 0.22]
    chans = {}
    for name in ['#chan', '#other']:
        if rng.random() < 0.6:
            chans[name] = {'caps': [c for c in CHAN_POOL if rng.random() < 0.3], 'default': rng.random() < 0.7}
    return {'user': None if kind == 'none' else {'caps': caps, 'ignore': rng.random() < 0.15, 'kind': kind},
            'chans': chans,
            'defaults': [c for c in DEF_POOL if rng.random() < 0.3],
            'registered': [c for c in DEF_POOL[2:] if rng.random() < 0.2],
            'flag': rng.random() < 0.7}


def build(ircdb, conf, g):
    users = ircdb.UsersDictionary()
    channels = ircdb.ChannelsDictionary()
    if g['user'] is not None:
        u = users.newUser()
        u.name = 'alice'
        for c in g['user']['caps']:
            u.addCapability(c)
        u.ignore = g['user']['ignore']
        kind = g['user']['kind']
        if kind in ('match', 'secure-match'):
            u.addHostmask(H_MATCH)
        else:
            u.addHostmask('someone!else@*')
            u.addAuth(H_MATCH)
        u.secure = kind.startswith('secure')
        users.setUser(u)
    for name, c in g['chans'].items():
        ch = ircdb.IrcChannel()
        for cap in c['caps']:
            ch.addCapability(cap)
        ch.defaultAllow = c['default']
        channels.setChannel(name, ch)
    with contextlib.redirect_stdout(io.StringIO()):
        conf.supybot.capabilities.setValue(list(g['defaults']))
    conf.supybot.capabilities.registeredUsers.setValue(list(g['registered']))
    conf.supybot.capabilities.default.setValue(g['flag'])
    return users, channels


def snapshot(ircdb, conf, ircutils, users, channels, hostmask):
    """the model's view of the real objects (lookup results are inputs)"""
    try:
        u = users.getUser(hostmask)
        uv = [[sorted(set.__iter__(u.capabilities)), u.ignore, u.secure]]
        hostok = bool(u.checkHostmask(hostmask, useAuth=False))
    except (KeyError, ValueError):
        uv, hostok = [], False
    chans = [[ircutils.toLower(k.lower()), [sorted(set.__iter__(c.capabilities)), c.defaultAllow]]
             for k, c in channels.channels.items()]
    return [uv, hostok, chans, sorted(set.__iter__(conf.supybot.capabilities())),
            sorted(set.__iter__(conf.supybot.capabilities.registeredUsers())), conf.supybot.capabilities.default()]


def impl_check(ircdb, users, channels, h, cap, fl):
    try:
        r = ircdb.checkCapability(h, cap, users=users, channels=channels, ignoreOwner=fl[0], ignoreChannelOp=fl[1],
                                  ignoreDefaultAllow=fl[2])
        return ('ok', bool(r))
    except Exception as e:
        return ('raise', type(e).__name__)


def wf_cap(c):
    return bool(c) and not any(ch.isspace() for ch in c)


def parts(ircdb, c):
    """(channel or None, base, anti) of a well-formed capability, by the real algebra"""
    if ircdb.isChannelCapability(c):
        ch, cap = ircdb.fromChannelCapability(c)
    else:
        ch, cap = None, c
    anti = cap.startswith('-')
    return ch, (cap[1:] if anti else cap), anti


def spec(ircdb, ircutils, g, snap, cap):
    """independent decision list (default flags), evaluated on the real data: the property text"""
    fold = ircutils.toLower
    ch, base, anti = parts(ircdb, cap)
    full = fold(base if ch is None else ch + ',' + base)      # the non-anti form, folded
    fullanti = fold('-' + base if ch is None else ch + ',-' + base)
    base_f, antibase_f = fold(base), fold('-' + base)

    def explicit(s, pos, neg):
        if pos in s:
            return True
        if neg in s:
            return False
        return None
    uv, hostok, chans, D, R, flag = snap
    user = uv[0] if uv else None
    if user is not None and user[2] and not hostok:
        user = None
    if user is not None:
        caps, ignore, _ = user
        is_owner_word = full in ('owner',)
        if is_owner_word or 'owner' in caps or explicit(caps, full, fullanti) is not None:
            if ignore:
                return anti                                   # ignored: nothing (only anti-capabilities "hold")
            if is_owner_word:
                return ('owner' in caps) != anti
            if 'owner' in caps:
                return not anti                               # owner: everything, no anti-capability
            e = explicit(caps, full, fullanti)
            return e != anti
        if ch is not None:
            chanop, antichanop = fold(ch + ',op'), fold(ch + ',-op')
            if not ignore and ('owner' in caps or chanop in caps):
                return not anti                               # channel op counts as everything in the channel
    if ch is not None:
        c = dict((k, v) for k, v in chans).get(fold(ch.lower()), [['-op', '-halfop', '-voice', '-protected'], True])
        e = explicit(c[0], base_f, antibase_f)
        if e is not None:
            return e != anti
        return c[1] != anti
    e = explicit(D, base_f, antibase_f)
    if e is not None:
        return e != anti
    if user is not None:
        e = explicit(R, base_f, antibase_f)
        if e is not None:
            return e != anti
    return flag != anti


def variants(c):
    sw = c.swapcase()
    tr = c.translate(str.maketrans('[]\\~{}|^', '{}|^[]\\~'))
    return [v for v in (sw, tr) if v != c]


def run_case(ctx, mods, g, cap, fl, mout, kind, asked_h=H_MATCH):
    ircdb, conf, ircutils = mods
    inp = {'db': g, 'cap': cap, 'flags': fl, 'hostmask': asked_h}
    ctx.case(kind, inp)
    users, channels = build(ircdb, conf, g)
    snap = snapshot(ircdb, conf, ircutils, users, channels, asked_h)
    ir = impl_check(ircdb, users, channels, asked_h, cap, fl)
    if mout is not None:
        mr = wire.r(mout, bool)
        if mr != ir:
            ctx.disagree(inp, mr, ir, 'checkCapability')
    if not wf_cap(cap):
        return
    # totality on well-formed capabilities
    if ir[0] != 'ok':
        ctx.fail(inp, 'checkCapability raised %s on a well-formed capability' % ir[1])
        return
    # case variants give the same answer
    for v in variants(cap):
        users, channels = build(ircdb, conf, g)
        r2 = impl_check(ircdb, users, channels, asked_h, v, fl)
        if r2 != ir:
            ctx.fail(inp, 'case variant %r answers %r, %r answers %r' % (v, r2, cap, ir))
    if fl == [False, False, False]:
        # capability and anti-capability give opposite answers
        if not ircdb.isAntiCapability(cap):
            users, channels = build(ircdb, conf, g)
            anti = ircdb.makeAntiCapability(cap)
            r3 = impl_check(ircdb, users, channels, asked_h, anti, fl)
            if r3[0] != 'ok' or r3[1] == ir[1]:
                ctx.fail(inp, '%r -> %r but %r -> %r (not opposite)' % (cap, ir, anti, r3))
        # documented precedence
        want = spec(ircdb, ircutils, g, snap, cap)
        if want != ir[1]:
            ctx.fail(inp, 'precedence spec says %r, checkCapability says %r' % (want, ir[1]))


def snapshot_wire(mods, g, h):
    ircdb, conf, ircutils = mods
    users, channels = build(ircdb, conf, g)
    return snapshot(ircdb, conf, ircutils, users, channels, h)


def run(ctx):
    mods = _mods()
    ircdb, conf, ircutils = mods
    rng = ctx.rng
    saved = (list(conf.supybot.capabilities()), conf.supybot.capabilities.default())
    try:
        cases = []
        for _ in range(ctx.n(2500)):
            g = gen_db(rng)
            for cap in rng.sample(ASK, 6) + rng.sample(HOSTILE, 1):
                r = rng.random()
                fl = [False, False, False] if r < 0.7 else [rng.random() < 0.5, rng.random() < 0.5, rng.random() < 0.5]
                cases.append((g, cap, fl, 'default-flags' if fl == [False] * 3 else 'ignore-flags'))
        wcases = [[0, [snapshot_wire(mods, g, H_MATCH), cap, fl]] for g, cap, fl, _ in cases]
        outs = ctx.model(wcases)
        for (g, cap, fl, kind), mo in zip(cases, outs):
            run_case(ctx, mods, g, cap, fl, mo, kind + ('-hostile' if not wf_cap(cap) or cap in HOSTILE else ''))
        # the string algebra on its own
        words = ASK + HOSTILE + USER_POOL + [a + b for a in ['', '-', '#c,', '#c,-', '#C,'] for b in ['x', 'X y', '', '-', 'é', 'x,y', ' x']]
        outs = ctx.model([[1, w] for w in words])
        for w, mo in zip(words, outs):
            inp = {'algebra': w}
            ctx.case('algebra', inp)

            def safe(f):
                try:
                    return ('ok', f(w))
                except Exception as e:
                    return ('raise', type(e).__name__)
            impl = [bool(ircdb.isCapability(w)), bool(ircdb.isChannelCapability(w)), bool(ircdb.isAntiCapability(w)),
                    safe(ircdb.makeAntiCapability), safe(ircdb.unAntiCapability), safe(ircdb.invertCapability), ircutils.toLower(w)]
            if mo is not None:
                model = [bool(mo[0]), bool(mo[1]), bool(mo[2]), wire.r(mo[3], wire.s), wire.r(mo[4], wire.s), wire.r(mo[5], wire.s),
                         wire.s(mo[6])]
                if model != impl:
                    ctx.disagree(inp, model, impl, 'capability algebra')
        # CapabilitySet.add sequences
        seqs = [[rng.choice(USER_POOL + CHAN_POOL + ['FOO', '-Foo', 'X{Y}']) for _ in range(rng.randint(0, 8))] for _ in range(ctx.n(300))]
        outs = ctx.model([[2, s] for s in seqs])
        for s, mo in zip(seqs, outs):
            inp = {'adds': s}
            ctx.case('set-add', inp)
            cs = ircdb.CapabilitySet()
            for c in s:
                cs.add(c)
            impl = sorted(set.__iter__(cs))
            if mo is not None:
                mr = wire.r(mo, lambda v: sorted(wire.ls(v)))
                if mr != ('ok', impl):
                    ctx.disagree(inp, mr, impl, 'CapabilitySet.add')
            for c in impl:       # the invariant the anti-symmetry theorem needs
                if ircdb.invertCapability(c) in impl:
                    ctx.fail(inp, 'set holds both %r and its inverse' % c)
    finally:
        conf.supybot.capabilities.setValue(saved[0])
        conf.supybot.capabilities.default.setValue(saved[1])
        conf.supybot.capabilities.registeredUsers.setValue([])


def replay(ctx, inp):
    mods = _mods()
    sub = type(ctx)(ctx.pid, ctx.tier, ctx.seed, {'model_ok': False})
    if 'db' in inp:
        run_case(sub, mods, inp['db'], inp['cap'], inp['flags'], None, 'replay', inp.get('hostmask', H_MATCH))
    return sub.failures[0]['detail'] if sub.failures else None
