"""C03 — capability decisions follow the documented precedence for every database state."""
import contextlib, copy, functools, inspect, io, itertools
import boot
from lib import wire

TABLES = ['T03', 'T03c']
RULE = ('corpus first (shapes of past seeded changes: stranger / secure-demoted / duplicate-match sender x channel capability without '
        'explicit setting x ignoreDefaultAllow; ignored owner x ignoreOwner; channel op x ignoreChannelOp), then databases sampled '
        'from the product: sender (none / account that does not match / match / login only / secure login only = demoted / secure match / '
        'two accounts match = DuplicateHostmask; capability subset of a 14-element pool incl. owner, anti, channel, anti-channel, '
        'mixed-case and rfc1459-pair spellings; ignore) x channel entries (capability subsets, defaultAllow) x global default set x '
        'registeredUsers set x default flag x the three ignore* flags (45% non-default, ignoreDefaultAllow in about a quarter) x asked '
        'capability (plain, anti, channel, anti-channel, case variants, hostile strings; channel NAMES with the rfc1459 case pairs '
        '[]\\~ / {}|^ stored under one spelling -- sometimes two -- and asked under every other; channel names of exactly channellen, '
        'channellen-1 and channellen+1 characters, stored and asked), plus a stream of the AutoMode call shape '
        '(ignoreDefaultAllow, unrecognised sender, channel capabilities, channels with few explicit settings).  Each case: real '
        'ircdb.checkCapability (fresh UsersDictionary/ChannelsDictionary, real conf registry) vs extracted model, twice: on the '
        'channel table read back from the real container, and on the table the model rebuilds itself from the setChannel calls '
        '(str.lower + IrcDict key); direct oracle (its own reading of the capability syntax -- channel name: chantypes, length <= channellen inclusive, no comma / BEL / '
        'whitespace -- never the string algebra of the implementation, which it checks word by word instead) = '
        'totality, case variants, anti-symmetry on the flag triples of C03_anti_opposite_flags, and an independent decision-list spec '
        'for EVERY flag triple evaluated on the real objects, asking twice on the same objects gives the same answer; databases '
        'reached by histories of add / remove edits (failing edits included) on the account, channel and registry sets; separate streams: '
        'histories on one set vs the model (final set + outcome of every edit + invariant), ircdb.checkCapabilities (all / any of the '
        'single answers, through the default users= / channels= arguments).  non-trivial = distinct (db, cap, flags)')
TRUSTED = ['user lookup (users.getUser, checkHostmask) enters this model as an input taken from the real objects; it is modelled in C04',
           "str.lower() on channel names is modelled for ASCII only (generators use ASCII-cased channel names)"]
ASSUMPTIONS = ['world.testing off (the testing shortcut of checkCapability is not modelled)']
EXPLANATION = 'C03: model of the capability algebra and ircdb.checkCapability; theorems in coq/C03/Props.v'
LEVEL_TEXT = ('Coq theorems over an executable Gallina model of the capability string algebra, CapabilitySet/UserCapabilitySet and '
              'ircdb.checkCapability/_checkCapabilityForUnknownUser, for every database, capability string and flag setting: totality on '
              'well-formed capabilities, capability/anti-capability give opposite answers (sets built by add; every flag triple without '
              'ignoreDefaultAllow, and with it for unrecognised senders and plain capabilities; refuted by a witness for the rest), owner '
              'rule, case-insensitivity, refinement of a readable decision-list spec for all three ignore* flags and both members of a '
              '(capability, anti-capability) pair; the answer depends neither on the spelling of the asked channel name nor on the one it '
              'was stored under (channel table = IrcDict over str.lower, refuted for a table keyed by str.lower alone); the set invariant '
              'db_ok holds after EVERY history of add / remove edits; the effect and the frame of an edit of the account\'s set (a granted '
              'capability holds, its revocation refuses it, and no history of edits moves the answer for a capability whose queried '
              'elements -- itself, its inverse, owner, #chan,op and its inverse -- it does not touch); checkCapabilities = all / any; the length bound of a channel name is '
              'inclusive and names of exactly channellen characters take the channel branch of the decision list.  Tie: regenerated '
              'fold table / whitespace set / chantypes / fail-closed pin of ChannelsDictionary.channels, getChannel, setChannel, IrcDict.key / '
              'defaultOff + differential run of the extracted model against the real function on sampled databases.')
LEVEL_NOTE = ('Trusted: Coq kernel, gen_tables.py, extraction + driver, harness.  Modelled, not verified / not modelled: (1) who the first '
              'argument is: users.getUser / checkHostmask enter as inputs taken from the real objects (C04 models them); only hostmasks '
              'are generated -- an account NAME as first argument is answered as that account (unknown if secure), a server prefix '
              'without "!" is looked up as a name, an int id raises TypeError for a secure account (C03.F48, repaired at the one caller, '
              'caller inventory pinned); (2) str.lower() of non-ASCII channel names is outside the model (its lower is ASCII): finding '
              'C03.F47, such cases get no model correspondence, only the direct oracle; non-ASCII letters in capability names are not '
              'folded by the sets at all (only rfc1459), so "case" means rfc1459 case throughout; (3) the conf registry plumbing '
              '(DefaultCapabilities.setValue, registry file) and the users.conf / channels.conf readers are exercised or left to '
              'C01/C02/C16, not modelled here: sets enter through add/remove histories and are read back from the real objects; '
              '(4) the world.testing shortcut of checkCapability is not modelled (checks run with it off); (5) checkCapabilities only '
              'with the default flags (it has no others); (6) plugins that call IrcUser._checkCapability / IrcChannel._checkCapability '
              'directly (checkIgnored "trusted", Anonymous, User) bypass the precedence by design and are not covered; (7) one account '
              '(two for the duplicate match), fresh UsersDictionary / ChannelsDictionary per case (the global ones only through the '
              'default arguments in the checkCapabilities stream), no concurrent edits.')
TECHNIQUE = 'Coq proof (case analysis + set invariant by induction over add) + regenerated tables + extracted-model differential correspondence'

SPELLINGS = {'#dev[ops]': ['#dev[ops]', '#DEV{OPS}', '#Dev[ops}', '#dev{ops}', '#DEV[OPS]'],
             '#a\\b~': ['#a\\b~', '#A|B^', '#a|b~', '#A\\B^']}
H_MATCH = 'nick!user@host.example'
H_OTHER = 'other!u@elsewhere'


def _mods():
    boot.boot()
    import supybot.ircdb as ircdb, supybot.conf as conf, supybot.ircutils as ircutils
    return ircdb, conf, ircutils


USER_POOL = ['owner', 'admin', 'foo', '-foo', 'Foo', 'x[y]', '-x{y}', '#chan,op', '#chan,foo', '#chan,-foo', '#Chan,-op',
             '#other,op', 'trusted', '-bar', '#dev{ops},op', '#DEV[OPS],-foo']
CHAN_POOL = ['foo', '-foo', 'op', 'bar', '-x{y}', 'baz', '#other,-foo']
DEF_POOL = ['-owner', '-admin', 'foo', '-foo', '-bar', 'x[y]', 'baz', '-trusted']
ASK = ['foo', '-foo', 'FOO', 'owner', '-owner', 'admin', 'bar', '-bar', 'x{y}', '-X[Y]', '#chan,foo', '#chan,-foo', '#CHAN,Foo',
       '#chan,op', '#chan,-op', '#other,foo', '#new,voice', '#new,-voice', '#chan,bar', 'baz', '-baz', 'qux', '-qux', '#chan,qux',
       'trusted', '#chan,x[y]', '#other,-foo', 'a,b', '#c,', '-#chan,foo', '#chan,#other,foo',
       # channel names with the rfc1459 case pairs []\\~ / {}|^ , asked in every spelling
       '#dev[ops],foo', '#DEV{OPS},foo', '#dev{ops},-foo', '#Dev[ops},bar', '#DEV[OPS],qux', '#dev{ops},-qux', '#dev[ops],op',
       '#a\\b~,foo', '#A|B^,-foo', '#a|b~,baz']
HOSTILE = ['', ' ', 'a b', ' a', 'a ', '-', '--x', '#c,-', '#c, x', ' ', '#c,a b', ',', '#,x', '-,', 'owner ', '- owner',
           '#' + 'c' * 49 + ',x', '#' + 'c' * 50 + ',x', '#c\x07,x', '&c,x', '!c,-x', '+c,x', 'é', '-é', '#é,É']


# ---- the oracle's own reading of the capability syntax (NOT the implementation's string algebra: a defect there must not
# be inherited by the oracle).  A channel capability is '<channel>,<capability>' where <channel> is an IRC channel name: starts
# with one of the channel-type characters, at most channellen characters long (the boundary length included), no comma, BEL or
# whitespace; chantypes / channellen are the documented defaults of ircutils.isChannel's signature. ----
@functools.lru_cache(maxsize=None)
def o_consts():
    _, _, ircutils = _mods()
    ps = inspect.signature(ircutils.isChannel).parameters
    return ps['chantypes'].default, ps['channellen'].default


def o_is_cap(c):
    return len(c.split()) == 1                 # one word: non-empty, no whitespace inside


def o_is_channel(s):
    chantypes, channellen = o_consts()
    return bool(s) and ',' not in s and '\x07' not in s and s[0] in chantypes and len(s) <= channellen and o_is_cap(s)


def o_chan_split(c):
    if ',' in c:
        ch, cap = c.split(',', 1)
        if o_is_channel(ch) and o_is_cap(cap):
            return ch, cap
    return None


def o_is_anti(c):
    p = o_chan_split(c)
    cap = p[1] if p else c
    return o_is_cap(cap) and cap[0] == '-'


def o_make_anti(c):
    p = o_chan_split(c)
    return p[0] + ',-' + p[1] if p else '-' + c


def nested(c):
    """class of finding F21: a channel capability whose capability part is itself a channel capability"""
    p = o_chan_split(c)
    return p is not None and o_chan_split(p[1]) is not None


def boundary_names(L):
    """channel names at the boundary of channellen: exactly L characters (a channel), L-1, and L+1 (not a channel)"""
    at, below, above = '#' + 'b' * (L - 1), '#' + 'b' * (L - 2), '#' + 'b' * L
    return {'at': at, 'below': below, 'above': above,
            'ask': [at + ',foo', at + ',-foo', at + ',op', at.upper() + ',bar', at + ',-qux', below + ',foo', below + ',-foo',
                    above + ',foo', above + ',-foo', '&' + at[1:] + ',foo'],
            'user': [at + ',op', at + ',-foo', below + ',op']}


BND = boundary_names(50)


def nonascii_channel_case(inp):
    """class of finding F47: the asked channel and a stored channel are different names for IRC but equal under str.lower()"""
    if 'db' not in inp or 'cap' not in inp:
        return False
    _, _, ircutils = _mods()
    p = o_chan_split(inp['cap'])
    return p is not None and any(n.lower() == p[0].lower() and ircutils.toLower(n) != ircutils.toLower(p[0])
                                 for n in inp['db']['chans'])


def _nested_input(inp):
    if 'cap' in inp:
        return nested(inp['cap'])
    if 'history' in inp:
        return any(a and nested(c) for a, c in inp['history']['edits'])
    return False


CLASSES = {'nested_channel_capability': _nested_input, 'nonascii_channel_case': nonascii_channel_case}


UNKNOWN_KINDS = ('none', 'nomatch', 'secure-authonly', 'dup')


def gen_db(rng, kind=None):
    """kind of sender: none (empty user database), nomatch (an account exists, the hostmask is not his), match, authonly
    (reached through a login), secure-authonly (secure account reached through a login: demoted to unknown), secure-match,
    dup (two accounts match the hostmask: DuplicateHostmask, treated as unknown)"""
    if kind is None:
        kind = rng.choice(['none', 'nomatch', 'match', 'match', 'match', 'match', 'authonly', 'secure-authonly', 'secure-authonly',
                           'secure-match', 'dup'])
    caps = [c for c in USER_POOL + BND['user'] if rng.random() < 0.22]
    chans = {}
    for name in ['#chan', '#other']:
        if rng.random() < 0.6:
            chans[name] = {'caps': [c for c in CHAN_POOL if rng.random() < 0.3], 'default': rng.random() < 0.7}
    # channel names at the boundary of channellen (exactly channellen characters: still a channel), non-default settings
    for name, pr in ((BND['at'], 0.4), (BND['below'], 0.15)):
        if rng.random() < pr:
            chans[name] = {'caps': [c for c in CHAN_POOL if rng.random() < 0.35], 'default': rng.random() < 0.4}
    # channels whose names contain the rfc1459 case pairs, stored under any spelling (sometimes under two: the later
    # setChannel replaces the earlier entry), mostly with non-default settings so that finding the entry matters
    for base, sp in SPELLINGS.items():
        if rng.random() < 0.45:
            for name in rng.sample(sp, 2 if rng.random() < 0.15 else 1):
                chans[name] = {'caps': [c for c in CHAN_POOL if rng.random() < 0.35], 'default': rng.random() < 0.4}
    g = _gen_db_tail(rng, kind, caps, chans)
    # "after any history of edits": add / remove edits (removes mostly of something that is there, in another spelling; some
    # failing: KeyError of remove, the '-owner' / not-a-capability asserts of add) on the account's, a channel's and the registry sets
    if rng.random() < 0.35:
        if g['user'] is not None:
            g['user']['edits'] = gen_edits(rng, g['user']['caps'], USER_POOL + ['-owner', 'a b'])
        for name in g['chans']:
            if rng.random() < 0.5:
                g['chans'][name]['edits'] = gen_edits(rng, g['chans'][name]['caps'] + ['-op', '-voice'], CHAN_POOL + ['op', 'voice', ''])
        if rng.random() < 0.5:
            g['default_edits'] = gen_edits(rng, g['defaults'], DEF_POOL[1:])
        if rng.random() < 0.3:
            g['registered_edits'] = gen_edits(rng, g['registered'], DEF_POOL[2:])
    return g


def gen_edits(rng, present, pool):
    out = []
    for _ in range(rng.randint(1, 5)):
        if rng.random() < 0.5:
            c = rng.choice(present) if present and rng.random() < 0.75 else rng.choice(pool)
            r = rng.random()
            c = c.swapcase() if r < 0.3 else (c.translate(str.maketrans('[]{}', '{}[]')) if r < 0.5 else c)
            out.append([False, c])
        else:
            out.append([True, rng.choice(pool)])
    return out


def _gen_db_tail(rng, kind, caps, chans):
    return {'user': None if kind == 'none' else {'caps': caps, 'ignore': rng.random() < 0.15, 'kind': kind},
            'chans': chans,
            'defaults': [c for c in DEF_POOL if rng.random() < 0.3],
            'registered': [c for c in DEF_POOL[2:] if rng.random() < 0.2],
            'flag': rng.random() < 0.7}


def gen_flags(rng):
    r = rng.random()
    if r < 0.55:
        return [False, False, False]
    if r < 0.70:
        return [rng.random() < 0.5, rng.random() < 0.5, True]          # the AutoMode call shape: ignoreDefaultAllow
    return [rng.random() < 0.5, rng.random() < 0.5, rng.random() < 0.5]


def apply_edits(add, remove, edits):
    """a history of add / remove edits through the real methods; returns the outcome of every edit (0 = ok, else the wire code
    of the exception: KeyError 3, AssertionError 5).  A failing edit must leave the set unchanged."""
    out = []
    for is_add, cap in edits:
        try:
            (add if is_add else remove)(cap)
            out.append(0)
        except KeyError:
            out.append(3)
        except AssertionError:
            out.append(5)
    return out


def build(ircdb, conf, g):
    users = ircdb.UsersDictionary()
    channels = ircdb.ChannelsDictionary()
    if g['user'] is not None:
        u = users.newUser()
        u.name = 'alice'
        for c in g['user']['caps']:
            u.addCapability(c)
        apply_edits(u.addCapability, u.removeCapability, g['user'].get('edits', []))
        u.ignore = g['user']['ignore']
        kind = g['user']['kind']
        if kind in ('match', 'secure-match'):
            u.addHostmask(H_MATCH)
        elif kind == 'nomatch':
            u.addHostmask('someone!else@*')
        elif kind == 'dup':
            u.addHostmask('nick!*@*')
        else:
            u.addHostmask('someone!else@*')
            u.addAuth(H_MATCH)
        u.secure = kind.startswith('secure')
        users.setUser(u)
        if kind == 'dup':
            # a second account whose (different) pattern matches the same hostmask: getUser raises DuplicateHostmask
            # (and drops both patterns), checkCapability must treat the sender as unknown
            v = users.newUser()
            v.name = 'bob'
            v.addCapability('owner')
            v.addHostmask('*!user@host.example')
            users.setUser(v)
    for name, c in g['chans'].items():
        ch = ircdb.IrcChannel()
        for cap in c['caps']:
            ch.addCapability(cap)
        apply_edits(ch.addCapability, ch.removeCapability, c.get('edits', []))
        ch.defaultAllow = c['default']
        channels.setChannel(name, ch)
    with contextlib.redirect_stdout(io.StringIO()):
        conf.supybot.capabilities.setValue(list(g['defaults']))
    conf.supybot.capabilities.registeredUsers.setValue(list(g['registered']))
    # the registry sets are edited in place by the defaultcapability commands: conf.supybot.capabilities().add / .remove
    apply_edits(conf.supybot.capabilities().add, conf.supybot.capabilities().remove, g.get('default_edits', []))
    apply_edits(conf.supybot.capabilities.registeredUsers().add, conf.supybot.capabilities.registeredUsers().remove,
                g.get('registered_edits', []))
    conf.supybot.capabilities.default.setValue(g['flag'])
    return users, channels


def snapshot(ircdb, conf, ircutils, users, channels, hostmask):
    """the model's view of the real objects (lookup results are inputs)"""
    try:
        u = users.getUser(hostmask)
        uv = [[sorted(set.__iter__(u.capabilities)), u.ignore, u.secure]]
        hostok = bool(u.checkHostmask(hostmask, useAuth=False))
    except (KeyError, ValueError):
        uv, hostok = [], False
    chans = [[ircutils.toLower(k.lower()), [sorted(set.__iter__(c.capabilities)), c.defaultAllow]]
             for k, c in channels.channels.items()]
    return [uv, hostok, chans, sorted(set.__iter__(conf.supybot.capabilities())),
            sorted(set.__iter__(conf.supybot.capabilities.registeredUsers())), conf.supybot.capabilities.default()]


def impl_check(ircdb, users, channels, h, cap, fl):
    try:
        r = ircdb.checkCapability(h, cap, users=users, channels=channels, ignoreOwner=fl[0], ignoreChannelOp=fl[1],
                                  ignoreDefaultAllow=fl[2])
        return ('ok', bool(r))
    except Exception as e:
        return ('raise', type(e).__name__)


def wf_cap(c):
    return bool(c) and not any(ch.isspace() for ch in c)


def parts(ircdb, c):
    """(channel or None, base, anti) of a well-formed capability, by the oracle's own syntax"""
    p = o_chan_split(c)
    ch, cap = p if p else (None, c)
    anti = cap.startswith('-')
    return ch, (cap[1:] if anti else cap), anti


def effective_user(snap):
    """the account the sender is treated as: none if unknown / ambiguous, or secure with a non-matching hostmask"""
    uv, hostok = snap[0], snap[1]
    user = uv[0] if uv else None
    if user is not None and user[2] and not hostok:
        user = None
    return user


def spec(ircdb, ircutils, g, snap, cap, fl=(False, False, False)):
    """independent decision list for ALL flag triples, evaluated on the real data: the property text with checkCapability's
    docstring applied (ignoreOwner: no "owners have all capabilities"; ignoreChannelOp: no "channel ops have all channel
    capabilities"; ignoreDefaultAllow: every default-allow fallback answers as if it were False).  Mirrors coq/C03/Spec.v
    spec_flags, including its notes (1)-(3)."""
    ignoreOwner, ignoreChannelOp, ignoreDefaultAllow = fl
    fold = ircutils.toLower
    ch, base, anti = parts(ircdb, cap)
    full = fold(base if ch is None else ch + ',' + base)      # the non-anti form, folded
    fullanti = fold('-' + base if ch is None else ch + ',-' + base)
    base_f, antibase_f = fold(base), fold('-' + base)

    def holds(b):                                             # "the sender has the capability: b", read for the asked form
        return b != anti

    def explicit(s, pos, neg):
        if pos in s:
            return True
        if neg in s:
            return False
        return None
    uv, hostok, chans, D, R, flag = snap
    user = effective_user(snap)
    if user is not None:
        caps, ignore, _ = user
        owner = 'owner' in caps
        e = explicit(caps, full, fullanti)
        if full == 'owner':
            return holds(owner and not ignore)                # asking for 'owner' itself
        if owner and not ignoreOwner:
            return holds(not ignore)                          # owner: everything, no anti-capability (ignored: nothing)
        if e is not None:
            return holds(e and not ignore)                    # explicit user (anti)capability
        if owner and ignore:
            return holds(False)                               # note (3): the membership test never sees ignoreOwner
        if ch is not None and not ignoreChannelOp and not ignore:
            # channel op counts as everything in the channel; note (2): the channel-op test never sees ignoreOwner
            if owner or fold(ch + ',op') in caps:
                return holds(True)
    if ch is not None:
        # the channel the asked name denotes: the entry stored under a name that IS this name for IRC (rfc1459 folding); the
        # real table additionally identifies names that differ in the case of non-ASCII letters (str.lower): finding F47
        same = [n for n in g['chans'] if fold(n) == fold(ch)]
        c = dict((k, v) for k, v in chans).get(fold(same[-1].lower()), None) if same else None
        if c is None:
            c = [['-op', '-halfop', '-voice', '-protected'], True]
        e = explicit(c[0], base_f, antibase_f)
        if e is not None:
            return holds(e)
        if ignoreDefaultAllow:
            # note (1): for a recognised sender the code answers plain False (also for the anti-capability)
            return False if user is not None else holds(False)
        return holds(c[1])
    e = explicit(D, base_f, antibase_f)
    if e is not None:
        return holds(e)
    if user is not None:
        e = explicit(R, base_f, antibase_f)
        if e is not None:
            return holds(e)
    return holds(flag and not ignoreDefaultAllow)


def variants(c):
    sw = c.swapcase()
    tr = c.translate(str.maketrans('[]\\~{}|^', '{}|^[]\\~'))
    return [v for v in (sw, tr) if v != c]


def run_case(ctx, mods, g, cap, fl, mout, kind, asked_h=H_MATCH, mout3=None):
    ircdb, conf, ircutils = mods
    inp = {'db': g, 'cap': cap, 'flags': fl, 'hostmask': asked_h}
    ctx.case(kind, inp)
    # the snapshot looks the sender up (and, for a duplicate match, getUser drops the offending patterns): take it from its
    # own copy so that checkCapability below is the first to look the sender up
    users, channels = build(ircdb, conf, g)
    snap = snapshot(ircdb, conf, ircutils, users, channels, asked_h)
    users, channels = build(ircdb, conf, g)
    ir = impl_check(ircdb, users, channels, asked_h, cap, fl)
    if mout is not None:
        mr = wire.r(mout, bool)
        if mr != ir:
            ctx.disagree(inp, mr, ir, 'checkCapability')
    if mout3 is not None:
        mr3 = wire.r(mout3, bool)
        if mr3 != ir:
            ctx.disagree(inp, mr3, ir, 'checkCapability, channel table rebuilt by the model from the setChannel calls')
    if not wf_cap(cap):
        return
    # totality on well-formed capabilities
    if ir[0] != 'ok':
        ctx.fail(inp, 'checkCapability raised %s on a well-formed capability' % ir[1])
        return
    # asking again on the same objects (caches warm, default channels created by the first lookup) gives the same answer
    again = impl_check(ircdb, users, channels, asked_h, cap, fl)
    if again != ir:
        ctx.fail(inp, 'asked twice on the same database: first %r, then %r' % (ir, again))
    # case variants give the same answer
    for v in variants(cap):
        users, channels = build(ircdb, conf, g)
        r2 = impl_check(ircdb, users, channels, asked_h, v, fl)
        if r2 != ir:
            ctx.fail(inp, 'case variant %r answers %r, %r answers %r' % (v, r2, cap, ir))
    # capability and anti-capability give opposite answers: every flag triple without ignoreDefaultAllow, and with it unless
    # the sender is a recognised account and the capability a channel capability (C03_anti_opposite_flags; the remaining case
    # is C03_anti_opposite_ignoreDefaultAllow_refuted, a recorded non-finding)
    if not o_is_anti(cap) and (not fl[2] or effective_user(snap) is None or o_chan_split(cap) is None):
        users, channels = build(ircdb, conf, g)
        anti = o_make_anti(cap)
        r3 = impl_check(ircdb, users, channels, asked_h, anti, fl)
        if r3[0] != 'ok' or r3[1] == ir[1]:
            ctx.fail(inp, '%r -> %r but %r -> %r (not opposite)' % (cap, ir, anti, r3))
    # documented precedence, for every flag triple
    want = spec(ircdb, ircutils, g, snap, cap, fl)
    if want != ir[1]:
        ctx.fail(inp, 'precedence spec says %r, checkCapability says %r (flags ignoreOwner=%r ignoreChannelOp=%r '
                      'ignoreDefaultAllow=%r)' % (want, ir[1], fl[0], fl[1], fl[2]))


def chan_sets(ircdb, g):
    """the setChannel(name, channel) calls that build the channel table, names as spelled: the model replays them through its
    own setChannel (str.lower, then the IrcDict key function)"""
    out = []
    for name, c in g['chans'].items():
        ch = ircdb.IrcChannel()
        for cap in c['caps']:
            ch.addCapability(cap)
        apply_edits(ch.addCapability, ch.removeCapability, c.get('edits', []))
        ch.defaultAllow = c['default']
        out.append([name, [sorted(set.__iter__(ch.capabilities)), ch.defaultAllow]])
    return out


def snapshot_wire(mods, g, h):
    ircdb, conf, ircutils = mods
    users, channels = build(ircdb, conf, g)
    return snapshot(ircdb, conf, ircutils, users, channels, h)


def _db(kind, caps=(), ignore=False, chans=None, defaults=(), registered=(), flag=True):
    return {'user': None if kind == 'none' else {'caps': list(caps), 'ignore': ignore, 'kind': kind},
            'chans': {'#chan': {'caps': [], 'default': True}} if chans is None else chans,
            'defaults': list(defaults), 'registered': list(registered), 'flag': flag}


def corpus():
    """past witnesses and the shapes of seeded changes, run first: (db, cap, flags)"""
    out = []
    # seeded change C03_5 (_checkCapabilityForUnknownUser drops ignoreDefaultAllow on the channel branch): a sender who is not a
    # recognised account (unknown / secure-demoted / duplicate match), a channel capability the channel says nothing about,
    # defaultAllow on, ignoreDefaultAllow (the AutoMode call shape): the stranger must not be granted '#chan,foo'
    for kind in UNKNOWN_KINDS:
        for caps in ((), ('#chan,op',), ('owner',)):
            for chans in (None, {}, {'#chan': {'caps': ['bar', '-baz'], 'default': True}}, {'#chan': {'caps': [], 'default': False}}):
                for cap in ('#chan,foo', '#chan,-foo', '#CHAN,Foo'):
                    for fl in ([True, True, True], [False, False, True]):
                        out.append((_db(kind, caps, chans=chans), cap, fl))
    # explicit channel settings still win for the stranger under ignoreDefaultAllow
    for kind in UNKNOWN_KINDS:
        for cc in (['foo'], ['-foo']):
            for cap in ('#chan,foo', '#chan,-foo'):
                out.append((_db(kind, chans={'#chan': {'caps': cc, 'default': True}}), cap, [False, False, True]))
    # ignoreDefaultAllow on the plain branches (global default flag), known and unknown senders
    for kind in ('none', 'match', 'dup'):
        for cap in ('foo', '-foo', 'baz'):
            out.append((_db(kind, defaults=['baz'], registered=['-foo'] if kind == 'match' else []), cap, [False, False, True]))
    # the recorded asymmetry (non-finding): recognised sender, channel capability, nothing explicit, ignoreDefaultAllow
    for cap in ('#chan,foo', '#chan,-foo'):
        out.append((_db('match'), cap, [False, False, True]))
    # notes (2)/(3) of spec_flags: ignoreOwner reaches neither the channel-op test nor the membership test
    for fl in ([True, False, False], [True, True, False], [True, True, True], [False, True, False]):
        for ignore in (False, True):
            for cap in ('foo', '-foo', '#chan,foo', '#chan,-foo', 'owner', '-owner'):
                out.append((_db('match', ['owner'], ignore=ignore), cap, fl))
                out.append((_db('match', ['owner', '-foo', '#chan,-foo'], ignore=ignore), cap, fl))
    # channel op with / without ignoreChannelOp; '#chan,-op' holder is not an op
    for fl in ([False, False, False], [False, True, False], [False, True, True], [False, False, True]):
        for caps in (['#chan,op'], ['#chan,-op'], ['#Chan,op', '#chan,-foo']):
            for cap in ('#chan,foo', '#chan,-foo', '#other,foo'):
                out.append((_db('match', caps), cap, fl))
    # seeded change C03_7 (ChannelsDictionary.channels a plain dict keyed by str.lower()): a channel whose name contains one of
    # the rfc1459 case pairs, a non-default setting, asked under another spelling of the same name
    for stored in ('#dev[ops]', '#DEV{OPS}', '#Dev[ops}'):
        for cc, dflt in ((['-foo'], True), (['foo'], False), ([], False)):
            for kind, caps in (('none', ()), ('match', ()), ('match', ('#dev{ops},op',)), ('secure-authonly', ())):
                for cap in ('#dev[ops],foo', '#DEV{OPS},foo', '#dev{ops},-foo', '#DEV[OPS],bar'):
                    out.append((_db(kind, caps, chans={stored: {'caps': cc, 'default': dflt}}), cap, [False, False, False]))
    out.append((_db('none', chans={'#a\\b~': {'caps': ['-foo'], 'default': False}}), '#A|B^,foo', [False, False, False]))
    # the later of two stores under spellings of one name wins
    out.append((_db('none', chans={'#dev[ops]': {'caps': ['-foo'], 'default': True}, '#DEV{OPS}': {'caps': ['foo'], 'default': False}}),
                '#dev[ops},foo', [False, False, False]))
    # seeded change C03_8 (isChannel: len(s) < channellen): a channel whose name is exactly channellen characters long is a
    # channel, '<name>,foo' a channel capability: channel op, the channel's explicit setting and its defaultAllow decide
    at = BND['at']
    for kind, caps in (('none', ()), ('match', ()), ('match', (at + ',op',)), ('match', (at + ',-foo',))):
        for cc, dflt in ((['-foo'], True), (['foo'], False), ([], False)):
            for cap in (at + ',foo', at + ',-foo', at.upper() + ',bar', BND['below'] + ',foo', BND['above'] + ',foo'):
                out.append((_db(kind, caps, chans={at: {'caps': cc, 'default': dflt}}, flag=True), cap, [False, False, False]))
    # finding F47: '#\u00c9' and '#\u00e9' are different channels for IRC, one record for the channel table (str.lower)
    for stored, asked in (('#\u00c9', '#\u00e9'), ('#\u00e9', '#\u00c9'), ('#\u00c9t\u00e9', '#\u00e9t\u00e9')):
        for cap in (asked + ',foo', asked + ',-foo', stored + ',foo'):
            out.append((_db('none', chans={stored: {'caps': ['-foo'], 'default': True}}), cap, [False, False, False]))
    # histories of edits: remove in another spelling, remove of the inverse (KeyError, nothing changes), re-add
    g = _db('match', ['foo', '#chan,op', 'x[y]'])
    g['user']['edits'] = [[False, 'FOO'], [False, '-x{y}'], [False, 'X{Y}'], [True, '-owner'], [True, '-#chan,op'], [False, '#CHAN,OP']]
    g['chans'] = {'#chan': {'caps': ['foo', '-bar'], 'default': False, 'edits': [[False, '-foo'], [False, 'Foo'], [False, '-OP'], [True, '']]}}
    g['default_edits'] = [[True, 'baz'], [False, 'BAZ'], [False, 'baz'], [True, '-foo']]
    for cap in ('foo', '-foo', 'x{y}', '#chan,foo', '#chan,bar', '#chan,op', '#chan,-op', 'baz'):
        out.append((g, cap, [False, False, False]))
    # finding F21's witness shape stays in the stream
    out.append((_db('none', chans={'#chan': {'caps': ['#other,-foo'], 'default': True}}), '#chan,#other,foo', [False, False, False]))
    return out


CHAN_ASK = [c for c in ASK if c.startswith('#') and c.count(',') == 1 and not c.endswith(',')]


def run(ctx):
    mods = _mods()
    ircdb, conf, ircutils = mods
    rng = ctx.rng
    saved = (list(conf.supybot.capabilities()), conf.supybot.capabilities.default())
    try:
        globals()['BND'] = boundary_names(o_consts()[1])
        ask = ASK + BND['ask']
        cases = [(g, cap, fl, 'corpus') for g, cap, fl in corpus()]
        for _ in range(ctx.n(2000)):
            g = gen_db(rng)
            for cap in rng.sample(ask, 7) + rng.sample(HOSTILE, 1):
                fl = gen_flags(rng)
                cases.append((g, cap, fl, 'default-flags' if fl == [False] * 3 else 'ignore-flags'))
        # the AutoMode call shape on senders that are not recognised accounts: ignoreDefaultAllow, channel capabilities, channels
        # with few explicit settings (so that the default-allow fallback is what decides)
        for _ in range(ctx.n(350)):
            g = gen_db(rng, rng.choice(UNKNOWN_KINDS))
            for name in list(g['chans']):
                if rng.random() < 0.7:
                    g['chans'][name]['caps'] = [c for c in g['chans'][name]['caps'] if c in ('op', 'bar', '-x{y}')]
            for cap in rng.sample(CHAN_ASK + BND['ask'], 4) + rng.sample(ask, 1):
                cases.append((g, cap, [rng.random() < 0.5, rng.random() < 0.5, True], 'automode-unknown'))
        snaps = [snapshot_wire(mods, g, H_MATCH) for g, _, _, _ in cases]
        outs = ctx.model([[0, [sn, cap, fl]] for sn, (g, cap, fl, _) in zip(snaps, cases)])
        # the same cases, the channel table not read back from the container but rebuilt by the model's own setChannel
        outs3 = ctx.model([[3, [sn[:2] + [chan_sets(ircdb, g)] + sn[3:], cap, fl]] for sn, (g, cap, fl, _) in zip(snaps, cases)])
        for (g, cap, fl, kind), mo, mo3 in zip(cases, outs, outs3):
            if any(ord(x) > 127 for n in list(g['chans']) + [cap.split(',')[0]] for x in n):
                # str.lower() of non-ASCII letters is outside the model (its lower is ASCII): no correspondence claimed here
                mo = mo3 = None
            special = any(ch in cap for sp in SPELLINGS.values() for ch in sp)
            bnd = any(cap.lower().startswith(BND[k].lower() + ',') or cap[1:].lower().startswith(BND[k][1:] + ',') for k in ('at', 'below', 'above'))
            run_case(ctx, mods, g, cap, fl, mo, kind + ('-hostile' if not wf_cap(cap) or cap in HOSTILE else '')
                     + ('-pairchan' if special else '') + ('-boundary' if bnd else ''), mout3=mo3)
        # ircdb.checkCapabilities (requireAll / any), through the default users= / channels= arguments of checkCapability
        ccases = []
        for _ in range(ctx.n(600)):
            g = gen_db(rng)
            ccases.append((g, rng.sample(ask, rng.randint(0, 4)) + (rng.sample(HOSTILE, 1) if rng.random() < 0.1 else []),
                           rng.random() < 0.5))
        outs = ctx.model([[5, [snapshot_wire(mods, g, H_MATCH), caps, ra]] for g, caps, ra in ccases])
        for (g, caps, ra), mo in zip(ccases, outs):
            run_caps_case(ctx, mods, g, caps, ra, mo)
        # histories of edits on one set: UserCapabilitySet / CapabilitySet / IrcChannel()'s initial set
        hcases = []
        for _ in range(ctx.n(500)):
            user = rng.random() < 0.4
            initial = 'empty' if user or rng.random() < 0.5 else 'channel'
            pool = (USER_POOL + ['-owner', 'OWNER']) if user else (CHAN_POOL + DEF_POOL + ['op', '-OP', 'voice'])
            edits, present = [], []
            for _ in range(rng.randint(0, 10)):
                if present and rng.random() < 0.4:
                    c = rng.choice(present + pool)
                    c = rng.choice([c, c.swapcase(), c.translate(str.maketrans('[]{}', '{}[]'))])
                    edits.append([False, c])
                else:
                    c = rng.choice(pool + ['a b', '', 'X{Y}', '-Foo'])
                    edits.append([True, c])
                    present.append(c)
            hcases.append({'user': user, 'initial': initial, 'edits': edits})
        outs = ctx.model([[4, [h['user'], initial_set(ircdb, h['initial']), h['edits']]] for h in hcases])
        for h, mo in zip(hcases, outs):
            run_history_case(ctx, mods, h, mo)
        # the string algebra on its own
        words = ask + HOSTILE + USER_POOL + BND['user'] + [BND['at'], BND['above']] + [a + b for a in ['', '-', '#c,', '#c,-', '#C,'] for b in ['x', 'X y', '', '-', 'é', 'x,y', ' x']]
        outs = ctx.model([[1, w] for w in words])
        for w, mo in zip(words, outs):
            inp = {'algebra': w}
            ctx.case('algebra', inp)

            def safe(f):
                try:
                    return ('ok', f(w))
                except Exception as e:
                    return ('raise', type(e).__name__)
            impl = [bool(ircdb.isCapability(w)), bool(ircdb.isChannelCapability(w)), bool(ircdb.isAntiCapability(w)),
                    safe(ircdb.makeAntiCapability), safe(ircdb.unAntiCapability), safe(ircdb.invertCapability), ircutils.toLower(w)]
            d = algebra_oracle(ircdb, w)
            if d:
                ctx.fail(inp, d)
            if mo is not None:
                model = [bool(mo[0]), bool(mo[1]), bool(mo[2]), wire.r(mo[3], wire.s), wire.r(mo[4], wire.s), wire.r(mo[5], wire.s),
                         wire.s(mo[6])]
                if model != impl:
                    ctx.disagree(inp, model, impl, 'capability algebra')
        # CapabilitySet.add sequences
        seqs = [[rng.choice(USER_POOL + CHAN_POOL + ['FOO', '-Foo', 'X{Y}']) for _ in range(rng.randint(0, 8))] for _ in range(ctx.n(300))]
        outs = ctx.model([[2, s] for s in seqs])
        for s, mo in zip(seqs, outs):
            inp = {'adds': s}
            ctx.case('set-add', inp)
            cs = ircdb.CapabilitySet()
            for c in s:
                cs.add(c)
            impl = sorted(set.__iter__(cs))
            if mo is not None:
                mr = wire.r(mo, lambda v: sorted(wire.ls(v)))
                if mr != ('ok', impl):
                    ctx.disagree(inp, mr, impl, 'CapabilitySet.add')
            for c in impl:       # the invariant the anti-symmetry theorem needs
                if ircdb.invertCapability(c) in impl:
                    ctx.fail(inp, 'set holds both %r and its inverse' % c)
    finally:
        conf.supybot.capabilities.setValue(saved[0])
        conf.supybot.capabilities.default.setValue(saved[1])
        conf.supybot.capabilities.registeredUsers.setValue([])


def initial_set(ircdb, initial):
    return sorted(set.__iter__(ircdb.IrcChannel().capabilities)) if initial == 'channel' else []


def run_history_case(ctx, mods, h, mout):
    ircdb, conf, ircutils = mods
    inp = {'history': h}
    ctx.case('history', inp)
    if h['initial'] == 'channel':
        ch = ircdb.IrcChannel()
        cs = ch.capabilities
        add, remove = cs.add, cs.remove
        # IrcChannel.addCapability / removeCapability put `assert isCapability` in front of the same set methods: same final set
        ch2 = ircdb.IrcChannel()
        apply_edits(ch2.addCapability, ch2.removeCapability, h['edits'])
    elif h['user']:
        u = ircdb.IrcUser()
        cs, add, remove = u.capabilities, u.addCapability, u.removeCapability
    else:
        cs = ircdb.CapabilitySet()
        add, remove = cs.add, cs.remove
    before, outcomes = None, []
    for e in h['edits']:
        before = sorted(set.__iter__(cs))
        o = apply_edits(add, remove, [e])[0]
        outcomes.append(o)
        if o != 0 and sorted(set.__iter__(cs)) != before:
            ctx.fail(inp, 'failing edit %r changed the set: %r -> %r' % (e, before, sorted(set.__iter__(cs))))
    impl = [sorted(set.__iter__(cs)), outcomes]
    if h['initial'] == 'channel' and sorted(set.__iter__(ch2.capabilities)) != impl[0]:
        ctx.fail(inp, 'IrcChannel.add/removeCapability end in %r, the set methods in %r' % (sorted(set.__iter__(ch2.capabilities)), impl[0]))
    if mout is not None:
        model = [sorted(wire.ls(mout[0])), [int(x) for x in mout[1]]]
        if model != impl:
            ctx.disagree(inp, model, impl, 'history of add/remove edits')
    for c in impl[0]:       # the invariant db_ok of the theorems
        if ircdb.invertCapability(c) in impl[0]:
            ctx.fail(inp, 'after the history the set holds both %r and its inverse' % c)


def run_caps_case(ctx, mods, g, caps, ra, mout, asked_h=H_MATCH):
    ircdb, conf, ircutils = mods
    inp = {'db': g, 'caps': caps, 'requireAll': ra, 'hostmask': asked_h}
    ctx.case('checkCapabilities', inp)
    users, channels = build(ircdb, conf, g)
    saved = ircdb.checkCapability.__defaults__
    try:
        # checkCapabilities has no users= / channels=: it reaches the database through checkCapability's default arguments
        ircdb.checkCapability.__defaults__ = (users, channels) + tuple(saved[2:])
        try:
            ir = ('ok', bool(ircdb.checkCapabilities(asked_h, caps, ra)))
        except Exception as e:
            ir = ('raise', type(e).__name__)
    finally:
        ircdb.checkCapability.__defaults__ = saved
    if mout is not None:
        mr = wire.r(mout, bool)
        if mr != ir:
            ctx.disagree(inp, mr, ir, 'checkCapabilities')
    if not all(wf_cap(c) for c in caps):
        return
    if ir[0] != 'ok':
        ctx.fail(inp, 'checkCapabilities raised %s on well-formed capabilities' % ir[1])
        return
    single = []
    for c in caps:
        users, channels = build(ircdb, conf, g)
        single.append(impl_check(ircdb, users, channels, asked_h, c, [False, False, False]))
    want = all(r == ('ok', True) for r in single) if ra else any(r == ('ok', True) for r in single)
    if want != ir[1]:
        ctx.fail(inp, 'checkCapabilities(requireAll=%r) = %r, the single answers are %r' % (ra, ir[1], single))


def algebra_oracle(ircdb, w):
    """the capability syntax of the property text, evaluated on the implementation's string algebra"""
    got = (bool(ircdb.isCapability(w)), bool(ircdb.isChannelCapability(w)), bool(ircdb.isAntiCapability(w)))
    want = (o_is_cap(w), o_chan_split(w) is not None, o_is_anti(w))
    if got != want:
        return ('%r: (isCapability, isChannelCapability, isAntiCapability) = %r, the capability syntax says %r'
                % (w, got, want))
    if o_is_cap(w) and not o_is_anti(w):
        try:
            a = ircdb.makeAntiCapability(w)
        except Exception as e:
            a = type(e).__name__
        if a != o_make_anti(w):
            return 'makeAntiCapability(%r) = %r, the anti-capability is %r' % (w, a, o_make_anti(w))
    return None


def replay(ctx, inp):
    mods = _mods()
    sub = type(ctx)(ctx.pid, ctx.tier, ctx.seed, {'model_ok': False})
    if 'db' in inp and 'cap' in inp:
        run_case(sub, mods, inp['db'], inp['cap'], inp['flags'], None, 'replay', inp.get('hostmask', H_MATCH))
    elif 'algebra' in inp:
        return algebra_oracle(mods[0], inp['algebra'])
    elif 'history' in inp:
        run_history_case(sub, mods, inp['history'], None)
    elif 'caps' in inp:
        run_caps_case(sub, mods, inp['db'], inp['caps'], inp['requireAll'], None, inp.get('hostmask', H_MATCH))
    return sub.failures[0]['detail'] if sub.failures else None


def shrink(ctx, inp):
    """greedy: drop capabilities / channels / default entries / flags while the property still fails on the implementation"""
    if 'db' not in inp or 'cap' not in inp:
        return inp
    cur = copy.deepcopy(inp)

    def fails(x):
        try:
            return replay(ctx, x) is not None
        except Exception:
            return False
    if not fails(cur):
        return inp
    progress = True
    while progress:
        progress = False
        cands = []
        db = cur['db']
        if db['user'] is not None:
            for i in range(len(db['user']['caps'])):
                cands.append(('ucap', i))
            if db['user']['ignore']:
                cands.append(('unignore', None))
            if not db['user']['caps'] and not db['user']['ignore'] and db['user']['kind'] == 'nomatch':
                cands.append(('nouser', None))
        for name in list(db['chans']):
            cands.append(('delchan', name))
            for i in range(len(db['chans'][name]['caps'])):
                cands.append(('ccap', (name, i)))
        for key in ('defaults', 'registered'):
            for i in range(len(db[key])):
                cands.append((key, i))
        for i in range(3):
            if cur['flags'][i]:
                cands.append(('flag', i))
        for what, arg in cands:
            t = copy.deepcopy(cur)
            d = t['db']
            if what == 'ucap':
                del d['user']['caps'][arg]
            elif what == 'unignore':
                d['user']['ignore'] = False
            elif what == 'nouser':
                d['user'] = None
            elif what == 'delchan':
                del d['chans'][arg]
            elif what == 'ccap':
                del d['chans'][arg[0]]['caps'][arg[1]]
            elif what == 'flag':
                t['flags'][arg] = False
            else:
                del d[what][arg]
            if fails(t):
                cur, progress = t, True
                break
    return cur

