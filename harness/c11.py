"""C11 — the socket driver preserves the byte stream under any fragmentation."""
import itertools, socket
import boot
from lib import wire
from lib.shrink import shrink_seq

TABLES = ['T11']
RULE = ('event traces for the real SocketDriver (built by its own __init__ with connect() stubbed, a scripted fake `conn` and a stub irc): '
        'each event is one call of _sendIfMsgs() or _read() together with what takeMsg()/send()/recv() answer. Corpus (finding witnesses) + '
        'outgoing: texts with 1/2/3/4-byte characters x every send script of <=3 calls over {1,2,3,5 bytes, EAGAIN} then a drain + '
        'incoming: every partition of short streams (<=9 bytes quick, <=12 thorough) containing CR LF, multi-byte characters, invalid UTF-8, '
        'blank and malformed lines + streams with one line of 513..3000 bytes (tagged and untagged, multi-byte text; a few of 6000..8700 bytes) cut so that more than 512 bytes stay unterminated between two reads, in regular small chunks, at random + seeded random mixed traces (mostly valid IRC traffic) + hostile traces (random bytes, surrogates, k=0, '
        'error bursts beyond the EAGAIN limit, closed socket) + long send-only traces with hundreds of EAGAINs in short runs, each run followed by a 1..3-byte write (slow silent server).  Every trace runs on the implementation and on the extracted model; the '
        'driver attributes are diffed after every event, the observations (wire bytes, taken text, received bytes, fed messages) at the end. '
        'The property is evaluated directly: wire bytes must be a prefix of (equal to, once the buffer is empty) the UTF-8 of the taken '
        'messages; a socket that reported no error and never more than 120 EAGAINs in a row must still be connected; fed messages must equal those of a fresh driver fed the same bytes one at a time and of one fed them 1024 at a time.  str.encode / decode(replace) / strip '
        'models are diffed against CPython on boundary alphabets.  non-trivial = distinct trace that moved bytes')
TRUSTED = ['IrcMsg(line) (subject of C05) enters the theorems as an arbitrary function parse : str -> res M; the executable instance uses the '
           'table line -> exception that the harness computes with the real constructor',
           'decode_raw_line and the str.strip() whitespace set are arbitrary parameters of the incoming theorems; the executable instance is a '
           'Gallina model of CPython utf-8/replace decoding (diffed on every run) and the regenerated str.isspace table',
           'the except clause around drivers.parseMsg in _read (C07.F4 repair) is regenerated into READ_CATCHES; that IrcMsg raises nothing else (C05.F3 repair) is '
           'the hypothesis of C11_in_reads_never_killed, counted per run in input_distribution (hypothesis:parser-raised-uncaught-exception must stay absent)',
           'the dispatch loop (drivers.run / SocketDriver._select / run) is replaced by the event script; "an exception leaving _read/_sendIfMsgs '
           'ends the driver" is drivers.run\'s except clause, emulated by the harness and by the model field `dead`',
           'reconnect() is modelled for the successful case only (real reconnect() against a scripted socket factory; observations are per connection); die()/zombie, starttls and SSLError paths are not modelled']
ASSUMPTIONS = ['world.testing/log.testing off', 'charade not importable (checked by the table extractor): decode_raw_line = utf-8 strict, else utf-8 replace',
               'recv() error codes exclude ETIMEDOUT, which CPython >= 3.10 maps to socket.timeout',
               'send() returns 0..len(data) or raises socket.error; recv() returns <= 1024 bytes']
LEVEL_TEXT = ('Coq theorems over an executable Gallina model of SocketDriver._sendIfMsgs/_handleSocketError/_read + drivers.parseMsg: for every event trace '
              '(any interleaving of sends, reads, partial writes, EAGAIN, errors, timeouts) the messages fed to the bot are a function of the concatenated '
              'received bytes alone (hence equal for any two partitions of a stream, whatever the decoder and parser), the unparsed remainder is the last piece, with no bound on the length of a line or of that remainder (the statements of _read between recv() and the per-line loop are pinned one by one); a line the '
              'parser rejects with a caught exception is skipped and, if the parser raises nothing else, no byte stream can end the driver; '
              'the outgoing invariant wire ++ outbuffer = utf8(text of the messages that entered the buffer) holds on EVERY trace, across reconnects (C11.F47 repaired: a reconnect leaves nothing of the previous connection, C11_reconnect_fresh) (finding C11.F11 repaired: the '
              'out-buffer holds the unsent bytes), that text being all text taken from the queue unless a last batch had no UTF-8 encoding (its exception ends the '
              'driver); the buffer drains under sends returning > 0; an EAGAIN moves no byte and keeps the connection exactly up to the regenerated limit, and EAGAINs in runs of at most limit+1 never end the connection however many in total (the counter is reset by every successful send; the send block is pinned statement by statement).  '
              'Tied to the source by regenerated constants (EAGAIN code and limit, line separator, whitespace set, bytes out-buffer) and a per-event '
              'differential run of the extracted model against the real driver on every check.')
LEVEL_NOTE = ('Trusted: Coq kernel, gen_tables.py, extraction + OCaml driver, the Python harness (scripted socket and socket factory, stub irc, emulation of '
              'drivers.run\'s kill-on-exception); IrcMsg/decode/strip are parameters of the theorems; Python code is modelled, not verified.  NOT modelled (gap audit): '
              '(1) die()/zombie: Irc.die() removes the driver from the loop inside the _sendIfMsgs that takes the QUIT, so a short write truncates it (known finding '
              'C11.F48, direct oracle only); (2) failing connection attempts in reconnect() (DNS/connect/TLS errors, scheduleReconnect back-off), reconnect(wait=True), '
              'the EINPROGRESS/_checkAndWriteOrReconnect path (it sets connected without adding the driver to _instances; unreachable with timeout sockets); '
              '(3) the dispatch SocketDriver.run/_select (shared class list _instances mutated while iterated: a read is postponed one round, no byte lost) -- events are '
              'direct calls of _sendIfMsgs/_read/reconnect; (4) TLS: starttls, SSLError branches of _read, SSLWant* errors (treated like any non-EAGAIN error: disconnect); '
              '(5) a send() that TIMES OUT (socket.timeout after drivers.poll seconds on a full kernel buffer) is a non-EAGAIN socket.error: the driver disconnects (modelled '
              'as SErr code 0), "EAGAIN" in the property is only errno 11; recv errno ETIMEDOUT is mapped to socket.timeout by CPython >= 3.10 and ignored; '
              '(6) decode_raw_line with charade installed (pinned absent); (7) outgoing messages are objects with __str__ (not Irc.takeMsg of a real Irc: truncation, outFilter '
              'are C06/C19); (8) one driver, one network, default drivers.poll / maxReconnectWait; Python 2 branches.')
TECHNIQUE = 'Coq proof (trace invariants by induction, list-splitting lemmas) + regenerated tables + extracted-model differential correspondence per event'
EXPLANATION = 'C11: model of the SocketDriver byte-stream paths; theorems in coq/C11/Props.v'

BIG = 1 << 20
RECV_MAX = 1024              # _read calls conn.recv(1024)
EAGAIN_RUN_TOLERATED = 120   # 'self.eagains > 120' in _handleSocketError: up to 120 consecutive EAGAINs must be survived
EXN_CODE = {v: k for k, v in wire.EXN.items()}
_mods = {}


def mods():
    if not _mods:
        boot.boot()
        import supybot.drivers as drivers
        import supybot.drivers.Socket as Socket
        import supybot.ircmsgs as ircmsgs
        import supybot.utils.str as ustr

        import supybot.conf as conf
        import supybot.utils as utils

        class Driver(Socket.SocketDriver):
            """the real driver; only the connection attempt made by __init__ is stubbed out (reconnect() is the real one)"""
            def connect(self, **kwargs):
                pass

        # the real reconnect() runs against a scripted socket factory instead of the network
        def get_socket(*a, **k):
            return FakeConn()
        utils.net.getSocket = get_socket
        utils.net.getAddressFromHostname = lambda hostname, attempt=0: '127.0.0.1'
        net = conf.supybot.networks.get('test')
        net.servers.set('fake.invalid:6667 other.invalid:6667')
        net.ssl.setValue(False)
        _mods.update(conf=conf)
        _mods.update(drivers=drivers, Socket=Socket, ircmsgs=ircmsgs, ustr=ustr, Driver=Driver)
    return _mods


def exn_code(e):
    m = mods()
    if isinstance(e, m['ircmsgs'].MalformedIrcMsg):
        return 8
    if isinstance(e, UnicodeError):
        return 7
    for name in ('IndexError', 'KeyError', 'TypeError', 'AssertionError', 'AttributeError', 'SyntaxError', 'ValueError'):
        if type(e).__name__ == name:
            return EXN_CODE[name]
    return 12


class Txt:
    """an outgoing message: only str(m) matters to the driver"""
    def __init__(self, text):
        self.text = text

    def __str__(self):
        return self.text


class StubIrc:
    network = 'test'
    zombie = False

    def __init__(self):
        self.queue, self.taken, self.fed = [], [], []

    def takeMsg(self):
        if self.queue:
            m = self.queue.pop(0)
            self.taken.append(m.text)
            return m
        return None

    def feedMsg(self, msg):
        self.fed.append(msg)

    def reset(self):
        pass

    def __repr__(self):
        return 'StubIrc(test)'


class FakeConn:
    _closed = False

    def __init__(self):
        self.wire = bytearray()
        self.received = bytearray()
        self.sres = self.rres = None
        self.log = []                      # what the socket answered, call by call: ok / eagain / err / closed / timeout

    def send(self, data):
        s = self.sres
        if s[0] == 'sent':
            n = min(s[1], len(data))
            self.wire += data[:n]
            self.log.append('ok')
            return n
        self.log.append('eagain' if s[1] == 11 else 'err')
        raise socket.error(s[1], 'scripted error')

    def recv(self, n):
        r = self.rres
        if r[0] == 'data':
            b = bytes.fromhex(r[1])
            self.received += b
            self.log.append('ok' if b else 'closed')
            return b
        if r[0] == 'timeout':
            self.log.append('timeout')
            raise socket.timeout('timed out')
        self.log.append('eagain' if r[1] == 11 else 'err')
        raise socket.error(r[1], 'scripted error')

    def connect(self, address):
        pass

    def close(self):
        self._closed = True

    def shutdown(self, how):
        pass

    def settimeout(self, t):
        pass

    def fileno(self):
        return 7


def new_driver():
    m = mods()
    irc, conn = StubIrc(), FakeConn()
    d = m['Driver'](irc)
    m['drivers']._newDrivers.clear()
    d.conn = conn
    d.connected = True
    d.currentServer = m['drivers'].Server('fake.invalid', 6667, None, False)
    return d, irc, conn


def snap(d, irc, conn, dead):
    ib, ob = d.inbuffer, d.outbuffer
    return [1 if d.connected else 0, dead, d.eagains,
            list(ib) if isinstance(ib, (bytes, bytearray)) else ['inbuffer is %s' % type(ib).__name__],
            list(ob) if isinstance(ob, (bytes, bytearray)) else ['outbuffer is %s' % type(ob).__name__],
            len(conn.wire), len(irc.fed)]


def fed_lines(irc):
    out = []
    for m in irc.fed:
        s = str(m)
        out.append(s[:-1] if s.endswith('\n') else s)
    return out


def run_impl(events, check=None):
    """drive the real SocketDriver; returns (snapshots, final observations of the current connection, driver tuple)"""
    m = mods()
    d, irc, conn = new_driver()
    dead = 0
    snaps = []
    reconnected = False
    for i, ev in enumerate(events):
        if not dead:                       # drivers.run: an escaped exception removes the driver
            try:
                if ev['t'] == 'reconnect':
                    # run() once nextReconnectTime has passed / irc.driver.reconnect(): the REAL reconnect()
                    reconnected = True
                    d.reconnect()
                    conn = d.conn
                    irc.queue, irc.taken, irc.fed = [], [], []      # observations are per connection
                else:
                    irc.queue = [Txt(t) for t in ev['msgs']]
                    conn.sres = ev['s']
                    conn.rres = ev.get('r')
                    if ev['t'] == 'send':
                        d._sendIfMsgs()
                    else:
                        d._read()
            except Exception as e:         # noqa
                dead = exn_code(e)
            if check is not None:
                check(i, d, irc, conn, dead)
        snaps.append(snap(d, irc, conn, dead))
    final = [list(conn.wire), [ord(c) for c in ''.join(irc.taken)], list(conn.received), fed_lines(irc)]
    if reconnected:                        # what the real reconnect() registered globally
        del m['Socket'].SocketDriver._instances[:]
        m['conf'].supybot.drivers.poll._callbacks = []
    return snaps, final, (d, irc, conn, dead)


# ---------------------------------------------------------------- wire
def w_sres(s):
    return [0, s[1]] if s[0] == 'sent' else [1, s[1]]


def w_event(ev):
    if ev['t'] == 'reconnect':
        return [2]
    if ev['t'] == 'send':
        return [0, ev['msgs'], w_sres(ev['s'])]
    r = ev['r']
    wr = [0, bytes.fromhex(r[1])] if r[0] == 'data' else ([1] if r[0] == 'timeout' else [2, r[1]])
    return [1, wr, ev['msgs'], w_sres(ev['s'])]


def parse_table(events):
    """line -> exception code, for every line of the received stream on which the real IrcMsg raises"""
    m = mods()
    streams = [b'']                       # one byte stream per connection
    for ev in events:
        if ev['t'] == 'reconnect':
            streams.append(b'')
        elif ev['t'] == 'read' and ev['r'][0] == 'data':
            streams[-1] += bytes.fromhex(ev['r'][1])
    tbl = {}
    for raw in (l for st in streams for l in st.split(b'\n')):
        s = m['ustr'].decode_raw_line(raw).strip()
        if s and s not in tbl:
            try:
                m['ircmsgs'].IrcMsg(s)
            except Exception as e:        # noqa
                tbl[s] = exn_code(e)
    return [[k, v] for k, v in tbl.items()]


def w_trace(events, op=0):
    return [op, [parse_table(events), [w_event(e) for e in events]]]


def dec_model(out):
    snaps = [[s[0], s[1], s[2], s[3], s[4], s[5], s[6]] for s in out[0]]
    f = out[1]
    return snaps, [f[0], f[1], f[2], wire.ls(f[3])]


# ---------------------------------------------------------------- oracle
def direct_oracle(events):
    """the property text on the implementation; returns failure detail or None"""
    fails = []

    def check(i, d, irc, conn, dead):
        if fails:
            return
        taken = ''.join(irc.taken)
        try:
            want = taken.encode('utf-8')
        except UnicodeEncodeError:
            return                         # text without a UTF-8 encoding: the clause does not speak about it
        got = bytes(conn.wire)
        if not want.startswith(got):
            fails.append('after event %d the socket has received %r, not a prefix of the encoded messages %r' % (i, got, want))
        elif not dead and d.outbuffer in ('', b'') and got != want:
            fails.append('after event %d the out-buffer is empty but the socket has received %r of %r' % (i, got, want))

    snaps, final, (d, irc, conn, dead) = run_impl(events, check)
    if fails:
        return fails[0]
    # "no matter how the OS splits writes (1..n bytes, EAGAIN)": a socket that never reported an error or a close and
    # never answered EAGAIN more than EAGAIN_RUN_TOLERATED times in a row (timeouts neither count nor reset) must
    # still be connected -- otherwise the bytes written stay a truncated prefix of the messages for good
    run = maxrun = 0
    for a in conn.log:
        if a == 'eagain':
            run += 1
            maxrun = max(maxrun, run)
        elif a == 'ok':
            run = 0
    if not dead and maxrun <= EAGAIN_RUN_TOLERATED and not any(a in ('err', 'closed') for a in conn.log) \
            and (not d.connected or conn._closed):
        try:
            want = ''.join(irc.taken).encode('utf-8')
        except UnicodeEncodeError:
            want = b''
        return ('the socket reported no error and never more than %d EAGAINs in a row (%d in total), yet the driver closed the connection: '
                'the socket has received %d of %d bytes, %d left in the out-buffer'
                % (maxrun, conn.log.count('eagain'), len(conn.wire), len(want), len(d.outbuffer)))
    # incoming: same bytes one at a time on a fresh driver
    data = bytes(conn.received)
    ref_events = [{'t': 'read', 'r': ['data', bytes([b]).hex()], 'msgs': [], 's': ['sent', 0]} for b in data]
    _, rfinal, (rd, rirc, rconn, rdead) = run_impl(ref_events)
    if final[3] != rfinal[3]:
        return ('messages fed to the bot %s differ from those of the same bytes read one at a time %s' % (brief(final[3]), brief(rfinal[3])))
    if not dead and not rdead and bytes(d.inbuffer) != bytes(rd.inbuffer):
        return 'unparsed remainder %r differs from that of the same bytes read one at a time %r' % (bytes(d.inbuffer), bytes(rd.inbuffer))
    # ... and in the largest chunks recv(1024) can return (a long line arrives whole or in few pieces)
    if len(data) > 1:
        big_events = [{'t': 'read', 'r': ['data', data[i:i + RECV_MAX].hex()], 'msgs': [], 's': ['sent', 0]}
                      for i in range(0, len(data), RECV_MAX)]
        _, bfinal, (bd, birc, bconn, bdead) = run_impl(big_events)
        if final[3] != bfinal[3]:
            return ('messages fed to the bot %s differ from those of the same bytes read %d at a time %s'
                    % (brief(final[3]), RECV_MAX, brief(bfinal[3])))
        if not dead and not bdead and bytes(d.inbuffer) != bytes(bd.inbuffer):
            return 'unparsed remainder (%d bytes) differs from that of the same bytes read %d at a time (%d bytes)' % (
                len(d.inbuffer), RECV_MAX, len(bd.inbuffer))
    return None


def brief(msgs):
    return '[' + ', '.join(repr(m) if len(m) <= 60 else '<%d chars: %r...%r>' % (len(m), m[:24], m[-16:]) for m in msgs) + ']'


def moved(events):
    return any(ev.get('msgs') or (ev['t'] == 'read' and ev['r'][0] == 'data') for ev in events)


def check_trace(ctx, events, mout, kind):
    inp = {'op': 'trace', 'events': events}
    ctx.case(kind, inp, nontrivial=moved(events))
    snaps, final, _ = run_impl(events)
    if snaps:                                  # which branches of the driver/model this trace ended in
        last = snaps[-1]
        ctx.dist['outcome:' + ('dead-unicode' if last[1] == 7 else 'dead-parse' if last[1] else
                               'disconnected' if not last[0] else 'alive-pending' if last[4] else 'alive-drained')] += 1
        if any(s[2] > 0 for s in snaps):
            ctx.dist['outcome:saw-eagain'] += 1
    if any(code != 8 for _, code in parse_table(events)):
        # hypothesis of C11_in_reads_never_killed (the parser raises only what _read catches) fails on this trace
        ctx.dist['hypothesis:parser-raised-uncaught-exception'] += 1
    if mout is not None:
        if isinstance(mout, tuple):
            ctx.disagree(inp, mout, None, 'model crashed')
        else:
            msnaps, mfinal = dec_model(mout)
            if msnaps != snaps:
                i = next((j for j, (a, b) in enumerate(zip(msnaps, snaps)) if a != b), -1)
                ctx.disagree(inp, msnaps[i] if i >= 0 else len(msnaps), snaps[i] if i >= 0 else len(snaps),
                             'driver attributes after event %d [connected, dead, eagains, inbuffer, outbuffer, |wire|, |fed|]' % i)
            elif mfinal != final:
                ctx.disagree(inp, mfinal, final, 'observations [wire, taken, received, fed]')
    d = direct_oracle(events)
    if d:
        ctx.fail(inp, d)


# ---------------------------------------------------------------- die() with a short write (finding C11.F48)
def die_oracle(inp):
    """Irc.die(): the QUIT is queued, the Irc is a zombie; irclib.Irc.takeMsg calls driver.die() as soon as its queues are
    empty, i.e. INSIDE the _sendIfMsgs() that has just taken the QUIT.  The OS accepts inp['accept'] bytes per send.
    Property: the bytes written are the encoding of the messages taken -- the driver has to keep flushing.  No model
    (die()/zombie are not modelled): direct oracle only."""
    m = mods()
    drivers, Socket = m['drivers'], m['Socket']
    d, irc0, conn = new_driver()

    class DyingIrc(StubIrc):
        zombie = True

        def takeMsg(self):
            msg = StubIrc.takeMsg(self)
            if msg is None and not d.zombie:
                d.die()                    # irclib.Irc.takeMsg: `elif self.zombie and not self.fastqueue and not self.queue`
            return msg
    irc = DyingIrc()
    d.irc = irc
    irc.queue = [Txt(t) for t in inp['msgs']]
    drivers._drivers[d.name()] = d
    saved = Socket.SocketDriver.__dict__['_select']
    Socket.SocketDriver._select = classmethod(lambda cls: None)      # no real select() on the scripted socket
    try:
        conn.sres = ['sent', inp['accept']]
        d._sendIfMsgs()
        for _ in range(4 * len(''.join(inp['msgs'])) + 4):          # the driver loop, as long as it still schedules the driver
            drivers.run()
            if d.name() not in drivers._drivers:
                break
    finally:
        Socket.SocketDriver._select = saved
        drivers._drivers.pop(d.name(), None)
        drivers._deadDrivers.discard(d.name())
        drivers._newDrivers.clear()
    want = ''.join(irc.taken).encode('utf-8')
    if bytes(conn.wire) != want:
        return ('Irc.die(): the driver left the loop after the socket had received %r of %r (%d bytes still in the out-buffer, socket %s)'
                % (bytes(conn.wire), want, len(d.outbuffer), 'closed' if conn._closed else 'left open'))
    return None


def is_f48(inp):
    """class of finding C11.F48: a dying driver whose last send() is short"""
    return inp.get('op') == 'die' and inp['accept'] < len(''.join(inp['msgs']).encode('utf-8'))


CLASSES = {'die_with_short_write': is_f48}


# ---------------------------------------------------------------- generators
def ev_send(msgs, s):
    return {'t': 'send', 'msgs': list(msgs), 's': list(s)}


def ev_read(r, msgs=(), s=('sent', BIG)):
    return {'t': 'read', 'r': list(r), 'msgs': list(msgs), 's': list(s)}


def data(b):
    return ['data', bytes(b).hex()]


DRAIN = [ev_send([], ('sent', BIG)), ev_send([], ('sent', BIG))]

CORPUS = [
    # the witness of the repaired finding C11.F11 ('héllo', send() accepts 3 of 6 bytes): runs first on every check
    [ev_send(['h\xe9llo'], ('sent', 3)), ev_send([], ('sent', BIG))],
    # short writes ending inside / after a multi-byte character
    [ev_send(['PRIVMSG #c :h\xe9llo\r\n'], ('sent', 14))] + DRAIN,
    [ev_send(['h\xe9llo'], ('sent', 2))] + DRAIN,
    [ev_send(['h\xe9llo'], ('sent', 3))] + DRAIN,
    [ev_send(['\u20ac'], ('sent', 1))] + DRAIN,
    [ev_send(['a\U0001f600b\r\n'], ('sent', 3))] + DRAIN,
    [ev_send(['PING x\r\n', 'PONG y\r\n'], ('sent', 5)), ev_send(['NICK z\r\n'], ('err', 11))] + DRAIN,
    [ev_read(data(b'PING :a\r')), ev_read(data(b'\nPING :\xc3')), ev_read(data(b'\xa9\r\n'))],
    [ev_read(data(b':\n'))], [ev_read(data(b'A b\n:\nC d\n'))], [ev_read(data(b'@time :x PING y\nA\n'))],
    [ev_read(data(b''))], [ev_read(['err', 104])], [ev_read(['timeout'], ['x\r\n'], ('sent', 1))] + DRAIN,
    [ev_send(['\ud800'], ('sent', 1))] + DRAIN,
    [ev_read(data(b'\xc2\x85 PING \xe3\x80\x80\n \x1c\n\xa0\n'))],
]


def gen_out_exhaustive(scale):
    texts = [['ab\r\n'], ['\xe9'], ['a\u20ac'], ['\U0001f600b'], ['h\xe9llo'], ['x', '\xe9y'], ['\xe9\xe9'], ['ab', 'cd\r\n']]
    ks = [('sent', 1), ('sent', 2), ('sent', 3), ('sent', 5), ('err', 11)]
    for t in texts:
        for n in range(1, 4 if scale == 1 else 5):
            for script in itertools.product(ks, repeat=n):
                evs = [ev_send(t if i == 0 else [], s) for i, s in enumerate(script)]
                yield evs + DRAIN


STREAMS = [b'A b\r\nC d\n', b'P :\xc3\xa9\r\nQ', b'\n\nX y\n', b'a\n:\nb\n', b'\xe2\x82\xac\n\xc3\xa9\r\n', b'x\xff\xc3\ny',
           b' \r\n\xc2\x85\nz', b'\xf0\x9f\x98\x80 \n\nA', b'a\r\r\n\nb', b'x\ry\n\rz']
STREAMS_THOROUGH = [b'PING :\xc3\xa9\r\nQ r\n', b'A\n\xf0\x9f\x98\x80 z\r\n:', b'@time :x P\n']


def partitions(b):
    n = len(b)
    for mask in range(1 << (n - 1)):
        cuts = [i + 1 for i in range(n - 1) if mask >> i & 1]
        yield [b[i:j] for i, j in zip([0] + cuts, cuts + [n])]


def gen_in_exhaustive(scale):
    for s in STREAMS + (STREAMS_THOROUGH if scale > 1 else []):
        for p in partitions(s):
            yield [ev_read(data(c)) for c in p]


WORDS = ['PING', 'PRIVMSG', 'NOTICE', '001', 'JOIN', 'x', '#chan', 'nick!u@h', ':srv', 'caf\xe9', '\u20ac5', 'na\xefve \U0001f600',
         '\u3000', '\x85', 'hello world']


def gen_line(rng, hostile=False):
    if hostile and rng.random() < 0.3:
        return bytes(rng.choice([0x0a, 0x0d, 0x20, 0x3a, 0x40, 0x41, 0x80, 0xbf, 0xc2, 0xc3, 0xe2, 0xed, 0xa0, 0xf0, 0x9f, 0xf4, 0xff, 0x85])
                     for _ in range(rng.randint(0, 12)))
    k = rng.random()
    if k < 0.08:
        return rng.choice([b'', b' ', b'\r', b':', b': ', b'@a', b'@time :x PING y', b'\xa0', b'\xc2\xa0', b'\xe3\x80\x80 '])
    pfx = (':' + rng.choice(['nick!u@h', 'srv', 'caf\xe9!u@h']) + ' ') if rng.random() < 0.5 else ''
    body = rng.choice(['PING', 'PRIVMSG', 'NOTICE', '001', 'JOIN']) + ' ' + rng.choice(['#chan', 'nick', '#\xe9'])
    if rng.random() < 0.7:
        body += ' :' + ' '.join(rng.choice(WORDS) for _ in range(rng.randint(1, 4)))
    eol = rng.choice(['\r\n', '\r\n', '\r\n', '\n', '\r\r\n', ' \r\n'])
    return (pfx + body + eol).encode('utf-8')[:-1]   # the final LF is added by the stream builder


def gen_text(rng, hostile=False):
    if hostile and rng.random() < 0.2:
        return ''.join(rng.choice(['a', '\r', '\n', '\xe9', '\ud800', '\udfff', '\U0010ffff', '\x00', '\x7f', '\x80', '\u07ff', '\u0800', '\uffff', '\U00010000'])
                       for _ in range(rng.randint(0, 6)))
    ascii_only = rng.random() < 0.6
    words = [w for w in WORDS if not ascii_only or w.isascii()]
    return 'PRIVMSG %s :%s\r\n' % (rng.choice(['#chan', 'nick']), ' '.join(rng.choice(words) for _ in range(rng.randint(1, 4))))


def gen_sres(rng, hostile=False):
    k = rng.random()
    if k < 0.45:
        return ['sent', BIG]
    if k < 0.8:
        return ['sent', rng.choice([1, 2, 3, 4, 7, 10, 16, 25, 40])]
    if k < 0.9:
        return ['err', 11]
    if hostile:
        return rng.choice([['sent', 0], ['err', 32], ['err', 104], ['err', 9]])
    return ['sent', rng.randint(1, 60)]


def gen_trace(rng, hostile=False):
    # incoming stream, cut at random places
    lines = [gen_line(rng, hostile) for _ in range(rng.randint(0, 6))]
    stream = b''.join(l + b'\n' for l in lines)
    if rng.random() < 0.3:
        stream += gen_line(rng, hostile)[:rng.randint(0, 8)]
    cuts = sorted(set(rng.randrange(1, len(stream)) for _ in range(rng.randint(0, 8)))) if len(stream) > 1 else []
    chunks = [stream[i:j] for i, j in zip([0] + cuts, cuts + [len(stream)])] if stream else []
    evs = []
    for c in chunks:
        evs.append(('r', data(c)))
    for _ in range(rng.randint(0, 5)):
        evs.insert(rng.randint(0, len(evs)), ('s', None))
    for _ in range(rng.randint(0, 2)):
        evs.insert(rng.randint(0, len(evs)), ('r', ['timeout']))
    if hostile:
        for _ in range(rng.randint(0, 2)):
            evs.insert(rng.randint(0, len(evs)), ('r', rng.choice([['err', 11], ['err', 104], data(b''), ['err', 11]])))
    out = []
    for kind, r in evs:
        msgs = [gen_text(rng, hostile) for _ in range(rng.choice([0, 0, 1, 1, 2, 3]))]
        s = gen_sres(rng, hostile)
        out.append(ev_send(msgs, s) if kind == 's' else ev_read(r, msgs, s))
    return out + DRAIN


RECONNECT = {'t': 'reconnect'}


def gen_reconnect(rng=None):
    """finding C11.F47: the connection ends with the beginning of a line in the in-buffer, a half-sent message in the
    out-buffer and/or a high EAGAIN count; reconnect(); traffic on the new socket.  rng=None: the canonical witnesses"""
    if rng is None:
        a = [ev_read(data(b':old.server NOTICE * :partial')),
             ev_send(['PRIVMSG NickServ :identify hunter2\r\n'], ('sent', 20)), ev_send([], ('err', 104)), RECONNECT,
             ev_send(['CAP LS 302\r\n', 'NICK test\r\n'], ('sent', BIG)), ev_read(data(b':new.server NOTICE * :hello\r\n'))]
        b = ([ev_send(['PING a\r\n'], ('err', 11))] + [ev_send([], ('err', 11)) for _ in range(121)] + [RECONNECT,
             ev_send(['NICK test\r\n'], ('err', 11)), ev_send([], ('sent', BIG))])
        return [a + DRAIN, b + DRAIN]
    evs = []
    for _ in range(rng.randint(1, 3)):                      # one to three connections
        for _ in range(rng.randint(0, 4)):
            k = rng.random()
            if k < 0.5:
                evs.append(ev_send([gen_text(rng) for _ in range(rng.choice([0, 1, 1, 2]))], gen_sres(rng)))
            else:
                line = gen_line(rng) + b'\n' + gen_line(rng)[:rng.randint(0, 12)]
                evs.append(ev_read(data(line[rng.randint(0, 5):] or b'x')))
        k = rng.random()
        if k < 0.3:                                          # half-sent message, then the socket fails
            evs += [ev_send([gen_text(rng)], ('sent', rng.randint(1, 20))), ev_send([], ('err', rng.choice([104, 32, 0])))]
        elif k < 0.5:
            evs += [ev_send([gen_text(rng)], ('sent', rng.randint(1, 20))), ev_read(data(b''))]   # peer closed
        elif k < 0.6:
            evs += [ev_send([gen_text(rng)], ('err', 11))] + [ev_send([], ('err', 11)) for _ in range(rng.choice([100, 121, 122]))]
        elif k < 0.8:
            evs += [ev_send([gen_text(rng)], ('sent', rng.randint(1, 20)))]                        # reconnect while connected
        evs.append(RECONNECT)
        if rng.random() < 0.5:
            evs.append(ev_send([gen_text(rng)], ('err', 11)))   # first write on the new socket hits EAGAIN
    evs.append(ev_send([gen_text(rng)], gen_sres(rng)))
    evs.append(ev_read(data(gen_line(rng) + b'\n')))
    return [evs + DRAIN]


def gen_eagain_burst(rng, n):
    """n consecutive EAGAINs around the limit, then recovery or not"""
    evs = [ev_send(['PING a\r\n'], ('err', 11))]
    evs += [ev_send([], ('err', 11)) for _ in range(n - 1)]
    evs += [ev_send(['PING b\r\n'], ('sent', 3)), ev_read(data(b'X y\n'), ['Z\r\n'], ('sent', BIG))]
    return evs + DRAIN


LONG_TEXT = ('PRIVMSG #chan :h\xe9llo w\xf6rld \u20ac5 \U0001f600 ' + 'x' * 170 + '\r\n')   # 200+ bytes, multi-byte characters early


def gen_eagain_isolated(rng=None):
    """hundreds of EAGAINs in total, never many in a row, each run followed by a successful short write; no data is
    received meanwhile (a slow, silent server).  rng=None: the canonical corpus trace (EAGAIN, 1 byte, EAGAIN, 1 byte, ...)"""
    nbytes = len(LONG_TEXT.encode('utf-8'))
    evs = [ev_send([LONG_TEXT], ('err', 11))]
    sent = 0
    while sent < nbytes:
        k = 1 if rng is None else rng.choice([1, 1, 2, 3])
        evs.append(ev_send([], ('sent', k)))
        sent += k
        if sent >= nbytes:
            break
        for _ in range(1 if rng is None else rng.choice([1, 1, 1, 2, 3])):
            kind = 0 if rng is None else rng.random()
            if kind < 0.7:
                evs.append(ev_send([], ('err', 11)))
            elif kind < 0.85:
                evs.append(ev_read(['err', 11]))                       # recv() EAGAIN counts on the same counter
            else:
                evs.append(ev_read(['timeout'], [], ('err', 11)))     # poll timeout, then the write hits EAGAIN
    return evs + DRAIN


def long_line(rng, n, tagged):
    """one IRC line of exactly n bytes (no LF), longer than the 512 bytes of RFC 1459 when n says so: IRCv3 tags allow
    8191 bytes of tags + 512 of message.  Multi-byte characters all along, so that cuts fall inside them."""
    fill = ['caf\xe9', '\u20ac5', 'na\xefve', '\U0001f600', 'hello', 'world', 'x' * 17, '\u3042\u3044']
    if tagged:
        head = '@time=2023-04-05T06:07:08.900Z;msgid=abc123;account=caf\xe9;+draft/reply='
        tail = ' :nick!user@host PRIVMSG #chan :tagged h\xe9llo \u20ac\r'
        sep = '\\s'
    else:
        head = ':nick!user@host PRIVMSG #chan :'
        tail = ' end \u20ac\r'
        sep = ' '
    body = ''
    while len((head + body + tail).encode()) < n:
        body += (sep if body else '') + (rng.choice(fill) if rng else fill[len(body) % len(fill)])
    raw = (head + body).encode()[:n - len(tail.encode())]
    raw = raw.decode('utf-8', 'ignore').encode()             # do not leave half a character before the tail
    raw += b'z' * (n - len(tail.encode()) - len(raw))
    return raw + tail.encode()


def cut_stream(stream, cuts):
    cuts = sorted(set(c for c in cuts if 0 < c < len(stream)))
    pieces = [stream[i:j] for i, j in zip([0] + cuts, cuts + [len(stream)])]
    out = []
    for p in pieces:                                         # recv(1024) never returns more
        out += [p[i:i + RECV_MAX] for i in range(0, len(p), RECV_MAX)]
    return [ev_read(data(c)) for c in out]


def gen_long_lines(rng=None):
    """a stream with one line longer than 512 bytes between ordinary lines, cut in many ways -- in particular so that more
    than 512 bytes stay unterminated in the buffer between two reads (seeded change C11_8).  rng=None: canonical corpus traces"""
    if rng is None:
        n, tagged = 840, True
    else:
        n, tagged = rng.choice([(rng.randint(513, 700), False), (rng.randint(600, 1500), True), (rng.randint(1500, 3000), True),
                                (rng.randint(513, 1100), rng.random() < 0.5)])
    line = long_line(rng, n, tagged)
    stream = b'PING :a\r\n' + b':srv 001 me :h\xc3\xa9\r\n' + line + b'\n' + b':n!u@h PRIVMSG #c :after \xe2\x82\xac\r\n' + b'PING :z\r\n'
    start = stream.index(line)
    if rng is None:
        # the whole stream at once; a cut 700 bytes into the long line; a cut just before its LF; cuts every 100 bytes
        return [cut_stream(stream, []), cut_stream(stream, [start + 700]), cut_stream(stream, [start + len(line)]),
                cut_stream(stream, list(range(100, len(stream), 100)))]
    k = rng.random()
    if k < 0.35:      # one late cut inside the long line (possibly inside a multi-byte character)
        cuts = [start + rng.randint(513, len(line))]
    elif k < 0.6:     # a few cuts, at least one late
        cuts = [start + rng.randint(513, len(line))] + [rng.randrange(1, len(stream)) for _ in range(rng.randint(1, 5))]
    elif k < 0.8:     # regular small chunks
        step = rng.choice([7, 64, 100, 255, 511, 512, 513])
        cuts = list(range(step, len(stream), step))
    else:             # arbitrary
        cuts = [rng.randrange(1, len(stream)) for _ in range(rng.randint(0, 12))]
    return [cut_stream(stream, cuts)]


def gen_huge_line(rng):
    """a tagged line near the IRCv3 limit (8191 bytes of tags + 512), delivered in 1024-byte reads and in odd pieces"""
    line = long_line(rng, rng.randint(6000, 8700), True)
    stream = b'PING :a\r\n' + line + b'\nPING :z\r\n'
    return cut_stream(stream, [rng.randrange(1, len(stream)) for _ in range(rng.randint(0, 6))])


# ---------------------------------------------------------------- primitives
def check_primitives(ctx):
    m = mods()
    alpha = [0x41, 0x80, 0xbf, 0xc1, 0xc2, 0xdf, 0xe0, 0xa0, 0x9f, 0xed, 0xef, 0xf0, 0x90, 0x8f, 0xf4, 0xf5]
    maxlen = 3 if ctx.scale == 1 else 4
    bss = [bytes(t) for n in range(0, maxlen + 1) for t in itertools.product(alpha, repeat=n)]
    bss += [bytes(ctx.rng.choice(alpha + [0x0d, 0x20]) for _ in range(ctx.rng.randint(4, 9))) for _ in range(ctx.n(3000))]
    bss += [w.encode() for w in WORDS] + [w.encode()[:-1] for w in WORDS]
    outs = ctx.model([[3, b] for b in bss])
    for b, o in zip(bss, outs):
        inp = {'op': 'decode', 'bytes': b.hex()}
        ctx.case('prim-decode', inp)
        want = m['ustr'].decode_raw_line(b)
        if o is not None and wire.s(o) != want:
            ctx.disagree(inp, o, [ord(c) for c in want], 'decode_raw_line')
    cps = [0, 0x41, 0x7f, 0x80, 0x7ff, 0x800, 0xd7ff, 0xd800, 0xdfff, 0xe000, 0xfffd, 0xffff, 0x10000, 0x10ffff]
    strs = [''.join(map(chr, t)) for n in range(0, 3) for t in itertools.product(cps, repeat=n)] + WORDS
    outs = ctx.model([[2, s] for s in strs])
    for s, o in zip(strs, outs):
        inp = {'op': 'encode', 'text': s}
        ctx.case('prim-encode', inp)
        try:
            want = ('ok', list(s.encode()))
        except UnicodeEncodeError:
            want = ('raise', 'UnicodeError')
        if o is not None and wire.r(o) != want:
            ctx.disagree(inp, o, want, 'str.encode')
    walpha = [' ', '\x85', '\xa0', 'a', '\u3000', '\x1f', '\x00', '\u200b', '\r']
    strs = [''.join(t) for n in range(0, 5) for t in itertools.product(walpha, repeat=n)]
    outs = ctx.model([[4, s] for s in strs])
    for s, o in zip(strs, outs):
        inp = {'op': 'strip', 'text': s}
        ctx.case('prim-strip', inp)
        if o is not None and wire.s(o) != s.strip():
            ctx.disagree(inp, o, s.strip(), 'str.strip')


def run(ctx):
    mods()
    rng = ctx.rng
    cases = [(t, 'corpus') for t in CORPUS] + [(gen_eagain_isolated(), 'corpus')] + [(t, 'corpus') for t in gen_long_lines()] + [(t, 'corpus') for t in gen_reconnect()]   # seeded change C11_7: EAGAIN counter never reset by send
    cases += [(t, 'out-exhaustive') for t in gen_out_exhaustive(ctx.scale)]
    cases += [(t, 'in-partitions') for t in gen_in_exhaustive(ctx.scale)]
    ctx.notes.append('incoming: all partitions of %d streams; outgoing: all send scripts of <=%d calls over 8 texts'
                     % (len(STREAMS) + (len(STREAMS_THOROUGH) if ctx.scale > 1 else 0), 3 if ctx.scale == 1 else 4))
    cases += [(gen_eagain_burst(rng, n), 'eagain-burst') for n in (119, 120, 121, 122, 123, 130)]
    cases += [(gen_eagain_isolated(rng), 'eagain-isolated') for _ in range(ctx.n(6))]
    cases += [(t, 'reconnect') for _ in range(ctx.n(400)) for t in gen_reconnect(rng)]
    cases += [(t, 'long-line') for _ in range(ctx.n(40)) for t in gen_long_lines(rng)]
    cases += [(gen_huge_line(rng), 'huge-line') for _ in range(ctx.n(3))]
    cases += [(gen_trace(rng), 'mixed') for _ in range(ctx.n(2500))]
    cases += [(gen_trace(rng, True), 'hostile') for _ in range(ctx.n(1200))]
    outs = ctx.model([w_trace(t) for t, _ in cases])
    for (t, kind), mo in zip(cases, outs):
        check_trace(ctx, t, mo, kind)
    # Irc.die() with the QUIT written in pieces (finding C11.F48): every short first write
    for msgs in (['QUIT :bye\r\n'], ['PRIVMSG #c :last w\xf6rds\r\n', 'QUIT :\u20ac\r\n']):
        n = len(''.join(msgs).encode('utf-8'))
        for k in list(range(0, n + 1)) + [BIG]:
            inp = {'op': 'die', 'msgs': msgs, 'accept': k}
            ctx.case('die-short-write', inp)
            dd = die_oracle(inp)
            if dd:
                ctx.fail(inp, dd)
    check_primitives(ctx)


def replay(ctx, inp):
    mods()
    if inp.get('op') == 'die':
        return die_oracle(inp)
    if inp.get('op') != 'trace':
        return None
    return direct_oracle(inp['events'])


def shrink(ctx, inp):
    if inp.get('op') != 'trace':
        return inp
    bad = lambda evs: direct_oracle(list(evs)) is not None
    evs = shrink_seq(list(inp['events']), bad)
    # shorten message lists and chunks
    for i in range(len(evs)):
        if 'msgs' not in evs[i]:
            continue
        for cand_msgs in ([], evs[i]['msgs'][:1], evs[i]['msgs'][-1:]):
            if cand_msgs != evs[i]['msgs']:
                trial = evs[:i] + [dict(evs[i], msgs=cand_msgs)] + evs[i + 1:]
                try:
                    if bad(trial):
                        evs = trial
                except Exception:
                    pass
    return {'op': 'trace', 'events': evs}
