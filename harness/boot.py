"""Boot Limnoria from /repo's working tree in a scratch directory, production
paths on (world.testing = log.testing = False).  Import this module first."""
import atexit, os, shutil, sys, tempfile

REPO = os.environ.get('VERIF_REPO', '/repo')
ROOT = os.path.dirname(os.path.dirname(os.path.abspath(__file__)))
_booted = {}


def scratch():
    base = os.path.join(ROOT, '.work')
    os.makedirs(base, exist_ok=True)
    d = tempfile.mkdtemp(prefix='w%d_' % os.getpid(), dir=base)
    atexit.register(shutil.rmtree, d, True)
    return d


def boot(extra_conf=''):
    """returns the scratch dir; idempotent"""
    if _booted:
        return _booted['dir']
    d = scratch()
    os.chdir(d)
    for sub in ('data', 'conf', 'logs', 'backup', 'tmp', 'data/tmp'):
        os.makedirs(os.path.join(d, sub), exist_ok=True)
    if REPO not in sys.path:
        sys.path.insert(0, REPO)
    # the package is also installed (editable, pointing at /repo): whatever was imported before boot(), or is imported
    # by it, must come from the tree under check
    stale = [m for m, mod in list(sys.modules.items()) if (m == 'supybot' or m.startswith('supybot.'))
             and getattr(mod, '__file__', None) and not os.path.realpath(mod.__file__).startswith(os.path.realpath(REPO) + os.sep)]
    if stale:
        raise RuntimeError('supybot modules imported from outside %s before boot(): %s' % (REPO, stale[:5]))
    os.environ['LIMNORIA_VERIF'] = '1'
    fn = os.path.join(d, 'conf', 'verif.conf')
    with open(fn, 'w') as f:
        f.write("""
supybot.directories.data: %(d)s/data
supybot.directories.conf: %(d)s/conf
supybot.directories.log: %(d)s/logs
supybot.directories.backup: %(d)s/backup
supybot.directories.data.tmp: %(d)s/data/tmp
supybot.log.stdout: False
supybot.log.stdout.level: CRITICAL
supybot.log.level: CRITICAL
supybot.log.plugins.individualLogfiles: False
supybot.protocols.irc.throttleTime: 0
supybot.reply.whenAddressedBy.chars: @
supybot.networks.test.server: should.not.need.this
supybot.networks: test
supybot.nick: test
supybot.databases.users.allowUnregistration: True
%(extra)s
""" % {'d': d, 'extra': extra_conf})
    import supybot.registry as registry
    if not os.path.realpath(registry.__file__).startswith(os.path.realpath(REPO) + os.sep):
        raise RuntimeError('supybot imported from %s, not from the tree under check %s' % (registry.__file__, REPO))
    registry.open_registry(fn)
    import supybot.log as log
    import supybot.conf as conf
    import supybot.world as world
    conf.supybot.flush.setValue(False)
    conf.supybot.directories.plugins.setValue([os.path.join(REPO, 'plugins')])
    world.testing = False
    log.testing = False
    import logging
    logging.disable(logging.CRITICAL)
    _booted['dir'] = d
    _booted['registry_file'] = fn
    return d
