"""C10 — the bot's view of channels and users equals what the server told it."""
import boot
from lib import wire
from lib.shrink import shrink_seq

TABLES = ['T03', 'T10']
RULE = ('histories (one network, and PAIRS of histories over the same nicks run interleaved on two Irc objects of two networks, both bots compared with their own server after every step, plus the clause that two IrcState objects share no container): corpus + seeded random action lists (3-6 users, 1-3 channels, 20-120 actions: multi-target JOIN/PART/KICK, '
        'mixed +/- mode strings with and without parameters, case-variant spellings of nicks and channels, real and case-only '
        'nick changes incl. the bot\'s own, CHGHOST, NAMES with multi-prefix / userhost-in-names, WHO, reconnect) run through the '
        'EXTRACTED reference server (coq/C10/Spec.v) to obtain the messages a conformant server sends to the bot; the messages are fed '
        'to the real irclib.Irc.feedMsg and to the extracted bot model; (irc.nick, irc.prefix, state.channels, state.nicksToHostmasks) '
        'is dumped after EVERY message and diffed model vs implementation with exact spellings; after every action the implementation '
        'dump is compared under IRC case folding with the reference server\'s view (direct oracle).  A failure records every differing aspect (nick, channel list, users, ops, halfops, voices, bans, topic, modes, created, hostmask); '
        'it is attributed to the recorded finding F10c only when EVERY differing aspect is a mode parameter differing exactly by int() coercion '
        '(F10 and F10b are repaired; their witnesses head the corpus); the run continues past such steps.   A second, hostile stream feeds raw '
        'messages of the anchored commands with wrong arity / unknown channels / odd prefixes (correspondence + self-leave oracle). '
        'non-trivial = distinct history with at least one emitted message')
TRUSTED = ['Irc.feedMsg is driven with ircmsgs.IrcMsg(prefix=, command=, args=) objects, a stub driver and no callbacks loaded; '
           'log.firewall swallows handler exceptions (production setting); ISUPPORT (005) is never sent so Irc.isChannel uses its defaults',
           'int()/str(int) are modelled for ASCII input only (generators stay ASCII + a few non-digit letters)',
           'the reference server coq/C10/Spec.v is the specification: its reading of RFC 1459/2812 + IRCv3 (multi-prefix, userhost-in-names, '
           'chghost) is trusted; the join burst (JOIN, 332, 353, 366, 324, 329, 367*, 352*) is delivered atomically',
           'IrcState.do005 is not modelled: after an ISUPPORT CHANNELLEN=n the histories only use channel names of at most n characters, so the '
           'implementation with the announced bound and the model with the default bound must agree; names at exactly n (and at the default 50) are generated']
ASSUMPTIONS = ['world.testing/log.testing off; supybot.protocols.irc.strictRfc and followIdentificationThroughNickChanges at their defaults (False)',
               'views are compared at action boundaries (after the whole burst of an action has been fed)']
LEVEL_TEXT = ('Coq theorems over an executable Gallina model of the state tracking in src/irclib.py (ChannelState, IrcState.addMsg and all its '
              'do* handlers, Irc.feedMsg nick/prefix tracking, separateModes, IrcSet/IrcDict folding) and an executable reference server: '
              'see coq/C10/Props.v; the model is tied to the source by regenerated tables (mode-argument letters, sigils, mode-letter sets, '
              '_nickSetters, handler inventory, hostmask regex shape) and by a differential run after every message against the real Irc object.')
LEVEL_NOTE = ('Trusted: Coq kernel, gen_tables.py, extraction + OCaml driver, the Python harness, the reference server as specification. '
              'The trace-level simulation theorem C10_simulation_trace is proved for ALL histories of dom (any length), incl. replies in flight about a channel '
              'the bot has left (ALate) and two networks in one process (C10_two_networks).  NOT modelled / outside the claim: (a) ISUPPORT (IrcState.do005) -- the model '
              'uses the default CHANTYPES/CHANNELLEN, rfc1459 case folding and the static mode-argument tables; on a network with CASEMAPPING=ascii, or with PREFIX / CHANMODES '
              'letters outside those tables, the implementation diverges from the server (findings C10.F12, C10.F13, checked by hand-written expectations only); '
              '(b) invite-exception / ban-exception / quiet lists (+I +e +q) are deliberately not recorded by the bot (nor by the view); (c) WHOX 354 and server-originated MODE/KICK/TOPIC are modelled in the bot '
              'and exercised by the raw stream and two expectations, but the reference server never emits them; (d) within one join burst the messages are delivered atomically '
              '(no third-party event between JOIN and the 353/324/329/367/352 of the same channel), created is one constant, topic metadata (333), BATCH / netsplit batches, '
              'account/away tracking and IrcState.copy/pickle are not looked at; (e) non-canonical int mode parameters (finding F10c) and NAMES without multi-prefix are outside dom.')
TECHNIQUE = 'Coq proof (induction over lists/states) + regenerated tables + extracted reference server and bot model run beside the real Irc object'
EXPLANATION = 'C10: bot model coq/C10/Bot.v, reference server coq/C10/Spec.v; theorems in coq/C10/Props.v'

USER0, HOST0 = 'bot', 'bot.host'
_st = {}


def _env():
    if _st:
        return _st
    boot.boot()
    import supybot.irclib as irclib, supybot.ircmsgs as ircmsgs, supybot.ircutils as ircutils, supybot.world as world
    _st.update(irclib=irclib, ircmsgs=ircmsgs, ircutils=ircutils, world=world)
    irc = new_irc()
    _st['nick0'], _st['prefix0'] = irc.nick, irc.prefix
    return _st


class _Drv:
    def reconnect(self, *a, **k):
        pass

    def die(self):
        pass


def new_irc(network='test'):
    e = _st
    if network != 'test' and network not in e.setdefault('networks', set()):
        import supybot.conf as conf
        conf.registerNetwork(network)
        e['networks'].add(network)
    irc = e['irclib'].Irc(network)
    irc.driver = _Drv()
    if irc in e['world'].ircs:
        e['world'].ircs.remove(irc)
    return irc


# ---------------------------------------------------------------- dumps
def _mv(v):
    if v is None:
        return None
    if isinstance(v, bool):
        return ['?', repr(v)]
    if isinstance(v, int):
        return ['i', v]
    return ['s', str(v)]


def aliases(irc):
    """direct oracle clause: two channel names never share one record"""
    seen, out = {}, []
    for k, c in irc.state.channels.items():
        if id(c) in seen:
            out.append([str(seen[id(c)]), str(k)])
        else:
            seen[id(c)] = k
    return out


def impl_dump(irc):
    st = irc.state
    chans = []
    for k, c in st.channels.items():
        chans.append([str(k)] + [sorted(str(x) for x in s) for s in (c.users, c.ops, c.halfops, c.voices, c.bans)]
                     + [c.topic, sorted([str(m), _mv(v)] for m, v in c.modes.items()), c.created])
    return [irc.nick, irc.prefix, sorted(chans), sorted([str(k), str(v)] for k, v in st.nicksToHostmasks.items())]


def model_dump(v):
    def mv(x):
        return None if x == [] else (['s', wire.s(x[1])] if x[0] == 0 else ['i', x[1]])
    chans = []
    for c in v[2]:
        chans.append([wire.s(c[0])] + [sorted(wire.ls(c[i])) for i in range(1, 6)]
                     + [wire.s(c[6]), sorted([chr(kv[0]), mv(kv[1])] for kv in c[7]), c[8]])
    return [wire.s(v[0]), wire.s(v[1]), sorted(chans), sorted([wire.s(kv[0]), wire.s(kv[1])] for kv in v[3])]


def dec_msg(v):
    return [wire.s(v[0]), wire.s(v[1]), wire.ls(v[2])]


def dec_view(v):
    chans = []
    for c in v[1]:
        chans.append([wire.s(c[0])] + [wire.ls(c[i]) for i in range(1, 6)]
                     + [wire.s(c[6]), [[chr(kv[0]), wire.o(kv[1], wire.s)] for kv in c[7]], c[8]])
    return [wire.s(v[0]), chans, [[wire.s(kv[0]), wire.s(kv[1])] for kv in v[2]]]


def impl_feed(irc, m):
    """m = [prefix, command, args]; the pseudo-message RESET is Irc.reset().  returns False if the message cannot be built"""
    e = _st
    if m[1] == 'RESET' and m[0] == '':
        irc.reset()
        return True
    try:
        msg = e['ircmsgs'].IrcMsg(prefix=m[0], command=m[1], args=tuple(m[2]))
    except Exception:
        return False
    irc.feedMsg(msg)
    while irc.takeMsg() is not None:      # drain what Irc.doJoin queued
        pass
    return True


# ---------------------------------------------------------------- direct oracle: implementation dump vs server view
def view_diffs(dump, view, multiprefix=True):
    """the property text: channels the bot is in, members, op/halfop/voice, topic, modes, bans, hostmask of each
    visible nick equal the server's, names compared under IRC case rules.  returns the list of ALL differing aspects,
    each {'aspect': nick|channels|users|ops|halfops|voices|bans|topic|modes|created|hostmask, 'chan', 'key', 'bot', 'server'}"""
    lo = _st['ircutils'].toLower
    out = []
    if dump[0] != view[0]:
        out.append({'aspect': 'nick', 'chan': None, 'key': None, 'bot': dump[0], 'server': view[0]})
    bot = {}
    for c in dump[2]:
        bot[lo(c[0])] = c
    srv = {}
    for c in view[1]:
        srv[lo(c[0])] = c
    if set(bot) != set(srv):
        out.append({'aspect': 'channels', 'chan': None, 'key': None, 'bot': sorted(bot), 'server': sorted(srv)})
    for k in sorted(set(srv) & set(bot)):
        b, s = bot[k], srv[k]
        for i, what in ((1, 'users'), (2, 'ops'), (3, 'halfops'), (4, 'voices'), (5, 'bans')):
            bs, ss = set(map(lo, b[i])), set(map(lo, s[i]))
            # without multi-prefix a NAMES reply shows only a member's highest prefix: the lower flags of a member
            # the bot only knows from NAMES are not disclosed, so only "nothing invented" can be demanded for them
            if (bs != ss) if (multiprefix or i < 3) else (not bs <= ss):
                out.append({'aspect': what, 'chan': k, 'key': sorted(bs ^ ss), 'bot': sorted(b[i]), 'server': sorted(s[i])})
        if b[6] != s[6]:
            out.append({'aspect': 'topic', 'chan': k, 'key': None, 'bot': b[6], 'server': s[6]})
        bm = dict((m, [None if v is None else str(v[1])]) for m, v in b[7])
        sm = dict((m, [v]) for m, v in s[7])
        for m in sorted(set(bm) | set(sm)):
            if bm.get(m) != sm.get(m):      # [x] = set with value x, None = letter not set
                out.append({'aspect': 'modes', 'chan': k, 'key': m, 'bot': bm.get(m), 'server': sm.get(m)})
        if b[8] != s[8]:
            out.append({'aspect': 'created', 'chan': k, 'key': None, 'bot': b[8], 'server': s[8]})
    n2h = dict((lo(k), v) for k, v in dump[3])
    for nick, hm in view[2]:
        if n2h.get(lo(nick)) != hm:
            out.append({'aspect': 'hostmask', 'chan': None, 'key': nick, 'bot': n2h.get(lo(nick)), 'server': hm})
    return out


def describe(diffs):
    return '; '.join('%s%s%s: bot %r, server %r' % (d['aspect'], ' of ' + d['chan'] if d['chan'] else '',
                                                  ' [%s]' % (d['key'],) if d['key'] is not None else '', d['bot'], d['server'])
                     for d in diffs[:4]) + (' (+%d more)' % (len(diffs) - 4) if len(diffs) > 4 else '')


# ---------------------------------------------------------------- actions
TAGS = ['connect', 'join', 'part', 'kick', 'quit', 'nick', 'mode', 'topic', 'chghost', 'names', 'who', 'reset', 'isupport', 'late']


def act_wire(a):
    t = TAGS.index(a[0])
    if a[0] == 'mode':
        return [t, a[1], a[2], [[bool(p), ord(f), wire.opt(arg)] for p, f, arg in a[3]]]
    return [t] + list(a[1:])


def hist_wire(inp):
    e = _env()
    return [0, [e['nick0'], e['prefix0'], USER0, HOST0, bool(inp['mp']), bool(inp['uh']), [act_wire(a) for a in inp['acts']]]]


SWAP = {'[': '{', ']': '}', '\\': '|', '~': '^', '{': '[', '}': ']', '|': '\\', '^': '~'}


def variant(rng, s):
    """a spelling of s that is equal under rfc1459 folding"""
    out = []
    for ch in s:
        if rng.random() < 0.5:
            ch = SWAP.get(ch, ch.swapcase() if ch.isascii() and ch.isalpha() else ch)
        out.append(ch)
    return ''.join(out)


def gen_history(rng, trig):
    """trig: set of finding triggers allowed in this history ('intarg': non-canonical int mode parameters, finding F10c).
    Case-only nick changes and userhost-in-names NAMES (former findings F10/F10b, repaired) are ordinary events."""
    base = ['alice', 'Bob', 'carol[a]', 'dave^', 'Eve|x', 'f00'][:rng.randint(3, 6)]
    chans = ['#a', '#Chan[1]', '&loc'][:rng.randint(1, 3)]
    fresh = ['zed', 'Yan{k}', 'xi~', 'w_w', 'Vic\\t']
    acts = [['connect', n, rng.choice(['u', 'ident', '~x']), rng.choice(['h.example', 'Host.EXAMPLE', '10.0.0.1'])] for n in base]
    # channel names at the length bound: ISUPPORT CHANNELLEN=n (a 005 at the start) or the default 50.  After an
    # ISUPPORT n the history only uses names of at most n characters (the reference server does not remember n).
    clen = rng.choice([None, None, 12, 16, 20])
    if clen is not None:
        acts.append(['isupport', clen])
    bound = clen or 50
    if rng.random() < 0.6:
        for L in rng.sample([bound - 1, bound, bound + 1] if clen is None else [bound - 1, bound], rng.randint(1, 2)):
            chans.append(rng.choice('#&') + ''.join(rng.choice('xY[z') for _ in range(L - 1)))
    acts.append(['join', 'test', rng.sample(chans, rng.randint(1, len(chans)))])
    nicks = list(base) + ['test']
    fresh_no = [0]
    sp = lambda s: variant(rng, s) if rng.random() < 0.3 else s
    nick = lambda: sp(rng.choice(nicks))
    chan = lambda: sp(rng.choice(chans))
    keyarg = lambda: rng.choice(['key', 'K[e]y', '10', '5'] + (['007', '1_0', '+3'] if 'intarg' in trig else []))
    for _ in range(rng.randint(20, 120)):
        r = rng.random()
        if r < 0.22:
            acts.append(['join', nick() if rng.random() < 0.8 else 'test', [chan() for _ in range(rng.choice([1, 1, 1, 2, 3]))]])
        elif r < 0.32:
            acts.append(['part', nick(), [chan() for _ in range(rng.choice([1, 1, 2, 3]))]])
        elif r < 0.40:
            acts.append(['kick', nick(), chan(), [nick() for _ in range(rng.choice([1, 1, 2, 3]))]])
        elif r < 0.44:
            n = rng.choice([x for x in nicks if x != 'test'] or ['alice'])
            acts.append(['quit', sp(n)])
            if rng.random() < 0.7:
                acts.append(['connect', n, 'u2', 'other.host'])
        elif r < 0.54:
            i = rng.randrange(len(nicks))
            old = nicks[i]
            if rng.random() < 0.25:
                new = variant(rng, old)
            else:
                new = rng.choice(fresh + base + ['test', 'Test2'])
            acts.append(['nick', sp(old), new])
            if not any(_st['ircutils'].strEqual(new, x) for x in nicks if x != old):
                nicks[i] = new       # tracked approximately; the server model decides validity
        elif r < 0.74:
            chgs = []
            for _ in range(rng.choice([1, 1, 2, 3, 4])):
                f = rng.choice('oooovvhhbbklntsmipIIeq')
                plus = rng.random() < 0.6
                if f in 'ohv':
                    arg = nick()
                elif f in 'Ieq':
                    arg = sp(rng.choice(['inv!*@ok.host', '*!*@Friend[1]', '$a:acct']))
                elif f == 'b':
                    arg = sp(rng.choice(['*!*@bad.host', 'Evil[1]!*@*', '*!~x@*']))
                elif f == 'k':
                    arg = keyarg()
                elif f == 'l':
                    arg = rng.choice(['10', '25'] + (['007'] if 'intarg' in trig else [])) if plus else None
                else:
                    arg = None
                chgs.append([plus, f, arg])
            acts.append(['mode', nick(), chan(), chgs])
        elif r < 0.80:
            acts.append(['topic', nick(), chan(), rng.choice(['', 'hello world', ':x', 'Topic [1]', 'é'])])
        elif r < 0.85:
            acts.append(['chghost', nick(), rng.choice(['newu', '~y']), rng.choice(['new.host', 'Cloak/X'])])
        elif r < 0.90:
            acts.append(['names', chan(), rng.random() < 0.5, rng.random() < 0.5])
        elif r < 0.92:
            acts.append(['who', chan()])
        elif r < 0.93:
            # the bot's own multi-target JOIN of 2-3 channels nobody is on, then events confined to ONE of them each
            new_chans = []
            for _ in range(rng.randint(2, 3)):
                fresh_no[0] += 1
                new_chans.append(rng.choice(['#n%d', '&N%d', '#New[%d]']) % fresh_no[0])
            acts.append(['join', 'test', new_chans])
            chans.extend(new_chans)
            others = [x for x in nicks if x != 'test'] or ['alice']
            for c in new_chans:
                k = rng.random()
                who = rng.choice(others)
                if k < 0.35:
                    acts.append(['join', sp(who), [sp(c)]])
                    acts.append(['mode', 'test', sp(c), [[True, rng.choice('ohv'), sp(who)]]])
                elif k < 0.55:
                    acts.append(['mode', 'test', sp(c), [[True, rng.choice('mntsi'), None], [True, 'b', '*!*@evil.%s' % c[1:]]]])
                elif k < 0.75:
                    acts.append(['topic', 'test', sp(c), 'topic of ' + c])
                elif k < 0.85:
                    acts.append(['join', sp(who), [sp(c)]])
                    acts.append(['names', sp(c), True, rng.random() < 0.5])
                else:
                    acts.append(['join', sp(who), [sp(c)]])
                    acts.append(['part', sp(who), [sp(c)]])
        elif r < 0.955:
            # the bot leaves (or is kicked) while the answers to its NAMES / MODE / MODE +b / WHO are still in flight
            c = chan()
            acts.append(rng.choice([['part', 'test', [c]], ['kick', nick(), c, ['test']]]))
            acts.append(['late', sp(c)])
        elif r < 0.975:
            acts.append(['reset'])
            acts.append(['join', 'test', [rng.choice(chans)]])
        else:
            acts.append(['connect', rng.choice(fresh), 'u3', 'h3'])
    return {'op': 'hist', 'mp': rng.random() < 0.6, 'uh': rng.random() < 0.5, 'acts': acts}


# ---------------------------------------------------------------- finding classes
def _int_noncanon(a):
    try:
        return a is not None and str(int(a)) != a
    except ValueError:
        return False


def triggers(inp):
    t = set()
    for a in inp.get('acts', []):
        if a[0] == 'mode' and any(_int_noncanon(arg) for _, f, arg in a[3]):
            t.add('intarg')
    return t


def excuse(d, acts):
    """which recorded finding (if any) explains ONE differing aspect, given the history so far.  Deliberately narrow:
    F10c = a mode parameter differs from the server's exactly by int() coercion.
    Anything else (hostmasks, membership, ops/halfops/voices, bans, topic, channel list, nick) is never excused.
    (F10 and F10b are repaired: nothing is attributed to them any more; their witnesses head the corpus.)"""
    if d['aspect'] == 'modes' and d['bot'] and d['server'] and d['bot'][0] is not None and d['server'][0] is not None:
        sv = d['server'][0]
        if _int_noncanon(sv) and str(int(sv)) == d['bot'][0] \
                and any(a[0] == 'mode' and any(arg == sv for _, f, arg in a[3]) for a in acts):
            return 'intarg'
    return None


def excuses(diffs, acts):
    """set of finding classes that together explain every differing aspect, or None if some aspect is unexplained"""
    ex = [excuse(d, acts) for d in diffs]
    return None if (not ex or None in ex) else set(ex)


def _class(which):
    def pred(inp):
        if inp.get('op') != 'hist':
            return False
        diffs = inp.get('diff')
        if diffs is None:       # a bare witness: recompute the differing aspects on the implementation
            recs = history_failures(inp)
            if not recs:
                return False
            diffs, acts = recs[0]['diff'], inp['acts'][:recs[0]['step'] + 1]
        else:
            acts = inp['acts']
        ex = excuses(diffs, acts)
        return ex is not None and which in ex
    return pred


CLASSES = {'noncanonical_int_arg': _class('intarg'),
           'casemapping_ascii': lambda inp: inp.get('op') == 'expect' and inp.get('name') == 'casemapping_ascii',
           'isupport_param_modes': lambda inp: inp.get('op') == 'expect' and inp.get('name') == 'isupport_param_modes'}


# ---------------------------------------------------------------- running one history
def run_history(ctx, inp, out, record=True, stored=None):
    """feed the server's messages to a fresh Irc; diff against the model after every message, against the view after
    every action.  returns the list of oracle failures, one per action after which the view differs:
    {'step', 'diff' (all differing aspects), 'detail', 'steps'}.  The run continues past a step whose differences are all
    explained by recorded findings (so that those cannot mask anything later) and stops at the first unexplained one."""
    _env()
    irc = new_irc()
    steps = stored if stored is not None else [[[dec_msg(m) for m in st[0]], st[1], dec_view(st[2])] for st in out]
    nmsg = 0
    diverged = False
    recs = []
    for i, (msgs, dumps, view) in enumerate(steps):
        for j, m in enumerate(msgs):
            if not impl_feed(irc, m):
                if ctx is not None and record:
                    ctx.disagree(inp, 'message', m, 'reference server emitted a message IrcMsg() refuses')
                return recs
            nmsg += 1
            d = impl_dump(irc)
            if ctx is not None and record and dumps is not None and not diverged:
                md = model_dump(dumps[j])
                if md != d:
                    ctx.disagree({'op': 'hist', 'mp': inp['mp'], 'uh': inp['uh'], 'acts': inp['acts'][:i + 1]}, md, d,
                                 'dump after message %r' % (m,))
                    diverged = True      # keep going: the direct oracle must still get its say
        mp_all = bool(inp['mp']) and all(a[2] for a in inp['acts'][:i + 1] if a[0] == 'names')
        diffs = view_diffs(impl_dump(irc), view, mp_all)
        for a, k in aliases(irc):
            diffs.append({'aspect': 'alias', 'chan': k, 'key': a, 'bot': "channel %s's record IS channel %s's record (one ChannelState under two names)" % (k, a),
                          'server': 'two separate channels'})
        if diffs:
            recs.append({'step': i, 'diff': diffs,
                         'detail': 'after action %d %r: %s' % (i, inp['acts'][i], describe(diffs)),
                         'aspects': sorted(set(x['aspect'] for x in diffs)),
                         'steps': [[ms, None, v] for ms, _, v in steps[:i + 1]]})
            if excuses(diffs, inp['acts'][:i + 1]) is None:
                break
    if ctx is not None and record and not recs:
        ctx.case('history' + ('-trig' if triggers(inp) else ''), inp, nontrivial=nmsg > 0)
    return recs


def history_failures(inp):
    """re-run one history on the implementation from the input alone"""
    if inp.get('steps') is not None:
        return run_history(None, inp, None, record=False, stored=inp['steps'])
    import lib.modelproc as mp
    out = mp.run('C10', [hist_wire(inp)])[0]
    return run_history(None, inp, out, record=False)


def unexplained(recs, acts):
    for r in recs:
        if excuses(r['diff'], acts[:r['step'] + 1]) is None:
            return r
    return None


# ---------------------------------------------------------------- two networks in one process
def shared_state(ircA, ircB):
    """direct oracle clause: two IrcState objects never share a container (and never a ChannelState)"""
    out = []
    for name in ('channels', 'nicksToHostmasks', 'supported', 'history'):
        if getattr(ircA.state, name) is getattr(ircB.state, name):
            out.append('state.%s of network %s IS state.%s of network %s (one object)' % (name, ircA.network, name, ircB.network))
    ids = set(id(c) for _, c in ircA.state.channels.items())
    for k, c in ircB.state.channels.items():
        if id(c) in ids:
            out.append("channel %s's record on network %s is shared with network %s" % (k, ircB.network, ircA.network))
    return out


def run_pair(ctx, inp, outs, record=True):
    """inp = {'op': 'pair', 'mp', 'uh', 'a': acts of network A, 'b': acts of network B}: the two histories run interleaved
    (A's action i, then B's action i) on TWO Irc objects in this process; after EVERY step BOTH bots are compared with
    their own server's view.  returns the first failure or None."""
    _env()
    ircs = [new_irc('test'), new_irc('net2')]
    hs = [{'op': 'hist', 'mp': inp['mp'], 'uh': inp['uh'], 'acts': inp['a']}, {'op': 'hist', 'mp': inp['mp'], 'uh': inp['uh'], 'acts': inp['b']}]
    if inp.get('steps') is not None:
        steps = inp['steps']
    else:
        steps = [[[[dec_msg(m) for m in st[0]], st[1], dec_view(st[2])] for st in out] for out in outs]
    views = [[ircs[0].nick, [], []], [ircs[1].nick, [], []]]
    diverged = [False, False]
    nmsg = 0
    for i in range(max(len(steps[0]), len(steps[1]))):
        for w in (0, 1):
            if i >= len(steps[w]):
                continue
            msgs, dumps, view = steps[w][i]
            for j, m in enumerate(msgs):
                if not impl_feed(ircs[w], m):
                    return None
                nmsg += 1
                if ctx is not None and record and dumps is not None and not diverged[w]:
                    md, d = model_dump(dumps[j]), impl_dump(ircs[w])
                    if md != d:
                        ctx.disagree({'op': 'pair', 'mp': inp['mp'], 'uh': inp['uh'], 'a': inp['a'][:i + 1], 'b': inp['b'][:i + 1 if w else i]},
                                     md, d, 'network %s: dump after message %r' % (ircs[w].network, m))
                        diverged[w] = True
            views[w] = view
            bad = []
            for k in (0, 1):      # both bots are looked at after every step of either network
                mp_all = bool(inp['mp']) and all(a[2] for a in hs[k]['acts'][:i + 1] if a[0] == 'names')
                ds = view_diffs(impl_dump(ircs[k]), views[k], mp_all)
                ds += [{'aspect': 'alias', 'chan': kk, 'key': a, 'bot': 'one ChannelState under two names', 'server': 'two channels'} for a, kk in aliases(ircs[k])]
                if ds:
                    bad.append('network %s: %s' % (ircs[k].network, describe(ds)))
            bad += shared_state(ircs[0], ircs[1])
            if bad:
                na, nb = (i + 1, i + 1) if w else (i + 1, i)
                return {'step': i, 'who': w, 'detail': 'after action %d of network %s %r: %s' % (i, ircs[w].network, hs[w]['acts'][i], '; '.join(bad)),
                        'a': inp['a'][:na], 'b': inp['b'][:nb],
                        'steps': [[[ms, None, v] for ms, _, v in steps[0][:na]], [[ms, None, v] for ms, _, v in steps[1][:nb]]]}
    if ctx is not None and record:
        ctx.case('two-networks', inp, nontrivial=nmsg > 0)
    return None


def pair_failure(inp):
    if inp.get('steps') is not None:
        return run_pair(None, inp, None, record=False)
    import lib.modelproc as mp
    outs = mp.run('C10', [hist_wire({'mp': inp['mp'], 'uh': inp['uh'], 'acts': inp['a']}), hist_wire({'mp': inp['mp'], 'uh': inp['uh'], 'acts': inp['b']})])
    return run_pair(None, inp, outs, record=False)


def check_pairs(ctx, pairs):
    outs = ctx.model([hist_wire({'mp': p['mp'], 'uh': p['uh'], 'acts': p[k]}) for p in pairs for k in ('a', 'b')])
    for n, p in enumerate(pairs):
        oa, ob = outs[2 * n], outs[2 * n + 1]
        if oa is None or ob is None:
            continue
        f = run_pair(ctx, p, [oa, ob])
        if f:
            ctx.case('two-networks-failing', p)
            ctx.fail({'op': 'pair', 'mp': p['mp'], 'uh': p['uh'], 'a': f['a'], 'b': f['b'], 'steps': f['steps']}, f['detail'])


def gen_pair(rng):
    """two histories over the SAME nicks (different user@host on each network), no finding triggers"""
    ha, hb = gen_history(rng, set()), gen_history(rng, set())
    fix = lambda acts, tag: [([a[0], a[1], a[2] + tag, a[3] + '.' + tag] if a[0] == 'connect' else a) for a in acts if a[0] != 'isupport']
    return {'op': 'pair', 'mp': True, 'uh': rng.random() < 0.5, 'a': fix(ha['acts'], 'A')[:60], 'b': fix(hb['acts'], 'B')[:60]}


def check_histories(ctx, hs):
    outs = ctx.model([hist_wire(h) for h in hs])
    for h, out in zip(hs, outs):
        if out is None:
            continue
        recs = run_history(ctx, h, out)
        if recs:
            ctx.case('history-failing', h)
        reported = set()
        for f in recs:
            ex = excuses(f['diff'], h['acts'][:f['step'] + 1])
            key = 'unexplained' if ex is None else tuple(sorted(ex))
            if key in reported:
                continue            # one report per history and per explanation
            reported.add(key)
            small = {'op': 'hist', 'mp': h['mp'], 'uh': h['uh'], 'acts': h['acts'][:f['step'] + 1], 'steps': f['steps'],
                     'diff': f['diff'], 'aspects': f['aspects']}
            ctx.fail(small, f['detail'])


# ---------------------------------------------------------------- hostile raw stream
def gen_raw(rng):
    pre = ['test!u@h', 'Test!u@h', 'a!u@h', 'A!u2@h2', 'b!x@y', 'srv', 'test', '', 'a!b', 'a@b', '!a!b@c', 'a!b@c@d', 'c!~u@h.x']
    ch = ['#a', '#A', '#b', '&c', 'nochan', '#a,#b', '#b,#A', '', '#a,,#b']
    nk = ['a', 'A', 'b', 'test', 'TEST', 'c', 'a,b', 'test,a', 'a,TEST,b', '@a', '+%b', '@', '', 'a[', 'A{', 'Test2']
    ms = ['+o', '-o', '+ov', '+o-v', '+b', '-b', '+k', '-k', '+l', '-l', '+nt', '-n', '+s-t+k', '+e', '+I', '-I', '+q', 'o', '', '+', '+lk',
          '-ob+v', '+bb']
    ar = ['a', 'A', 'b', 'test', '*!*@x', '*!*@X', '10', '007', '1_0', ' 5', 'key', '-3', '+4', '1__0', '_1', 'é']
    msgs = []
    for _ in range(rng.randint(5, 40)):
        c = rng.choice(['JOIN', 'JOIN', 'PART', 'KICK', 'QUIT', 'NICK', 'NICK', 'MODE', 'MODE', 'TOPIC', '353', '353', '352', '354', '324',
                        '329', '332', '367', 'CHGHOST', 'PRIVMSG', 'join', 'Nick', '366', '001', 'RESETX'])
        p = rng.choice(pre)
        C, N = (lambda: rng.choice(ch)), (lambda: rng.choice(nk))
        if c.upper() == 'JOIN' or c == 'PART':
            a = [C()]
        elif c == 'KICK':
            a = [C(), N(), 'why']
        elif c == 'QUIT':
            a = ['bye']
        elif c.upper() == 'NICK':
            a = [N()]
        elif c == 'MODE':
            a = [rng.choice(ch + ['test']), rng.choice(ms)] + [rng.choice(ar) for _ in range(rng.randint(0, 3))]
        elif c == 'TOPIC':
            a = [C(), rng.choice(['t', '', 'T 2'])]
        elif c == '353':
            items = ' '.join(rng.choice(['a', '@a', '+b', '@+c', '%A', 'a!u@h', '@b!u@h', '~&x', '@', '+', 'd!e', 'test', '!z', 'q!w@e!r'])
                             for _ in range(rng.randint(0, 4)))
            a = [rng.choice(['test', 'Test2', 'test']), rng.choice(['=', '@', '*']), C(), rng.choice([items, ' ' + items + '  x'])]
        elif c == '352':
            a = ['test', C(), 'us', 'ho', 'srv', N(), 'H', '0 r']
        elif c == '354':
            a = ['test', rng.choice(['1', '1', '2']), 'us', 'ip', 'ho', N(), 'H', 'acc', 'r']
        elif c == '324':
            a = ['test', C(), rng.choice(ms)] + [rng.choice(ar) for _ in range(rng.randint(0, 2))]
        elif c == '329':
            a = ['test', C(), rng.choice(['123', 'abc', ' 12 ', '1_2', ''])]
        elif c == '332':
            a = ['test', C(), 'topic']
        elif c == '367':
            a = ['test', C(), rng.choice(ar), 'setter', '1']
        elif c == 'CHGHOST':
            a = ['nu', 'nh']
        elif c == 'PRIVMSG':
            a = [C(), 'hi']
        else:
            a = [N(), 'x']
        k = rng.random()
        if k < 0.12 and a:
            a = a[:rng.randrange(len(a))]
        elif k < 0.17:
            a = a + ['extra']
        if rng.random() < 0.03:
            msgs.append(['', 'RESET', []])
        msgs.append([p, c, a])
    return {'op': 'raw', 'msgs': msgs}


def self_leave_failure(before_nick, m, after):
    """the clause 'when the bot itself leaves or is kicked the channel disappears', evaluated on one message"""
    lo = _st['ircutils'].toLower
    have = set(lo(c[0]) for c in after[2])
    cmd = m[1].upper()
    try:
        msg = _st['ircmsgs'].IrcMsg(prefix=m[0], command=m[1], args=tuple(m[2]))
    except Exception:
        return None
    if cmd == 'PART' and m[2] and after[0] and _st['ircutils'].isUserHostmask(m[0]) and lo(msg.nick) == lo(after[0]) and lo(before_nick) == lo(after[0]):
        for c in m[2][0].split(','):
            if lo(c) in have:
                return 'bot parted %r but still records it' % c
    if cmd == 'KICK' and len(m[2]) >= 2 and after[0] and lo(before_nick) == lo(after[0]) and any(lo(v) == lo(after[0]) for v in m[2][1].split(',')):
        if lo(m[2][0]) in have:
            return 'bot was kicked from %r but still records it' % m[2][0]
    if m[1] == 'RESET' and m[0] == '' and after[2]:
        return 'channels survive a reconnect'
    return None


def run_raw(ctx, inp, out, record=True):
    _env()
    irc = new_irc()
    diverged = False
    for i, m in enumerate(inp['msgs']):
        before = irc.nick
        if not impl_feed(irc, m):
            return None          # cannot be built: the generator's fault, not compared
        d = impl_dump(irc)
        if ctx is not None and record and out is not None and not diverged:
            md = model_dump(out[i])
            if md != d:
                ctx.disagree({'op': 'raw', 'msgs': inp['msgs'][:i + 1]}, md, d, 'dump after raw message %r' % (m,))
                diverged = True
        bad = self_leave_failure(before, m, d) if not (m[1] == 'RESET' and m[0] == '') else (
            'channels survive a reconnect' if d[2] else None)
        if not bad:
            al = aliases(irc)
            if al:
                bad = "channel %s's record is channel %s's record (one ChannelState object under two names)" % (al[0][1], al[0][0])
        if bad:
            return {'step': i, 'detail': bad}
    if ctx is not None and record:
        ctx.case('raw', inp)
    return None


def buildable(inp):
    e = _env()
    for m in inp['msgs']:
        if m[1] == 'RESET' and m[0] == '':
            continue
        try:
            e['ircmsgs'].IrcMsg(prefix=m[0], command=m[1], args=tuple(m[2]))
        except Exception:
            return False
    return True


# ---------------------------------------------------------------- hand-written expectations
# Conformant-server scenarios that depend on ISUPPORT tokens the reference server does not model (CASEMAPPING, PREFIX,
# CHANMODES).  Each: raw messages + what the server's state is for one channel afterwards (users / ops under the
# network's OWN case rules).  Checked directly on the implementation on every run; two of them are recorded findings.
EXPECT = [
    {'op': 'expect', 'name': 'casemapping_ascii', 'msgs': [['irc.srv', '005', ['test', 'CASEMAPPING=ascii', 'are supported']], ['test!bot@h', 'JOIN', ['#a']],
        ['a[!u1@h1', 'JOIN', ['#a']], ['a{!u2@h2', 'JOIN', ['#a']], ['a[!u1@h1', 'PART', ['#a']]],
     'chan': '#a', 'users': ['a{', 'test'], 'ops': []},
    {'op': 'expect', 'name': 'isupport_param_modes', 'msgs': [['irc.srv', '005', ['test', 'PREFIX=(qaohv)~&@%+', 'CHANMODES=beI,kfL,lj,psmntirRcOAQKVCuzNSMTGZ', 'are supported']],
        ['test!bot@h', 'JOIN', ['#a']], ['alice!u@h', 'JOIN', ['#a']], ['bob!u@h', 'JOIN', ['#a']], ['op!u@h', 'MODE', ['#a', '+ao', 'alice', 'bob']],
        ['op!u@h', 'MODE', ['#a', '+fv', '[5t]:10', 'alice']]],
     'chan': '#a', 'users': ['alice', 'bob', 'test'], 'ops': ['bob'], 'voices': ['alice']},
    {'op': 'expect', 'name': 'server_origin', 'msgs': [['test!bot@h', 'JOIN', ['#a']], ['alice!u@h', 'JOIN', ['#a']], ['irc.srv', 'MODE', ['#a', '+ov', 'alice', 'alice']],
        ['irc.srv', 'MODE', ['#a', '-o', 'ALICE']], ['irc.srv', 'KICK', ['#a', 'test,alice', 'x']]],
     'chan': '#a', 'users': None, 'ops': None},
    {'op': 'expect', 'name': 'whox', 'msgs': [['test!bot@h', 'JOIN', ['#a']], ['alice!u@h', 'JOIN', ['#a']],
        ['irc.srv', '354', ['test', '1', 'ux', '1.2.3.4', 'hx', 'alice', 'H@', 'acct', 'real name']]],
     'chan': '#a', 'users': ['alice', 'test'], 'ops': [], 'hostmask': ['alice', 'alice!ux@hx']},
]


def run_expect(inp):
    """returns a failure detail or None"""
    _env()
    irc = new_irc()
    for m in inp['msgs']:
        if not impl_feed(irc, m):
            return None
    d = impl_dump(irc)
    rec = dict((c[0], c) for c in d[2]).get(inp['chan'])
    if inp['users'] is None:
        return None if rec is None else 'the bot still records %s' % inp['chan']
    if rec is None:
        return 'the bot does not record %s' % inp['chan']
    bad = []
    for i, what in ((1, 'users'), (2, 'ops'), (4, 'voices')):
        if inp.get(what) is not None and sorted(rec[i]) != sorted(inp[what]):
            bad.append('%s of %s: bot %r, server %r' % (what, inp['chan'], sorted(rec[i]), sorted(inp[what])))
    if inp.get('hostmask') and dict(d[3]).get(inp['hostmask'][0]) != inp['hostmask'][1]:
        bad.append('hostmask of %s: bot %r, server %r' % (inp['hostmask'][0], dict(d[3]).get(inp['hostmask'][0]), inp['hostmask'][1]))
    return '; '.join(bad) or None


# ---------------------------------------------------------------- corpus
CORPUS = [
    # old witness of finding C10.F14 (repaired): +I was filed as ONE value and -I of any mask removed it
    {'op': 'hist', 'mp': True, 'uh': False, 'acts': [['join', 'test', ['#a']], ['mode', 'test', '#a', [[True, 'I', 'm1!*@*']]], ['mode', 'test', '#a', [[True, 'I', 'm2!*@*'], [True, 'e', 'x!*@*'], [True, 'q', 'y!*@*']]],
                                                    ['mode', 'test', '#a', [[False, 'I', 'm1!*@*'], [True, 'n', None], [False, 'q', 'y!*@*'], [True, 'k', 'key']]]]},
    # old witness of finding C10.F11 (repaired): replies in flight after the bot was kicked / parted re-created the channel
    {'op': 'hist', 'mp': True, 'uh': False, 'acts': [['connect', 'op', 'u', 'h'], ['join', 'op', ['#a']], ['mode', 'op', '#a', [[True, 'n', None], [True, 't', None]]],
                                                    ['join', 'test', ['#a']], ['kick', 'op', '#a', ['test']], ['late', '#a']]},
    {'op': 'hist', 'mp': True, 'uh': True, 'acts': [['connect', 'op', 'u', 'h'], ['join', 'op', ['#a']], ['topic', 'op', '#a', 'hello'], ['join', 'test', ['#A']],
                                                   ['part', 'test', ['#a']], ['late', '#A'], ['late', '#nowhere'], ['join', 'test', ['#a']], ['late', '#a']]},
    # channel names at the length bound (seeded change C10_6: ircutils.isChannel's `len(s) <= channellen` became `<`, so every
    # MODE on a channel of exactly CHANNELLEN characters was dropped): default CHANNELLEN 50 -- 49, 50 and (refused) 51 characters
    {'op': 'hist', 'mp': True, 'uh': False, 'acts': [['connect', 'alice', 'u', 'h'], ['join', 'test', ['#' + 'x' * 48, '#' + 'y' * 49, '#' + 'z' * 50]],
                                                    ['join', 'alice', ['#' + 'y' * 49, '#' + 'x' * 48]],
                                                    ['mode', 'test', '#' + 'Y' * 49, [[True, 'o', 'alice'], [True, 'm', None], [True, 'b', '*!*@evil']]],
                                                    ['mode', 'test', '#' + 'x' * 48, [[True, 'v', 'alice']]],
                                                    ['mode', 'alice', '#' + 'y' * 49, [[False, 'o', 'test'], [True, 'l', '5']]]]},
    # ... and with ISUPPORT CHANNELLEN=12
    {'op': 'hist', 'mp': True, 'uh': True, 'acts': [['isupport', 12], ['connect', 'alice', 'u', 'h'], ['join', 'test', ['#' + 'a' * 10, '&' + 'b' * 11]],
                                                   ['join', 'alice', ['&' + 'b' * 11]], ['mode', 'test', '&' + 'B' * 11, [[True, 'h', 'alice'], [True, 's', None]]],
                                                   ['mode', 'test', '#' + 'a' * 10, [[True, 'b', 'x!*@*']]], ['topic', 'alice', '&' + 'b' * 11, 't']]},
    # the bot's own multi-target JOIN of untracked channels, then events confined to one channel each (seeded change C10_5:
    # doJoin stored ONE ChannelState under every target of the JOIN)
    {'op': 'hist', 'mp': True, 'uh': False, 'acts': [['connect', 'alice', 'u', 'h'], ['join', 'test', ['#a', '#b', '&c']],
                                                    ['join', 'alice', ['#a']], ['mode', 'test', '#a', [[True, 'o', 'alice'], [True, 'm', None], [True, 'b', '*!*@evil']]],
                                                    ['topic', 'test', '#b', 'topic of b'], ['names', '&c', True, False], ['part', 'alice', ['#a']],
                                                    ['part', 'test', ['#b']], ['topic', 'test', '#a', 'x']]},
    # old witness of finding F10 (repaired): a NICK change differing only in case erased the hostmask
    {'op': 'hist', 'mp': True, 'uh': False, 'acts': [['connect', 'Foo', 'u', 'h'], ['join', 'test', ['#a']], ['join', 'Foo', ['#a']],
                                                    ['nick', 'Foo', 'foo']]},
    # old witness of finding F10b (repaired): NAMES with userhost-in-names overwrote hostmasks with bare names
    {'op': 'hist', 'mp': True, 'uh': False, 'acts': [['connect', 'Foo', 'u', 'h'], ['join', 'test', ['#a']], ['join', 'Foo', ['#a']],
                                                    ['names', '#a', True, True]]},
    # int() coercion of mode parameters
    {'op': 'hist', 'mp': False, 'uh': False, 'acts': [['join', 'test', ['#a']], ['mode', 'test', '#a', [[True, 'k', '007']]]]},
    # order-dependent scenarios from the property text
    {'op': 'hist', 'mp': True, 'uh': True, 'acts': [['connect', 'Foo', 'u', 'h'], ['connect', 'bar', 'u', 'h'], ['join', 'Foo', ['#a', '#b']],
                                                   ['join', 'test', ['#A', '#B']], ['mode', 'foo', '#a', [[True, 'o', 'TEST'], [True, 'v', 'FOO']]],
                                                   ['nick', 'Foo', 'Baz'], ['kick', 'test', '#a', ['foo', 'BAZ']], ['join', 'bar', ['#b', '#a']],
                                                   ['mode', 'TEST', '#A', [[True, 'o', 'BAR'], [False, 'o', 'bar'], [True, 'b', '*!*@X'], [False, 'b', '*!*@x']]],
                                                   ['quit', 'BAR'], ['nick', 'test', 'Test2'], ['part', 'TEST2', ['#a', '#b']], ['reset'],
                                                   ['join', 'test', ['#b']], ['kick', 'baz', '#b', ['TEST']]]},
]
CORPUS_PAIRS = [
    # two networks in one process, the same nick on both with different hostmasks; a reconnect of one of them (seeded change C10_7:
    # IrcState.__init__ got a shared mutable default for nicksToHostmasks)
    {'op': 'pair', 'mp': True, 'uh': False,
     'a': [['connect', 'alice', 'ua', 'host.a'], ['join', 'test', ['#a']], ['join', 'alice', ['#a']], ['topic', 'alice', '#a', 'A'], ['who', '#a'], ['topic', 'alice', '#a', 'A2']],
     'b': [['connect', 'alice', 'ub', 'host.b'], ['join', 'test', ['#b']], ['join', 'Alice', ['#b']], ['reset'], ['join', 'test', ['#b']], ['topic', 'alice', '#b', 'B']]},
]
CORPUS_RAW = [
    {'op': 'raw', 'msgs': [['test!u@h', 'JOIN', ['#a']], ['srv', 'KICK', ['#zz', 'x']], ['srv', '353', ['test', '@', '#a', 'a!b@c @+d!e@f g']],
                           ['a!b@c', 'NICK', ['A']], ['srv', 'MODE', ['#a', '+k-o+b', '007', 'D', '12']], ['srv', '324', ['test', '#q', '+ntb', 'x']],
                           ['x', 'NICK', ['y']], ['test', 'PART', ['#A']]]},
]


def run(ctx):
    _env()
    rng = ctx.rng
    check_histories(ctx, CORPUS)
    hs = []
    for i in range(ctx.n(260)):
        trig = set() if i % 4 else {'intarg'}
        hs.append(gen_history(rng, trig))
    check_histories(ctx, hs)
    for x in EXPECT:
        ctx.case('expectation', x)
        bad = run_expect(x)
        if bad:
            ctx.fail(x, bad)
    check_pairs(ctx, CORPUS_PAIRS + [gen_pair(rng) for _ in range(ctx.n(40))])
    raws = CORPUS_RAW + [r for r in (gen_raw(rng) for _ in range(ctx.n(1200))) if buildable(r)]
    e = _st
    outs = ctx.model([[1, [e['nick0'], e['prefix0'], r['msgs']]] for r in raws])
    for r, out in zip(raws, outs):
        f = run_raw(ctx, r, out)
        if f:
            ctx.fail({'op': 'raw', 'msgs': r['msgs'][:f['step'] + 1]}, f['detail'])
    # primitives: separateModes, isUserHostmask/splitHostmask, int coercion
    import itertools
    iu = e['ircutils']
    margs = [[m] + list(a) for m in ['+o-v+b', '+ooo', '+s-o', '+sntl', '-l+k', '+b', 'b+', '+-o', 'lk', '+I-I', '', '+e-q'] for n in range(0, 4)
             for a in itertools.product(['x', '12', '007'], repeat=n)] + [[]]
    mo = ctx.model([[2, a] for a in margs])
    for a, o in zip(margs, mo):
        inp = {'op': 'sepmodes', 'args': a}
        ctx.case('separateModes', inp)
        want = [[mode[0], mode[1], _mv(v)] for mode, v in iu.separateModes(a)]
        got = None if o is None else [[chr(x[0]), chr(x[1]), (None if x[2] == [] else (['s', wire.s(x[2][1])] if x[2][0] == 0 else ['i', x[2][1]]))]
                                      for x in o]
        if o is not None and got != want:
            ctx.disagree(inp, got, want, 'separateModes')
    hms = [''.join(t) for n in range(0, 8) for t in itertools.product('a!@ ', repeat=n)]
    ho = ctx.model([[3, h] for h in hms])
    for h, o in zip(hms, ho):
        inp = {'op': 'hostmask', 's': h}
        ctx.case('hostmask', inp, nontrivial=bool(h))
        is_hm = iu.isUserHostmask(h)
        try:
            sp = list(iu.splitHostmask(h)) if is_hm else None
        except ValueError:
            sp = []
        if o is not None:
            got = [bool(o[0]), (wire.ls(o[1]) if is_hm else None)]
            if got != [is_hm, sp]:
                ctx.disagree(inp, got, [is_hm, sp], 'isUserHostmask/splitHostmask')
    ints = [''.join(t) for n in range(0, 5) for t in itertools.product('01_+- a', repeat=n)]
    io = ctx.model([[4, s] for s in ints])
    for s, o in zip(ints, io):
        inp = {'op': 'int', 's': s}
        ctx.case('int-coercion', inp, nontrivial=bool(s))
        try:
            want = ['i', int(s)]
        except ValueError:
            want = ['s', s]
        got = None if o is None else (['s', wire.s(o[1])] if o[0] == 0 else ['i', o[1]])
        if o is not None and got != want:
            ctx.disagree(inp, got, want, 'int() coercion')
    ctx.notes.append('hostmask strings over "a!@ " exhaustive up to length 6; int() inputs over "01_+- a" up to length 4')


def replay(ctx, inp):
    _env()
    if inp.get('op') == 'hist':
        recs = history_failures(inp)
        if not recs:
            return None
        f = unexplained(recs, inp['acts'])
        if f is None and inp.get('diff') is not None and excuses(inp['diff'], inp['acts']) is None:
            return None     # recorded as an unexplained failure: only an unexplained failure reproduces it
        return (f or recs[0])['detail']
    if inp.get('op') == 'raw':
        f = run_raw(None, inp, None, record=False)
        return f['detail'] if f else None
    if inp.get('op') == 'pair':
        f = pair_failure(inp)
        return f['detail'] if f else None
    if inp.get('op') == 'expect':
        return run_expect(inp)
    return None


def shrink(ctx, inp):
    if inp.get('op') == 'pair':
        cur = {'op': 'pair', 'mp': inp['mp'], 'uh': inp['uh'], 'a': list(inp['a']), 'b': list(inp['b'])}
        for side in ('a', 'b'):
            other = 'b' if side == 'a' else 'a'
            keep = shrink_seq(cur[side], lambda acts: pair_failure({'op': 'pair', 'mp': cur['mp'], 'uh': cur['uh'], side: list(acts), other: cur[other]}) is not None,
                              budget=60)
            cur[side] = list(keep)
        f = pair_failure(cur)
        if f:
            return {'op': 'pair', 'mp': cur['mp'], 'uh': cur['uh'], 'a': f['a'], 'b': f['b'], 'steps': f['steps']}
        return inp
    if inp.get('op') == 'hist':
        want = set(inp.get('aspects') or [])

        def bad(acts):
            h = {'op': 'hist', 'mp': inp['mp'], 'uh': inp['uh'], 'acts': list(acts)}
            f = unexplained(history_failures(h), h['acts'])
            # keep the same kind of failure: an unexplained difference sharing an aspect with the original
            return f if (f and (not want or want & set(f['aspects']))) else None
        acts = shrink_seq(inp['acts'], lambda a: bad(a) is not None, budget=150)
        f = bad(acts)
        if f:
            return {'op': 'hist', 'mp': inp['mp'], 'uh': inp['uh'], 'acts': list(acts)[:f['step'] + 1], 'steps': f['steps'],
                    'diff': f['diff'], 'aspects': f['aspects']}
        return inp
    if inp.get('op') == 'raw':
        msgs = shrink_seq(inp['msgs'], lambda ms: run_raw(None, {'op': 'raw', 'msgs': list(ms)}, None, record=False) is not None, budget=150)
        return {'op': 'raw', 'msgs': list(msgs)}
    return inp
