"""C02 — nobody can become owner (or gain a capability) through the bot's own commands."""
import json, os, sys
import boot
from lib import wire
from lib.shrink import shrink_seq

TABLES = ['T02', 'T03', 'T04', 'T13', 'T16']
RULE = ('live bot (Owner, Misc, Config, User, Admin, Channel loaded; world.testing off; allowUnregistration on; flood protection off) with three '
        'speaking actors (unregistered, plain registered, admin-not-owner) and an owner account that never speaks; random histories of 10-40 '
        'private commands (user register/unregister/changename/identify/unidentify/hostmask add|remove/set password|secure, admin capability '
        'add|remove, admin ignore add|remove, channel capability add|remove|set|unset|setdefault) whose arguments are written quoted with escape '
        'sequences (\\n \\r \\t \\x.. spaces, leading/trailing blanks, case variants of owner, anticapabilities, channel capabilities, hostmasks, '
        'nicks), interleaved with users.flush() and users.flush()+users.reload() on a scratch users.conf.  (a) correspondence: after every step '
        'the full dump of the real databases (every account: id, name, ignore, secure, hashed, password present, capabilities, hostmasks, logins, '
        'nicks, gpg keys; nextId; IrcUserCreator.u; channel capability sets/defaults; ignore list) equals the dump computed by the extracted model '
        'from the same command text, with the recorded answers of users.getUserId(<hostmask>) as oracle input.  (b) direct oracle on the '
        'implementation: owners after every step and after every reload are a subset (by id) of the owners before; a capability appears in an '
        'account only on `admin capability add` by a caller for whom ircdb.checkCapability(prefix, "admin") and (anticapability or '
        'checkCapability(prefix, cap)) held before the step, or on `channel capability add` by a caller holding "#chan,op"; a new account has no '
        'capability; in addition every capability that appears in an account after a command is submitted, with the REAL before-state and the '
        'recorded lookups, to the extracted decidable form grantb of the grant relation of C02_grow_only_entitled (C02_grant_decidable), '
        'and must be allowed by it (channel-qualified arguments such as #d,op for callers holding op in #c only are generated and in the '
        'corpus).  No speaking actor (none of whom knows the owner\'s password) ever becomes recognised by an owner account '
        '(starting databases include accounts without password / with the empty password); names and capabilities with the str.splitlines '
        'boundaries \\x0b \\x0c \\x1c-\\x1e \\x85 U+2028 U+2029 are generated.  non-trivial = history with at least one state change')
TRUSTED = ['users.getUserId(x) (recognition of the sender and resolution of names, C04) is an INPUT of the model: the first answer recorded '
           'for each string during the command is fed to the model, and the theorems hold for every answer stream (names are included because '
           '_nameCache goes stale: after `user changename` the old name keeps resolving until a reload); histories are cut for the '
           'correspondence (not for the direct oracle) at a step in which a lookup was ambiguous (DuplicateHostmask / hostmasks removed by '
           'the lookup / two accounts recognising one actor)',
           'utils.saltHash is modelled as an injective encoding of the password (no collision, salt ignored); dumps compare "password present"',
           'configuration is the default one except databases.users.allowUnregistration=True and abuse.flood.command(.invalid)=False; '
           'capabilities / capabilities.registeredUsers / capabilities.default are the regenerated defaults (config writes are C01)',
           'command words are given in canonical spelling (plugin name first); nested commands and Python str.lower() on cased non-ASCII '
           'letters are outside the model (generator stays in ASCII plus uncased whitespace code points)',
           'expiring ignores (`admin ignore add <mask> <seconds>`) are modelled only for the literal forms the generator uses',
           'reload theorem: the starting database is well formed (wf_state: in particular hashed passwords); nothing else is assumed']
ASSUMPTIONS = ['world.testing/log.testing off; Python asserts enabled', 'owner-only commands and direct file edits are not available to the actors',
               'the owner account never speaks; no other plugin is loaded', 'login timeout (databases.users.timeoutIdentification) is 0 (default)']
LEVEL_TEXT = ('Coq theorems over an executable Gallina model of the account/capability commands of the User, Admin and Channel plugins with their '
              'converter lists, the dispatch gates (checkIgnored, checkCommandCapability), newUser/setUser/delUser and flush+reload, built on the '
              'C03 (capability algebra, checkCapability), C04 (hostmask matching), C13 (tokenizer) and C16 (users.conf writer/reader) models: for '
              'every history of commands (any caller, any recognition oracle) the in-memory owner set never grows, and a capability appears in an '
              'account only at a step that is an Admin capability add past the admin gate for a non-owner capability the caller may give, or a '
              'Channel capability add by a holder of #channel,op (new accounts start empty; reloads never add a capability); with the repairs of '
              'C02.F1 and C02.F43 well-formedness of the accounts for users.conf is an invariant of all histories, and from a well-formed database '
              '(hashed passwords) no history of commands, flushes and reloads adds an owner, whatever the id/name/hostmask collisions and trailing '
              'newlines in hostmasks (own reader theorem, C02/Reader.v).')
LEVEL_NOTE = ('Trusted: Coq kernel, gen_tables.py, extraction + driver, harness; recognition of the sender (users.getUserId, names and '
              'hostmasks) is an oracle input; the tie to the source is the regenerated tables plus the differential live run.  Modelled, not '
              'verified: all Python.  NOT modelled (gap audit): (1) only Owner, Misc, Config, User, Admin, Channel are loaded -- other bundled '
              'plugins that write accounts are outside: NickAuth `nick add` (writes the nicks line; probed: a nick with a newline is accepted '
              'and aborts the next load of users.conf, no capability gained), GPG / User gpg (gpgkey lines, login by key), '
              'followIdentificationThroughNickChanges (off by default); (2) configuration is fixed to the defaults: supybot.capabilities, '
              'capabilities.registeredUsers and capabilities.default enter the model as regenerated constants, so the theorems speak about the '
              'default configuration only (config writes are C01/C15); CHANTYPES / casemapping of a server (005) are the defaults; (3) reloads of '
              'channels.conf, ignores and the registry (`config reload`, SIGHUP) are not ops of the model: only users.conf is reloaded; (4) nested '
              'commands ([...]) and non-canonical command spellings are not generated; (5) expiring ignores, the flood protection and the login '
              'timeout are switched off; (6) an account with an unhashed password (hand-written `hashed False`) stores the next `user set password` '
              'argument raw -- outside wf_state by hypothesis, reported, not repaired (the code keeps such accounts unhashed on purpose); (7) one '
              'network, three speaking hostmasks plus one odd prefix; multi-network recognition is C04.')
TECHNIQUE = 'Coq proof (induction over command histories, invariant on owner sets, composition with C16 round trip) + regenerated tables + extracted-model differential correspondence on a live bot'
EXPLANATION = 'C02: model coq/C02/Model.v; theorems coq/C02/Props.v'

ACTORS = {'anon': 'anon!a@host.anon', 'plain': 'plain!p@host.plain', 'adm': 'adm!m@host.adm',
          'odd': 'o!*@?'}      # fewer than 3 non-wildcard characters: addHostmask raises inside `user register`
OWNER_MASK = 'boss!o@host.owner'
DEFAULT_OFF = ['-halfop', '-op', '-protected', '-voice']

_BOT = {}


class _Driver:
    def reconnect(self, *a, **k):
        pass

    def die(self):
        pass


def _deny(*a, **k):
    raise OSError(101, 'Network is unreachable (verification harness)')


def bot():
    if _BOT:
        return _BOT
    boot.boot()
    import socket
    socket.getaddrinfo = _deny
    socket.create_connection = _deny
    socket.socket.connect = _deny
    import warnings
    warnings.simplefilter('ignore')
    import supybot.httpserver as httpserver
    httpserver.startServer = lambda: None
    import supybot.conf as conf, supybot.irclib as irclib, supybot.ircmsgs as ircmsgs, supybot.plugin as plugin
    import supybot.ircdb as ircdb, supybot.ircutils as ircutils, supybot.callbacks as callbacks, supybot.world as world
    assert world.testing is False
    conf.supybot.abuse.flood.command.setValue(False)
    conf.supybot.abuse.flood.command.invalid.setValue(False)
    conf.supybot.databases.users.allowUnregistration.setValue(True)
    assert conf.supybot.protocols.irc.strictRfc() is False
    assert conf.supybot.databases.users.timeoutIdentification() == 0
    assert conf.supybot.defaultIgnore() is False
    irc = irclib.Irc('test')
    irc.driver = _Driver()
    B = _BOT
    B.update(irc=irc, conf=conf, ircmsgs=ircmsgs, ircdb=ircdb, ircutils=ircutils, callbacks=callbacks, world=world)
    _drain(B)
    for n in ('Owner', 'Misc', 'Config', 'User', 'Admin', 'Channel'):
        plugin.loadPluginClass(irc, plugin.loadPluginModule(n))
    for l in (':server 001 test :Welcome', ':server 376 test :End of MOTD'):
        irc.feedMsg(ircmsgs.IrcMsg(l))
    _drain(B)
    # record every users.getUserId call (argument, answer) and hostmask removals done by a lookup
    B['calls'], B['depth'], B['lookup_removed'] = [], [0], [0]
    orig = ircdb.UsersDictionary.getUserId
    orig_rm = ircdb.IrcUser.removeHostmask

    def getUserId(self, s):
        B['depth'][0] += 1
        try:
            r = orig(self, s)
            B['calls'].append((s, r))
            return r
        except Exception as e:
            B['calls'].append((s, type(e).__name__))
            raise
        finally:
            B['depth'][0] -= 1

    def removeHostmask(self, h):
        if B['depth'][0] > 0:
            B['lookup_removed'][0] += 1
        return orig_rm(self, h)
    ircdb.UsersDictionary.getUserId = getUserId
    ircdb.IrcUser.removeHostmask = removeHostmask
    B['orig_getUserId'] = orig
    return B


def _drain(B):
    out = []
    irc = B['irc']
    for _ in range(10000):
        try:
            m = irc.takeMsg()
        except Exception as e:
            out.append(e)
            continue
        if m is None:
            break
        out.append(m)
    return out


def live_feed(B, prefix, text, where=None):
    """one message from prefix: in private (where=None) or said in channel `where`, addressed with the prefix character"""
    irc, ircmsgs = B['irc'], B['ircmsgs']
    try:
        m = ircmsgs.IrcMsg(prefix=prefix, command='PRIVMSG', args=((irc.nick, text) if where is None else (where, '@' + text)))
    except Exception:
        return []
    try:
        irc.feedMsg(m)
    except Exception:
        pass
    return _drain(B)


# ---------------------------------------------------------------------------
# real state: reset, dump
def reset(B, init):
    ircdb, irc = B['ircdb'], B['irc']
    d = ircdb.users
    d.users.clear()
    d.nextId = 0
    d._nameCache.clear()
    d._hostmaskCache.clear()
    d.noFlush = False
    ircdb.IrcUserCreator.u = None
    ircdb.channels.channels.clear()
    ircdb.ignores.hostmasks.clear()
    irc.state.nicksToHostmasks.clear()
    for nick, pfx in ACTORS.items():
        irc.state.nicksToHostmasks[pfx.split('!')[0]] = pfx
    for name, pw, mask, caps in init['accounts']:
        u = d.newUser()
        u.name = name
        if pw is not None:              # None: an account made without password (API, hand-written users.conf)
            u.setPassword(pw)
        u.addHostmask(mask)
        for c in caps:
            u.addCapability(c)
        d.setUser(u)
    # overlapping hostmasks put in place without setUser (what an older database may contain): from then on
    # users.setUser refuses these accounts (DuplicateHostmask), which exercises the roll-back paths of the commands
    for name, masks in init.get('extra', {}).items():
        u = d.getUser(name)
        for m in masks:
            u.hostmasks.add(m)
    d._nameCache.clear()
    d._hostmaskCache.clear()
    d.flush()


def enc_pw(pw):
    return 'h|' + ''.join('%d.' % ord(c) for c in pw)


def init_wire(init):
    users = []
    for i, (name, pw, mask, caps) in enumerate(init['accounts'], 1):
        users.append([[[i], name, False, False, True, ('' if pw is None else enc_pw(pw)), sorted(caps), [mask] + init.get('extra', {}).get(name, []), [], []], []])
    return [users, len(init['accounts']), [], [], []]


def dump(B):
    ircdb, ircutils = B['ircdb'], B['ircutils']
    users = []
    for i, u in ircdb.users.users.items():
        users.append([i, u.name, bool(u.ignore), bool(u.secure), bool(u.hashed), bool(u.password),
                      sorted(str(c) for c in u.capabilities), sorted(str(h) for h in u.hostmasks),
                      [h for _, h in u.auth], [[n, list(v)] for n, v in u.nicks.items()], list(u.gpgkeys)])
    chans = []
    for k, c in ircdb.channels.channels.items():
        caps = sorted(str(x) for x in c.capabilities)
        if caps == DEFAULT_OFF and c.defaultAllow is True:
            continue
        chans.append([ircutils.toLower(k), caps, bool(c.defaultAllow)])
    return {'users': users, 'next': ircdb.users.nextId, 'creator': ircdb.IrcUserCreator.u is not None,
            'chans': sorted(chans), 'ignores': list(ircdb.ignores.hostmasks.keys())}


def wire_state(B):
    """the real databases as a model state (for the extracted grantb)"""
    ircdb, ircutils = B['ircdb'], B['ircutils']
    users = []
    for i, u in ircdb.users.users.items():
        users.append([[[i], u.name, bool(u.ignore), bool(u.secure), bool(u.hashed), u.password or '',
                       sorted(str(c) for c in u.capabilities), sorted(str(h) for h in u.hostmasks),
                       [[n, list(v)] for n, v in u.nicks.items()], list(u.gpgkeys)], [h for _, h in u.auth]])
    chans = [[ircutils.toLower(k), sorted(str(x) for x in c.capabilities), bool(c.defaultAllow)]
             for k, c in ircdb.channels.channels.items()]
    return [users, ircdb.users.nextId, [], chans, list(ircdb.ignores.hostmasks.keys())]


def S(v):
    return ''.join(chr(c) for c in v)


def dec_dump(v):
    users = []
    for a in v[0]:
        users.append([(a[0][0] if a[0] else None), S(a[1]), bool(a[2]), bool(a[3]), bool(a[4]), bool(a[5]),
                      sorted(S(c) for c in a[6]), sorted(S(h) for h in a[7]), [S(h) for h in a[8]],
                      [[S(nn[0]), [S(x) for x in nn[1]]] for nn in a[9]], [S(k) for k in a[10]]])
    chans = []
    for kc in v[3]:
        caps = sorted(S(c) for c in kc[1])
        if caps == DEFAULT_OFF and bool(kc[2]):
            continue
        chans.append([S(kc[0]), caps, bool(kc[2])])
    return {'users': users, 'next': v[1], 'creator': bool(v[2]), 'chans': sorted(chans), 'ignores': [S(h) for h in v[4]]}


def owners(d):
    return sorted(u[0] for u in d['users'] if 'owner' in u[6])


def recognisers(B, prefix):
    """accounts recognising prefix right now (own mask or login), computed without the lookup code"""
    ircdb, ircutils = B['ircdb'], B['ircutils']
    out = []
    for i, u in ircdb.users.users.items():
        bymask = any(ircutils.hostmaskPatternEqual(p, prefix) for p in u.hostmasks)
        if bymask or (any(h == prefix for _, h in u.auth) and not u.secure):     # a login of a secure account needs a mask too
            out.append(i)
    return out


def actor_owners(B):
    """the speaking actors that some owner account recognises (read-only: no lookup, no cache)"""
    ircdb = B['ircdb']
    out = set()
    for a, p in ACTORS.items():
        for i in recognisers(B, p):
            u = ircdb.users.users[i]
            if any(str(c) == 'owner' for c in u.capabilities) and not u.ignore:     # (UserCapabilitySet.__contains__('owner') is always True)
                out.add(a)
    return out


# ---------------------------------------------------------------------------
# running one history on the implementation, with the direct oracle
def quote(a):
    out = ['"']
    for ch in a:
        o = ord(ch)
        if ch == '\\':
            out.append('\\\\')
        elif ch == '"':
            out.append('\\"')
        elif ch == '\n':
            out.append('\\n')
        elif ch == '\r':
            out.append('\\r')
        elif ch == '\t':
            out.append('\\t')
        elif o > 255:
            out.append('\\u%04x' % o)
        elif o < 32 or o == 127 or o >= 128:
            out.append('\\x%02x' % o)
        else:
            out.append(ch)
    out.append('"')
    return ''.join(out)


def plain_word(a):
    return a != '' and all(c.isalnum() or c in '.,#!@*?-_' for c in a) and all(ord(c) < 128 for c in a)


def render(cmd, args, quoted):
    parts = [cmd]
    for a, q in zip(args, quoted):
        parts.append(quote(a) if (q or not plain_word(a)) else a)
    return ' '.join(parts)


def real_check(B, prefix, cap):
    try:
        return bool(B['ircdb'].checkCapability(prefix, cap))
    except Exception:
        return False


def run_real(B, inp, want_trace=True):
    """returns (records, failures); records[i] = {'dump', 'lk', 'unstable'} after step i; failures = [(index, detail)]"""
    ircdb, ircutils = B['ircdb'], B['ircutils']
    reset(B, inp['init'])
    recs, fails = [], []
    before = dump(B)
    own_before = actor_owners(B)
    for idx, st in enumerate(inp['steps']):
        pre_wire = None
        del B['calls'][:]
        B['lookup_removed'][0] = 0
        unstable = False
        if st.get('op') == 'flush':
            ircdb.users.flush()
        elif st.get('op') == 'reload':
            ircdb.users.flush()
            ircdb.users.reload()
        else:
            prefix = ACTORS[st['a']]
            pre = None
            pre_wire = wire_state(B)
            if st['cmd'] in ('admin capability add', 'channel capability add'):
                args = st['args']
                try:
                    if st['cmd'] == 'admin capability add' and len(args) == 2:
                        c = ircutils.toLower(args[1])
                        pre = {'caps': {c}, 'ok': real_check(B, prefix, 'admin') and c != 'owner' and
                               (ircdb.isAntiCapability(c) or real_check(B, prefix, c))}
                    elif st['cmd'] == 'channel capability add':
                        cargs = list(args)
                        chan = cargs.pop(0) if cargs and ircutils.isChannel(cargs[0]) else st.get('where')
                        if chan and len(cargs) == 2:
                            c = ircutils.toLower('%s,%s' % (chan, cargs[1].strip()))
                            pre = {'caps': {c}, 'ok': real_check(B, prefix, '%s,op' % chan)}
                except Exception:
                    pre = None
                if B['lookup_removed'][0] or any(r == 'DuplicateHostmask' for _, r in B['calls']):
                    unstable = True
                del B['calls'][:]
            live_feed(B, prefix, st['text'], st.get('where'))
        after = dump(B)
        calls = list(B['calls'])
        if B['lookup_removed'][0] or any(r == 'DuplicateHostmask' for _, r in calls):
            unstable = True
        if any(len(recognisers(B, p)) > 1 for p in ACTORS.values()):
            unstable = True
        # ---- direct oracle (property text on the implementation)
        own_after = actor_owners(B)
        for a in sorted(own_after - own_before):
            fails.append((idx, 'takeover: after %r the sender %s (%s), who was not an owner, is recognised as an owner account' % (
                st.get('text') or st.get('op'), a, ACTORS[a])))
        own_before = own_after
        ob, oa = owners(before), owners(after)
        if not set(oa) <= set(ob):
            what = 'reload' if st.get('op') == 'reload' else ('flush' if st.get('op') else 'command')
            fails.append((idx, '%s: owners %r -> %r (new owner account(s): %r)' % (
                what, ob, oa, [[u[0], u[1]] for u in after['users'] if u[0] in set(oa) - set(ob)])))
        if not st.get('op'):
            bcaps = {u[0]: set(u[6]) for u in before['users']}
            for u in after['users']:
                new = set(u[6]) - bcaps.get(u[0], set())
                if not new:
                    continue
                if u[0] not in bcaps:
                    fails.append((idx, 'new account %r created with capabilities %r' % (u[0], sorted(new))))
                elif pre is None or not pre['ok'] or not new <= pre['caps']:
                    fails.append((idx, 'account %r (%r) gained %r by %r from %s who was not entitled (pre-check %r)' % (
                        u[0], u[1], sorted(new), st['text'], st['a'], pre and {'caps': sorted(pre['caps']), 'ok': pre['ok']})))
        lk = {}
        for s, r in calls:
            if s not in lk:
                lk[s] = r if isinstance(r, int) else None
        grantq = []
        if not st.get('op') and not unstable:
            bcaps = {u[0]: set(u[6]) for u in before['users']}
            nicks = [[p.split('!')[0], p] for p in ACTORS.values()]
            env = [ACTORS[st['a']], [[k, wire.opt(v)] for k, v in lk.items()], nicks, wire.opt(st.get('where'))]
            for u in after['users']:
                for c in sorted(set(u[6]) - bcaps.get(u[0], set())):
                    grantq.append((idx, u[0], c, [3, [pre_wire, env, st['text'], u[0], c]]))
        recs.append({'dump': after, 'lk': lk, 'unstable': unstable, 'grantq': grantq})
        before = after
    return recs, fails


def wire_ops(inp, recs):
    ops = []
    nicks = [[p.split('!')[0], p] for p in ACTORS.values()]
    for st, r in zip(inp['steps'], recs):
        if st.get('op') == 'flush':
            ops.append([1])
        elif st.get('op') == 'reload':
            ops.append([2])
        else:
            lk = [[s, wire.opt(v)] for s, v in r['lk'].items()]
            ops.append([0, [ACTORS[st['a']], lk, nicks, wire.opt(st.get('where'))], st['text']])
    return ops


# ---------------------------------------------------------------------------
# generators
NAMES = ['plain', 'adm', 'boss', 'PLAIN', 'x', 'y', 'zed', 'x\n  capability owner', 'y\r  capability owner', 'w\n  capability admin',
         ' ', ' lead', 'a b', 'tab\tbed', 'q\n  ignore True', 'r\n  hostmask *!*@*', 'n\n  secure True', 'anon', 'foo!bar@baz', '#c', '$x',
         '\x1fz', 'e\xa0f', 'K\n\nuser 99\n  name inj\n  capability owner', 'p\n  password h|1.', 'all', '',
         # the line boundaries of str.splitlines() that a text-mode file iteration does NOT honour (User._checkName allows them inside)
         'x\x0c  capability owner', 'v\x0b  capability owner', 's\x1c  capability owner', 't\x1d  capability admin', 'r\x1e  capability owner',
         'y\x85  capability owner', 'l\u2028  capability owner', 'm\u2029  capability owner', 'i\x0c  ignore True', 'h\x85\x0cuser 98']
OWNER_PW = 'Zq9-never-typed'      # the owner's password is not known to the actors: an actor who types it IS the owner
PWS = ['ppw', 'apw', 'bpw', 'pw', 'n w', 'p\nq', 'x|y', '']
CAPS = ['foo', 'bar', 'admin', 'owner', 'OWNER', 'Owner', ' owner', '\towner', 'owner ', '-owner', ' -owner', 'trusted', '-trusted', '-foo',
        '#c,op', '#c,foo', '#C,OP', '#c,owner', 'user.register', '-user.register', '-user', '-register', '-admin', '-add', 'bar baz', '',
        'own\ner', 'foo\n  capability owner', 'foo\x0c  capability owner', 'bar\u2028  capability owner', '-admin.capability', '{x', '[X', '\xa0owner', '#d,op', '-#c,op', '#c,-op']
CHANS = ['#c', '#C', '#d', '&e', 'c', '#c,d', '#']
CCAPS = ['op', 'foo', 'voice', '-op', ' op', 'owner', 'x y', '', 'OP', '-foo', 'halfop',
         '#d,op', '#d,x', '#c,#d,op', '-#d,op', '#D,OP', '#d,-op', '#c,op', '#C,Voice', '&e,op', '#d,op #d,voice']   # channel-qualified: another channel's capability
MASKS = ['anon!a@host.anon', 'plain!p@host.plain', 'adm!m@host.adm', 'boss!o@host.owner', '*!*@host.anon', 'x!y@z', '*!*@*', 'a!b@c',
         'new!n@host.new', 'nomask', 'all', 'anon', 'plain', '$a:x', '#x!y@z', 'N!e\nw@h', 'a!b@c\n', 'nl!x@host.plain\n',
         # whitespace / line breaks inside the nick, ident and host parts (isUserHostmask must refuse all but one trailing \\n);
         # the first ones are complete users.conf payloads: "<nick>!<ident>LF  capability owner LF  hostmask <nick>!<ident>@<host>"
         'evil!x\n  capability owner\n  hostmask e!y@h', 'evil!x\r  capability owner\r  hostmask e!y@h',
         'evil!x\n  capability admin\n  hostmask e!y@host.anon', 'ev\n  capability owner\n  hostmask il!x@h',
         'evil!x@h\n  capability owner\n  hostmask e!y@h2', 'evil!x y@h', 'ev il!x@h', 'evil!x@h ost', 'evil!x\ty@h', ' evil!x@h',
         'evil!x\x0cy@h', 'evil!x\u2028y@h', 'evil!x@h\r', 'evil!x\n@h', 'e!x\n  ignore True\n  hostmask e!y@h']
BOOLS = ['True', 'False', 'on', 'off', ' 1 ', 'maybe', 'ENABLE', '0']


def gen_init(rng):
    acc = [['boss', OWNER_PW, OWNER_MASK, ['owner']],
           ['adm', 'apw', ACTORS['adm'], ['admin'] + (['#c,op'] if rng.random() < 0.5 else [])],
           ['plain', 'ppw', ACTORS['plain'], (['#c,op'] if rng.random() < 0.3 else (['#d,op'] if rng.random() < 0.3 else []))]]
    if rng.random() < 0.15:
        acc[2][3] = acc[2][3] + ['-user.register']
    if rng.random() < 0.15:            # an account without password / with the empty password (supybot-adduser lets one press Enter)
        acc.append(['root', rng.choice([None, '']), 'root!r@host.root', rng.choice([['owner'], ['admin'], []])])
    init = {'accounts': acc}
    if rng.random() < 0.2:
        init['extra'] = rng.choice([{'plain': ['q!q@over.lap'], 'boss': ['*!*@over.lap']},
                                    {'adm': ['*!*@over.lap'], 'plain': ['Q!q@OVER.lap']},
                                    {'plain': ['q!q@over.lap'], 'adm': ['q!*@*.lap']}])
    return init


def gen_step(rng, hostile):
    r = rng.random()
    if r < 0.06:
        return {'op': 'flush'}
    if r < 0.16:
        return {'op': 'reload'}
    actor = rng.choice(['anon', 'plain', 'adm', 'adm'] * 4 + ['odd'])
    ch = rng.choice

    PW_OF = {'plain': 'ppw', 'adm': 'apw', 'PLAIN': 'ppw'}
    last = [None]

    def name():
        n = ch(NAMES) if rng.random() < (0.5 if hostile else 0.2) else ch(['plain', 'plain', 'adm', 'boss', 'x', 'y', 'zed', 'anon', 'root'])
        last[0] = n
        return n

    def pw():
        if rng.random() < (0.3 if hostile else 0.12):
            return ch(PWS)
        return PW_OF.get(last[0], 'pw')
    k = rng.random()
    if actor == 'adm':
        cmd = ch(['admin capability add'] * 5 + ['admin capability remove'] * 2 + ['admin ignore add', 'admin ignore remove',
                 'channel capability add', 'channel capability add', 'channel capability remove', 'channel capability set',
                 'channel capability unset', 'channel capability setdefault', 'user identify', 'user register', 'user changename',
                 'user hostmask add', 'user hostmask remove', 'user set password', 'user set secure', 'user unidentify', 'user unregister'])
    else:
        cmd = ch(['user register'] * 4 + ['user unregister', 'user changename', 'user changename', 'user identify', 'user identify',
                 'user unidentify', 'user hostmask add', 'user hostmask add', 'user hostmask remove', 'user set password', 'user set secure',
                 'admin capability add', 'admin capability remove', 'admin ignore add', 'channel capability add', 'channel capability set',
                 'channel capability setdefault', 'channel capability remove'])
    if cmd == 'user register':
        args = [name(), pw()]
    elif cmd == 'user unregister':
        args = [name()] + ([pw()] if rng.random() < 0.8 else [])
    elif cmd == 'user changename':
        args = [name()] + [ch(NAMES) if rng.random() < 0.5 else ch(['x', 'y', 'zed', 'neo', 'plain'])] + ([pw()] if rng.random() < 0.7 else [])
    elif cmd == 'user identify':
        args = [name(), pw()]
    elif cmd == 'user unidentify':
        args = [] if rng.random() < 0.9 else ['x']
    elif cmd in ('user hostmask add', 'user hostmask remove'):
        args = []
        if rng.random() < 0.6:
            args.append(name())
        if rng.random() < 0.7:
            args.append(ch(MASKS))
            if rng.random() < 0.5:
                args.append(pw())
    elif cmd == 'user set password':
        args = ([name()] if rng.random() < 0.8 else [ch([None])][:0]) + [pw(), ch(['ppw', 'apw', 'pw', 'n w', 'pw'])]
    elif cmd == 'user set secure':
        args = [pw()] + ([ch(BOOLS)] if rng.random() < 0.6 else [])
    elif cmd in ('admin capability add', 'admin capability remove'):
        args = [name(), ch(CAPS) if rng.random() < 0.7 else ch(['foo', 'bar', '-foo', 'user.register', 'baz', '#c,voice'])]
    elif cmd == 'admin ignore add':
        args = [ch(MASKS)] + ([ch(['0', '3600', 'abc', ''])] if rng.random() < 0.3 else [])
    elif cmd == 'admin ignore remove':
        args = [ch(MASKS)]
    elif cmd in ('channel capability add', 'channel capability remove'):
        args = [ch(CHANS) if rng.random() < 0.35 else '#c', name(), ch(CCAPS)]
    elif cmd in ('channel capability set', 'channel capability unset'):
        args = [ch(CHANS) if rng.random() < 0.35 else '#c'] + [ch(CCAPS) for _ in range(rng.randint(0, 3))]
    else:
        args = [ch(CHANS) if rng.random() < 0.35 else '#c', ch(BOOLS)]
    if hostile and rng.random() < 0.1 and args:
        args = args[:-1] if rng.random() < 0.5 else args + [ch(NAMES)]
    quoted = [rng.random() < 0.3 for _ in args]
    st = {'a': actor, 'cmd': cmd, 'args': args, 'text': render(cmd, args, quoted)}
    # said in a channel rather than in private (the usual way to give `channel capability ...`): the channel
    # argument may then be left out; the User commands refuse ('private')
    r = rng.random()
    if cmd.startswith('channel') and r < 0.5:
        st['where'] = ch(['#c', '#c', '#c', '#d', '&e', '#C'])
        if args and rng.random() < 0.6:
            st['args'] = args[1:]
            st['text'] = render(cmd, st['args'], quoted[1:])
    elif cmd.startswith('admin') and r < 0.35:
        st['where'] = ch(['#c', '#d'])
    elif r < 0.08:
        st['where'] = ch(['#c', '#d'])
    return st


def gen_history(rng, hostile):
    n = rng.randint(10, 40)
    return {'init': gen_init(rng), 'steps': [gen_step(rng, hostile) for _ in range(n)]}


def cmdstep(a, cmd, args, where=None):
    st = {'a': a, 'cmd': cmd, 'args': args, 'text': render(cmd, args, [True] * len(args))}
    if where:
        st['where'] = where
    return st


INIT0 = {'accounts': [['boss', OWNER_PW, OWNER_MASK, ['owner']], ['adm', 'apw', ACTORS['adm'], ['admin', '#c,op']],
                      ['plain', 'ppw', ACTORS['plain'], []]]}
W_F1 = {'init': INIT0, 'steps': [cmdstep('anon', 'user register', ['x\n  capability owner', 'pw']), {'op': 'reload'}]}
W_F43 = {'init': INIT0, 'steps': [cmdstep('adm', 'admin capability add', ['plain', ' owner']), {'op': 'reload'}]}
W_LINESEP = {'init': INIT0, 'steps': [cmdstep('anon', 'user register', ['x\x0c  capability owner', 'pw']), {'op': 'reload'},
                                      cmdstep('plain', 'user changename', ['plain', 'l\u2028  capability owner']), {'op': 'reload'},
                                      cmdstep('anon', 'user changename', ['x\x0c  capability owner', 'y\x85  capability owner', 'pw']), {'op': 'reload'},
                                      cmdstep('adm', 'user register', ['v\x0b  capability owner', 'pw']), cmdstep('adm', 'user changename', ['adm', 's\x1c  capability owner']),
                                      cmdstep('adm', 'admin capability add', ['plain', 'foo\x0c  capability owner']), {'op': 'reload'}]}
INIT_NOPW = {'accounts': INIT0['accounts'] + [['root', None, 'root!r@host.root', ['owner']]]}
INIT_EMPTYPW = {'accounts': INIT0['accounts'] + [['root', '', 'root!r@host.root', ['owner']]]}
W_F44 = {'init': INIT_NOPW, 'steps': [{'op': 'reload'}, cmdstep('anon', 'user hostmask add', ['root'])]}
W_F44B = {'init': INIT_EMPTYPW, 'steps': [cmdstep('anon', 'user hostmask add', ['root'])]}
HM_PAYLOAD = 'evil!x\n  capability owner\n  hostmask e!y@h'
W_HMNL = {'init': INIT0, 'steps': [cmdstep('plain', 'user hostmask add', ['plain', HM_PAYLOAD]), {'op': 'reload'},
                                   cmdstep('plain', 'user hostmask add', [HM_PAYLOAD.replace('\n', '\r')]), {'op': 'reload'},
                                   cmdstep('anon', 'user register', ['zed', 'pw']), cmdstep('anon', 'user hostmask add', ['zed', 'ev\n  capability owner\n  hostmask il!x@h', 'pw']),
                                   cmdstep('anon', 'user hostmask add', ['zed', 'evil!x@h\n  capability owner\n  hostmask e!y@h2']), cmdstep('anon', 'user hostmask add', ['zed', 'evil!x y@h']),
                                   cmdstep('adm', 'admin ignore add', [HM_PAYLOAD]), cmdstep('adm', 'admin ignore add', ['evil!x y@h']),
                                   cmdstep('anon', 'user hostmask remove', ['zed', HM_PAYLOAD]), {'op': 'reload'}]}
W_INCHAN = {'init': INIT0, 'steps': [cmdstep('plain', 'admin capability add', ['plain', 'foo'], '#c'), cmdstep('plain', 'channel capability add', ['plain', 'voice'], '#c'),
                                     cmdstep('adm', 'channel capability add', ['plain', 'op'], '#d'), cmdstep('adm', 'channel capability add', ['#d', 'plain', 'op'], '#c'),
                                     cmdstep('adm', 'channel capability add', ['plain', 'halfop'], '#c'), cmdstep('adm', 'admin capability add', ['plain', 'bar'], '#d'),
                                     cmdstep('adm', 'channel capability add', ['plain', '#d,op'], '#c'), cmdstep('plain', 'user register', ['x', 'pw'], '#c'),
                                     cmdstep('adm', 'channel capability setdefault', ['False'], '#c'), cmdstep('adm', 'admin capability add', ['plain', 'qux'], '#c'),
                                     cmdstep('plain', 'channel capability set', ['op'], '#c'), cmdstep('plain', 'admin capability add', ['plain', 'zzz'], '#c'),
                                     cmdstep('adm', 'channel capability set', ['-admin.capability.add'], '#c'), cmdstep('adm', 'admin capability add', ['plain', 'blocked'], '#c'),
                                     cmdstep('adm', 'admin capability add', ['plain', 'elsewhere'], '#d'), cmdstep('adm', 'channel capability add', ['#c', 'plain', 'voice'], '#d'),
                                     cmdstep('anon', 'user unidentify', [], '#c'), cmdstep('adm', 'channel capability unset', ['-admin.capability.add'], '#c'), {'op': 'reload'}]}
W_XCHAN = {'init': INIT0, 'steps': [cmdstep('adm', 'channel capability add', ['#c', 'plain', '#d,op'])]}
INIT_OVER = dict(INIT0, extra={'plain': ['q!q@over.lap'], 'boss': ['*!*@over.lap']})
CORPUS = [
    W_F44, W_F44B, W_F1, W_F43, W_XCHAN, W_LINESEP, W_HMNL, W_INCHAN,
    {'init': INIT_NOPW, 'steps': [cmdstep('anon', 'user hostmask add', ['root']), cmdstep('anon', 'user changename', ['root', 'mine']), {'op': 'reload'},
                                  cmdstep('anon', 'user changename', ['root', 'mine']), cmdstep('plain', 'user unregister', ['mine', '']),
                                  cmdstep('plain', 'user hostmask remove', ['mine', 'all']), cmdstep('plain', 'user identify', ['mine', ''])]},
    {'init': INIT_OVER, 'steps': [cmdstep('plain', 'user changename', ['plain', 'neo']), cmdstep('anon', 'user identify', ['plain', 'ppw']),
                                  cmdstep('plain', 'user hostmask remove', ['plain', 'q!q@over.lap']), cmdstep('plain', 'user hostmask add', ['plain', 'a!b@c']),
                                  cmdstep('plain', 'user hostmask add', ['plain', 'plain!p@host.plain']), cmdstep('plain', 'user unidentify', []),
                                  cmdstep('plain', 'user set password', ['plain', 'ppw', 'pw']), cmdstep('plain', 'user set secure', ['pw', 'on']),
                                  cmdstep('adm', 'admin capability add', ['plain', 'foo']), cmdstep('plain', 'user hostmask remove', ['plain', 'all']),
                                  cmdstep('odd', 'user register', ['oddone', 'pw']), cmdstep('anon', 'user register', ['fine', 'pw']), {'op': 'reload'}]},
    {'init': INIT0, 'steps': [cmdstep('adm', 'channel capability add', ['#c', 'adm', '#D,OP']), cmdstep('adm', 'channel capability add', ['#c', 'plain', '-#d,op']),
                              cmdstep('adm', 'channel capability add', ['#c', 'plain', '#c,#d,op']), cmdstep('adm', 'channel capability remove', ['#c', 'plain', '#d,op']),
                              cmdstep('adm', 'channel capability set', ['#c', '#d,op', '#d,x']), cmdstep('adm', 'channel capability unset', ['#c', '#d,op']),
                              cmdstep('adm', 'channel capability add', ['#d', 'plain', 'op']), cmdstep('plain', 'channel capability add', ['#c', 'plain', '#c,op']),
                              cmdstep('adm', 'channel capability add', ['#c', 'plain', 'voice']), cmdstep('adm', 'channel capability remove', ['#c', 'plain', '#c,voice']),
                              {'op': 'reload'}]},
    {'init': INIT0, 'steps': [cmdstep('adm', 'admin capability add', ['plain', 'owner']), cmdstep('adm', 'admin capability add', ['plain', 'OWNER']),
                              cmdstep('adm', 'admin capability add', ['plain', 'foo']), cmdstep('adm', 'admin capability add', ['plain', 'trusted']),
                              cmdstep('plain', 'admin capability add', ['plain', 'bar']), cmdstep('adm', 'channel capability add', ['#c', 'plain', 'op']),
                              cmdstep('plain', 'channel capability add', ['#c', 'plain', 'voice']), cmdstep('adm', 'admin capability add', ['plain', '-owner']),
                              cmdstep('adm', 'admin capability remove', ['boss', 'owner']), {'op': 'reload'}]},
    {'init': INIT0, 'steps': [cmdstep('anon', 'user register', ['zed', 'pw']), cmdstep('anon', 'user changename', ['zed', 'q\r  capability owner']),
                              {'op': 'flush'}, {'op': 'reload'}]},
    {'init': INIT0, 'steps': [cmdstep('anon', 'user identify', ['plain', 'ppw']), cmdstep('anon', 'user hostmask add', ['plain']),
                              cmdstep('anon', 'user set password', ['plain', 'ppw', 'n w']), cmdstep('plain', 'user set secure', ['n w', 'on']),
                              cmdstep('anon', 'user unidentify', []), cmdstep('plain', 'user unregister', ['plain', 'n w']), {'op': 'reload'}]},
    {'init': INIT0, 'steps': [cmdstep('adm', 'admin ignore add', ['plain']), cmdstep('plain', 'user register', ['late', 'pw']),
                              cmdstep('adm', 'admin ignore remove', ['plain!p@host.plain']), cmdstep('anon', 'user register', [' ', 'pw']),
                              cmdstep('anon', 'user register', ['late', 'pw']), {'op': 'reload'}, cmdstep('adm', 'channel capability set', ['#c', 'foo', '-bar']),
                              cmdstep('adm', 'channel capability setdefault', ['#c', 'off']), cmdstep('adm', 'channel capability unset', ['#c', 'op'])]},
]


# ---------------------------------------------------------------------------
# classes of known findings: none (C02.F1 and C02.F43 are repaired; their witnesses W_F1, W_F43 stay first in the corpus,
# so a regression is reported as a VIOLATION with the old witness as replay)
CLASSES = {}


# ---------------------------------------------------------------------------
def fix_args(B, h):
    """the decoded arguments recorded in a step are what the real tokenizer produces (self-check of quote())"""
    for st in h['steps']:
        if st.get('op'):
            continue
        try:
            toks = B['callbacks'].tokenize(st['text'])
        except Exception:
            continue
        n = len(st['cmd'].split())
        if all(isinstance(t, str) for t in toks) and toks[:n] == st['cmd'].split():
            st['args'] = toks[n:]


def run(ctx):
    B = bot()
    hs = [json.loads(json.dumps(h)) for h in CORPUS]
    n = ctx.n(520)
    for i in range(n):
        hs.append(gen_history(ctx.rng, hostile=(i % 3 == 2)))
    batch, meta = [], []
    for hi, h in enumerate(hs):
        fix_args(B, h)
        recs, fails = run_real(B, h)
        changed = sum(1 for a, b in zip([None] + recs, recs) if a is not None and a['dump'] != b['dump'])
        kind = 'corpus' if hi < len(CORPUS) else ('hostile' if (hi - len(CORPUS)) % 3 == 2 else 'structured')
        ctx.case(kind, {'init': h['init'], 'steps': h['steps'][:6]}, nontrivial=changed > 0)
        for st in h['steps']:
            ctx.dist['step:' + (st.get('op') or st['cmd'])] += 1
        seen = set()
        for idx, detail in fails:
            if idx in seen:
                continue
            seen.add(idx)
            ctx.fail({'init': h['init'], 'steps': h['steps'][:idx + 1]}, detail)
        cut = len(recs)
        for i, r in enumerate(recs):
            if r['unstable']:
                cut = i
                ctx.dist['cut:ambiguous-lookup'] += 1
                break
        batch.append([0, [init_wire(h['init']), wire_ops(h, recs)[:cut]]])
        meta.append((h, recs, cut))
    batch.append([2, []])
    nh = len(batch)
    gq = []
    for h, recs, cut in meta:
        for r in recs:
            for idx, uid, c, q in r['grantq']:
                gq.append((h, idx, uid, c))
                batch.append(q)
    outs = ctx.model(batch)
    if outs[nh - 1] is not None and outs[nh - 1] != 1:
        ctx.disagree({'table': 'T02.SPECS'}, outs[nh - 1], 1, 'converter lists of the modelled commands changed (specs_ok is false)')
    for (h, idx, uid, c), o in zip(gq, outs[nh:]):
        ctx.dist['grant-oracle:%s' % ('allowed' if o == 1 else 'REFUSED' if o == 0 else 'n/a')] += 1
        if o == 0:
            ctx.fail({'init': h['init'], 'steps': h['steps'][:idx + 1]}, grant_detail(h, idx, uid, c))
    for (h, recs, cut), out in zip(meta, outs[:nh - 1]):
        if out is None:
            continue
        if isinstance(out, tuple):
            ctx.disagree({'init': h['init'], 'steps': h['steps'][:cut]}, str(out), None, 'model error')
            continue
        for i in range(cut):
            md = dec_dump(out[i][0])
            if md != recs[i]['dump']:
                ctx.disagree({'init': h['init'], 'steps': h['steps'][:i + 1]}, md, recs[i]['dump'],
                             'database dump after step %d (%r)' % (i, h['steps'][i].get('text') or h['steps'][i].get('op')))
                break
            st = h['steps'][i]
            if st.get('op') == 'reload':
                ctx.dist['reload:c16dom=%d,wf=%d,hosts=%d' % (out[i][1], out[i][4], out[i][5])] += 1
            elif not st.get('op'):
                ctx.dist['effect:%d' % out[i][3]] += 1


def grant_detail(h, idx, uid, c):
    st = h['steps'][idx]
    return ('grant: capability %r appeared in account %r after %r from %s, which the grant relation of C02_grow_only_entitled '
            '(extracted grantb, evaluated on the real before-state) does not allow' % (c, uid, st.get('text'), st.get('a')))


def grant_failures(ctx, inp, recs):
    qs = [(idx, uid, c, q) for r in recs for idx, uid, c, q in r['grantq']]
    if not qs:
        return []
    outs = ctx.model([q for _, _, _, q in qs])
    return [(idx, grant_detail(inp, idx, uid, c)) for (idx, uid, c, _), o in zip(qs, outs) if o == 0]


def replay(ctx, inp):
    B = bot()
    recs, fails = run_real(B, inp)
    fails = fails + grant_failures(ctx, inp, recs)
    if fails:
        return '; '.join('step %d: %s' % f for f in sorted(fails)[:3])
    return None


def shrink(ctx, inp):
    B = bot()
    want = None
    recs, fails = run_real(B, inp)
    fails = fails + grant_failures(ctx, inp, recs)
    if not fails:
        return inp
    want = sorted(fails)[-1][1].split(':')[0]

    def bad(steps):
        if not steps:
            return False
        cand = {'init': inp['init'], 'steps': list(steps)}
        r, f = run_real(B, cand)
        f = f + grant_failures(ctx, cand, r)
        return any(i == len(steps) - 1 and d.split(':')[0] == want for i, d in f)
    steps = inp['steps']
    last = steps[-1:]
    body = shrink_seq(steps[:-1], lambda s: bad(list(s) + last), budget=150)
    return {'init': inp['init'], 'steps': list(body) + last}
