#!/usr/bin/env python3
"""Regenerate coq/gen/T*.v from /repo's working tree.

Fail-closed: every extractor asserts the AST shape it relies on; an unexpected
shape raises, so a stale table can never be used silently.  Files are rewritten
only when their content changes (keeps `make` incremental).

Usage: gen_tables.py [ids...]   (no ids = all)
"""
import ast, hashlib, os, sys

REPO = os.environ.get('VERIF_REPO', '/repo')
HERE = os.path.dirname(os.path.abspath(__file__))
GEN = os.path.join(os.path.dirname(HERE), 'coq', 'gen')


class Shape(Exception):
    """the source no longer has the shape the extractor understands"""


def src(path):
    with open(os.path.join(REPO, path), encoding='utf-8') as f:
        return f.read()


def tree(path):
    return ast.parse(src(path), path)


def need(cond, what):
    if not cond:
        raise Shape(what)


# ---------- Coq literal printers ----------
def cN(n):
    return '%d' % n


def cstr(s):
    return '[' + '; '.join(cN(ord(c)) for c in s) + ']'


def clist(items):
    return '[' + '; '.join(items) + ']'


def cbool(b):
    return 'true' if b else 'false'


HEADER = ('(* GENERATED from %s by harness/gen_tables.py -- do not edit *)\n'
          'From Coq Require Import List NArith ZArith Bool.\nImport ListNotations.\n'
          'Open Scope N_scope.\n\n')


# ---------- AST helpers ----------
def module_assign(t, name):
    for node in t.body:
        if isinstance(node, ast.Assign) and len(node.targets) == 1 \
                and isinstance(node.targets[0], ast.Name) and node.targets[0].id == name:
            return node.value
    raise Shape('no module-level assignment to %s' % name)


def find_def(t, name, cls=None):
    body = t.body
    if cls is not None:
        for node in body:
            if isinstance(node, ast.ClassDef) and node.name == cls:
                body = node.body
                break
        else:
            raise Shape('no class %s' % cls)
    for node in body:
        if isinstance(node, (ast.FunctionDef,)) and node.name == name:
            return node
    raise Shape('no def %s%s' % (cls + '.' if cls else '', name))


def find_class(t, name):
    for node in t.body:
        if isinstance(node, ast.ClassDef) and node.name == name:
            return node
    raise Shape('no class %s' % name)


def handler_names(h):
    """exception names caught by an ast.ExceptHandler ([] = bare except)"""
    if h.type is None:
        return ['*']
    if isinstance(h.type, ast.Tuple):
        return [ast.unparse(e) for e in h.type.elts]
    return [ast.unparse(h.type)]


EXN = {'IndexError': 'IndexError', 'ValueError': 'ValueError', 'KeyError': 'KeyError',
       'TypeError': 'TypeError', 'AssertionError': 'AssertionError',
       'AttributeError': 'AttributeError', 'UnicodeError': 'UnicodeError'}

# ---------- per-property tables ----------
GENERATORS = {}


def table(pid):
    def deco(f):
        GENERATORS[pid] = f
        return f
    return deco


@table('T05')
def gen_T05():
    t = tree('src/ircmsgs.py')
    v = module_assign(t, 'SERVER_TAG_ESCAPE')
    pairs = ast.literal_eval(v)
    need(isinstance(pairs, list) and all(isinstance(p, tuple) and len(p) == 2 for p in pairs),
         'SERVER_TAG_ESCAPE is not a list of pairs')
    need(all(len(k) == 1 for k, _ in pairs), 'SERVER_TAG_ESCAPE key is not a single char')
    pat = module_assign(t, '_escape_sequence_pattern')
    need(ast.unparse(pat) == "re.compile('\\\\\\\\.?')", 'unescape regex changed: ' + ast.unparse(pat))
    # except clause of the string branch of IrcMsg.__init__
    init = find_def(t, '__init__', 'IrcMsg')
    trys = [n for n in ast.walk(init) if isinstance(n, ast.Try)]
    need(len(trys) == 1 and len(trys[0].handlers) == 1, 'IrcMsg.__init__: expected one try/except')
    caught = handler_names(trys[0].handlers[0])
    need(all(c in EXN for c in caught), 'IrcMsg.__init__ catches unknown exception: %r' % caught)
    fmt = [n for n in ast.walk(init) if isinstance(n, ast.Constant) and isinstance(n.value, str)
           and '%Y' in n.value]
    need(len(fmt) == 1 and fmt[0].value == '%Y-%m-%dT%H:%M:%S.%fZ', 'strptime format changed')
    out = 'Require Import Base.Wire.\n'
    out += 'Definition SERVER_TAG_ESCAPE : list (N * list N) :=\n  %s.\n' % clist(
        '(%d, %s)' % (ord(k), cstr(img)) for k, img in pairs)
    out += 'Definition PARSE_CATCHES : list exn := %s.\n' % clist(EXN[c] for c in caught)
    return 'src/ircmsgs.py', out


def write_if_changed(path, content):
    try:
        with open(path, encoding='utf-8') as f:
            if f.read() == content:
                return False
    except FileNotFoundError:
        pass
    tmp = path + '.tmp%d' % os.getpid()
    with open(tmp, 'w', encoding='utf-8') as f:
        f.write(content)
    os.replace(tmp, path)
    return True


def generate(ids=None):
    """returns {id: {'sha': ..., 'changed': bool}}; raises Shape on surprise"""
    os.makedirs(GEN, exist_ok=True)
    res = {}
    for pid, f in sorted(GENERATORS.items()):
        if ids and pid not in ids:
            continue
        source, body = f()
        content = (HEADER % source) + body
        changed = write_if_changed(os.path.join(GEN, pid + '.v'), content)
        res[pid] = {'sha': hashlib.sha256(content.encode()).hexdigest()[:16], 'changed': changed,
                    'source': source}
    return res


if __name__ == '__main__':
    try:
        r = generate(sys.argv[1:] or None)
    except Shape as e:
        print('gen_tables: SHAPE ERROR: %s' % e)
        sys.exit(3)
    for k, v in r.items():
        print(k, v['sha'], 'changed' if v['changed'] else 'same')
