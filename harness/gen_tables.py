#!/usr/bin/env python3
"""Regenerate coq/gen/T*.v from /repo's working tree.

Fail-closed: every extractor asserts the AST shape it relies on; an unexpected
shape raises, so a stale table can never be used silently.  Files are rewritten
only when their content changes (keeps `make` incremental).

Usage: gen_tables.py [ids...]   (no ids = all)
"""
import ast, hashlib, os, sys

REPO = os.environ.get('VERIF_REPO', '/repo')
HERE = os.path.dirname(os.path.abspath(__file__))
GEN = os.path.join(os.path.dirname(HERE), 'coq', 'gen')


class Shape(Exception):
    """the source no longer has the shape the extractor understands"""


def src(path):
    with open(os.path.join(REPO, path), encoding='utf-8') as f:
        return f.read()


def tree(path):
    return ast.parse(src(path), path)


def need(cond, what):
    if not cond:
        raise Shape(what)


# ---------- Coq literal printers ----------
def cN(n):
    return '%d' % n


def cstr(s):
    return '[' + '; '.join(cN(ord(c)) for c in s) + ']'


def clist(items):
    return '[' + '; '.join(items) + ']'


def cbool(b):
    return 'true' if b else 'false'


HEADER = ('(* GENERATED from %s by harness/gen_tables.py -- do not edit *)\n'
          'From Coq Require Import List NArith ZArith Bool.\nImport ListNotations.\n'
          'Open Scope N_scope.\n\n')


# ---------- AST helpers ----------
def module_assign(t, name):
    for node in t.body:
        if isinstance(node, ast.Assign) and len(node.targets) == 1 \
                and isinstance(node.targets[0], ast.Name) and node.targets[0].id == name:
            return node.value
    raise Shape('no module-level assignment to %s' % name)


def find_def(t, name, cls=None):
    body = t.body
    if cls is not None:
        for node in body:
            if isinstance(node, ast.ClassDef) and node.name == cls:
                body = node.body
                break
        else:
            raise Shape('no class %s' % cls)
    for node in body:
        if isinstance(node, (ast.FunctionDef,)) and node.name == name:
            return node
    raise Shape('no def %s%s' % (cls + '.' if cls else '', name))


def find_class(t, name):
    for node in t.body:
        if isinstance(node, ast.ClassDef) and node.name == name:
            return node
    raise Shape('no class %s' % name)


def handler_names(h):
    """exception names caught by an ast.ExceptHandler ([] = bare except)"""
    if h.type is None:
        return ['*']
    if isinstance(h.type, ast.Tuple):
        return [ast.unparse(e) for e in h.type.elts]
    return [ast.unparse(h.type)]


EXN = {'IndexError': 'IndexError', 'ValueError': 'ValueError', 'KeyError': 'KeyError',
       'TypeError': 'TypeError', 'AssertionError': 'AssertionError',
       'AttributeError': 'AttributeError', 'UnicodeError': 'UnicodeError'}

# ---------- per-property tables ----------
GENERATORS = {}


def table(pid):
    def deco(f):
        GENERATORS[pid] = f
        return f
    return deco


def _load_tables():
    import importlib, glob as _glob
    tdir = os.path.join(HERE, 'tables')
    if tdir not in sys.path:
        sys.path.insert(0, tdir)
    for f in sorted(_glob.glob(os.path.join(tdir, 't[0-9][0-9]*.py'))):
        importlib.import_module(os.path.basename(f)[:-3])


def write_if_changed(path, content):
    try:
        with open(path, encoding='utf-8') as f:
            if f.read() == content:
                return False
    except FileNotFoundError:
        pass
    tmp = path + '.tmp%d' % os.getpid()
    with open(tmp, 'w', encoding='utf-8') as f:
        f.write(content)
    os.replace(tmp, path)
    return True


def generate(ids=None):
    """returns {id: {'sha': ..., 'changed': bool}}; raises Shape on surprise"""
    _load_tables()
    os.makedirs(GEN, exist_ok=True)
    res = {}
    for pid, f in sorted(GENERATORS.items()):
        if ids and pid not in ids:
            continue
        source, body = f()
        content = (HEADER % source) + body
        changed = write_if_changed(os.path.join(GEN, pid + '.v'), content)
        res[pid] = {'sha': hashlib.sha256(content.encode()).hexdigest()[:16], 'changed': changed,
                    'source': source}
    return res


def main(argv):
    try:
        r = generate(argv or None)
    except Shape as e:
        print('gen_tables: SHAPE ERROR: %s' % e)
        return 3
    for k, v in r.items():
        print(k, v['sha'], 'changed' if v['changed'] else 'same')
    return 0


if __name__ == '__main__':
    sys.path.insert(0, HERE)
    import gen_tables as _gt
    sys.exit(_gt.main(sys.argv[1:]))
