"""C01 — capability-gated commands never take effect for callers lacking the capability."""
import contextlib, io, json, os, sys, threading, time, types
import boot
from lib import wire

TABLES = ['T01', 'T03']
RULE = ('(a) gate correspondence on a harness plugin loaded into the live bot: generated converter specs (gating converters owner/admin/'
        'checkCapability/checkCapabilityButIgnoreOwner/checkChannelCapability/op/halfop/voice, opaque converters with forced outcomes, '
        'channel, optional/additional/first/rest/any contexts, allowExtra, nested Commands class, a plugin whose name is not canonical) x generated '
        'capability databases (caller recognised / unknown / ignored / secure-with-wrong-hostmask, owner/admin/anti/channel capabilities, channel '
        'capabilities and defaultAllow, default set, default flag, ignore database) x channel/private: the real Owner.doPrivmsg -> '
        'NestedCommandsIrcProxy -> _callCommand run is compared event by event with the extracted model; checkCommandCapability, '
        'DefaultCapabilities.setValue sequences and ircdb.checkIgnored are compared on their own (incl. hostile names).  (b) live bot, worker '
        'processes: EVERY command of every loadable bundled plugin x 13 caller roles (owner, admin, channel-op, plain registered, unregistered, '
        'ignored, and secure owner/admin/channel-op accounts addressed from a non-matching hostmask: identified there by password before `secure` was set, never identified, identified from a mask removed later; plus accounts holding only #chan,voice / #chan,halfop, over the channel-related commands; plus, for the commands whose body picks the required capability from its arguments (Channel voice/devoice), argument lists mixing the caller\'s own nick, other nicks, both and none; plus `config channel [<network>] #a,#b,... <name> <value>` with channel lists of which the caller is op of only some, both orders, `*` network, nested: per-channel registry values compared before/after; plus histories: a command is scheduled, the caller is then ignored (ignore database / account flag / channel ignore / lobotomy), the event fires) x addressing forms (prefix char, nick, private, nick at end) x wrappers (direct, plugin-qualified, '
        'nested [..], piped, Alias, Aka, Scheduler fired with a patched clock) x default-capability settings (stock, default-deny, anti-capability '
        'of the command / of the plugin in the default set, in the channel, on the account): every command body is wrapped to log calls, '
        'ircdb.users/channels/ignores, the registry, irc.callbacks and world.ircs are snapshotted before/after; the model predicts the gate '
        'decision from the real capability database snapshot and the command\'s gating converters (read from the live Spec object and '
        'cross-checked with the regenerated AST inventory); the direct oracle evaluates the property on the implementation alone.  '
        'non-trivial = distinct input')
TRUSTED = ['user lookup (users.getUser / getUserId, checkHostmask), ignores.checkIgnored and IrcChannel.checkIgnored enter the model as inputs read from the real objects (C04/C16 model them)',
           'non-gating converters are opaque in the model (their outcome is an input); converters registered by plugins that ask a capability question themselves '
           '(Config settableConfigVar -> checkCanSetValue, Topic canChangeTopic) and every in-body capability check (e.g. Admin capability add, Config writes, '
           'Channel commands taking a channel argument) are covered by the live run only',
           'str.lower() in canonicalCapability is modelled for ASCII (all converter arguments in the tree are ASCII literals)',
           'the flood check and the tokenizer of Owner.doPrivmsg enter the model as inputs (flood protection is switched off in the harness bot)',
           'harness environment: network, subprocess and the HTTP server are disabled; bodies are stubbed (logged, not executed) for the owner and admin roles']
ASSUMPTIONS = ['world.testing off (otherwise checkCapability grants everything)', 'pre_command_callbacks is empty (no bundled plugin registers one)',
               'Python asserts enabled (no -O)']
LEVEL_TEXT = ('Coq theorems over an executable Gallina model of the gate every command passes through (checkCommandCapability, the Y / P / P.X / P.X.Y loop of '
              '_callCommand, the gating converters and the exception-catching contexts of commands.py, Spec.__call__, state.errored, DefaultCapabilities.setValue, '
              'ircdb.checkIgnored, PluginMixin.__call__ and the decision prefix of Owner.doPrivmsg), built on C03\'s model of ircdb.checkCapability: body runs => every '
              'asked name passes (no anti-capability, default-allow or capability); Owner/Admin (any plugin name) refused through C03\'s anti-symmetry; body runs => every '
              'top-level gating converter was answered True; -owner stays in (and owner out of) the default set for EVERY setValue sequence without allowDefaultOwner '
              '(the former finding C01.a is repaired); ignored callers get no event; inventory lemmas by reflection over a table regenerated from all plugin sources.  Tie: regenerated '
              'tables + differential run of the extracted model on a harness plugin + live differential run over all commands of all loaded plugins.')
LEVEL_NOTE = ('Trusted: Coq kernel, gen_tables.py, extraction + driver, harness.  The 60 plugin bodies are not modelled: in-body capability checks and plugin-registered '
              'gating converters are covered by the live run only (except errorNoCapability, Channel._voice, Config.channel and the scheduled replay, which are modelled and pinned).  '
              'User lookup and ignore-list matching are inputs.  NOT modelled / not explored (gap audit): (1) plugin effects that are not commands -- invalidCommand handlers and '
              'doPrivmsg/regexp triggers -- are not gated by command anti-capabilities (e.g. MoobotFactoids `x is y` still writes with -moobotfactoids in the default set); the property '
              'speaks of commands; (2) a PRIVMSG whose prefix is not nick!user@host (only a server or services can send one) is looked up as an ACCOUNT NAME by ircdb.users.getUser, so '
              'prefix `owner` is the account named owner unless it is secure: recognition is C04\'s subject, C01 takes the lookup result as an input; (3) one network, one bot nick; '
              'DisabledCommands, defaultPlugins resolution, MessageParser-triggered commands (they run with the trigger author\'s message) and scheduled events restored from the pickle '
              'after a restart are outside the model and the generator; (4) irc.isChannel (network CHANTYPES) vs ircdb.isChannel (default CHANTYPES) disagreeing makes '
              'makeChannelCapability assert: modelled as an exception = denial, not generated live; (5) non-ASCII capability arguments (str.lower) and callable capability arguments of gating '
              'converters: pinned absent by the inventory; pre_command_callbacks: pinned unused.')
TECHNIQUE = 'Coq proof (case analysis, induction over the prefix loop / converter list / setValue sequence, reflection over the inventory) + regenerated tables + extracted-model differential correspondence + live-bot differential run'
EXPLANATION = 'C01: model of the capability gate; theorems in coq/C01/Props.v'

CHAN = '#test'
ROLES = {'owner': 'own!o@ohost', 'admin': 'adm!a@ahost', 'chanop': 'cop!c@chost', 'plain': 'pln!p@phost',
         'unreg': 'unr!u@uhost', 'ignored': 'ign!i@ihost',
         # secure accounts addressed from a hostmask that is not one of their registered masks:
         'secure': 'sec!s@wronghost',       # owner account, identified by password from that prefix before `secure` was switched on
         'secadmin': 'sad!s@wronghost',     # admin account, same history
         'secchanop': 'sco!s@wronghost',    # #test,op account, same history
         'secnoauth': 'sna!s@wronghost',    # owner account, never identified from that prefix
         'secremoved': 'srm!s@oldhost',     # owner account, identified from a then-matching mask that was removed afterwards
         # channel capabilities below op: for the commands whose body picks the required capability from its arguments
         'voiced': 'vcd!v@vchost', 'halfopped': 'hfo!h@hhost'}
ROLE_CAPS = {'owner': ['owner'], 'admin': ['admin'], 'chanop': ['#test,op'], 'plain': [], 'secure': ['owner'],
             'secadmin': ['admin'], 'secchanop': ['#test,op'], 'secnoauth': ['owner'], 'secremoved': ['owner'],
             'voiced': ['#test,voice'], 'halfopped': ['#test,halfop']}
CORE_ROLES = ('owner', 'admin', 'chanop', 'plain', 'unreg', 'ignored', 'secure')
SECURE_ROLES = ('secure', 'secadmin', 'secchanop', 'secnoauth', 'secremoved')
# the property text for a secure account: without a matching registered mask the caller holds nothing the account holds,
# so the oracle evaluates "does the caller hold X" for a prefix no account knows (never through the account lookup)
UNKNOWN_EVAL = 'nobody!n@unregistered.invalid'
NICKS = 'own adm cop pln unr ign sec sad sco sna srm vcd hfo'
# the bot is opped in #test: otherwise the haveOp / haveHalfop+ converters stop every channel command before its body
NAMES = '@test @' + NICKS
STUB_ROLES = ('owner', 'admin')
EXTRA_CAPS = ['scheduler.add', 'scheduler.remove']       # so that registered non-owners can reach the Scheduler wrapper
FORMS = ['char', 'nick', 'priv', 'atend']
WRAPPERS = ['direct', 'plugin', 'nested', 'piped', 'alias', 'aka', 'sched']
SETTINGS = ['stock', 'default-deny', 'anti-cmd-default', 'anti-plugin-default', 'anti-cmd-channel', 'anti-cmd-user', 'chan-ignore',
            # the configured denial message is blank: globally, for #test only, and the generic one (reply.error.noCapability on)
            'blank-nocap', 'blank-nocap-chan', 'blank-generic']
BLANK_SETTINGS = ('blank-nocap', 'blank-nocap-chan', 'blank-generic')
# commands whose capability check lives in the body (irc.errorNoCapability(..., Raise=True) after ircdb.checkCapability), with arguments
# that reach the check: exercised for every role lacking the capability under every blank-message setting
INBODY = [('Config', 'config', 'supybot.reply.whenNotCommand False'), ('Config', 'config', 'supybot.nick foo'),
          ('Config', 'channel', '#test supybot.reply.whenNotCommand False'), ('Config', 'channel', 'supybot.reply.whenNotCommand False'),
          ('Config', 'network', 'supybot.nick foo'), ('Config', 'setdefault', 'supybot.reply.whenNotCommand'),
          ('Config', 'reset channel', '#test supybot.reply.whenNotCommand'), ('Config', 'config', 'supybot.networks.test.password'),
          ('Channel', 'part', '#test'), ('Aka', 'lock', 'foo'), ('Aka', 'unlock', 'foo'), ('Topic', 'lock', '#test'),
          ('MessageParser', 'add', '#test "zz" "echo y"'), ('MessageParser', 'vacuum', '#test'), ('Misc', 'list', '--private'),
          ('Channel', 'voice', '#test pln'), ('Channel', 'kban', '#test pln')]
LACKING_ROLES = ('plain', 'unreg', 'chanop', 'admin', 'secure', 'secadmin')
# Channel._voice (commands voice / devoice) picks the capability it requires from its ARGUMENTS.  The rule the oracle
# applies (docstrings + the channel-operator clause of the property): (de)voicing yourself takes #channel,voice,
# (de)voicing anybody else takes #channel,op.  {me} = the caller's own nick.
CHANCAP_ROLES = ('voiced', 'halfopped')
# `config channel [<network>] #a,#b,... <name> <value>`: the multi-channel form, from callers who are op of only some of the
# listed channels (#test is the only channel any role is op of), both orders, with the `*` network, in channel / private / nested
CONFCHAN = ('Config', 'channel')
CONFCHAN_LISTS = ['#other,#test', '#test,#other', '#other', '#test', '#other,#test,#oth2', '#oth2,#other,#test', '#test,#other,#test', '#other,#oth2']
CONFCHAN_ROLES = ('chanop', 'secchanop', 'halfopped', 'plain', 'admin', 'unreg')
CONFCHAN_VAR = 'plugins.Channel.partMsg'
ARGDEP = [('Channel', 'voice'), ('Channel', 'devoice')]
ARGDEP_ARGS = ['', '{me}', '{other}', '{me} {other}', '{other} {me}', '{other} {other2}', '{ME}', '{me} {me}', '{other} {me} {other2}']
ARGDEP_ROLES = ('voiced', 'halfopped', 'plain', 'chanop', 'unreg', 'secchanop', 'admin')


def conf_walk(B, name):
    """the registry nodes on the path of a value name"""
    parts = name.split('.')
    g = getattr(B['conf'], parts[0])
    out = [g]
    for part in parts[1:]:
        g = g.get(part)
        out.append(g)
    return out


def argdep_rule(B, plugin, cmd, received, caller):
    """(required capability, nick list, channel) by the documented rule for an argument-dependent command, from the
    (channel, nicks) the command body received; None when the command is not of that kind or its body did not run"""
    if (plugin, cmd) not in ARGDEP or received is None:
        return None
    chan, toks = received[0], list(received[1])
    eq = B['ircutils'].strEqual
    targets = toks or [caller]
    word = 'voice' if all(eq(t, caller) for t in targets) else 'op'
    return '%s,%s' % (chan, word), toks, chan

_BOT = {}
LOG = []


class _Driver:
    def reconnect(self, *a, **k):
        pass

    def die(self):
        pass


def _deny(*a, **k):
    raise OSError(101, 'Network is unreachable (verification harness)')


def _setv(conf, name, v):
    g = conf.supybot
    for part in name.split('.')[1:]:
        g = g.get(part)
    g.setValue(v)


def bot(all_plugins=True):
    """one live bot per process: real Irc('test'), every loadable bundled plugin (or the core ones), instrumentation, roles"""
    if _BOT:
        return _BOT
    boot.boot()
    import socket, subprocess
    socket.getaddrinfo = _deny
    socket.create_connection = _deny
    socket.socket.connect = _deny
    socket.gethostbyname = _deny
    _orig_popen = subprocess.Popen.__init__

    def _popen(self, *a, **k):
        if _BOT.get('deny_exec'):
            _deny()
        return _orig_popen(self, *a, **k)
    subprocess.Popen.__init__ = _popen
    import warnings
    warnings.simplefilter('ignore')
    import supybot.httpserver as httpserver
    httpserver.startServer = lambda: None
    import supybot.conf as conf, supybot.irclib as irclib, supybot.ircmsgs as ircmsgs, supybot.plugin as plugin
    import supybot.ircdb as ircdb, supybot.ircutils as ircutils, supybot.callbacks as callbacks, supybot.world as world
    import supybot.utils as utils, supybot.commands as commands, supybot.schedule as schedule
    assert world.testing is False
    utils.web.getUrl = _deny
    utils.web.getUrlFd = _deny
    for name in ('supybot.abuse.flood.command', 'supybot.abuse.flood.command.invalid'):
        _setv(conf, name, False)
    _setv(conf, 'supybot.reply.whenAddressedBy.nick.atEnd', True)
    _setv(conf, 'supybot.commands.nested.pipeSyntax', True)
    irc = irclib.Irc('test')
    irc.driver = _Driver()
    B = _BOT
    B.update(irc=irc, conf=conf, ircmsgs=ircmsgs, ircdb=ircdb, ircutils=ircutils, callbacks=callbacks, irclib=irclib, world=world,
             commands=commands, schedule=schedule, plugin=plugin)
    _drain(B)
    names = sorted(n for n in os.listdir(os.path.join(boot.REPO, 'plugins'))
                   if os.path.isdir(os.path.join(boot.REPO, 'plugins', n)) and n[0].isupper())
    first = ['Owner', 'Misc', 'Config', 'User', 'Channel', 'Admin']
    if not all_plugins:
        names = first + ['Utilities', 'Alias', 'Aka', 'Scheduler']
    loaded, failed = [], []
    for n in first + [x for x in names if x not in first]:
        try:
            plugin.loadPluginClass(irc, plugin.loadPluginModule(n))
            loaded.append(n)
        except Exception as e:  # not loadable here (missing optional dependency)
            failed.append('%s: %s' % (n, type(e).__name__))
    B['loaded'], B['unloadable'] = loaded, failed
    for l in (':server 001 test :Welcome', ':server 005 test CHANTYPES=#& PREFIX=(ov)@+ STATUSMSG=@+ NICKLEN=30 :are supported',
              ':server 376 test :End of MOTD', ':test!bot@bothost JOIN #test',
              ':server 353 test = #test :%s' % NAMES, ':server 366 test #test :End of names'):
        irc.feedMsg(ircmsgs.IrcMsg(l))
    _instrument(B)
    setup_roles(B)
    _drain(B)
    B['nocap0'] = (conf.supybot.replies.noCapability(), conf.supybot.replies.genericNoCapability())
    B['snap_registry'] = {n: str(v) for n, v in conf.supybot.getValues(getChildren=True, fullNames=True)}
    B['callbacks0'] = [cb.name() for cb in irc.callbacks]
    return B


def _drain(B):
    out = []
    irc = B['irc']
    for _ in range(10000):
        try:
            m = irc.takeMsg()
        except Exception as e:
            out.append(e)
            continue
        if m is None:
            break
        if m.command == 'PING':      # the keep-alive Irc.takeMsg() emits when idle is not a reply to anybody
            continue
        out.append(m)
    return out


def _wait_threads(timeout=3.0):
    end = time.time() + timeout
    for t in threading.enumerate():
        if t is threading.current_thread() or t.name == 'MainThread' or t.name.startswith('HTTP'):
            continue
        t.join(max(0.0, end - time.time()))


def setup_roles(B):
    """the seven callers; rebuilt from scratch so that every invocation starts from the same database"""
    ircdb = B['ircdb']
    users = ircdb.users
    users.noFlush = True              # the harness's own rebuild need not rewrite users.conf 27 times
    try:
        _setup_roles(B, ircdb, users)
    finally:
        users.noFlush = False


def _setup_roles(B, ircdb, users):
    for uid in list(users.users.keys()):
        users.delUser(uid)
    users.nextId = 0
    for role, caps in ROLE_CAPS.items():
        u = users.newUser()
        u.name = role
        for c in caps + EXTRA_CAPS:
            u.addCapability(c)
        if role in SECURE_ROLES:
            nick = ROLES[role].split('!')[0]
            u.addHostmask('%s!s@righthost' % nick)
            if role == 'secremoved':
                u.addHostmask(ROLES[role])
                u.addAuth(ROLES[role])       # identified from a matching mask ...
                u.removeHostmask(ROLES[role])  # ... which was removed later
            elif role != 'secnoauth':
                u.addAuth(ROLES[role])       # identified by password from another host ...
            u.secure = True                  # ... before the account was made secure
        else:
            u.addHostmask(ROLES[role])
        users.setUser(u)
    ircdb.ignores.hostmasks.clear()
    ircdb.ignores.add('ign!*@*')
    ircdb.channels.channels.clear()
    B['roles_snap'] = snap_db(B)


def _instrument(B):
    callbacks, commands = B['callbacks'], B['commands']
    orig_call = callbacks.Commands._callCommand

    def _callCommand(self, command, irc, msg, *args, **kwargs):
        LOG.append(('call', self.name(), list(command)))
        return orig_call(self, command, irc, msg, *args, **kwargs)
    callbacks.Commands._callCommand = _callCommand
    orig_ccc = callbacks.checkCommandCapability

    def checkCommandCapability(msg, cb, commandName):
        try:
            r = orig_ccc(msg, cb, commandName)
        except Exception as e:
            LOG.append(('ccc', cb.name(), commandName if isinstance(commandName, str) else list(commandName), 'raise:' + type(e).__name__))
            raise
        LOG.append(('ccc', cb.name(), commandName if isinstance(commandName, str) else list(commandName), r))
        return r
    callbacks.checkCommandCapability = checkCommandCapability
    orig_nocap = callbacks.RichReplyMethods.errorNoCapability

    def errorNoCapability(self, capability, *a, **k):
        LOG.append(('nocap', capability))
        return orig_nocap(self, capability, *a, **k)
    callbacks.RichReplyMethods.errorNoCapability = errorNoCapability
    B['bodies'] = {}
    for cb in B['irc'].callbacks:
        wrap_bodies(B, cb, cb.name(), [])


def _find_newf(func, depth=0):
    """the commands._wrap closure (free variables f, spec) reachable from a command method"""
    if depth > 4 or not isinstance(func, types.FunctionType):
        return None
    fv = func.__code__.co_freevars
    if 'spec' in fv and 'f' in fv and 'specList' in fv:
        return func
    for cell in func.__closure__ or ():
        try:
            v = cell.cell_contents
        except ValueError:
            continue
        r = _find_newf(v, depth + 1)
        if r is not None:
            return r
    return None


def wrap_bodies(B, cb, plugin, path):
    """wrap every command method of cb (and of its nested Commands objects) so that entering the body is logged;
    for the stubbed roles the body is not executed"""
    callbacks = B['callbacks']
    if not hasattr(cb, 'listCommands'):
        return
    for name in dir(cb):
        if name.startswith('_'):
            continue
        try:
            if not cb.isCommandMethod(name):
                continue
        except Exception:
            continue
        method = getattr(cb, name)
        func = method.__func__
        key = (plugin, ' '.join(path + [name]))
        newf = _find_newf(func)
        if newf is not None:
            idx = newf.__code__.co_freevars.index('f')
            cell = newf.__closure__[idx]
            f = cell.cell_contents
            if getattr(f, '_c01', None):
                B['bodies'][key] = f._c01
                continue
            spec = newf.__closure__[newf.__code__.co_freevars.index('spec')].cell_contents

            def mk(f, key):
                def body(self, irc, msg, args, *a, **k):
                    LOG.append(('body', key[0], key[1]))
                    if key == CONFCHAN and len(a) >= 4:
                        try:
                            LOG.append(('bodyargs', key[0], key[1], ['*' if a[0] == '*' else a[0].network, [str(x) for x in a[1]], a[2]._name, a[3] is not None]))
                        except Exception:
                            pass
                    if key in ARGDEP and len(a) >= 2:
                        # what the command was actually asked to act on (Alias / Aka / nesting may re-quote the typed arguments)
                        LOG.append(('bodyargs', key[0], key[1], [str(a[0]), [str(x) for x in (a[1] or [])]]))
                    if _BOT.get('stub') == key:
                        return None
                    return f(self, irc, msg, args, *a, **k)
                body.__code__ = body.__code__.replace(co_name=getattr(f, '__name__', 'body'))
                body.__name__ = getattr(f, '__name__', 'body')
                body.__doc__ = getattr(f, '__doc__', None)
                return body
            w = mk(f, key)
            w._c01 = {'spec': spec, 'wrapped': True}
            cell.cell_contents = w
            B['bodies'][key] = w._c01
        else:
            if getattr(func, '_c01', None):
                B['bodies'][key] = func._c01
                continue

            def mk2(func, key):
                def w(self, irc, msg, args):
                    LOG.append(('body', key[0], key[1]))
                    if _BOT.get('stub') == key:
                        return None
                    return func(self, irc, msg, args)
                w.__name__ = func.__name__
                w.__doc__ = func.__doc__
                w.__module__ = func.__module__
                return w
            w = mk2(func, key)
            w._c01 = {'spec': None, 'wrapped': False}
            try:
                setattr(type(cb), name, w)
            except Exception:
                continue
            B['bodies'][key] = w._c01
    for sub in getattr(cb, 'cbs', []):
        wrap_bodies(B, sub, plugin, path + [sub.canonicalName()])


def live_commands(B):
    """[(plugin, 'command words')] of every loaded plugin whose body is instrumented"""
    res = []
    for cb in B['irc'].callbacks:
        if not hasattr(cb, 'listCommands'):
            continue
        for c in cb.listCommands():
            if (cb.name(), c) in B['bodies']:
                res.append((cb.name(), c))
            elif (cb.name(), c + ' ' + c.split()[-1]) in B['bodies']:
                res.append((cb.name(), c + ' ' + c.split()[-1]))     # `class x(Commands): def x` is listed as "x"
    return sorted(set(res))


# ---------------------------------------------------------------- snapshots
def snap_db(B):
    ircdb = B['ircdb']
    users = sorted((uid, u.name, sorted(set.__iter__(u.capabilities)), sorted(u.hostmasks), bool(u.ignore), bool(u.secure), u.password,
                    sorted(h for _, h in u.auth)) for uid, u in ircdb.users.users.items())
    chans = {}
    for k, c in ircdb.channels.channels.items():
        v = (sorted(set.__iter__(c.capabilities)), bool(c.defaultAllow), bool(c.lobotomized), sorted(c.bans), sorted(c.ignores), sorted(getattr(c, 'silences', [])))
        if v != (['-halfop', '-op', '-protected', '-voice'], True, False, [], [], []):
            chans[k] = v
    return {'users': users, 'channels': chans, 'ignores': sorted(ircdb.ignores.hostmasks)}


def snap_all(B):
    conf, irc, world = B['conf'], B['irc'], B['world']
    s = snap_db(B)
    s['registry'] = {n: str(v) for n, v in conf.supybot.getValues(getChildren=True, fullNames=True)}
    s['callbacks'] = [cb.name() for cb in irc.callbacks]
    s['ircs'] = [i.network for i in world.ircs]
    return s


def diff_snap(a, b):
    out = []
    for k in a:
        if a[k] != b[k]:
            if isinstance(a[k], dict):
                ch = [n for n in set(a[k]) | set(b[k]) if a[k].get(n) != b[k].get(n)]
                out.append('%s: %s' % (k, ', '.join('%s %r -> %r' % (n, a[k].get(n), b[k].get(n)) for n in sorted(ch)[:3])))
            else:
                out.append('%s: %r -> %r' % (k, a[k], b[k]))
    return out


def snapshot_wire(B, hostmask):
    """the model's view (C03 db record) of the real capability database for one caller"""
    ircdb, conf, ircutils = B['ircdb'], B['conf'], B['ircutils']
    try:
        u = ircdb.users.getUser(hostmask)
        uv = [[sorted(set.__iter__(u.capabilities)), bool(u.ignore), bool(u.secure)]]
        hostok = bool(u.checkHostmask(hostmask, useAuth=False))
    except (KeyError, ValueError):
        uv, hostok = [], False
    chans = [[ircutils.toLower(k.lower()), [sorted(set.__iter__(c.capabilities)), bool(c.defaultAllow)]]
             for k, c in ircdb.channels.channels.items()]
    return [uv, hostok, chans, sorted(set.__iter__(conf.supybot.capabilities())),
            sorted(set.__iter__(conf.supybot.capabilities.registeredUsers())), bool(conf.supybot.capabilities.default())]


def ign_wire(B, hostmask, recipient):
    """inputs of ircdb.checkIgnored read from the real objects"""
    ircdb, conf, ircutils = B['ircdb'], B['conf'], B['ircutils']
    try:
        u = ircdb.users.getUser(ircdb.users.getUserId(hostmask))
        uv = [[sorted(set.__iter__(u.capabilities)), bool(u.ignore), bool(u.secure)]]
    except KeyError:
        uv = []
    ischan = bool(ircutils.isChannel(recipient))
    ichan = False
    if ischan and recipient.lower() in ircdb.channels.channels:
        ichan = bool(ircdb.channels.getChannel(recipient).checkIgnored(hostmask))
    return [uv, bool(conf.supybot.defaultIgnore()), bool(ircdb.ignores.checkIgnored(hostmask)), ischan, ichan]


# ---------------------------------------------------------------- feeding
def feed(B, role, form, text, prefix=None):
    """one PRIVMSG from a role in an addressing form; returns the messages the driver would get"""
    irc, ircmsgs = B['irc'], B['ircmsgs']
    prefix = prefix or ROLES[role]
    if form == 'char':
        target, body = CHAN, '@' + text
    elif form == 'nick':
        target, body = CHAN, 'test: ' + text
    elif form == 'atend':
        target, body = CHAN, text + ', test'
    else:
        target, body = irc.nick, text
    try:
        m = ircmsgs.IrcMsg(':%s PRIVMSG %s :%s' % (prefix, target, body))
    except Exception:
        return []
    B['deny_exec'] = True
    try:
        irc.feedMsg(m)
    except Exception as e:
        LOG.append(('escaped', type(e).__name__))
    _wait_threads()
    B['deny_exec'] = False
    return _drain(B)


def fire_scheduled(B, seconds=30):
    """run the scheduler with a patched clock"""
    schedule = B['schedule']

    class _T:
        def __getattr__(self, n):
            return getattr(time, n)

        def time(self):
            return time.time() + seconds
    old = schedule.time
    schedule.time = _T()
    B['deny_exec'] = True
    try:
        try:
            schedule.schedule.run()
        except Exception as e:
            LOG.append(('escaped', type(e).__name__))
    finally:
        schedule.time = old
        B['deny_exec'] = False
    _wait_threads()
    return _drain(B)


def apply_setting(B, setting, plugin, cmd):
    """default-capability settings: what an operator may configure to forbid the command"""
    conf, ircdb = B['conf'], B['ircdb']
    words = cmd.split()
    pl = B['callbacks'].canonicalName(plugin)
    full = '.'.join([pl] + words)
    stock = B.setdefault('stock_caps', sorted(set.__iter__(conf.supybot.capabilities())))
    with contextlib.redirect_stdout(io.StringIO()):
        if setting == 'anti-cmd-default':
            conf.supybot.capabilities.setValue(stock + ['-' + full])
        elif setting == 'anti-plugin-default':
            conf.supybot.capabilities.setValue(stock + ['-' + pl])
        else:
            conf.supybot.capabilities.setValue(stock)
    conf.supybot.capabilities.default.setValue(setting != 'default-deny')
    if setting == 'anti-cmd-channel':
        c = ircdb.channels.getChannel(CHAN)
        c.addCapability('-' + words[-1])
        ircdb.channels.setChannel(CHAN, c)
    if setting == 'chan-ignore':
        c = ircdb.channels.getChannel(CHAN)
        for h in ('pln!*@*', 'cop!*@*', 'adm!*@*'):
            c.addIgnore(h)
        ircdb.channels.setChannel(CHAN, c)
    if setting == 'blank-nocap':
        conf.supybot.replies.noCapability.setValue('')
    elif setting == 'blank-nocap-chan':
        conf.supybot.replies.noCapability.get(CHAN).setValue('')
    elif setting == 'blank-generic':
        conf.supybot.reply.error.noCapability.setValue(True)
        conf.supybot.replies.genericNoCapability.setValue('')
    B['blanked'] = setting in BLANK_SETTINGS
    if setting == 'anti-cmd-user':
        for role in ('admin', 'chanop', 'plain'):
            u = ircdb.users.getUser(role)
            u.addCapability('-' + full)
            ircdb.users.setUser(u)


def unblank(B):
    """put the denial messages back (the per-channel child value is not part of the baseline registry snapshot)"""
    conf = B['conf']
    base = B.setdefault('nocap0', (conf.supybot.replies.noCapability(), conf.supybot.replies.genericNoCapability()))
    if B.get('blanked') or conf.supybot.replies.noCapability() != base[0]:
        conf.supybot.replies.noCapability.setValue(base[0])
        conf.supybot.replies.genericNoCapability.setValue(base[1])
        conf.supybot.reply.error.noCapability.setValue(False)
        try:
            conf.supybot.replies.noCapability.unregister(CHAN)
        except Exception:
            pass
    B['blanked'] = False


def apply_then(B, then, role):
    """what may happen to a caller between scheduling a command and its firing"""
    ircdb = B['ircdb']
    nick = ROLES[role].split('!')[0]
    if then == 'ignore-db':
        ircdb.ignores.add('%s!*@*' % nick)
    elif then == 'ignore-flag':
        try:
            u = ircdb.users.getUser(ROLES[role])
            u.ignore = True
            ircdb.users.setUser(u)
        except KeyError:
            ircdb.ignores.add('%s!*@*' % nick)
    elif then == 'chan-ignore':
        c = ircdb.channels.getChannel(CHAN)
        c.addIgnore('%s!*@*' % nick)
        ircdb.channels.setChannel(CHAN, c)
    elif then == 'lobotomy':
        c = ircdb.channels.getChannel(CHAN)
        c.lobotomized = True
        ircdb.channels.setChannel(CHAN, c)


def restore(B):
    conf = B['conf']
    unblank(B)
    with contextlib.redirect_stdout(io.StringIO()):
        conf.supybot.capabilities.setValue(B.get('stock_caps') or sorted(set.__iter__(conf.supybot.capabilities())))
    conf.supybot.capabilities.default.setValue(True)
    setup_roles(B)
    changed = []
    for n, v in conf.supybot.getValues(getChildren=True, fullNames=True):
        old = B['snap_registry'].get(n)
        if old is not None and str(v) != old:
            try:
                v.set(old)
                changed.append(n)
            except Exception:
                pass
    extra = [n for n, _ in conf.supybot.getValues(getChildren=True, fullNames=True) if n not in B['snap_registry']]
    for n in sorted(extra, key=len, reverse=True):
        import supybot.registry as _registry
        parts = _registry.split(n)
        if not any(x.startswith('#') or x.startswith(':') for x in parts):
            continue
        try:
            g = conf.supybot
            for part in parts[1:-1]:
                g = g.get(part)
            g.unregister(parts[-1])
        except Exception:
            pass
    irc = B['irc']
    if irc.nick != 'test' or CHAN not in irc.state.channels:
        im = B['ircmsgs']
        if irc.nick != 'test':
            irc.feedMsg(im.IrcMsg(':%s NICK test' % irc.prefix))
        irc.feedMsg(im.IrcMsg(':test!bot@bothost JOIN #test'))
        irc.feedMsg(im.IrcMsg(':server 353 test = #test :%s' % NAMES))
        irc.feedMsg(im.IrcMsg(':server 366 test #test :End of names'))
    irc.zombie = False
    _drain(B)
    return changed


# ---------------------------------------------------------------- gating converters of a live command
def gates_of(B, info):
    """top-level gating converters of a live Spec object, as model gate values [tag, cap, argchan]"""
    commands = B['commands']
    spec = info.get('spec')
    if spec is None:
        return None
    fmap = {commands.owner: (0, None), commands.admin: (1, None), commands.checkCapability: (2, None),
            commands.checkCapabilityButIgnoreOwner: (3, None), commands.checkChannelCapability: (4, None),
            commands.getOp: (4, 'op'), commands.getHalfop: (4, 'halfop'), commands.getVoice: (4, 'voice')}
    out = []
    for i, c in enumerate(spec.types):
        conv = getattr(c, 'converter', None)
        if type(c) is commands.context and conv in fmap:
            tag, cap = fmap[conv]
            if cap is None and tag >= 2:
                cap = c.args[0] if c.args else ''
            out.append([tag, cap or '', [], i])
    return out


def place_channel_arg(B, gates, args, wrapper='plugin'):
    """an explicit channel as first argument reaches a channel gate for sure only when that gate is the first converter;
    returns (gates with argchan filled, uncertain)"""
    if gates is None:
        return None, False
    first = args.split()[0] if args.split() else ''
    ischan = bool(first) and bool(B['irc'].isChannel(first))
    out, uncertain = [], False
    for g in gates:
        g = list(g)
        if g[0] == 4 and ischan:
            if g[3] == 0 and wrapper not in ('alias', 'aka'):     # Alias/Aka re-quote the arguments
                g[2] = [first]
            else:
                uncertain = True
        out.append(g)
    return out, uncertain


def gate_names_of(g):
    return {0: 'owner', 1: 'admin', 2: 'checkCapability', 3: 'checkCapabilityButIgnoreOwner', 4: 'checkChannelCapability'}[g[0]]


def model_call_case(B, prefix, chan, cb_name, canon, command, gates, allow_extra=True):
    """wire case (op 1) for one _callCommand with only the gating converters in the spec"""
    method = [] if gates is None else [[[[0, g[:3]] for g in gates], False]]
    return [1, [snapshot_wire(B, prefix), wire.opt(chan), B['callbacks'].canonicalName(cb_name), canon, command, False, method, nctext(B, chan)]]


def nctext(B, chan):
    """the model's input `text`: blank exactly when the denial message configured for this place is blank"""
    conf = B['conf']
    if conf.supybot.reply.error.noCapability():
        v = conf.get(conf.supybot.replies.genericNoCapability, channel=chan, network='test') if chan else conf.supybot.replies.genericNoCapability()
    else:
        v = conf.get(conf.supybot.replies.noCapability, channel=chan, network='test') if chan else conf.supybot.replies.noCapability()
    return 'x' if v else ''


def dec_pyv(v):
    return {0: False, 1: True}.get(v[0]) if v[0] != 2 else wire.s(v[1])


def dec_events(v):
    out = []
    for e in v:
        t = e[0]
        if t == 0:
            out.append(['N', dec_pyv(e[1])])
        elif t == 1:
            out.append(['E'])
        elif t == 2:
            out.append(['H'])
        elif t == 3:
            out.append(['I'])
        elif t == 4:
            out.append(['F'])
        else:
            out.append(['B'])
    return out


# ---------------------------------------------------------------- live exploration (worker side)
ARGS = ['', 'foo', '#test foo', '#other foo', 'supybot.nick bar', 'Utilities', 'own x', '1 2', 'add foo bar', '#other']


class _ProxyShim:
    def __init__(self, irc):
        self.irc = irc


def resolve_line(B, line):
    """(plugin, 'command words') the bot itself dispatches for a command line (real tokenizer + real
    NestedCommandsIrcProxy.findCallbacksForArgs); None when it is no command / ambiguous / nested"""
    callbacks = B['callbacks']
    irc = B['irc']            # Aka / Alias look their irc up through supybot's dynamic scope: a local named `irc` in a calling frame
    msg = None
    try:
        tokens = callbacks.tokenize(line, channel=CHAN, network=irc.network)
    except Exception:
        return None
    if not tokens or any(not isinstance(t, str) for t in tokens):
        return None
    try:
        command, cbs = callbacks.NestedCommandsIrcProxy.findCallbacksForArgs(_ProxyShim(irc), list(tokens))
    except Exception as e:
        _BOT.setdefault('resolve_errors', []).append('%s: %r' % (line, e))
        return None
    if len(cbs) != 1 or not command:
        return None
    cb = cbs[0]
    words = list(command)
    if len(words) > 1 and words[0] == cb.canonicalName():
        words = words[1:]
    key = (cb.name(), ' '.join(words))
    if key in B['bodies']:
        return key
    key2 = (cb.name(), ' '.join(words + words[-1:]))
    if key2 in B['bodies']:
        return key2
    return ('?' + cb.name(), ' '.join(words))


def wrap_text(wrapper, plugin, cmd, args, unique):
    base = ('%s %s' % (cmd, args)).strip()
    q = ('%s %s' % (plugin.lower(), base)).strip()
    if wrapper == 'direct':
        return base if unique else q
    if wrapper == 'plugin':
        return q
    if wrapper == 'nested':
        return 'utilities echo [%s]' % q
    if wrapper == 'piped':
        return '%s | utilities echo' % q
    if wrapper == 'alias':
        return ('vt %s' % args).strip()
    if wrapper == 'aka':
        return ('vk %s' % args).strip()
    if wrapper == 'sched':
        return 'scheduler add 5 "%s"' % q.replace('\\', '\\\\').replace('"', '\\"')
    raise ValueError(wrapper)


def required_caps(B, prefix, chan, plugin, cmd, gates, eval_prefix=None):
    """the property text evaluated on the implementation: which required capability does this caller lack?
    (anti-capabilities an operator set for the command / its plugin; the plugin-name capability of Owner and Admin;
    default-deny; the command's own gating converters)"""
    ircdb, conf = B['ircdb'], B['conf']
    chk = ircdb.checkCapability
    if eval_prefix is not None:
        prefix = eval_prefix
    words = cmd.split()
    pl = B['callbacks'].canonicalName(plugin)
    names = [words[-1]] + ['.'.join([pl] + words[:i]) for i in range(len(words) + 1)]
    lacks = []
    chan0 = chan
    for n in names:
        if chk(prefix, '-' + n):
            lacks.append('-' + n)
        elif chan and chk(prefix, '%s,-%s' % (chan, n)):
            lacks.append('%s,-%s' % (chan, n))
        else:
            dflt = conf.supybot.capabilities.default()
            if chan:
                dflt = dflt and ircdb.channels.getChannel(chan).defaultAllow
            if not dflt and not chk(prefix, n) and not (chan and chk(prefix, '%s,%s' % (chan, n))):
                lacks.append(n)
    for g in gates or []:
        tag, cap = g[0], g[1]
        if tag == 4 and g[2]:
            chan = g[2][0]
        if tag == 0 and not chk(prefix, 'owner'):
            lacks.append('owner')
        elif tag == 1 and not chk(prefix, 'admin'):
            lacks.append('admin')
        elif tag == 2 and not chk(prefix, cap.lower()):
            lacks.append(cap.lower())
        elif tag == 3 and not chk(prefix, cap.lower(), ignoreOwner=True):
            lacks.append(cap.lower())
        elif tag == 4 and chan and not chk(prefix, '%s,%s' % (chan, cap.lower())):
            lacks.append('%s,%s' % (chan, cap.lower()))
        if tag == 4:
            chan = chan0
    return lacks


def is_error_reply(B, m, role, helps):
    """a PRIVMSG/NOTICE to the caller or the channel carrying an error (or the usage text of the command)"""
    if isinstance(m, Exception):
        return False
    if m.command not in ('PRIVMSG', 'NOTICE') or len(m.args) != 2:
        return False
    nick = ROLES[role].split('!')[0]
    if m.args[0] not in (nick, CHAN):
        return False
    t = B['ircutils'].stripFormatting(m.args[1])
    if t.startswith(nick + ': '):
        t = t[len(nick) + 2:]
    return t.startswith('Error: ') or any(h and t.startswith(h[:40]) for h in helps)


def live_one(B, inv):
    """run one invocation {role, form, wrapper, plugin, cmd, args, setting} on the live bot;
    returns (record for the parent, list of direct property failures)"""
    role, form, wrapper, plugin, cmd, args, setting = (inv[k] for k in ('role', 'form', 'wrapper', 'plugin', 'cmd', 'args', 'setting'))
    irc, ircdb, callbacks = B['irc'], B['ircdb'], B['callbacks']
    if (plugin, cmd) not in B['bodies']:
        return None, []
    # which command does the bot dispatch for the line we are about to send?  the expectation is applied to THAT command
    send_plugin, send_cmd = plugin, cmd
    unique = B['cmdcount'].get(cmd, 0) == 1 and ' ' not in cmd
    q = ('%s %s %s' % (plugin.lower(), cmd, args)).strip()
    inner = ('%s %s' % (cmd, args)).strip() if (wrapper == 'direct' and unique) else q
    tgt = resolve_line(B, inner)
    if tgt != (plugin, cmd) and inner != q:
        unique, inner = False, q
        tgt = resolve_line(B, inner)
    retargeted = False
    if tgt is not None and tgt != (plugin, cmd) and tgt in B['bodies']:
        plugin, cmd = tgt
        retargeted = True
    info = B['bodies'][(plugin, cmd)]
    apply_setting(B, setting, plugin, cmd)
    prefix = ROLES[role]
    eval_prefix = UNKNOWN_EVAL if role in SECURE_ROLES else None
    chan = None if form == 'priv' else CHAN
    gates, uncertain = place_channel_arg(B, gates_of(B, info), args, wrapper)
    if uncertain:
        gates_oracle = [g for g in gates if g[0] != 4]
    else:
        gates_oracle = gates
    if retargeted:
        gates_oracle = [g for g in gates_oracle if g[0] != 4]      # the arguments of the sent line belong to another command
        uncertain = True
    text = wrap_text(wrapper, send_plugin, send_cmd, args, unique)
    lacks = required_caps(B, prefix, chan, plugin, cmd, gates_oracle, eval_prefix)
    ignored = bool(ircdb.checkIgnored(prefix, chan or '')) or bool(ircdb.checkIgnored(prefix))
    dbwire = snapshot_wire(B, prefix)
    cb = irc.getCallback(plugin)
    helps = []
    try:
        helps.append(cb.getCommandHelp([callbacks.canonicalName(plugin)] + cmd.split()) if False else '')
    except Exception:
        pass
    words = cmd.split()
    helps = ['(%s' % (' '.join([plugin.lower()] + words)), '(%s' % ' '.join(words)]
    if wrapper in ('alias', 'aka'):
        # the owner defines the alias through the bot itself; the caller then replays it
        feed(B, 'owner', 'priv', '%s add %s "%s %s"' % (wrapper, 'vt' if wrapper == 'alias' else 'vk', send_plugin.lower(), send_cmd))
    del LOG[:]
    pre = None
    outs = []
    B['stub'] = (plugin, cmd) if role in STUB_ROLES else None
    schedfire = None
    if wrapper == 'sched':
        fire_scheduled(B)                 # flush whatever earlier commands left in the scheduler
        del LOG[:]
        outs0 = feed(B, role, form, text)
        sched_log = list(LOG)
        del LOG[:]
        scheduled = any(e[0] == 'body' and e[1] == 'Scheduler' for e in sched_log)
        if scheduled and inv.get('then'):
            # history: the caller is ignored AFTER having scheduled the command, BEFORE it fires
            apply_then(B, inv['then'], role)
            ignored = bool(ircdb.checkIgnored(prefix, chan or ''))
            schedfire = {'case': [True, ign_wire(B, prefix, chan or '')]}
        pre = snap_all(B)
        outs = fire_scheduled(B)
        if schedfire is not None:
            schedfire['impl'] = 1 if any(e[0] in ('call', 'body') for e in LOG) or outs else 0
        if not scheduled:
            outs = outs0 + outs           # the scheduling itself was refused: its replies are the output
    else:
        pre = snap_all(B)
        outs = feed(B, role, form, text)
    post = snap_all(B)
    B['stub'] = None
    log = list(LOG)
    if wrapper in ('alias', 'aka'):
        feed(B, 'owner', 'priv', '%s remove %s' % (wrapper, 'vt' if wrapper == 'alias' else 'vk'))
    # what the implementation did for the target command
    calls = [e for e in log if e[0] == 'call' and e[1] == plugin and ' '.join(e[2][-len(words):]) == cmd]
    bodies = [e for e in log if e[0] == 'body' and (e[1], e[2]) == (plugin, cmd)]
    rec = None
    if calls:
        command = calls[0][2]
        i0 = log.index(calls[0])
        seg = []
        for e in log[i0 + 1:]:
            if e[0] == 'call':
                break
            seg.append(e)
        gate_res = None
        for e in seg:
            if e[0] == 'body':
                break
            if e[0] == 'ccc' and e[1] == plugin:
                if isinstance(e[3], str) and e[3].startswith('raise:'):
                    gate_res = ['raise']
                    break
                if e[3]:
                    gate_res = ['N', e[3]]
                    break
        nocaps = [e[1] for e in seg if e[0] == 'nocap']
        first_body = next((i for i, e in enumerate(seg) if e[0] == 'body'), None)
        nocap_before_body = [e[1] for e in (seg if first_body is None else seg[:first_body]) if e[0] == 'nocap']
        rec = {'case': model_call_case(B, prefix, chan, plugin, cb.canonicalName(), command, gates)[1],
               'impl': {'gate': gate_res, 'body': bool(bodies), 'nocap': nocap_before_body}, 'uncertain': uncertain}
        rec['case'][0] = dbwire
    fails = []
    ch = diff_snap(pre, post)
    if ignored:
        if bodies:
            fails.append('ignored caller: body of %s %s ran' % (plugin, cmd))
        if outs:
            fails.append('ignored caller got a reply: %r' % str(outs[0])[:120])
        if ch:
            fails.append('ignored caller changed state: %s' % '; '.join(ch)[:300])
    elif lacks:
        if bodies:
            fails.append('caller lacks %s but the body of %s %s ran' % (lacks[0], plugin, cmd))
        if ch:
            fails.append('caller lacks %s but state changed: %s' % (lacks[0], '; '.join(ch)[:300]))
        bad = [m for m in outs if not is_error_reply(B, m, role, helps)]
        if bad:
            fails.append('caller lacks %s but output is not an error reply: %r' % (lacks[0], str(bad[0])[:160]))
    st = B.setdefault('stats', {})
    for k, v in (('ignored', ignored), ('lacking', bool(lacks) and not ignored), ('holding', not lacks and not ignored), ('reached', bool(calls)),
                 ('gate_refusals', bool(rec and rec['impl']['gate'])), ('converter_refusals', bool(rec and not rec['impl']['gate'] and rec['impl']['nocap'])),
                 ('bodies', bool(bodies)), ('state_changed', bool(ch))):
        st[k] = st.get(k, 0) + (1 if v else 0)
    # in-body checks: once the command itself established that this caller lacks a capability it requires (errorNoCapability
    # called from the running body), it must have no effect other than an error reply (none when the message is blank)
    inbody = []
    if calls and not ignored and not lacks:
        started = False
        for e in seg:
            if e[0] == 'body' and (e[1], e[2]) == (plugin, cmd):
                started = True
            elif started and e[0] == 'nocap' and isinstance(e[1], str):
                try:
                    if not ircdb.checkCapability(eval_prefix or prefix, e[1]):
                        inbody.append(e[1])
                except Exception:
                    pass
    if inbody:
        if ch and (plugin, cmd) != CONFCHAN:     # `config channel #a,#b`: the channels before the refused one are written; checked per channel below
            fails.append('the body of %s %s found that the caller lacks %s but state changed: %s' % (plugin, cmd, inbody[0], '; '.join(ch)[:300]))
        bad = [m for m in outs if not is_error_reply(B, m, role, helps)]
        if bad:
            fails.append('the body of %s %s found that the caller lacks %s but the output is not an error reply: %r' % (plugin, cmd, inbody[0], str(bad[0])[:160]))
    st = B.setdefault('stats', {})
    st['inbody_denials'] = st.get('inbody_denials', 0) + (1 if inbody else 0)
    if B.get('blanked') and (lacks or inbody) and not ignored:
        st['blank_denials'] = st.get('blank_denials', 0) + 1
    # `config channel` with a channel list: per-channel values before/after for every listed channel the caller is not op of
    cc = next((e[3] for e in log if e[0] == 'bodyargs' and (e[1], e[2]) == CONFCHAN), None) if (plugin, cmd) == CONFCHAN else None
    if cc is not None and cc[3] and not ignored:
        netname, chans_l, gname, _ = cc
        opset = True
        try:
            g = conf_walk(B, gname)
            opset = all(getattr(x, '_opSettable', True) for x in g)
        except Exception:
            pass
        st['confchan'] = st.get('confchan', 0) + 1
        written = []
        for chn in chans_l:
            for net, key in ((False, '%s.%s' % (gname, chn)), (True, '%s.\\:%s.%s' % (gname, netname, chn))):
                if pre['registry'].get(key) != post['registry'].get(key):
                    if [chn, net] not in written:
                        written.append([chn, net])
                    need_cap = '%s,op' % chn if opset else 'owner'
                    try:
                        short = not ircdb.checkCapability(eval_prefix or prefix, need_cap)
                    except Exception:
                        short = False
                    if short:
                        fails.append('caller lacks %s but `config channel %s ...` changed %s: %r -> %r'
                                     % (need_cap, ','.join(chans_l), key, pre['registry'].get(key), post['registry'].get(key)))
        if rec is not None and bodies:
            inb = [e[1] for e in seg[next(i for i, e in enumerate(seg) if e[0] == 'body'):] if e[0] == 'nocap']
            final = ['denied', str(inb[0])] if inb else (['success'] if any('operation succeeded' in str(m) for m in outs) else None)
            if final is not None:
                ro = False
                try:
                    ro = bool(sys.modules[type(irc.getCallback('Config')).__module__].isReadOnly(gname))
                except Exception:
                    pass
                rec['confchan'] = {'case': [dbwire, opset, ro, netname != '*', chans_l], 'impl': {'writes': sorted(written), 'final': final}}
    # argument-dependent requirement (Channel voice / devoice)
    caller_nick = prefix.split('!')[0]
    received = next((e[3] for e in log if e[0] == 'bodyargs' and (e[1], e[2]) == (plugin, cmd)), None)
    rule = argdep_rule(B, plugin, cmd, received, caller_nick)
    if rule is not None and not ignored:
        need_cap, nick_args, rchan = rule
        try:
            short = not ircdb.checkCapability(eval_prefix or prefix, need_cap)
        except Exception:
            short = False
        modes = [m for m in outs if not isinstance(m, Exception) and m.command == 'MODE']
        if short:
            st['argdep_lacking'] = st.get('argdep_lacking', 0) + 1
            if modes:
                fails.append('caller lacks %s (required to %s %s) but the bot sent %r' % (need_cap, cmd, ' '.join(nick_args) or 'himself', str(modes[0]).strip()))
            elif ch:
                fails.append('caller lacks %s but state changed: %s' % (need_cap, '; '.join(ch)[:300]))
        if bodies and rec is not None:
            inb = [e[1] for e in seg[next(i for i, e in enumerate(seg) if e[0] == 'body'):] if e[0] == 'nocap']
            impl_v = None
            if inb:
                impl_v = ['denied', str(inb[0])]
            elif modes:
                impl_v = ['mode', [n for m in modes for n in m.args[2:]]]
            if impl_v is not None:
                rec['voice'] = {'case': [dbwire, rchan, nick_args, caller_nick], 'impl': impl_v}
    if schedfire is not None:
        st['sched_then_ignored'] = st.get('sched_then_ignored', 0) + (1 if ignored else 0)
        if rec is None:
            rec = {'schedfire_only': True}
        rec['schedfire'] = schedfire
    restore_needed = bool(ch) or setting != 'stock' or bool(bodies) or bool(inv.get('then'))
    if restore_needed:
        restore(B)
    if [c.name() for c in irc.callbacks] != B['callbacks0']:
        raise RuntimeError('plugin list changed by %r' % (inv,))
    return rec, fails


class _WCtx:
    def __init__(self, seed):
        import random
        self.rng = random.Random(seed)


def plan(B, rng, mode, cmds, flt=None):
    """every command x every role; form / wrapper / setting / args rotate (quick) or are sampled more densely (thorough);
    mode 'widen' (a broken obligation without a failing input): a fresh sample restricted to the roles / commands of the
    disagreeing inputs, so that the second pass stays within a couple of minutes"""
    invs = []

    def add(ci, p, c, ri, role, per):
        for j in range(per):
            r = rng.random()
            wrapper = WRAPPERS[(ci + 3 * ri + 2 * j) % len(WRAPPERS)] if r < 0.8 else 'plugin'
            setting = 'stock' if rng.random() < 0.5 else rng.choice(SETTINGS[1:])
            form = FORMS[(ci + ri + j) % len(FORMS)]
            invs.append({'op': 'live', 'role': role, 'form': form, 'wrapper': wrapper, 'plugin': p, 'cmd': c,
                         'args': rng.choice(ARGS), 'setting': setting})
    if mode == 'widen':
        roles = [r for r in ROLES if r in (flt or {}).get('roles', [])]
        near = {tuple(x) for x in (flt or {}).get('cmds', [])}
        for ci, (p, c) in enumerate(cmds):
            for ri, role in enumerate(ROLES):
                if (p, c) in near:
                    add(ci + 1, p, c, ri, role, 3)
                elif role in roles:
                    add(ci + 1, p, c, ri, role, 1)
        return invs
    # the argument-dependent commands: the caller's own nick, other nicks, both, none -- for the roles below op
    have0 = set(cmds)
    for (p, c) in ARGDEP:
        if (p, c) not in have0:
            continue
        for role in ARGDEP_ROLES:
            me = ROLES[role].split('!')[0]
            others = [n for n in ('adm', 'cop', 'pln') if n != me]
            for a in ARGDEP_ARGS:
                a2 = a.format(me=me, ME=me.upper(), other=others[0], other2=others[1])
                for form in ('char', 'priv', 'nick'):
                    invs.append({'op': 'live', 'role': role, 'form': form, 'wrapper': 'plugin' if mode == 'quick' else rng.choice(['plugin', 'direct', 'nested', 'sched']),
                                 'plugin': p, 'cmd': c, 'args': ('#test ' + a2).strip() if form == 'priv' else a2, 'setting': 'stock'})
    # histories: schedule a command, get ignored, the event fires (finding C01.b: the scheduled replay skipped the ignore check)
    for role in ('plain', 'chanop', 'voiced', 'admin', 'owner', 'unreg'):
        for then in ('ignore-db', 'ignore-flag', 'chan-ignore', 'lobotomy'):
            for (p, c, a) in (('Utilities', 'echo', 'scheduled hi'), ('Channel', 'voice', ''), ('Config', 'channel', '#test plugins.Channel.partMsg zz')):
                if (p, c) in have0:
                    for form in ('char', 'priv'):
                        if form == 'priv' and then in ('chan-ignore', 'lobotomy'):
                            continue
                        invs.append({'op': 'live', 'role': role, 'form': form, 'wrapper': 'sched', 'plugin': p, 'cmd': c,
                                     'args': a, 'setting': 'stock', 'then': then})
    # `config channel` with channel lists
    if CONFCHAN in have0:
        k = 0
        for role in CONFCHAN_ROLES:
            for lst in CONFCHAN_LISTS:
                for netw in ('', '* ', 'test '):
                    k += 1
                    form = FORMS[k % len(FORMS)]
                    wrapper = ('plugin', 'nested', 'plugin', 'direct')[k % 4] if mode == 'quick' else rng.choice(['plugin', 'nested', 'direct', 'sched', 'piped'])
                    invs.append({'op': 'live', 'role': role, 'form': form, 'wrapper': wrapper, 'plugin': 'Config', 'cmd': 'channel',
                                 'args': '%s%s %s zz' % (netw, lst, CONFCHAN_VAR), 'setting': 'stock'})
    # the in-body checks under blank denial messages, for every role lacking the capability
    have = set(cmds)
    for (p, c, a) in INBODY:
        if (p, c) not in have:
            continue
        for role in LACKING_ROLES:
            for st_ in BLANK_SETTINGS + ('stock',):
                for form in (('char', 'priv') if mode == 'quick' else FORMS):
                    invs.append({'op': 'live', 'role': role, 'form': form, 'wrapper': 'plugin' if mode == 'quick' else rng.choice(WRAPPERS),
                                 'plugin': p, 'cmd': c, 'args': a, 'setting': st_})
    core, extra = (2, 1) if mode == 'quick' else (10, 5)
    for ci, (p, c) in enumerate(cmds):
        chanrel = p in ('Channel', 'Topic') or any(g[0] == 4 for g in (gates_of(B, B['bodies'][(p, c)]) or []))
        for ri, role in enumerate(ROLES):
            if role in CHANCAP_ROLES and not chanrel:
                continue          # these roles differ from `plain` by channel capabilities only: channel-related commands
            add(ci, p, c, ri, role, core if role in CORE_ROLES else extra)
    return invs


def worker_main(argv):
    """python c01.py worker I N SEED MODE BUDGET [FILTER.json] : explore shard I of N, print one JSON object"""
    i, n, seed, mode, budget = int(argv[0]), int(argv[1]), int(argv[2]), argv[3], float(argv[4])
    flt = json.load(open(argv[5])) if len(argv) > 5 else None
    import random, collections, hashlib
    B = bot()
    cmds = live_commands(B)
    B['cmdcount'] = collections.Counter(c for _, c in cmds)
    rng = random.Random(seed)
    invs = plan(B, rng, mode, cmds, flt)
    mine = invs[i::n]
    t0 = time.time()
    recs, fails, dist, hashes, notes = [], [], collections.Counter(), set(), []
    done = 0
    for inv in mine:
        if time.time() - t0 > budget:
            notes.append('worker %d stopped by the time budget after %d/%d invocations' % (i, done, len(mine)))
            break
        try:
            rec, fl = live_one(B, inv)
        except RuntimeError as e:
            notes.append('worker %d aborted: %s' % (i, e))
            break
        done += 1
        dist['live-%s-%s' % (inv['role'], inv['wrapper'])] += 1
        hashes.add(hashlib.blake2b(json.dumps(inv, sort_keys=True).encode(), digest_size=8).hexdigest())
        if rec is not None:
            rec['inv'] = inv
            recs.append(rec)
        for d in fl:
            fails.append({'input': inv, 'detail': d})
    if i == 0:
        notes.append('live bot: %d plugins loaded (%s not loadable), %d instrumented commands' % (len(B['loaded']), ', '.join(B['unloadable']) or 'none', len(cmds)))
        listed = sorted({(cb.name(), c) for cb in B['irc'].callbacks if hasattr(cb, 'listCommands') for c in cb.listCommands()})
        missing = [x for x in listed if x not in B['bodies'] and (x[0], x[1] + ' ' + x[1].split()[-1]) not in B['bodies']]
        notes.append('commands listed by the loaded plugins: %d; with an instrumented body: %d; not instrumented: %s'
                     % (len(listed), len(cmds), ', '.join('%s %s' % x for x in missing[:8]) or 'none'))
        if missing:
            notes.append('LIVE RUN INCOMPLETE: %d listed commands have no instrumented body' % len(missing))
        notes += inventory_crosscheck(B, cmds)
    if B.get('resolve_errors'):
        notes.append('LIVE RUN INCOMPLETE: worker %d could not resolve %d lines with findCallbacksForArgs, e.g. %s'
                     % (i, len(B['resolve_errors']), B['resolve_errors'][0][:160]))
    touched = sorted({(inv['plugin'], inv['cmd'], inv['role']) for inv in mine[:done]})
    sys.stdout.write('\nRESULT ' + json.dumps({'recs': recs, 'fails': fails, 'dist': dict(dist), 'hashes': sorted(hashes), 'notes': notes,
                                               'done': done, 'planned': len(mine), 'ncmds': len(cmds), 'npairs': len({(x['plugin'], x['cmd'], x['role']) for x in invs}), 'touched': [list(t) for t in touched], 'stats': B.get('stats', {})}) + '\n')
    sys.stdout.flush()
    import shutil
    shutil.rmtree(boot._booted.get('dir', ''), True)
    os._exit(0)


def inventory_crosscheck(B, cmds):
    """live Spec objects vs the regenerated AST inventory (same gating converters for the same command)"""
    sys.path.insert(0, os.path.join(os.path.dirname(os.path.abspath(__file__)), 'tables'))
    import gen_tables  # noqa: F401
    import t01
    callbacks = B['callbacks']
    table = {}
    gating = set(x.lower() for x in t01.GATING_EXPECTED)
    for p, cl, nm, occ, _, _ in t01.wraps():
        path = [callbacks.canonicalName(x) for x in cl.split('.')[1:]] + [nm]
        table[(p, ' '.join(path))] = sorted(c for c, pth, a in occ if c.lower() in gating and not pth)
    notes, bad, matched = [], [], 0
    for p, c in cmds:
        info = B['bodies'][(p, c)]
        g = gates_of(B, info)
        if g is None:
            continue
        live = sorted({0: 'owner', 1: 'admin'}.get(x[0]) or ({4: {'op': 'op', 'halfop': 'halfop', 'voice': 'voice'}.get(x[1])}.get(x[0])) or gate_names_of(x) for x in g)
        t = table.get((p, c))
        if t is None:
            continue
        matched += 1
        tl = sorted(t)
        if [x.lower() for x in tl] != [x.lower() for x in live]:
            # op/halfop/voice appear as checkChannelCapability in neither: normalise both sides
            norm = lambda l: sorted('checkchannelcapability' if x.lower() in ('op', 'halfop', 'voice') else x.lower() for x in l)
            if norm(tl) != norm(live):
                bad.append('%s %s: table %r live %r' % (p, c, tl, live))
    notes.append('inventory cross-check: %d live wrapped commands matched with the AST table, %d differ' % (matched, len(bad)))
    if bad:
        notes.append('INVENTORY MISMATCH: ' + '; '.join(bad[:5]))
    return notes


def compare_live(ctx, rec, mo):
    """model prediction vs what the implementation did for the target command"""
    ev = dec_events(mo)
    impl = rec['impl']
    inp = rec['inv']
    # gate level: exact
    if impl['gate'] == ['raise']:
        model_gate = ['raise'] if ev == [['I']] else None
    else:
        model_gate = ev[0] if ev and ev[0][0] == 'N' and not _converter_level(rec, ev) else None
    if impl['gate'] != model_gate and not (impl['gate'] == ['raise'] and model_gate == ['raise']):
        ctx.disagree(inp, {'gate': model_gate, 'events': ev}, impl, 'live gate decision (checkCommandCapability loop)')
        return
    if model_gate is not None:
        if impl['body']:
            ctx.disagree(inp, ev, impl, 'model refuses at the gate, implementation ran the body')
        return
    if rec.get('uncertain'):
        return
    if ev == [['B']]:
        # every gating converter passes in the model: the implementation must not refuse with one of their capabilities
        return
    if ev and ev[0][0] == 'N':
        if impl['body']:
            ctx.disagree(inp, ev, impl, 'model: gating converter refuses, implementation ran the body')
        elif impl['nocap'] and impl['nocap'][0] != ev[0][1]:
            ctx.disagree(inp, ev, impl, 'gating converter refused with a different capability')
    elif ev in ([['H']], [['I']], []):
        if impl['body'] and ev != []:
            ctx.disagree(inp, ev, impl, 'model: converter error before the body, implementation ran the body')


def _converter_level(rec, ev):
    """is the model's refusal produced by a converter (the gate passed)?  re-derived from the case: the gate-only run"""
    return rec.get('_gate_only') == [['B']]


def run_live(ctx):
    """quick: every command x every role (core roles twice); thorough: ten times denser; the runner's widened second pass
    (a broken obligation, no failing input yet) does NOT repeat the whole matrix: it draws a fresh sample for the roles and
    commands of the disagreeing live inputs only (none when the disagreements are elsewhere)"""
    import subprocess as sp, tempfile
    widened = any(str(x).startswith('obligation broken; widened search') for x in ctx.notes)
    mode = 'thorough' if ctx.tier == 'thorough' else ('widen' if widened else 'quick')
    extra = []
    if mode == 'widen':
        lives = [d['input'] for d in ctx.disagreements if isinstance(d.get('input'), dict) and d['input'].get('op') == 'live']
        if not lives:
            ctx.notes.append('widened pass: no live disagreement, live matrix not repeated')
            return []
        flt = {'roles': sorted({x['role'] for x in lives}), 'cmds': sorted({(x['plugin'], x['cmd']) for x in lives})[:40]}
        fd, fn = tempfile.mkstemp(prefix='c01flt', suffix='.json')
        with os.fdopen(fd, 'w') as f:
            json.dump(flt, f)
        extra = [fn]
        ctx.notes.append('widened pass: fresh live sample for roles %s and %d commands near the disagreeing inputs' % (', '.join(flt['roles']), len(flt['cmds'])))
    n = min(14, max(2, (os.cpu_count() or 4) - 2))
    budget = {'quick': 60, 'thorough': 900, 'widen': 60}[mode]
    seed = ctx.seed + {'quick': 0, 'thorough': 17, 'widen': 7919}[mode]
    procs = []
    for i in range(n):
        procs.append(sp.Popen(['timeout', str(int(budget * 2 + 90)), sys.executable, os.path.abspath(__file__), 'worker', str(i), str(n),
                               str(seed), mode, str(budget)] + extra,
                              stdout=sp.PIPE, stderr=sp.DEVNULL, text=True, env=dict(os.environ, PYTHONHASHSEED='0')))
    ctx._live_mode = mode
    return procs


def collect_live(ctx, procs):
    if not procs:
        return
    recs = []
    done = planned = 0
    touched = set()
    stats = {}
    for i, p in enumerate(procs):
        out, _ = p.communicate()
        lines = [l for l in out.split('\n') if l.startswith('RESULT ')]
        if not lines:
            raise RuntimeError('live worker %d produced no result (rc=%s): %s' % (i, p.returncode, out[-300:]))
        r = json.loads(lines[-1][7:])
        for k, v in r['dist'].items():
            ctx.dist[k] += v
            ctx.evaluations += v
        ctx.nontrivial.update(bytes.fromhex(h) for h in r['hashes'])
        for f in r['fails']:
            ctx.fail(f['input'], f['detail'])
        ctx.notes.extend(r['notes'])
        for x in r['notes']:
            if x.startswith('INVENTORY MISMATCH'):
                ctx.disagree({'op': 'inventory'}, 'AST table', x, 'live Spec objects vs regenerated inventory')
        recs += r['recs']
        for k, v in r.get('stats', {}).items():
            stats[k] = stats.get(k, 0) + v
        done += r['done']; planned += r['planned']; touched.update(tuple(t) for t in r['touched'])
        ncmds = r['ncmds']
        npairs = r.get('npairs', 0)
    if len(ctx.samples) < 12 and recs:
        ctx.samples.append({'kind': 'live', 'input': recs[0]['inv']})
    # model: the full case and the gate-only case (method = None) to tell gate refusals from converter refusals
    srecs = [r for r in recs if r.get('schedfire')]
    for r, mo in zip(srecs, ctx.model([[9, r['schedfire']['case']] for r in srecs])):
        if mo is not None and mo != r['schedfire']['impl']:
            ctx.disagree(r['inv'], {0: 'dropped', 1: 'runs', 2: 'raises'}.get(mo, mo), {0: 'nothing happened', 1: 'ran / replied'}[r['schedfire']['impl']],
                         'scheduled replay vs the ignore state at fire time')
    ctx.notes.append('scheduled replays after an ignore compared with the model: %d' % len(srecs))
    recs = [r for r in recs if not r.get('schedfire_only')]
    crecs = [r for r in recs if r.get('confchan')]
    for r, mo in zip(crecs, ctx.model([[8, r['confchan']['case']] for r in crecs])):
        if mo is None:
            continue
        writes = sorted({(wire.s(w[1]), bool(w[2])) for w in mo if w[0] == 0})
        writes = [list(x) for x in writes]
        last = mo[-1] if mo else [9]
        final = ['denied', wire.s(last[1])] if last[0] == 1 else (['success'] if last[0] == 3 else ['other'])
        model = {'writes': writes, 'final': final}
        if model != r['confchan']['impl']:
            ctx.disagree(r['inv'], model, r['confchan']['impl'], 'Config.channel: per-channel check-and-write loop')
    ctx.notes.append('Config.channel multi-channel writes compared with the model: %d' % len(crecs))
    vrecs = [r for r in recs if r.get('voice')]
    for r, mo in zip(vrecs, ctx.model([[7, r['voice']['case']] for r in vrecs])):
        if mo is None:
            continue
        model = ['mode', wire.ls(mo[1])] if mo[0] == 0 else (['denied', wire.s(mo[1])] if mo[0] == 1 else ['raise'])
        if model != r['voice']['impl']:
            ctx.disagree(r['inv'], model, r['voice']['impl'], 'Channel._voice: capability chosen from the arguments / decision')
    ctx.notes.append('Channel._voice runs compared with the model: %d' % len(vrecs))
    cases = [[1, r['case']] for r in recs] + [[1, r['case'][:6] + [[]] + r['case'][7:]] for r in recs]
    outs = ctx.model(cases)
    for r, mo, mg in zip(recs, outs[:len(recs)], outs[len(recs):]):
        if mo is None:
            continue
        r['_gate_only'] = dec_events(mg)
        compare_live(ctx, r, mo)
    ctx.notes.append('live: %d workers, %d/%d planned invocations done, %d of %d planned (command, role) pairs (%d commands, %d roles), %d _callCommand runs compared with the model'
                     % (len(procs), done, planned, len(touched), npairs, ncmds, len(ROLES), len(recs)))
    ctx.notes.append('live outcome counts: ' + ', '.join('%s=%d' % kv for kv in sorted(stats.items())))
    if done < planned or (getattr(ctx, '_live_mode', 'quick') != 'widen' and len(touched) < npairs):
        ctx.notes.append('LIVE RUN INCOMPLETE: the time budget stopped the exploration before every (command, role) pair was touched')


# ---------------------------------------------------------------- gate correspondence on a harness plugin
USER_POOL = ['owner', 'admin', 'trusted', 'vgate', '-vgate', 'vgate.c1', '-vgate.c1', '-c1', 'c2', '-vgate.sub', '-vgate.sub.d0', '-d0', 'foo', '-foo',
             '#test,op', '#test,-c1', '#test,-vgate', '#test,c3', '#test,foo', '#test,-foo', '#other,op', '-v_x', 'V_X', '-vx', '-vx.e0']
CHAN_POOL = ['-c1', 'c1', '-vgate', 'foo', '-foo', 'op', '-vgate.c2', '-d0', 'vgate.sub.d0']
DEF_POOL = ['-owner', '-admin', '-trusted', '-vgate', '-c2', '-vgate.c3', 'foo', '-foo', '-vgate.sub', 'c1', 'vgate']
GATE_CAPS = ['foo', 'Foo', 'admin', 'owner', 'trusted', 'op', 'bar']
HOSTILE_NAMES = ['', ' ', 'a b', '-', '-x', '--', 'x,y', '#test,x', '#test,-x', 'é', 'X', 'x-', 'a.b', '.', 'x ', '\tx', 'owner', 'admin',
                 '#a,#b,c', ',', 'x,', 'É.é']


def gen_db(rng):
    kind = rng.choice(['none', 'match', 'match', 'match', 'authonly', 'secure-authonly', 'secure-match'])
    caps = [c for c in USER_POOL if rng.random() < 0.15]
    chans = {}
    for name in ['#test', '#other']:
        if rng.random() < 0.5:
            chans[name] = {'caps': [c for c in CHAN_POOL if rng.random() < 0.2], 'default': rng.random() < 0.75}
    return {'user': None if kind == 'none' else {'caps': caps, 'ignore': rng.random() < 0.1, 'kind': kind},
            'chans': chans,
            'defaults': [c for c in DEF_POOL if rng.random() < (0.8 if c in ('-owner', '-admin') else 0.12)],
            'registered': [c for c in DEF_POOL[3:] if rng.random() < 0.08],
            'flag': rng.random() < 0.8,
            'ignores': rng.random() < 0.08, 'chan_ignore': rng.random() < 0.08, 'lobotomized': rng.random() < 0.04,
            'defaultIgnore': rng.random() < 0.05, 'nocap_blank': rng.random() < 0.15}


H_CALLER = 'vcl!v@vhost'


def build_db(B, g):
    ircdb, conf = B['ircdb'], B['conf']
    users = ircdb.users
    users.noFlush = True
    try:
        _build_users(ircdb, users, g)
    finally:
        users.noFlush = False
    _build_rest(B, ircdb, conf, g)


def _build_users(ircdb, users, g):
    for uid in list(users.users.keys()):
        users.delUser(uid)
    if g['user'] is not None:
        u = users.newUser()
        u.name = 'alice'
        for c in g['user']['caps']:
            u.addCapability(c)
        u.ignore = g['user']['ignore']
        kind = g['user']['kind']
        if kind in ('match', 'secure-match'):
            u.addHostmask(H_CALLER)
        else:
            u.addHostmask('someone!else@*')
            u.addAuth(H_CALLER)
        u.secure = kind.startswith('secure')
        users.setUser(u)


def _build_rest(B, ircdb, conf, g):
    ircdb.channels.channels.clear()
    for name, c in g['chans'].items():
        ch = ircdb.IrcChannel()
        for cap in c['caps']:
            ch.addCapability(cap)
        ch.defaultAllow = c['default']
        if name == CHAN:
            ch.lobotomized = g.get('lobotomized', False)
            if g.get('chan_ignore'):
                ch.addIgnore('vcl!*@*')
        ircdb.channels.setChannel(name, ch)
    ircdb.ignores.hostmasks.clear()
    if g.get('ignores'):
        ircdb.ignores.add('*!*@vhost')
    with contextlib.redirect_stdout(io.StringIO()):
        conf.supybot.capabilities.setValue(list(g['defaults']), allowDefaultOwner=True)
    conf.supybot.capabilities.registeredUsers.setValue(list(g['registered']))
    conf.supybot.capabilities.default.setValue(g['flag'])
    conf.supybot.defaultIgnore.setValue(g.get('defaultIgnore', False))
    conf.supybot.replies.noCapability.setValue('' if g.get('nocap_blank') else B['nocap0'][0])


def gen_gate(rng, nested=False, argchan=None):
    k = rng.random()
    if k < 0.2:
        return [0]
    if k < 0.35:
        return [1]
    if k < 0.55:
        return [2, rng.choice(GATE_CAPS)]
    if k < 0.65:
        return [3, rng.choice(GATE_CAPS)]
    return [4, rng.choice(['op', 'halfop', 'voice', 'foo']), wire.opt(argchan)]


def gen_conv(rng, depth=0):
    """a converter without argument consumption (see gen_spec for the argument-consuming positions)"""
    k = rng.random()
    if depth >= 2 or k < 0.3:
        return [0, gen_gate(rng)] if rng.random() < 0.6 else [1, rng.choice([0, 0, 0, 1, 2, 3, 4, 5])]
    if k < 0.4:
        return [2, []]
    if k < 0.55:
        return [3, gen_conv(rng, depth + 1)]
    if k < 0.7:
        return [4, gen_conv(rng, depth + 1)]
    if k < 0.9:
        return [5, gen_conv(rng, depth + 1), gen_conv(rng, depth + 1)]
    return [1, 0]


def gen_spec(rng):
    """(spec as model wire value, args, allowExtra, extra) in one of four argument modes"""
    mode = rng.choice(['plain', 'plain', 'chanarg', 'loop', 'extra'])
    n = rng.randint(0, 4)
    spec = [gen_conv(rng) for _ in range(n)]
    args, allow = [], False
    if mode == 'chanarg':
        # the first channel-taking converter at top level receives an explicit channel; nothing before it may touch state.channel
        def touches(c):
            return c[0] == 2 or (c[0] == 0 and c[1][0] == 4) or (c[0] in (3, 4) and touches(c[1])) or (c[0] == 5 and (touches(c[1]) or touches(c[2])))
        pos = rng.randint(0, len(spec))
        spec = [c for c in spec[:pos] if not touches(c)] + [[2, ['#other']] if rng.random() < 0.4 else [0, [4, rng.choice(['op', 'foo']), ['#other']]]] + spec[pos:]
        args = ['#other']
    elif mode == 'loop':
        k = rng.randint(1, 3)
        body = [0, gen_gate(rng)] if rng.random() < 0.6 else [1, rng.choice([0, 0, 1, 2, 3, 5])]
        pos = rng.randint(0, len(spec))
        spec = spec[:pos] + [[7, k, rng.random() < 0.5, body]] + spec[pos:]
        args = ['L'] * k
        allow = True
    elif mode == 'extra':
        pos = rng.randint(0, len(spec))
        if rng.random() < 0.5:
            spec = spec[:pos] + [[6, True, gen_conv(rng, 2)]] + spec[pos:]
        args = ['zzz']
        allow = rng.random() < 0.3
    else:
        if rng.random() < 0.2:
            pos = rng.randint(0, len(spec))
            spec = spec[:pos] + [[6, False, gen_conv(rng, 2)]] + spec[pos:]
        if rng.random() < 0.15:
            pos = rng.randint(0, len(spec))
            spec = spec[:pos] + [[7, 0, rng.random() < 0.5, [0, gen_gate(rng)]]] + spec[pos:]
    extra = bool(args) and not allow and mode == 'extra'
    return spec, args, allow, extra


def real_spec(B, c):
    """model converter (wire form) -> real commands spec element"""
    commands = B['commands']
    t = c[0]
    if t == 0:
        g = c[1]
        if g[0] == 0:
            return 'owner'
        if g[0] == 1:
            return 'admin'
        if g[0] == 2:
            return ('checkCapability', g[1])
        if g[0] == 3:
            return ('checkCapabilityButIgnoreOwner', g[1])
        return {'op': 'op', 'halfop': 'halfop', 'voice': 'voice'}.get(g[1]) or ('checkChannelCapability', g[1])
    if t == 1:
        return ('vopaque', ['ok', 'err', 'arg', 'idx', 'soft', 'py'][c[1]])
    if t == 2:
        return 'channel'
    if t == 3:
        return commands.optional(real_spec(B, c[1]))
    if t == 4:
        return commands.additional(real_spec(B, c[1]))
    if t == 5:
        return commands.first(real_spec(B, c[1]), real_spec(B, c[2]))
    if t == 6:
        return commands.rest(real_spec(B, c[2]))
    return commands.any(('vpop', real_spec(B, c[3])), continueOnError=bool(c[2]))


class VExn(Exception):
    pass


def install_vgate(B, specs):
    """the harness plugins: Vgate (commands c<i> with the generated specs, an unwrapped command, a nested Commands class) and V_x"""
    callbacks, commands, irc = B['callbacks'], B['commands'], B['irc']

    def vopaque(irc_, msg, args, state, how):
        if how == 'err':
            state.error('verr', Raise=True)
        elif how == 'arg':
            raise callbacks.ArgumentError
        elif how == 'idx':
            raise IndexError
        elif how == 'soft':
            state.errored = True
        elif how == 'py':
            raise VExn('vpy')

    def vpop(irc_, msg, args, state, inner):
        args.pop(0)
        commands.contextify(inner)(irc_, msg, args, state)
    commands.addConverter('vopaque', vopaque)
    commands.addConverter('vpop', vpop)

    def mkbody(key):
        def body(self, irc, msg, args, *a, **k):
            """VHELP

            harness command"""
            LOG.append(('vbody', key))
        return body
    ns = {}
    for i, (spec, args, allow, extra) in enumerate(specs):
        f = mkbody('c%d' % i)
        f.__name__ = 'c%d' % i
        ns['c%d' % i] = commands.wrap(f, [real_spec(B, c) for c in spec], allowExtra=allow)

    def plainc(self, irc, msg, args):
        """VHELP

        unwrapped harness command"""
        LOG.append(('vbody', 'plainc'))
    ns['plainc'] = plainc

    class sub(callbacks.Commands):
        def d0(self, irc, msg, args):
            """VHELP

            nested harness command"""
            LOG.append(('vbody', 'sub d0'))
        d1 = commands.wrap(mkbody('sub d1'), ['admin'])
    ns['sub'] = sub
    Vgate = type('Vgate', (callbacks.Plugin,), ns)
    Vgate.__module__ = 'Vgate'
    V_x = type('V_x', (callbacks.Plugin,), {'e0': commands.wrap(mkbody('v_x e0'), [])})
    V_x.__module__ = 'V_x'
    for old in [cb for cb in irc.callbacks if cb.name() in ('Vgate', 'V_x')]:
        irc.removeCallback(old.name())
    irc.addCallback(Vgate(irc))
    irc.addCallback(V_x(irc))
    B['callbacks0'] = [cb.name() for cb in irc.callbacks]


def classify_outs(outs):
    ev = []
    for m in outs:
        if isinstance(m, Exception):
            ev.append(['X'])
            continue
        t = m.args[-1] if m.args else ''
        if 'VHELP' in t:
            ev.append(['H'])
        elif 'verr' in t:
            ev.append(['E'])
        elif 'error has occurred' in t.lower() or 'An error' in t:
            ev.append(['I'])
        elif "don't have the" in t:
            import re
            mm = re.search(r"don't have the (\S+) capability", t)
            ev.append(['N', mm.group(1) if mm else '?'])
        else:
            ev.append(['?', t[:80]])
    return ev


def gate_case(B, g, where, cmdtext, args):
    """feed `vgate <cmd> <args>` from H_CALLER; returns the implementation's observable events and what the model needs"""
    build_db(B, g)
    del LOG[:]
    text = (cmdtext + ' ' + ' '.join(args)).strip()
    form = 'char' if where == 'chan' else 'priv'
    outs = feed(B, 'plain', form, text, prefix=H_CALLER)
    log = list(LOG)
    calls = [e for e in log if e[0] == 'call']
    nocaps = [e[1] for e in log if e[0] == 'nocap']
    vb = [e for e in log if e[0] == 'vbody']
    rep = classify_outs(outs)
    impl = ([['B']] if vb else []) + rep
    for x in impl:
        if x[0] == 'N' and x[1] not in [str(c) for c in nocaps]:
            x.append('not-logged')
    return impl, calls, outs


def gate_oracle(B, inp, impl, outs):
    """the property on the harness plugin, evaluated with the real ircdb functions only: a caller who is ignored gets nothing;
    a caller lacking the capability of a top-level gating converter, or holding an anti-capability of the command, never reaches the body"""
    ircdb = B['ircdb']
    where = inp['where']
    chan = CHAN if where == 'chan' else None
    plugin, canon, command, method = inp['target']
    ran = ['B'] in impl
    if ircdb.checkIgnored(H_CALLER, chan or '') or ircdb.checkIgnored(H_CALLER):
        if ran or outs:
            return 'ignored caller: %s' % ('body ran' if ran else 'got a reply %r' % str(outs[0])[:100])
        return None
    if plugin != 'Vgate':
        return None
    words = command[1:] if command and command[0] == canon else command
    gates = []
    if inp.get('spec') is not None:
        anychan = ['#other'] if inp['args'] == ['#other'] else []
        for c in inp['spec']:
            if c[0] == 0:
                g = list(c[1]) + [[]] * (3 - len(c[1]))
                if g[0] == 4:
                    g[2] = anychan
                gates.append(g[:3] + [0])
    elif words == ['sub', 'd1']:
        gates = [[1, '', [], 0]]
    u = inp['db'].get('user')
    ev = UNKNOWN_EVAL if (u is not None and u.get('kind') == 'secure-authonly') else None
    lacks = required_caps(B, H_CALLER, chan, plugin, ' '.join(words), gates, ev)
    if lacks and ran:
        return 'caller lacks %s but the body of %s ran' % (lacks[0], ' '.join(command))
    return None


def dsp_wire(B, where):
    chan = CHAN if where == 'chan' else ''
    return [False, False, True, ign_wire(B, H_CALLER, chan), False, True, ign_wire(B, H_CALLER, ''), False, False, False]


def run_gate_cases(ctx, B):
    rng = ctx.rng
    nspec = 140
    specs = [gen_spec(rng) for _ in range(nspec)]
    install_vgate(B, specs)
    targets = []      # (text, args, plugin, canon, command, method-wire)
    for i, (spec, args, allow, extra) in enumerate(specs):
        targets.append(('vgate c%d' % i, args, 'Vgate', 'vgate', ['vgate', 'c%d' % i], [[spec, extra]], i))
    fixed = [('vgate plainc', [], 'Vgate', 'vgate', ['vgate', 'plainc'], [], None), ('plainc', [], 'Vgate', 'vgate', ['plainc'], [], None),
             ('vgate sub d0', [], 'Vgate', 'vgate', ['vgate', 'sub', 'd0'], [], None), ('sub d0', [], 'Vgate', 'vgate', ['sub', 'd0'], [], None),
             ('vgate sub d1', [], 'Vgate', 'vgate', ['vgate', 'sub', 'd1'], [[[[0, [1]]], False]], None),
             ('v_x e0', [], 'V_x', 'vx', ['vx', 'e0'], [[[], False]], None), ('e0', [], 'V_x', 'vx', ['e0'], [[[], False]], None)]
    cases = []
    for _ in range(ctx.n(1500)):
        g = gen_db(rng)
        t = rng.choice(targets) if rng.random() < 0.8 else rng.choice(fixed)
        cases.append((g, rng.choice(['chan', 'chan', 'priv']), t))
    wcases, impls = [], []
    for g, where, t in cases:
        text, args, plugin, canon, command, method, si = t
        inp = {'op': 'gate', 'db': g, 'where': where, 'text': text, 'args': args, 'spec': specs[si][0] if si is not None else None,
               'allow': specs[si][2] if si is not None else None, 'target': [plugin, canon, command, method]}
        impl, calls, outs = gate_case(B, g, where, text, args)
        chan = CHAN if where == 'chan' else None
        d = gate_oracle(B, inp, impl, outs)
        if d:
            ctx.fail(inp, d)
        call = [snapshot_wire(B, H_CALLER), wire.opt(chan), B['callbacks'].canonicalName(plugin), canon, command, False, method, nctext(B, chan)]
        if calls:
            call[4] = calls[0][2]
        wcases.append([4, [call[0], dsp_wire(B, where), call]])
        impls.append((inp, impl, calls, outs, [e[1] for e in LOG if e[0] == 'nocap']))
        ctx.case('gate-%s' % where, inp)
    outs = ctx.model(wcases)
    for (inp, impl, calls, o, nocaps_l), mo in zip(impls, outs):
        if mo is None:
            continue
        mr = wire.r(mo, dec_events)
        model = [[x[0], str(x[1])] if x[0] == 'N' else x for x in mr[1]] if mr[0] == 'ok' else mr
        if inp['db'].get('nocap_blank') and mr[0] == 'ok':
            # blank denial message: the refusal is silent -- it shows only in the errorNoCapability log
            want = [x[1] for x in model if x[0] == 'N']
            if want and (not nocaps_l or str(nocaps_l[-1]) != want[-1]):
                ctx.disagree(inp, model, {'events': impl, 'nocap_log': [str(c) for c in nocaps_l]}, 'silent refusal on the harness plugin')
            model = [x for x in model if x[0] != 'N']
        if model != impl:
            ctx.disagree(inp, model, impl, '_callCommand trace on the harness plugin')
    restore_after_gate(B)


def restore_after_gate(B):
    conf = B['conf']
    conf.supybot.replies.noCapability.setValue(B['nocap0'][0])
    conf.supybot.capabilities.registeredUsers.setValue([])
    conf.supybot.defaultIgnore.setValue(False)
    restore(B)


def run_ccc_cases(ctx, B):
    """checkCommandCapability on its own, hostile names included"""
    rng = ctx.rng
    callbacks, ircmsgs, irc = B['callbacks'], B['ircmsgs'], B['irc']

    class _Cb:
        def __init__(self, n):
            self.n = n

        def name(self):
            return self.n

        def canonicalName(self):          # checkCommandCapability: plugin = cb.canonicalName()
            return callbacks.canonicalName(self.n)
    names = ['c1', 'c2', 'vgate', 'vgate.c1', 'foo', 'owner', 'admin', 'd0', 'vgate.sub.d0'] * 3 + HOSTILE_NAMES
    cases = []
    for _ in range(ctx.n(500)):
        g = gen_db(rng)
        where = rng.choice(['chan', 'priv'])
        if rng.random() < 0.7:
            cases.append((g, where, rng.choice(names), None))
        else:
            pl = rng.choice(['vgate', 'Vgate', 'V_x'])
            lst = rng.choice([['vgate'], ['vgate', 'c1'], ['vgate', 'sub', 'd0'], ['other', 'c1'], [], ['v_x'], ['vx'], ['vx', 'e0'], ['vgate', 'a b'], ['vgate', '']])
            cases.append((g, where, lst, pl))
    wc, impls = [], []
    for g, where, name, pl in cases:
        build_db(B, g)
        chan = CHAN if where == 'chan' else None
        m = ircmsgs.IrcMsg(':%s PRIVMSG %s :x' % (H_CALLER, CHAN if chan else 'test'))
        irc._setMsgChannel(m)
        inp = {'op': 'ccc', 'db': g, 'where': where, 'name': name, 'plugin': pl}
        ctx.case('ccc' if pl is None else 'ccc-list', inp)
        try:
            r = callbacks.checkCommandCapability.__wrapped__(m, _Cb(pl or 'Vgate'), name) if hasattr(callbacks.checkCommandCapability, '__wrapped__') \
                else callbacks.checkCommandCapability(m, _Cb(pl or 'Vgate'), name)
            ir = ('ok', r)
        except Exception as e:
            n = type(e).__name__
            ir = ('raise', n if n in wire.EXN.values() else 'OtherError')
        db = snapshot_wire(B, H_CALLER)
        if pl is None:
            wc.append([0, [db, wire.opt(chan), name]])
        else:
            wc.append([5, [db, wire.opt(chan), callbacks.canonicalName(pl), name]])
        impls.append((inp, ir))
    for (inp, ir), mo in zip(impls, ctx.model(wc)):
        if mo is None:
            continue
        mr = wire.r(mo, dec_pyv)
        if mr != ir:
            ctx.disagree(inp, mr, ir, 'checkCommandCapability')
    restore_after_gate(B)


def case_enc(ctx, B, inp, mo):
    """RichReplyMethods.errorNoCapability on a real ReplyIrcProxy: {blank, generic, kw (None/True/False), where}"""
    conf, callbacks, ircmsgs, irc = B['conf'], B['callbacks'], B['ircmsgs'], B['irc']
    ctx.case('errorNoCapability', inp)
    conf.supybot.reply.error.noCapability.setValue(bool(inp['generic']))
    (conf.supybot.replies.genericNoCapability if inp['generic'] else conf.supybot.replies.noCapability).setValue('' if inp['blank'] else 'no %s for you' if not inp['generic'] else 'no')
    try:
        m = ircmsgs.IrcMsg(':%s PRIVMSG %s :x' % (H_CALLER, CHAN if inp['where'] == 'chan' else 'test'))
        irc._setMsgChannel(m)
        proxy = callbacks.ReplyIrcProxy(irc, m)
        _drain(B)
        kw = {} if inp['kw'] is None else {'Raise': inp['kw']}
        try:
            proxy.errorNoCapability('foo', **kw)
            outs = _drain(B)
            impl = ['replied'] if outs else ['nothing']
        except callbacks.Error as e:
            impl = ['raise', str(e)]
            _drain(B)
    finally:
        conf.supybot.reply.error.noCapability.setValue(False)
        conf.supybot.replies.noCapability.setValue(B['nocap0'][0])
        conf.supybot.replies.genericNoCapability.setValue(B['nocap0'][1])
    text = '' if inp['blank'] else ('no' if inp['generic'] else 'no foo for you')
    if mo is not None:
        model = {0: ['raise', wire.s(mo[1]) if len(mo) > 1 else ''], 1: ['replied'], 2: ['nothing']}[mo[0]]
        if model != impl:
            ctx.disagree(inp, model, impl, 'errorNoCapability')
    # the property's mechanism, on the implementation alone: with Raise=True (or no Raise keyword) the caller is always aborted
    if inp['kw'] in (None, True) and impl[0] != 'raise':
        ctx.fail(inp, 'errorNoCapability(cap%s) with a %s message returned (%s) instead of raising: an in-body capability check falls through'
                 % ('' if inp['kw'] is None else ', Raise=True', 'blank' if inp['blank'] else 'non-blank', impl[0]))
    return text


def run_enc_cases(ctx, B):
    cases = [{'op': 'enc', 'blank': b, 'generic': g, 'kw': kw, 'where': w}
             for b in (True, False) for g in (False, True) for kw in (None, True, False) for w in ('chan', 'priv')]
    texts = ['' if c['blank'] else ('no' if c['generic'] else 'no foo for you') for c in cases]
    outs = ctx.model([[6, [t, wire.opt(c['kw'])]] for c, t in zip(cases, texts)])
    for c, mo in zip(cases, outs):
        case_enc(ctx, B, c, mo)


SV_POOL = ['-owner', 'owner', 'Owner', '-admin', 'admin', 'foo', '-foo', '#test,op', 'a b', '', '-OWNER', 'trusted', '-trusted']
F_DEFAULT = {'op': 'setvalue', 'values': [[['owner'], False]]}


def case_setvalue(ctx, B, seq, mo, kind='setvalue'):
    """a sequence of conf.supybot.capabilities.setValue(v[, allowDefaultOwner]) calls from the registered default"""
    conf, ircdb = B['conf'], B['ircdb']
    inp = {'op': 'setvalue', 'values': seq}
    ctx.case(kind, inp)
    val = conf.supybot.capabilities
    stock = B.setdefault('stock_caps', sorted(set.__iter__(val())))
    with contextlib.redirect_stdout(io.StringIO()):
        val.setValue(list(stock))
        init = sorted(set.__iter__(val()))
        for v, allow in seq:
            try:
                if allow:
                    val.setValue(list(v), allowDefaultOwner=True)
                else:
                    val.setValue(list(v))
            except Exception:
                pass
    final = sorted(set.__iter__(val()))
    unknown_owner = bool(ircdb.checkCapability('nobody!n@nowhere', 'owner'))
    with contextlib.redirect_stdout(io.StringIO()):
        val.setValue(list(stock))
    if mo is not None and sorted(wire.ls(mo)) != final:
        ctx.disagree(inp, sorted(wire.ls(mo)), final, 'DefaultCapabilities.setValue sequence')
    if not any(a for _, a in seq):
        if '-owner' not in final or 'owner' in final:
            ctx.fail(inp, "after setValue(%r) without allowDefaultOwner the default set is %r: %s" % (seq[-1][0] if seq else None, final,
                                                                                                  "'-owner' is missing" if '-owner' not in final else "'owner' is in it"))
        elif unknown_owner:
            ctx.fail(inp, 'an unknown caller holds owner although -owner is in the default set %r' % final)
    return init


def run_setvalue_cases(ctx, B):
    rng = ctx.rng
    seqs = [F_DEFAULT['values'], [[['-owner'], False]], [[[], False]], [[['owner'], True]], [[['owner', '-owner'], False]], [[['-owner', 'owner'], False]]]
    for _ in range(ctx.n(400)):
        seqs.append([[[c for c in SV_POOL if rng.random() < 0.2], rng.random() < 0.1] for _ in range(rng.randint(1, 4))])
    stock = B.setdefault('stock_caps', sorted(set.__iter__(B['conf'].supybot.capabilities())))
    outs = ctx.model([[2, [stock, s]] for s in seqs])
    for s, mo in zip(seqs, outs):
        case_setvalue(ctx, B, s, mo)


def run_ignored_cases(ctx, B):
    rng = ctx.rng
    ircdb = B['ircdb']
    cases = []
    for _ in range(ctx.n(500)):
        g = gen_db(rng)
        g['ignores'] = rng.random() < 0.3
        g['chan_ignore'] = rng.random() < 0.3
        g['lobotomized'] = rng.random() < 0.15
        g['defaultIgnore'] = rng.random() < 0.2
        if g['user'] is not None and rng.random() < 0.4:
            g['user']['caps'] = g['user']['caps'] + [rng.choice(['trusted', '-trusted', 'owner'])]
        if '#test' not in g['chans']:
            g['chans']['#test'] = {'caps': [], 'default': True}
        cases.append((g, rng.choice(['#test', '', 'test', '#nochan'])))
    wc, impls = [], []
    for g, rcpt in cases:
        build_db(B, g)
        inp = {'op': 'ignored', 'db': g, 'recipient': rcpt}
        ctx.case('checkIgnored', inp)
        try:
            ir = ('ok', bool(ircdb.checkIgnored(H_CALLER, rcpt)))
        except Exception as e:
            n = type(e).__name__
            ir = ('raise', n if n in wire.EXN.values() else 'OtherError')
        wc.append([3, ign_wire(B, H_CALLER, rcpt)])
        impls.append((inp, ir, g))
        # the exemption, evaluated directly: an account for which _checkCapability('trusted') is True is never ignored
        try:
            uo = ircdb.users.getUser(ircdb.users.getUserId(H_CALLER))
            trusted = bool(uo._checkCapability('trusted'))
        except KeyError:
            trusted = False
        if trusted and ir != ('ok', False):
            ctx.fail(inp, 'an account holding trusted is ignored: %r' % (ir,))
    for (inp, ir, g), mo in zip(impls, ctx.model(wc)):
        if mo is None:
            continue
        mr = wire.r(mo, bool)
        if mr != ir:
            ctx.disagree(inp, mr, ir, 'ircdb.checkIgnored')
    restore_after_gate(B)


# ---------------------------------------------------------------- entry points
CLASSES = {}      # no known finding: C01.a (default set {owner}) is repaired; its witness F_DEFAULT runs first on every check


def run(ctx):
    procs = run_live(ctx)
    try:
        B = bot(all_plugins=False)
        run_enc_cases(ctx, B)
        run_setvalue_cases(ctx, B)
        run_ccc_cases(ctx, B)
        run_ignored_cases(ctx, B)
        run_gate_cases(ctx, B)
    except Exception:
        for p in procs:
            p.kill()
        raise
    collect_live(ctx, procs)


def replay(ctx, inp):
    op = inp.get('op')
    sub = type(ctx)(ctx.pid, ctx.tier, ctx.seed, {'model_ok': False})
    if op == 'setvalue':
        B = bot(all_plugins=False)
        case_setvalue(sub, B, inp['values'], None)
        return sub.failures[0]['detail'] if sub.failures else None
    if op == 'enc':
        B = bot(all_plugins=False)
        case_enc(sub, B, inp, None)
        return sub.failures[0]['detail'] if sub.failures else None
    if op == 'gate':
        B = bot(all_plugins=False)
        text = inp['text']
        if inp.get('spec') is not None:
            install_vgate(B, [(inp['spec'], inp['args'], inp['allow'], False)])
            text = 'vgate c0'
        else:
            install_vgate(B, [])
        impl, calls, outs = gate_case(B, inp['db'], inp['where'], text, inp['args'])
        d = gate_oracle(B, inp, impl, outs)
        restore_after_gate(B)
        return d
    if op == 'live':
        import collections
        B = bot(all_plugins=True)
        cmds = live_commands(B)
        B['cmdcount'] = collections.Counter(c for _, c in cmds)
        rec, fails = live_one(B, inp)
        restore(B)
        return fails[0] if fails else None
    return None


if __name__ == '__main__':
    sys.path.insert(0, os.path.dirname(os.path.abspath(__file__)))
    if len(sys.argv) > 1 and sys.argv[1] == 'worker':
        import c01 as _self
        _self.worker_main(sys.argv[2:])
