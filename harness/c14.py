"""C14 — nested commands run inner-first, left to right, exactly once, in one plugin."""
import inspect, os, re, sys, threading, time
import boot
from lib import wire

sys.path.insert(0, os.path.join(os.path.dirname(os.path.abspath(__file__)), 'tables'))

TABLES = ['T14']
RULE = ('a live bot (Owner + Misc loaded, production paths) receives PRIVMSG command lines; per case synthetic plugins are generated '
        '(overlapping command names, commands named like plugins, one level of sub-callbacks, replying / echoing / noReply / mute / '
        'erroring / raising commands, threaded plugins), instrumented with a call log; random command trees (depth <= 5 quick, '
        'fan-out <= 4, plus flat many-sibling lines up to the 512-byte IRC limit), settings (defaultPlugins, importantPlugins, disabled '
        'commands, nested.maximum, reply.error.detailed, nesting off).  The real tokenizer output is fed to the extracted machine and '
        'spec; call log (plugin, matched command, arguments, main/other thread) and final message are diffed; the post-order law, '
        'at-most-once/exactly-once, single-plugin dispatch, qualified-name, ambiguity and disabled clauses are evaluated directly on '
        'the implementation; replying commands also use irc.reply keywords (action, noLengthCheck, notice, private, to=) as sub-commands at any depth '
        'and at top level: the sticky attributes each command inherits and the kind/target of the final message are diffed too.  Histories: `disable [plugin] cmd` / `enable [plugin] cmd` sent by the owner (and by an ordinary user, who '
        'must be refused) interleaved with command lines of an ordinary user over plugins with overlapping commands; after every '
        'operation the reply, Commands._disabled.d and supybot.commands.disabled are diffed against the model, every call is diffed, '
        'with restarts in between (registry value written out and read back, fresh DisabledCommands built from it as at start-up; the static '
        '`disabled` settings of the other streams also go through that start-up path, with plugin names in several capitalisations); '
        'and directly: a command runs only if the operations the bot reported as succeeded left it enabled (restarts included), and a refused operation '
        'changes nothing.  non-trivial = at least one bracket, a dispatch conflict or a history')
TRUSTED = ['str.lower() is modelled for ASCII only (generated command tokens are ASCII); `L >= maxL` in findCallbacksForArgs is modelled '
           'as a length comparison (both are prefixes of the same list, as the source comment says)',
           'the Python stack capacity is an oracle input (k_budget): inside in_domain (at most T14.STACK_SAFE_SUBS sub-commands = (recursion limit - 200) / 13) '
           'the model runs with STACK_SAFE_SUBS + 1, the assumption stack_holds_domain of the theorem, which the harness re-measures on every run (frames per '
           'sub-command, boundary-size lines in seven shapes); beyond it the budget is the number of sub-commands the implementation completed',
           'reply attributes: action, noLengthCheck, notice, private, to are modelled (sticky per proxy, merged upwards as reply() does); prefixNick is not (private-query traffic); '
           'sub-callbacks (Commands objects inside a plugin) are modelled one level deep; capability checks of _callCommand are not '
           'modelled (default capabilities allow everything for the unregistered sender)',
           'CommandThread scheduling: the harness joins every thread before reading the log; the model has one control point '
           '(a thread is only started from the main thread and the main thread then stops evaluating)']
ASSUMPTIONS = ['world.testing/log.testing off; flood protection (abuse.flood.command*) off so that thousands of lines from one hostmask '
               'are processed; reply.mores off; each synthetic command performs exactly one of reply/noReply/error/raise/nothing',
               'replies longer than one IRC line are compared before truncation (queueMsg argument)']
LEVEL_TEXT = ('Coq theorems over an executable Gallina model of NestedCommandsIrcProxy (proxy chain as a frame stack: __init__/evalArgs/'
              'finalEval/reply/noReply/error, nesting limit, Python-stack budget) and of command dispatch (canonicalName, DisabledCommands, '
              'Commands.getCommand with own-name stripping and sub-callbacks, findCallbacksForArgs with own-name/defaultPlugins/importantPlugins rules): '
              'the machine refines a post-order, left-to-right, stop-at-first-stop functional specification for every command tree and every '
              'dispatch/behaviour function on in_domain (at most T14.STACK_SAFE_SUBS sub-commands, the only exclusion, finding C14.F22) with a refuting witness just beyond it; '
              'trace level: the brackets reach finalEval in post-order (each at most once, sub-commands before their command, siblings left to right; exactly the '
              'post-order enumeration when nothing stops) and the call log is the projection of that trace; plugin-qualified names reach their plugin for every callback '
              'set without a sub-callback named like the plugin (refutation: finding C14.F23); '
              'nesting refusal; dispatch clauses (single plugin, qualified names on a decidable domain + refutation, ambiguity, disabled); '
              'DisabledCommands.add/remove/disabled and Owner.disable/enable as a state machine: after any history the in-memory '
              'table answers like the documented semantics (full statement since the repair of C14.F24) and a command left disabled everywhere is never selected.  '
              'The model is tied to the source by regenerated constants/shape checks and a differential run against a live bot on every check.')
LEVEL_NOTE = ('Trusted: Coq kernel, gen_tables.py/t14.py, extraction + OCaml driver, the Python harness (synthetic plugin generator, canonicaliser); '
              'command behaviours are an arbitrary function in the theorems and a small DSL in the correspondence; Python thread interleaving beyond '
              '"the reply arrives later on another stack" and the exact frame count at which RecursionError strikes are oracles.  '
              'NOT modelled (looked at by the direct oracle or by probes only): commands that reply more than once (finding C14.F25) or both tag '
              'and reply in other orders; proxies built on a proxy by plugins (Utilities.apply, Conditional.cif, Aka/Alias, Scheduler, MessageParser: '
              'probed, behave like ordinary sub-commands, nesting levels add up); plugins that override getCommand/isCommandMethod or answer '
              'invalidCommand (Aka, Factoids, ...): an invalid command always stops the evaluation here; the capability checks of _callCommand '
              '(the sender is one unregistered user with default capabilities); channel traffic and per-channel settings (brackets, pipeSyntax, '
              'reply.*), one network, private queries only; prefixNick; debug.threadAllCommands / CommandProcess; reply.maximumLength truncation and '
              'non-string replies; registry children are matched case-insensitively (finding C14.F27).  Not proved, only checked differentially: '
              'the success flags of Owner.disable/enable (including that Owner\'s own `disable`/`enable` stop working once the table disables them, e.g. after '
              '`config supybot.commands.disabled enable`: mirrored in the executable model of histories, outside the theorems), the values of the sticky reply attributes.  (That a restart preserves the disabled answers after '
              'any history of disable/enable, run-time settings of supybot.commands.disabled and restarts IS proved, for names without special characters '
              "or '.': C14_restart_preserves.)")
TECHNIQUE = 'Coq proof (refinement of a frame-stack machine to a recursive evaluator, strong induction on the number of sub-commands) + regenerated tables + extracted-model differential correspondence on a live bot'
EXPLANATION = 'C14: evaluation machine and dispatch model of src/callbacks.py; theorems in coq/C14/Props.v'

KINDS = {'reply': 0, 'echo': 1, 'silent': 2, 'mute': 3, 'err': 4, 'crash': 5, 'foreign': 6, 'ign': 7}
# a replying kind may carry keyword arguments of irc.reply: 'reply+action', 'echo+private+to', ... (to = the nick TO_NICK)
RFLAGS = ['action', 'nolen', 'notice', 'private', 'to']
TO_NICK = 'bob'


def base(kind):
    return kind.split('+')[0]


def kflags(kind):
    """[action, noLengthCheck, notice, private, to] of a kind string"""
    fl = kind.split('+')[1:]
    return ['action' in fl, 'nolen' in fl, 'notice' in fl, 'private' in fl, TO_NICK if 'to' in fl else '']


def kkwargs(kind):
    fl = kind.split('+')[1:]
    kw = {}
    if 'action' in fl:
        kw['action'] = True
    if 'nolen' in fl:
        kw['noLengthCheck'] = True
    if 'notice' in fl:
        kw['notice'] = True
    if 'private' in fl:
        kw['private'] = True
    if 'to' in fl:
        kw['to'] = TO_NICK
    return kw


def proxy_attrs(irc):
    """the sticky reply attributes of the proxy a command is called with"""
    return [bool(getattr(irc, 'action', None)), bool(getattr(irc, 'noLengthCheck', None)), bool(getattr(irc, 'notice', None)),
            bool(getattr(irc, 'private', None)), getattr(irc, 'to', None) or '']
SENDER = 'u!i@h'
OWNER = 'boss!boss@owner.example'
_S = {}
def _stack_safe():
    """T14.STACK_SAFE_SUBS: lines with more bracketed sub-commands than this are outside in_domain (finding C14.F22)"""
    import t14
    if 'n' not in _SAFE:
        _SAFE['n'] = t14.constants()['stack_safe_subs']
    return _SAFE['n']


_SAFE = {}


# ------------------------------------------------------------------ live bot
def bot():
    if _S:
        return _S
    boot.boot()
    import supybot.conf as conf, supybot.irclib as irclib, supybot.ircmsgs as ircmsgs, supybot.plugin as plugin
    import supybot.callbacks as callbacks, supybot.world as world, supybot.utils as utils
    import t14
    irc = irclib.Irc('test')
    while irc.takeMsg():
        pass
    for name in ('Owner', 'Config', 'Misc'):
        plugin.loadPluginClass(irc, plugin.loadPluginModule(name))
    conf.supybot.abuse.flood.command.setValue(False)
    conf.supybot.abuse.flood.command.invalid.setValue(False)
    conf.supybot.reply.mores.setValue(False)
    conf.supybot.reply.withNoticeWhenPrivate.setValue(False)     # so that notice=True is observable in a query
    LOG = []
    for cb in irc.callbacks:
        def wrap(cb=cb, orig=cb._callCommand):
            def _callCommand(command, irc_, msg, *args, **kw):
                LOG.append(['!foreign', cb.name(), list(command)])
                return orig(command, irc_, msg, *args, **kw)
            return _callCommand
        cb._callCommand = wrap()
    sent = []
    real_queue = irc.queueMsg
    irc.queueMsg = lambda m: sent.append(m)         # observe the reply before wire truncation
    irc.sendMsg = lambda m: sent.append(m)
    import supybot.ircdb as ircdb
    u = ircdb.users.newUser()
    u.name = 'boss'
    u.addCapability('owner')
    u.addHostmask(OWNER)
    ircdb.users.setUser(u)
    C = t14.constants()
    base_defaults = {}
    for k, v in conf.supybot.commands.defaultPlugins._children.items():
        if k != 'importantPlugins':
            base_defaults[k] = v()
    if sorted(base_defaults.items()) != sorted((callbacks.canonicalName(k), v) for k, v in C['defaults']):
        raise RuntimeError('defaultPlugins registered by Owner differ from the table: %r' % base_defaults)
    if conf.supybot.commands.nested.maximum() != C['nested_max']:
        raise RuntimeError('nested.maximum default differs from the table')
    try:
        [][0]
    except IndexError as e:
        indexerr = utils.exnToString(e)
    amb = re.escape(C['ambiguous']).replace('%q', '"([^"]*)"').replace('%L', '(.*)')
    _S.update(irc=irc, conf=conf, ircmsgs=ircmsgs, callbacks=callbacks, world=world, sent=sent, C=C, log=LOG,
              base_defaults=base_defaults, indexerr=indexerr, amb_re=re.compile('^' + re.escape(C['error_prefix']) + amb + '$'),
              base_important=list(conf.supybot.commands.defaultPlugins.importantPlugins()), synth=[])
    return _S


def owner_name(p, g):
    return p if not g else p + '.' + g


def make_plugins(S, plugins):
    """plugins: [{'name', 'threaded', 'cmds': [[name, kind]], 'groups': [[gname, [[name, kind]]]]}]"""
    callbacks, conf, irc, LOG = S['callbacks'], S['conf'], S['irc'], S['log']

    def mkcmd(owner, cname, kind):
        kw = kkwargs(kind)
        kind = base(kind)

        def f(self, irc, msg, args):
            LOG.append([owner, cname, list(args), threading.current_thread() is not threading.main_thread(), proxy_attrs(irc)])
            if kind == 'reply':
                irc.reply('%s.%s(%s)' % (owner, cname, ','.join(args)), **kw)
            elif kind == 'echo':
                irc.reply(' '.join(args), **kw)
            elif kind == 'silent':
                irc.noReply()
            elif kind == 'twice':          # a command that answers in two messages
                irc.reply('one')
                irc.reply('two')
            elif kind == 'slow':           # a threaded command that takes its time
                time.sleep(0.3)
                irc.reply('%s.%s(%s)' % (owner, cname, ','.join(args)))
            elif kind == 'ign':            # what Utilities.ignore does
                msg.tag('ignored')
                irc.noReply()
            elif kind == 'err':
                irc.error('E-' + cname)
            elif kind == 'crash':
                raise ValueError('boom-' + cname)
            # 'mute': nothing
        f.__name__ = cname
        f.__doc__ = 'synthetic'
        return f

    for p in plugins:
        ns = {'threaded': bool(p.get('threaded'))}
        for c, k in p['cmds']:
            ns[c] = mkcmd(p['name'], c, k)
        for g, gcmds in p.get('groups', []):
            ns[g] = type(g, (callbacks.Commands,), dict((c, mkcmd(owner_name(p['name'], g), c, k)) for c, k in gcmds))
        cls = type(p['name'], (callbacks.Plugin,), ns)
        cb = cls(irc)
        conf.registerPlugin(p['name'])
        irc.addCallback(cb)
        S['synth'].append(cb)


def remove_plugins(S):
    for cb in S['synth']:
        S['irc'].removeCallback(cb.name())
        try:
            S['conf'].supybot.plugins.unregister(cb.name())
        except Exception:
            pass
    del S['synth'][:]


def raw_methods(S, obj):
    """names that isCommandMethod would accept if nothing were disabled and names were canonical"""
    out = []
    for name in dir(obj):
        try:
            m = getattr(obj, name)
        except Exception:
            continue
        if inspect.ismethod(m) and inspect.getargs(m.__func__.__code__)[0] == obj.commandArgs:
            out.append(name)
    return out


def plugin_table(S):
    """the dispatch view of irc.callbacks, in order, read off the live objects"""
    tab = []
    for cb in S['irc'].callbacks:
        if not hasattr(cb, 'getCommand'):
            continue
        groups = [[g.name(), raw_methods(S, g)] for g in cb.cbs]
        tab.append([cb.name(), raw_methods(S, cb), groups, bool(cb.threaded)])
    return tab


def restart_disabled(S):
    """what a restart does to the disabled-commands table: supybot.commands.disabled is written out (str) and read back
    (set) as the registry does on flush/load, and callbacks builds a fresh DisabledCommands() from it at import"""
    conf, callbacks = S['conf'], S['callbacks']
    v = conf.supybot.commands.disabled
    v.set(str(v))
    callbacks.Commands._disabled = callbacks.DisabledCommands()


def apply_settings(S, st):
    conf, callbacks = S['conf'], S['callbacks']
    callbacks.Commands._disabled.d.clear()
    if hasattr(callbacks.Commands._disabled, 'everywhere'):
        callbacks.Commands._disabled.everywhere.clear()
    conf.supybot.commands.disabled().clear()
    for cmd, plug in st.get('disabled', []):
        # an entry of supybot.commands.disabled in the configuration file ('command' or 'Plugin.command') ...
        conf.supybot.commands.disabled().add(cmd if plug is None else '%s.%s' % (plug, cmd))
    restart_disabled(S)      # ... read when the bot starts: DisabledCommands.__init__
    dp = conf.supybot.commands.defaultPlugins
    for k in list(dp._children.keys()):
        if k != 'importantPlugins' and k not in S['base_defaults']:
            dp.unregister(k)
    for k, v in S['base_defaults'].items():
        dp.get(k).set(v)
    import supybot.registry as registry
    for cmd, plug in st.get('defaults', []):
        # Owner.registerDefaultPlugin
        c = callbacks.canonicalName(cmd)
        conf.registerGlobalValue(dp, c, registry.String(plug, ''))
        dp.get(c).set(plug)
    dp.importantPlugins.setValue(set(st.get('important', S['base_important'])))
    conf.supybot.commands.nested.maximum.setValue(st.get('maxnest', S['C']['nested_max']))
    conf.supybot.commands.nested.setValue(bool(st.get('nested', True)))
    conf.supybot.reply.error.detailed.setValue(bool(st.get('detailed', False)))


def canon_outcome(S, msgs):
    """messages queued by the bot -> canonical outcome (same shape as the model's vOutcome, decoded)"""
    C = S['C']
    if not msgs:
        return ['none']
    out = []
    for m in msgs:
        text = m.args[1]
        if text.startswith(C['error_prefix']) and text != C['empty_msg']:
            mm = S['amb_re'].match(text)
            if mm and mm.group(1) == mm.group(3):
                names = re.split(r', and |, | and ', mm.group(2))
                out.append(['ambiguous', mm.group(1).split(' '), sorted(names)])
            elif re.match(r'^Error: ".*" is not a valid command\.$', text) or \
                    re.match(r'^Error: The ".*" plugin is loaded, but there is no command named ".*" in it\.', text):
                out.append(['invalid'])
            else:
                out.append(['error', text])
        else:
            kind = 'notice' if m.command == 'NOTICE' else 'privmsg'
            mm = re.match('^\x01ACTION ?(.*)\x01$', text, re.S)
            if mm:
                kind, text = 'action', mm.group(1)
            out.append(['reply', text])
            S['meta'] = [kind, m.args[0]]
    return out[0] if len(out) == 1 else ['multiple', out]


def join_threads(S):
    for _ in range(50):
        ts = [t for t in threading.enumerate() if t is not threading.current_thread() and isinstance(t, S['world'].SupyThread)]
        if not ts:
            return
        for t in ts:
            t.join(10)


def impl_run(S, line, sender=SENDER):
    irc = S['irc']
    del S['log'][:]
    del S['sent'][:]
    S['meta'] = None
    irc.feedMsg(S['ircmsgs'].privmsg('test', line, prefix=sender))
    join_threads(S)
    S['attrs'] = [e[4] for e in S['log'] if e[0] != '!foreign']       # inherited reply attributes, per executed command
    return [list(e[:4]) if e[0] != '!foreign' else list(e) for e in S['log']], canon_outcome(S, list(S['sent']))


# ------------------------------------------------------------------ model side
def enc_tokens(toks):
    return [[0, t] if isinstance(t, str) else [1, enc_tokens(t)] for t in toks]


def count_subs(toks):
    return sum(1 + count_subs(t) for t in toks if isinstance(t, list))


def model_case(S, inp, table, toks, budget):
    st = inp['settings']
    beh = []
    for p in inp['plugins']:
        for c, k in p['cmds']:
            beh.append([p['name'], '', c, KINDS[base(k)], kflags(k)])
        for g, gc in p.get('groups', []):
            for c, k in gc:
                beh.append([p['name'], g, c, KINDS[base(k)], kflags(k)])
    env = [table, [[c, wire.opt(p)] for c, p in st.get('disabled', [])], [[S['callbacks'].canonicalName(c), p] for c, p in st.get('defaults', [])],
           sorted(st.get('important', S['base_important']))]
    behs = [beh, bool(st.get('detailed', False)), S['conf'].supybot.replies.error(), S['indexerr']]
    return [0, [env, behs, st.get('maxnest', S['C']['nested_max']), budget, enc_tokens(toks)]]


def dec_outcome(v):
    tag = v[0]
    if tag == 0:
        return ['reply', wire.s(v[1])]
    if tag == 1:
        t = wire.s(v[1])
        return ['error', t] if t else ['none']
    if tag in (2, 3, 7):
        return ['none']           # noReply at the root / stalled / abandoned: nothing is sent
    if tag == 4:
        return ['ambiguous', wire.ls(v[1]), sorted(wire.ls(v[2]))]
    if tag == 5:
        return ['invalid']
    if tag == 8:
        return ['foreign']
    return ['?', v]


def dec_flags(f):
    return [bool(f[0]), bool(f[1]), bool(f[2]), bool(f[3]), wire.s(f[4])]


def dec_status(v):
    log = [[wire.s(c[0]), wire.ls(c[1]), wire.ls(c[2]), bool(c[3])] for c in v[1]]
    _M['attrs'] = [dec_flags(c[4]) for c in v[1]]
    _M['meta'] = None
    if v[0] != 0:
        return log, ['out-of-fuel'], None
    out = dec_outcome(v[2])
    _M['raw'] = out
    if out[0] == 'reply':
        ra = dec_flags(v[3])           # the attributes the root command's reply is made with -> _makeReply
        kind = 'action' if ra[0] else ('notice' if ra[2] else 'privmsg')
        _M['meta'] = [kind, ra[4] if (ra[3] and ra[4]) else SENDER.split('!')[0]]
        if out[1] == '' and not ra[0]:
            out = ['reply', _S['C']['empty_msg']]
    return log, out, v[2][0]


_M = {}


def resolve_entry(S, table, plug, command):
    """(plugin, matched command) -> (owner label, method) as the synthetic method logs itself: Commands.getCommandMethod"""
    cn = S['callbacks'].canonicalName
    row = [r for r in table if r[0] == plug][0]
    groups = {cn(g[0]): g[0] for g in row[2]}
    cmd = list(command)
    if cmd[0] in groups:
        return owner_name(plug, groups[cmd[0]]), cmd[-1]
    if len(cmd) > 1:
        cmd = cmd[1:]
        if cmd[0] in groups:
            return owner_name(plug, groups[cmd[0]]), cmd[-1]
    return plug, cmd[-1]


# ------------------------------------------------------------------ direct oracle
def render_line(toks, br='[]'):
    out = []
    for t in toks:
        if isinstance(t, list):
            out.append(br[0] + render_line(t, br) + br[1])
        elif t == '' or re.search(r'[\s\[\]"|]', t):
            out.append('"' + t.replace('\\', '\\\\').replace('"', '\\"') + '"')
        else:
            out.append(t)
    return ' '.join(out)


class Unspecified(Exception):
    pass


def oracle(S, inp, toks, ilog, iout, table):
    """the property text evaluated on the implementation's observable behaviour.  Returns failure detail or None.
    Expected post-order evaluation is recomputed from the tokens using only each call's *observed* successor
    relation: the i-th call must be the next unevaluated innermost-leftmost bracket whose string arguments are
    exactly the replies of its own sub-commands."""
    kinds = {}
    for p in inp['plugins']:
        for c, k in p['cmds']:
            kinds[(p['name'], c)] = base(k)
        for g, gc in p.get('groups', []):
            for c, k in gc:
                kinds[(owner_name(p['name'], g), c)] = base(k)
    st = inp['settings']
    maxnest = st.get('maxnest', S['C']['nested_max'])
    cn = S['callbacks'].canonicalName
    disabled = st.get('disabled', [])
    # clause: a disabled command never runs
    for owner, c, args, thr in ilog:
        for dc, dp in disabled:
            if cn(dc) == c and (dp is None or cn(dp) == cn(owner)):
                return 'disabled command %s ran in %s' % (c, owner)
    if iout[0] == 'multiple':
        return 'several messages were sent: %r' % (iout[1],)
    pos = [0]
    state = {'stop': None}

    def reply_of(owner, c, args):
        k = kinds.get((owner, c))
        if k == 'reply':
            return ('val', '%s.%s(%s)' % (owner, c, ','.join(args)))
        if k == 'echo':
            return ('val', ' '.join(args))
        if k == 'slow':
            return ('val', '%s.%s(%s)' % (owner, c, ','.join(args)))
        if k == 'twice':
            return ('val', 'one')
        if k in ('silent', 'ign'):     # an ignore-style sub-command contributes nothing, like any noReply
            return ('val', None)
        if k == 'crash' and not st.get('detailed', False):
            return ('val', S['conf'].supybot.replies.error())
        return ('stop', k)

    def ev(node, depth):
        """returns ('val', s|None) or ('stop', why); consumes log entries in post-order"""
        if maxnest and depth > maxnest:
            return ('stop', 'toodeep')
        if not node:
            return ('stop', 'invalid')
        strs = []
        for a in node:
            if isinstance(a, list):
                r = ev(a, depth + 1)
                if r[0] == 'stop':
                    return r
                if r[1] is not None:
                    strs.append(r[1])
            else:
                strs.append(a)
        if not strs:
            # a bracket all of whose sub-commands stayed silent: the property text does not say what an empty
            # command is (the pinned code raises IndexError inside the last sub-command); nothing is demanded
            raise Unspecified()
        # which command ran for this bracket?  the next log entry must be it, called with a suffix of strs
        if pos[0] >= len(ilog):
            return ('stop', 'norun')
        owner, c, args, thr = ilog[pos[0]]
        n = len(strs) - len(args)
        if n < 1 or n > 3 or strs[n:] != args or cn(strs[n - 1]) != c:
            return ('stop', 'norun')
        pos[0] += 1
        return reply_of(owner, c, args)

    try:
        r = ev(toks, 0)
    except Unspecified:
        return None
    if pos[0] != len(ilog):
        e = ilog[pos[0]]
        return ('call #%d %s.%s%r is not the next sub-command in inner-first left-to-right order (or its arguments are not '
                'the replies of its sub-commands)' % (pos[0] + 1, e[0], e[1], e[2]))
    # every bracket evaluated exactly once unless something legitimately stopped the evaluation
    if r[0] == 'val':
        want = ['none'] if r[1] is None else ['reply', r[1] if r[1] != '' else S['C']['empty_msg']]
        if r[1] == '' and S.get('meta') and S['meta'][0] == 'action':
            want = ['reply', '']           # _makeReply lets an empty ACTION through
        if iout != want:
            return 'all sub-commands replied, but the final message is %r instead of %r' % (iout, want)
    else:
        why = r[1]
        if why == 'toodeep':
            if iout != ['error', S['C']['error_prefix'] + S['C']['too_deep']]:
                return 'nesting deeper than %d was not refused: %r' % (maxnest, iout)
        elif why == 'norun':
            # the next bracket's command did not run: legitimate only when the bot reported why
            if iout[0] not in ('ambiguous', 'invalid'):
                return ('evaluation stopped after %d call(s) without any report: the remaining sub-commands and the enclosing '
                        'command never ran (final: %r)' % (len(ilog), iout))
        elif why == 'err':
            if iout[0] != 'error':
                return 'a sub-command called irc.error but the final message is %r' % (iout,)
        elif why == 'crash':
            if iout[0] != 'error':
                return 'exception with reply.error.detailed, final message %r' % (iout,)
        elif why == 'mute':
            if iout != ['none']:
                return 'mute sub-command, yet a message was sent: %r' % (iout,)
    return None


def dispatch_oracle(S, inp, toks, ilog, iout, table):
    """single-plugin / qualified / ambiguous clauses for a flat command line (no brackets)"""
    if any(isinstance(t, list) for t in toks) or not toks:
        return None
    cn = S['callbacks'].canonicalName
    if len(ilog) > 1:
        return 'a flat command line invoked %d commands' % len(ilog)
    if iout[0] == 'ambiguous' and ilog:
        return 'ambiguity reported but %s.%s ran' % (ilog[0][0], ilog[0][1])
    # qualified: "<plugin> <command>" where the plugin has that (enabled, canonical) top-level command
    if len(toks) >= 2:
        st = inp['settings']
        for p in inp['plugins']:
            if cn(p['name']) == cn(toks[0]) and any(c == cn(toks[1]) for c, _ in p['cmds']):
                c = cn(toks[1])
                if any(cn(dc) == c and (dp is None or cn(dp) == cn(p['name'])) for dc, dp in st.get('disabled', [])):
                    continue
                if not ilog or ilog[0][0] != p['name'] or ilog[0][1] != c:
                    return 'plugin-qualified "%s %s" did not reach %s.%s: ran %r, final %r' % (toks[0], toks[1], p['name'], c, ilog, iout)
    return None


# ------------------------------------------------------------------ classes of known findings
def _line_tokens(S, inp):
    apply_settings(S, inp['settings'])
    return S['callbacks'].tokenize(inp['line'])


def cls_stack(inp):
    if 'line' not in inp:
        return False
    S = bot()
    try:
        return count_subs(_line_tokens(S, inp)) > _stack_safe()
    except Exception:
        return False


def cls_group_shadow(inp):
    """a sub-callback (Commands object inside a plugin) is named like a loaded plugin (another one or its own)"""
    S = bot()
    cn = S['callbacks'].canonicalName
    names = {cn(p['name']) for p in inp['plugins']}
    return any(cn(g) in names for p in inp['plugins'] for g, _ in p.get('groups', []))


def _all_cmds(inp):
    for p in inp.get('plugins', []):
        for c, k in p['cmds']:
            yield c, k
        for g, gc in p.get('groups', []):
            for c, k in gc:
                yield c, k


def cls_multi_reply(inp):
    """a sub-command that replies more than once (the model's commands reply at most once)"""
    return any(base(k) == 'twice' for c, k in _all_cmds(inp))


def cls_importantplugins(inp):
    """a command whose canonical name is that of the registry entry supybot.commands.defaultPlugins.importantPlugins"""
    return any(c.lower() == 'importantplugins' for c, k in _all_cmds(inp))


def unmodelled(inp):
    """inputs the Gallina model does not represent: only the direct oracle looks at them"""
    return cls_multi_reply(inp) or cls_importantplugins(inp) or any(base(k) == 'slow' for c, k in _all_cmds(inp))


CLASSES = {'many_subcommands_stack': cls_stack, 'subcallback_named_like_plugin': cls_group_shadow,
           'multi_reply_subcommand': cls_multi_reply, 'command_named_importantplugins': cls_importantplugins}


# ------------------------------------------------------------------ histories of disable / enable / calls
def snapshot(S):
    """(commands disabled everywhere, [command, plugins]) of the table behind Commands.isDisabled, and the registry list"""
    cn = S['callbacks'].canonicalName
    t = S['callbacks'].Commands._disabled
    per = sorted([cn(k), sorted(v)] for k, v in t.d.items() if v is not None)
    if hasattr(t, 'everywhere'):
        everywhere = sorted(t.everywhere)
    else:       # representation before the repair of C14.F24: d[command] is None
        everywhere = sorted(cn(k) for k, v in t.d.items() if v is None)
    return [everywhere, per], sorted(S['conf'].supybot.commands.disabled())


def step_line(st):
    if st['op'] == 'call':
        return st['line']
    if st['op'] == 'restart':
        return '<restart>'
    if st['op'] == 'config':
        return 'config supybot.commands.disabled ' + ' '.join(st['names'])
    return ' '.join([st['op']] + ([st['plugin']] if st.get('plugin') else []) + [st['cmd']])


def run_history(ctx, S, inp, kind, with_model=True):
    """a history of `disable [plugin] cmd` / `enable [plugin] cmd` (owner, or an ordinary user who must be refused)
    interleaved with command lines of an ordinary user"""
    remove_plugins(S)
    make_plugins(S, inp['plugins'])
    apply_settings(S, {})
    table = plugin_table(S)
    cn = S['callbacks'].canonicalName
    success = S['conf'].supybot.replies.success()
    ctx.case(kind, inp)
    G, P = set(), set()          # what the operations that SUCCEEDED (as reported by the bot) left disabled
    prev = snapshot(S)
    obs, wsteps, fail = [], [], None
    for i, st in enumerate(inp['steps']):
        if st['op'] == 'call':
            toks = S['callbacks'].tokenize(st['line'])
            ilog, iout = impl_run(S, st['line'])
            runs = [e for e in ilog if e[0] != '!foreign']
            for owner, c, args, thr in runs:
                if c in G or (cn(owner), c) in P:
                    fail = fail or ('step %d `%s`: %s.%s ran although the operations that succeeded so far left it disabled '
                                    '(everywhere: %s, per plugin: %s)' % (i + 1, st['line'], owner, c, sorted(G), sorted(P)))
            obs.append(['call', ilog, iout])
            wsteps.append([2, toks])
            if any(isinstance(t, list) for t in toks):
                raise ValueError('history call lines must be flat')
        elif st['op'] == 'config':
            # another way to the same list: the owner sets the registry value with the Config plugin
            ilog, iout = impl_run(S, step_line(st), OWNER)
            if iout == ['reply', success]:
                G = {cn(n) for n in st['names'] if '.' not in n}
                P = {(cn(n.split('.', 1)[0]), cn(n.split('.', 1)[1])) for n in st['names'] if '.' in n}
            else:
                fail = fail or 'step %d `%s` by the owner was refused: %r' % (i + 1, step_line(st), iout)
            prev = snapshot(S)
            obs.append(['op', True, prev[0], prev[1]])
            wsteps.append([4, list(st['names'])])
        elif st['op'] == 'restart':
            restart_disabled(S)
            prev = snapshot(S)
            obs.append(['op', True, prev[0], prev[1]])
            wsteps.append([3])
        else:
            by_owner = st.get('by', 'owner') == 'owner'
            ilog, iout = impl_run(S, step_line(st), OWNER if by_owner else SENDER)
            ok = iout == ['reply', success]
            now = snapshot(S)
            sem = lambda sn: ([sn[0][0], [e for e in sn[0][1] if e[1] != []]], sn[1])    # an empty plugin set disables nothing
            if not ok and sem(now) != sem(prev):
                fail = fail or ('step %d `%s` was refused (%r) but changed the disabled tables: %r -> %r'
                                % (i + 1, step_line(st), iout, prev, now))
            if ok and not by_owner:
                fail = fail or 'step %d `%s` by an ordinary user succeeded' % (i + 1, step_line(st))
            if ok:
                c, p = cn(st['cmd']), (cn(st['plugin']) if st.get('plugin') else None)
                if st['op'] == 'disable':
                    (G.add(c) if p is None else P.add((p, c)))
                else:
                    (G.discard(c) if p is None else P.discard((p, c)))
            prev = now
            if by_owner:
                obs.append(['op', ok, now[0], now[1]])
                plug = None
                if st.get('plugin'):
                    cb = S['irc'].getCallback(st['plugin'])
                    plug = cb.name() if cb else None
                wsteps.append([0 if st['op'] == 'disable' else 1, wire.opt(plug), cn(st['cmd'])])
    if fail:
        ctx.fail(inp, fail)
    if not with_model or unmodelled(inp):
        return None
    beh = [[p['name'], '', c, KINDS[base(k)], kflags(k)] for p in inp['plugins'] for c, k in p['cmds']]
    env = [table, [], [], sorted(S['base_important'])]
    behs = [beh, False, S['conf'].supybot.replies.error(), S['indexerr']]
    return {'hist': True, 'inp': inp, 'table': table, 'obs': obs, 'wire': [3, [env, behs, wsteps]]}


def finish_history(ctx, S, r, o):
    inp, table = r['inp'], r['table']
    if len(o) != len(r['obs']):
        ctx.disagree(inp, len(o), len(r['obs']), 'history length')
        return
    for i, (ob, mo) in enumerate(zip(r['obs'], o)):
        if ob[0] == 'op':
            mem = [sorted(wire.ls(mo[1][0])), sorted([wire.s(kv[0]), sorted(wire.ls(kv[1]))] for kv in mo[1][1])]
            m = [bool(mo[0]), mem, sorted(wire.ls(mo[2]))]
            if m != ob[1:]:
                ctx.disagree(inp, ['step', i + 1] + m, ['step', i + 1] + ob[1:], 'disable/enable: success, Commands._disabled.d, supybot.commands.disabled')
                return
        else:
            mlog, mout, tag = dec_status(mo)
            ilog, iout = ob[1], ob[2]
            if mout == ['foreign'] or any(e[0] == '!foreign' for e in ilog):
                continue
            res = [list(resolve_entry(S, table, e[0], e[1])) + [e[2], e[3]] for e in mlog]
            if res != ilog or mout != iout:
                ctx.disagree(inp, ['step', i + 1, res, mout], ['step', i + 1, ilog, iout], 'history: call log + final message')
                return



# ------------------------------------------------------------------ one case
def run_case(ctx, S, inp, kind, with_model=True):
    """phase A: run one case on the implementation, evaluate the direct oracle; returns the record for the model batch"""
    remove_plugins(S)
    make_plugins(S, inp['plugins'])
    apply_settings(S, inp['settings'])
    table = plugin_table(S)
    try:
        toks = S['callbacks'].tokenize(inp['line'])
    except SyntaxError:
        toks = None
    ilog, iout = impl_run(S, inp['line'])
    foreign = any(e[0] == '!foreign' for e in ilog)
    nsub = count_subs(toks) if toks is not None else 0
    ctx.case(kind, inp, nontrivial=nsub > 0 or kind.startswith('dispatch'))
    if toks is None:
        if [e for e in ilog if e[0] != '!foreign']:
            ctx.fail(inp, 'the tokenizer rejected the line (SyntaxError) but commands ran: %r' % (ilog,))
        return None
    if not inp['settings'].get('nested', True) and any(isinstance(t, list) for t in toks):
        ctx.fail(inp, 'nesting disabled but the tokenizer produced a bracketed sub-command: %r' % (toks,))
    d = None if foreign else (oracle(S, inp, toks, ilog, iout, table) or dispatch_oracle(S, inp, toks, ilog, iout, table))
    if d:
        ctx.fail(inp, d)
    if not with_model or unmodelled(inp):
        return None
    # Python-stack oracle: when the implementation silently abandoned a long line, the budget is what it completed
    # in the domain the model runs with exactly the stack the theorem assumes (stack_holds_domain: STACK_SAFE_SUBS + 1
    # proxies); beyond it the budget is what the implementation turned out to hold
    if nsub <= _stack_safe():
        budget = _stack_safe() + 1
    else:
        budget = len(ilog) + 1 if (iout == ['none'] and len(ilog) < nsub) else nsub + 5
    return {'inp': inp, 'table': table, 'toks': toks, 'ilog': ilog, 'iout': iout, 'foreign': foreign, 'nsub': nsub, 'budget': budget,
            'iattrs': S['attrs'], 'imeta': S['meta'],
            'wire': model_case(S, inp, table, toks, budget)}


def finish_cases(ctx, S, recs):
    """phase B: the extracted machine and spec on the same tokens, batched; diff"""
    recs = [r for r in recs if r is not None]
    outs = ctx.model([r['wire'] for r in recs])
    for r, o in zip(recs, outs):
        if o is None:
            continue
        if r.get('hist'):
            finish_history(ctx, S, r, o)
            continue
        inp, table, ilog, iout = r['inp'], r['table'], r['ilog'], r['iout']
        mlog, mout, tag = dec_status(o[0])
        slog = [[wire.s(c[0]), wire.ls(c[1]), wire.ls(c[2])] for c in o[1]]
        sout = dec_outcome(o[2])
        res = lambda log: [list(resolve_entry(S, table, e[0], e[1])) + [e[2], e[3]] for e in log]
        if mout == ['foreign'] or r['foreign']:
            # a command of Owner/Misc was selected: everything up to and including that selection is compared
            k = [i for i, e in enumerate(ilog) if e[0] == '!foreign']
            if not (mout == ['foreign'] and k and ilog[:k[0]] == res(mlog[:-1]) and ilog[k[0]][1:] == [mlog[-1][0], mlog[-1][1]]):
                ctx.disagree(inp, [mlog, mout], [ilog, iout], 'selection of a real plugin command')
            continue
        mattrs, mmeta, mraw = _M['attrs'], _M['meta'], _M['raw']
        if res(mlog) != ilog or mout != iout:
            ctx.disagree(inp, [res(mlog), mout, len(mlog)], [ilog, iout, len(ilog)], 'call log + final message')
        elif mattrs != r['iattrs'] or (mout[0] == 'reply' and mmeta != r['imeta']):
            ctx.disagree(inp, [mattrs, mmeta], [r['iattrs'], r['imeta']],
                         'reply attributes inherited by each command (action, noLengthCheck, notice, private, to) / kind and target of the final message')
        # the executable spec agrees with the machine whenever the budget suffices (theorem C14_eval_refines)
        if r['budget'] > r['nsub'] and ([e[:3] for e in mlog] != slog or mraw != sout):
            ctx.disagree(inp, [mlog, mout], [slog, sout], 'machine vs spec (model-internal)')


# ------------------------------------------------------------------ generators
PNAMES = ['Al', 'Be', 'Ga', 'De', 'Foo_Bar', 'Ep']
CNAMES = ['a', 'b', 'c', 'e', 'dup', 'al', 'be', 'ga', 'list', 'x1']
BEHS = ['reply', 'reply', 'reply', 'echo', 'echo', 'silent', 'ign', 'ign', 'mute', 'err', 'crash',
        'reply+action', 'echo+action', 'echo+nolen', 'reply+notice', 'echo+private', 'echo+to', 'reply+private+to', 'echo+notice+action']
WORDS = ['1', 'x', 'Hello', 'a', 'dup', 'é', 'A-B', 'al', 'be', 'Al', 'foo_', '-', 'two words', '', 'ß', 'E', 'DUP', 'a_', 'b-']


def gen_plugins(rng, hostile=False):
    n = rng.randint(1, 4)
    names = rng.sample(PNAMES, n)
    plugins = []
    for nm in names:
        cmds = []
        for c in rng.sample(CNAMES, rng.randint(1, 5)):
            if c == 'list' and not hostile:
                continue
            cmds.append([c, rng.choice(BEHS)])
        if not cmds:
            cmds = [['a', 'reply']]
        groups = []
        if rng.random() < (0.35 if hostile else 0.15):
            gname = rng.choice(['grp', 'sub'] + ([x.lower() for x in names] if hostile else []))
            if gname not in [c for c, _ in cmds]:
                groups.append([gname, [[c, rng.choice(BEHS)] for c in rng.sample(CNAMES[:5], rng.randint(1, 3))]])
        plugins.append({'name': nm, 'threaded': rng.random() < 0.25, 'cmds': cmds, 'groups': groups})
    return plugins


def gen_settings(rng, plugins):
    st = {}
    allc = sorted({c for p in plugins for c, _ in p['cmds']})
    if rng.random() < 0.3:
        st['disabled'] = []
        for _ in range(rng.randint(1, 2)):
            c = rng.choice(allc)
            pn = rng.choice([None] + [p['name'] for p in plugins])
            st['disabled'].append([rng.choice([c, c.upper(), c[0] + '-' + c[1:]]), pn if pn is None else rng.choice([pn, pn, pn.lower(), pn.upper()])])
    if rng.random() < 0.3:
        st['defaults'] = [[rng.choice(allc), rng.choice([p['name'] for p in plugins] + ['Nosuch', 'misc'])]]
    if rng.random() < 0.3:
        st['important'] = sorted(set(rng.sample([p['name'] for p in plugins] + ['Misc', 'foo-bar'], rng.randint(1, 2))))
    if rng.random() < 0.3:
        st['maxnest'] = rng.choice([1, 1, 2, 3, 4])
    if rng.random() < 0.3:
        st['detailed'] = True
    return st


def gen_tree(rng, plugins, depth, maxdepth, fan):
    """a bracket: command name (possibly qualified) followed by arguments"""
    p = rng.choice(plugins)
    toks = []
    r = rng.random()
    if r < 0.08 and depth < maxdepth:
        toks.append(gen_tree(rng, plugins, depth + 1, maxdepth, fan))      # command name computed by a sub-command
    else:
        if r < 0.35:
            toks.append(rng.choice([p['name'], p['name'].lower(), p['name'].upper()]))
        if p.get('groups') and rng.random() < 0.4:
            g = p['groups'][0]
            toks.append(g[0])
            toks.append(rng.choice(g[1])[0])
        else:
            c = rng.choice(p['cmds'])[0]
            toks.append(rng.choice([c, c, c, c.upper(), c[0] + '_' + c[1:]]))
    for _ in range(rng.randint(0, fan)):
        if depth < maxdepth and rng.random() < 0.55:
            toks.append(gen_tree(rng, plugins, depth + 1, maxdepth, fan))
        else:
            toks.append(rng.choice(WORDS))
    if rng.random() < 0.03:
        toks.append([])
    return toks


def fits(line):
    return len(('PRIVMSG test :' + line).encode()) < 500


CORPUS = [
    # plain nesting, silent / mute / error in the second of three siblings, threaded inner command
    ({'plugins': [{'name': 'Al', 'cmds': [['a', 'reply'], ['e', 'echo'], ['s', 'silent'], ['m', 'mute'], ['x', 'err'], ['c', 'crash'], ['dup', 'reply']]},
                  {'name': 'Be', 'threaded': True, 'cmds': [['b', 'reply'], ['dup', 'reply'], ['al', 'reply']]}],
      'settings': {}},
     ['a 1 2', 'a [a 1] [b 2] 3', 'a [s] [a] x', 'a [a] [m] [a]', 'a [a] [x] [a]', 'a [c] z', 'dup', 'al dup', 'be dup 1', 'AL DUP', 'nosuch',
      'a []', 'a [nosuch]', '[e a] 5', 'e', 'e [e]', 's', '[s]', 'a [[s]]', 'b [b [a]]', 'e [e ""] x', 'al', 'a [b [a [b]]] [b]', 'e [s] [s]',
      'e [e [e [e [e [e [e [e [e [e [e 1]]]]]]]]]]', 'e [e [e [e [e [e [e [e [e [e [e [e 1]]]]]]]]]]]',
      'a [a 1] [e [e [e [e [e [e [e [e [e [e [e [e 1]]]]]]]]]]]]', 'list', 'help a', 'a [dup]', 'a-', 'A_ 1', '-a']),
    # sub-commands replying with action= / noLengthCheck= / notice= / private= / to=: the text still becomes the argument, at any depth
    ({'plugins': [{'name': 'Al', 'cmds': [['echo', 'echo'], ['act', 'echo+action'], ['nl', 'echo+nolen'], ['nt', 'echo+notice'], ['pv', 'echo+private'],
                                          ['tob', 'echo+to'], ['pvto', 'reply+private+to'], ['a', 'reply'], ['s', 'silent'], ['ign', 'ign']]},
                  {'name': 'Be', 'threaded': True, 'cmds': [['tact', 'echo+action'], ['b', 'reply']]}],
      'settings': {}},
     ['echo x [act hello] y', 'a [a 1] [act 2] [a 3]', 'act 1', 'echo [echo [act a] b] c', 'echo [nl x] y', 'echo [nt x] [pv y] [tob z]',
      'echo [pvto 1] 2', 'pvto 1', 'nt 1', 'pv 1', 'tob 1', 'nl 1', 'echo [tact 1] [act 2] 3', 'echo [act 1] [tact 2] [b]', 'act', 'echo [act]',
      'echo [s [act x]] y', 'echo [[s [act x]]] y', '[[s [act x]]]', 'echo [ign] [act 1] [nt 2]', 'echo [act [nt [pv x]]]', 'a [act 1] [s] [nl 2]']),
    ({'plugins': [{'name': 'Al', 'cmds': [['echo', 'echo'], ['ign', 'ign'], ['a', 'reply'], ['s', 'silent'], ['x', 'err']]},
                  {'name': 'Be', 'threaded': True, 'cmds': [['b', 'reply'], ['ti', 'ign']]}],
      'settings': {}},
     ['echo [ign] [echo foo] bar', 'echo [echo foo] [ign] bar', 'echo [echo foo] bar [ign]', 'echo [ign] [ign] [echo foo] [ign] [a] bar',
      'echo [ign] [a [ign] [echo x] y] [echo z]', 'echo [a [echo 1] [ign]] [echo 2]', 'echo [ign] [b 1] [echo 2]', 'echo [ti] [echo foo] [b]',
      'echo [ign] [s] [echo foo]', 'echo [s] [ign] [echo foo]', 'ign', '[ign]', 'echo [[ign]] [echo foo]', 'echo [ign] [x] [echo foo]',
      'echo [ign x y] [echo foo]', 'a [ign] [ign]']),
    ({'plugins': [{'name': 'Al', 'cmds': [['a', 'reply'], ['c', 'crash'], ['s', 'silent']]}], 'settings': {'detailed': True}},
     ['a [c] z', '[s]', 'a [[s]] y']),
    ({'plugins': [{'name': 'Al', 'cmds': [['a', 'reply'], ['dup', 'reply']]}, {'name': 'Be', 'cmds': [['dup', 'reply'], ['b', 'reply']]},
                  {'name': 'Ga', 'cmds': [['dup', 'echo']]}],
      'settings': {'defaults': [['dup', 'Be']], 'disabled': [['a', None], ['b', 'be']]}},
     ['dup 1', 'al dup 1', 'ga dup 1', 'a', 'al a', 'b', 'be b', 'a [dup 1]']),
    ({'plugins': [{'name': 'Al', 'cmds': [['dup', 'reply']]}, {'name': 'Be', 'cmds': [['dup', 'reply']]}, {'name': 'Ga', 'cmds': [['dup', 'echo']]}],
      'settings': {'important': ['Ga']}}, ['dup 1']),
    ({'plugins': [{'name': 'Al', 'cmds': [['dup', 'reply']]}, {'name': 'Be', 'cmds': [['dup', 'reply']]}, {'name': 'Ga', 'cmds': [['dup', 'echo']]}],
      'settings': {'important': ['Ga', 'Be']}}, ['dup 1']),
    ({'plugins': [{'name': 'Al', 'cmds': [['a', 'reply']], 'groups': [['grp', [['a', 'reply'], ['b', 'echo']]]]}], 'settings': {}},
     ['grp a 1', 'al grp a 1', 'grp grp a', 'grp b [al a]', 'grp', 'al grp']),
    ({'plugins': [{'name': 'Al', 'cmds': [['a', 'reply']]}], 'settings': {'nested': False}}, ['a [a 1] [b', 'a [a]']),
    ({'plugins': [{'name': 'Al', 'cmds': [['a', 'reply']]}], 'settings': {'maxnest': 1}}, ['a [a]', 'a [a [a]]', 'a [a] [a [a]]']),
]

# witnesses of the findings (also in findings/C14.json)
W_STACK = {'plugins': [{'name': 'Al', 'cmds': [['e', 'echo'], ['n', 'reply']]}], 'settings': {}, 'line': 'e ' + ' '.join(['[n]'] * 100)}
# C14.F25 (known): the second reply of `tw` overwrites the slot of the still running threaded sibling
W_TWICE = {'plugins': [{'name': 'Al', 'cmds': [['e', 'echo'], ['tw', 'twice']]}, {'name': 'Be', 'threaded': True, 'cmds': [['slow', 'slow']]}],
           'settings': {}, 'line': 'e [tw] [slow 1] x'}
# C14.F27 (known): the registry lookup defaultPlugins.get('importantplugins') finds the importantPlugins entry
W_IMPORTANT = {'plugins': [{'name': 'Al', 'cmds': [['importantplugins', 'reply']]}], 'settings': {}, 'line': 'importantplugins 1'}
# C14.F26 (fixed): no command of a plugin whose class name contains '_' or '-' could run
W_UNDERSCORE = [{'plugins': [{'name': 'Foo_Bar', 'cmds': [['ga', 'reply'], ['e', 'echo']]}], 'settings': {}, 'line': l}
                for l in ('foo_bar ga 1', 'ga 1', 'e [ga] [foo_bar ga 2]')]
# C14.F28 (fixed): supybot.commands.disabled set through the Config plugin did not reach the table behind isDisabled
W_CONFIG = {'plugins': [{'name': 'Al', 'cmds': [['a', 'reply'], ['dup', 'reply']]}, {'name': 'Be', 'cmds': [['a', 'reply'], ['b', 'echo']]}],
            'steps': [{'op': 'config', 'names': ['a', 'Be.b']}, {'op': 'call', 'line': 'a 1'}, {'op': 'call', 'line': 'al a 2'}, {'op': 'call', 'line': 'b 3'},
                      {'op': 'call', 'line': 'dup'}, {'op': 'config', 'names': ['dup']}, {'op': 'call', 'line': 'a 4'}, {'op': 'call', 'line': 'dup 5'},
                      {'op': 'restart'}, {'op': 'call', 'line': 'dup 6'}]}
W_GROUP = {'plugins': [{'name': 'Al', 'cmds': [['a', 'reply']]}, {'name': 'Ga', 'cmds': [['g', 'reply']], 'groups': [['al', [['a', 'reply']]]]}],
           'settings': {}, 'line': 'al a 1'}


HC = ['a', 'b', 'c', 'e', 'dup', 'x1']
_P2 = [{'name': 'Al', 'cmds': [['a', 'reply'], ['dup', 'reply']]}, {'name': 'Be', 'cmds': [['a', 'reply'], ['b', 'echo']]}]


def _ops(*xs):
    out = []
    for x in xs:
        w = x.split()
        if x == 'restart':
            out.append({'op': 'restart'})
        elif w[0] in ('disable', 'enable', 'udisable', 'uenable'):
            st = {'op': w[0].lstrip('u') if w[0][0] == 'u' else w[0], 'cmd': w[-1]}
            if len(w) == 3:
                st['plugin'] = w[1]
            if w[0][0] == 'u':
                st['by'] = 'user'
            out.append(st)
        else:
            out.append({'op': 'call', 'line': x})
    return out


HCORPUS = [
    {'plugins': _P2, 'steps': _ops('al a 1', 'disable a', 'al a', 'be a', 'a', 'enable Al a', 'al a', 'be a', 'a', 'enable a', 'al a 2', 'be a')},
    {'plugins': _P2, 'steps': _ops('disable Al a', 'al a', 'be a 1', 'a 1', 'enable Be a', 'al a', 'enable Al a', 'al a 3', 'enable Al a')},
    {'plugins': _P2, 'steps': _ops('disable Al a', 'disable Be a', 'a', 'enable Al a', 'a 1', 'enable Be a', 'a', 'enable a')},
    {'plugins': _P2, 'steps': _ops('disable a', 'disable Al a', 'disable a', 'enable a', 'enable a', 'al a')},
    {'plugins': _P2, 'steps': _ops('udisable a', 'al a', 'disable a', 'uenable a', 'al a', 'disable enable', 'disable identify', 'disable Al zz', 'disable zz', 'enable zz')},
    {'plugins': _P2, 'steps': _ops('disable D_UP', 'dup', 'al dup', 'enable dup', 'dup 1', 'disable al DUP', 'al dup', 'enable AL d-up', 'al dup 2')},
]
HCORPUS += [
    # per-plugin disable (class name and other capitalisations), restart, the command must still be disabled, qualified and bare
    {'plugins': _P2, 'steps': _ops('disable Al dup', 'al dup', 'dup', 'restart', 'al dup 1', 'dup 1', 'AL DUP', 'enable Al dup', 'al dup 2', 'restart', 'dup 3')},
    {'plugins': _P2, 'steps': _ops('disable al a', 'restart', 'al a', 'be a 1', 'a 2', 'disable BE a', 'restart', 'a 3', 'be a', 'enable be a', 'restart', 'a 4')},
    {'plugins': _P2, 'steps': _ops('disable a', 'disable Be b', 'restart', 'a', 'al a', 'b 1', 'enable a', 'restart', 'al a 1', 'be b', 'restart', 'restart', 'b')},
]
# witnesses of the repaired defect C14.F24 (fixed: they run first on every check)
W_MIXED = {'plugins': _P2, 'steps': _ops('disable Al a', 'enable a', 'al a 1')}
W_MIXED2 = {'plugins': _P2, 'steps': _ops('disable Al a', 'disable a', 'enable a', 'al a 1')}


def gen_history(rng):
    names = rng.sample(PNAMES, rng.randint(2, 3))
    plugins = [{'name': nm, 'threaded': rng.random() < 0.15,
                'cmds': [[c, rng.choice(['reply', 'reply', 'echo', 'silent', 'err'])] for c in rng.sample(HC, rng.randint(2, 4))]} for nm in names]
    pool = rng.sample(HC, rng.randint(1, 2))
    steps = []
    for _ in range(rng.randint(5, 14)):
        r = rng.random()
        c = rng.choice(pool) if rng.random() < 0.9 else rng.choice(['enable', 'identify', 'zz'] + HC)
        pn = rng.choice(names)
        if r < 0.04:
            ns = sorted({rng.choice([c, rng.choice(names) + '.' + c, rng.choice(names).lower() + '.' + c.upper()]) for _ in range(rng.randint(0, 3))})
            steps.append({'op': 'config', 'names': ns} if ns else {'op': 'restart'})
        elif r < 0.1:
            steps.append({'op': 'restart'})
        elif r < 0.4:
            line = ([rng.choice([pn, pn.lower()])] if rng.random() < 0.6 else []) + [rng.choice([c, c, c.upper()])] + rng.sample(['1', 'x'], rng.randint(0, 1))
            steps.append({'op': 'call', 'line': ' '.join(line)})
        else:
            st = {'op': 'disable' if r < 0.7 else 'enable', 'cmd': rng.choice([c, c, c, c.upper(), c[0] + '_' + c[1:]])}
            if rng.random() < 0.5:
                st['plugin'] = rng.choice([pn, pn.lower(), pn.upper()])
            if rng.random() < 0.08:
                st['by'] = 'user'
            steps.append(st)
    return {'plugins': plugins, 'steps': steps}


def calibrate_frames(ctx, S):
    """re-measure the constants behind T14.STACK_SAFE_SUBS on the live bot: Python frames kept per evaluated
    sub-command (<= frames_per_sub) and the depth at which the first command runs (well inside frames_reserve)"""
    import sys
    C, callbacks, irc, conf = S['C'], S['callbacks'], S['irc'], S['conf']
    depths = []

    def depth():
        f, n = sys._getframe(1), 0
        while f is not None:
            f, n = f.f_back, n + 1
        return n

    def n(self, irc, msg, args):
        depths.append(depth())
        irc.reply('x')

    def s(self, irc, msg, args):
        depths.append(depth())
        irc.noReply()

    def e(self, irc, msg, args):
        depths.append(depth())
        irc.reply(' '.join(args))
    remove_plugins(S)
    apply_settings(S, {})
    cb = type('Cal', (callbacks.Plugin,), {'n': n, 's': s, 'e': e})(irc)
    conf.registerPlugin('Cal')
    irc.addCallback(cb)
    S['synth'].append(cb)
    worst, first = 0, 0
    for line in ['e [n] [n] [n] [n]', 'e [s] [s] [n] [s]', 'e [e [e [e [n]]]] [n]', 'e [e [n] [n]] [e [s] [n]] [e [s] [s]]']:
        del depths[:]
        impl_run(S, line)
        worst = max([worst] + [b - a for a, b in zip(depths, depths[1:])])
        first = max(first, depths[0] if depths else 0)
    remove_plugins(S)
    inp = {'calibration': 'python frames per sub-command', 'line': 'e [e [n] [n]] [e [s] [n]] [e [s] [s]]'}
    ctx.case('stack-calibration', inp)
    ctx.notes.append('stack calibration: recursion limit %d (table %d), at most %d frames per sub-command (table %d), first command at depth %d (reserve %d)'
                     % (sys.getrecursionlimit(), C['recursion_limit'], worst, C['frames_per_sub'], first, C['frames_reserve']))
    if sys.getrecursionlimit() != C['recursion_limit'] or worst > C['frames_per_sub'] or 2 * first > C['frames_reserve'] or worst == 0:
        ctx.disagree(inp, [C['recursion_limit'], C['frames_per_sub'], C['frames_reserve']], [sys.getrecursionlimit(), worst, first],
                     'stack constants of T14.STACK_SAFE_SUBS')


def run(ctx):
    S = bot()
    rng = ctx.rng
    recs = []
    for h in [W_MIXED, W_MIXED2] + HCORPUS:
        recs.append(run_history(ctx, S, h, 'history-corpus'))
    for i in range(ctx.n(500)):
        recs.append(run_history(ctx, S, gen_history(rng), 'history'))
    for base, lines in CORPUS:
        for line in lines:
            recs.append(run_case(ctx, S, dict(base, line=line), 'corpus'))
    recs.append(run_case(ctx, S, W_STACK, 'stack-witness'))
    recs.append(run_case(ctx, S, W_GROUP, 'dispatch-group-witness'))
    for w in W_UNDERSCORE:
        recs.append(run_case(ctx, S, w, 'corpus'))
    recs.append(run_case(ctx, S, W_TWICE, 'multi-reply-witness'))
    recs.append(run_case(ctx, S, W_IMPORTANT, 'importantplugins-witness'))
    recs.append(run_history(ctx, S, W_CONFIG, 'history-corpus'))
    # the boundary of the domain: STACK_SAFE_SUBS sub-commands in the shapes with the most frames per sub-command;
    # the model (budget STACK_SAFE_SUBS + 1) completes them, so must the bot: this re-measures stack_holds_domain
    N = _stack_safe()
    calib = {'name': 'Al', 'cmds': [['e', 'echo'], ['n', 'reply'], ['s', 'silent']]}
    thr = {'name': 'Be', 'threaded': True, 'cmds': [['b', 'reply']]}
    for line in ['e ' + ' '.join(['[n]'] * N), 'e x ' + ' '.join(['[s]'] * N),
                 'e ' + ' '.join(['[e [n] [n]]'] * (N // 3) + ['[n]'] * (N % 3)),
                 'e ' + ' '.join(['[e [n] [s] [n]]'] * (N // 4) + ['[s]'] * (N % 4)),
                 'e ' + ' '.join(['[e [n]]'] * (N // 2) + ['[n]'] * (N % 2)),
                 'e ' + '[e ' * 9 + '[n]' + ']' * 9 + ' ' + ' '.join(['[n]'] * (N - 10)),
                 'e ' + ' '.join(['[n]'] * (N - 1)) + ' [b]']:
        recs.append(run_case(ctx, S, {'plugins': [calib, thr], 'settings': {}, 'line': line}, 'stack-boundary'))
    calibrate_frames(ctx, S)
    # flat many-sibling lines (the tree shape the re-entrant evalArgs is sensitive to)
    for n in (20, 40, 59):
        for k in ('reply', 'silent'):
            inp = {'plugins': [{'name': 'Al', 'cmds': [['e', 'echo'], ['n', k]]}], 'settings': {}, 'line': 'e ' + ' '.join(['[n]'] * n)}
            recs.append(run_case(ctx, S, inp, 'siblings'))
    # structured stream
    maxdepth = 5
    for i in range(ctx.n(450)):
        hostile = rng.random() < 0.25
        plugins = gen_plugins(rng, hostile)
        st = gen_settings(rng, plugins)
        for _ in range(4):
            toks = gen_tree(rng, plugins, 0, rng.randint(0, maxdepth), rng.randint(1, 4))
            if st.get('nested', True) and rng.random() < 0.04:
                st = dict(st, nested=False)
            line = render_line(toks)
            if hostile and rng.random() < 0.05:
                line = line.replace(']', '', 1)
            if not fits(line) or count_subs(toks) > _stack_safe():
                continue
            recs.append(run_case(ctx, S, {'plugins': plugins, 'settings': st, 'line': line}, 'hostile' if hostile else 'tree'))
    # dispatch stream: flat lines over overlapping names
    for i in range(ctx.n(350)):
        plugins = gen_plugins(rng, rng.random() < 0.3)
        st = gen_settings(rng, plugins)
        for _ in range(4):
            p = rng.choice(plugins)
            toks = [rng.choice([p['name'], p['name'].lower(), rng.choice(CNAMES), rng.choice(PNAMES).lower()])]
            toks += [rng.choice(CNAMES + WORDS) for _ in range(rng.randint(0, 3))]
            toks = [t for t in toks if t] or ['a']
            recs.append(run_case(ctx, S, {'plugins': plugins, 'settings': st, 'line': render_line(toks)}, 'dispatch'))
    finish_cases(ctx, S, recs)
    remove_plugins(S)
    apply_settings(S, {})


def replay(ctx, inp):
    S = bot()
    sub = type(ctx)(ctx.pid, ctx.tier, ctx.seed, {'model_ok': False})
    if 'steps' in inp:
        run_history(sub, S, inp, 'replay', with_model=False)
    else:
        run_case(sub, S, inp, 'replay', with_model=False)
    remove_plugins(S)
    apply_settings(S, {})
    return sub.failures[0]['detail'] if sub.failures else None


def shrink(ctx, inp):
    S = bot()
    if 'steps' in inp:
        from lib.shrink import shrink_seq
        steps = shrink_seq(inp['steps'], lambda st: replay(ctx, dict(inp, steps=st)) is not None, budget=200)
        cur = dict(inp, steps=steps)
        for i in range(len(cur['plugins']) - 1, -1, -1):
            c = dict(cur, plugins=cur['plugins'][:i] + cur['plugins'][i + 1:])
            if c['plugins'] and replay(ctx, c) is not None:
                cur = c
        return cur
    cur = inp

    def fails(c):
        return replay(ctx, c) is not None
    # drop plugins, commands, settings, then shorten the line token-wise
    changed = True
    budget = 150
    while changed and budget > 0:
        changed = False
        cands = []
        for i in range(len(cur['plugins'])):
            cands.append(dict(cur, plugins=cur['plugins'][:i] + cur['plugins'][i + 1:]))
        for i, p in enumerate(cur['plugins']):
            for j in range(len(p['cmds'])):
                q = dict(p, cmds=p['cmds'][:j] + p['cmds'][j + 1:])
                cands.append(dict(cur, plugins=cur['plugins'][:i] + [q] + cur['plugins'][i + 1:]))
            if p.get('threaded'):
                cands.append(dict(cur, plugins=cur['plugins'][:i] + [dict(p, threaded=False)] + cur['plugins'][i + 1:]))
        for k in list(cur['settings']):
            cands.append(dict(cur, settings={a: b for a, b in cur['settings'].items() if a != k}))
        try:
            apply_settings(S, cur['settings'])
            toks = S['callbacks'].tokenize(cur['line'])
            def variants(t):
                for i in range(len(t)):
                    yield t[:i] + t[i + 1:]
                    if isinstance(t[i], list):
                        for v in variants(t[i]):
                            yield t[:i] + [v] + t[i + 1:]
                        yield t[:i] + ['z'] + t[i + 1:]
            for v in variants(toks):
                if v:
                    cands.append(dict(cur, line=render_line(v)))
        except Exception:
            pass
        for c in cands:
            budget -= 1
            if budget <= 0:
                break
            if not c['plugins'] or any(not p['cmds'] for p in c['plugins']):
                continue
            try:
                if fails(c):
                    cur = c
                    changed = True
                    break
            except Exception:
                continue
    return cur
