"""C17 — a crash while saving never leaves a half-written database or configuration.

Correspondence = fault enumeration on the real code.  For every case (caller, old
content, new content, AtomicFile configuration) a *recording* child performs the
real flush with os/shutil/open/codecs wrapped and reports the sequence of
file-system effects; the extracted model predicts the same sequence and the file
system after every prefix.  Then, for every effect index i and both sides
(before / after), another child repeats the flush and is killed with os._exit at
that point; the bytes left on disk are compared with the model's prediction
(correspondence) and with the property text (direct oracle: target is entirely
the old or the new version, the real loader loads it to the old or new state, the
loader opens nothing but the target)."""
import builtins, codecs, errno, gc, io, json, os, shutil, sys, time, traceback
import boot

TABLES = ['T17']
RULE = ('cases = (caller in raw AtomicFile API / users / channels / networks / ignores / userdata (world.flush) / registry.close / plugins.ChannelUserDB.flush / '
        'FlatfileMapping.vacuum) x (old content absent/empty/shorter/longer/equal/larger-than-buffer) x (tmpDir none / same fs / other fs '
        '(os.rename made to fail with EXDEV as the kernel does; a real second file system (/dev/shm) is used too when present) / the production '
        'defaults (tmpDir and backupDir are the registry values of conf.py, forced at every AtomicFile())) x '
        '(backupDir none / dir / /dev/null) x (target a regular file / a symbolic link conf/x -> ../store/x, dangling on a first save) x flags; every case is run once uncrashed with the I/O primitives wrapped (effect list '
        'compared with the model) and then once per crash point (before and after every effect; kill by os._exit in a forked child), '
        'the disk being compared with the model prediction and with the property.  Second death mode: at the same points an exception is '
        'RAISED (SystemExit as from the SIGTERM handler at every point, KeyboardInterrupt at a fifth of them (half in the thorough tier), '
        'an OSError at the writes/close of the temp file), the stack unwinds through the real finally/except/with blocks, the AtomicFile '
        'object is collected (__del__), the child exits normally; effect sequence and disk are compared with the model (prefix + '
        'unwinding) and with the property.  dbi.FlatfileMapping.add (in place, no AtomicFile): a kill before/after every method call on its file '
        'object, then a restart and one more add(): records old or new and no id handed out twice; the sequence of on-disk states is '
        'compared with the model.  one evaluation = one (case, fault point, death mode); '
        'non-trivial = distinct (case, fault point, mode) with at least one effect executed')
TRUSTED = ['the file-system model itself (POSIX contract, not Limnoria code): rename is an atomic replace, append extends, open(w) truncates, '
           'open(a) creates an empty file iff absent, data handed to the kernel survives process death; power loss / fsync ordering is out of scope',
           'utils.file.mktemp (token uniqueness: tokens are 40 hex digits, an explicit input of the model with contract token_ok) and '
           'int(time.time()) (explicit input `now`)',
           'shutil.copyfile/move/copy of CPython 3.12 are modelled (truncate + sendfile chunks + unlink), not verified; the wrapper caps '
           'os.sendfile counts to make several chunks (legal kernel behaviour)',
           'cross-device rename is simulated by raising OSError(EXDEV) from os.rename when no second file system is available',
           'death by exception: the fault is raised from the wrappers of the I/O primitives (before/after each effect), once; exceptions '
           'raised while the object is being finalised (__del__) are ignored by CPython and are not fault points; which call sites '
           'swallow a write error / commit on unwinding comes from harness/tables/t17.py (ast scan of every AtomicFile call site; both lists '
           'must be empty for the theorems to check)',
           'symbolic links: only the target path may be one (single level, pointing to a regular file or to nothing, elsewhere than the '
           'temp/backup paths = link_ok); open() follows it, os.rename replaces it (POSIX); events of open() are recorded under the path reached',
           'user-space buffering of the temp file: before its close the on-disk temp file is only required to be a prefix of the model content']
ASSUMPTIONS = ['world.testing/log.testing off', 'crash = process death (os._exit) or an exception (SystemExit/KeyboardInterrupt/OSError) raised '
               'at an effect boundary that unwinds the stack, after which the process exits normally; kernel keeps completed system calls',
               'tmpDir/backupDir exist and are writable; no concurrent writer to the same target']
LEVEL_TEXT = ('Coq theorems over an executable effect-list model of utils.file.AtomicFile on a file-system model (crash = any prefix of the '
              'effect list): with the temp file on the same file system the target is, after every prefix, exactly the old or the new content '
              '(or empty on a first-ever save); refuted with a witness when tmpDir is on another file system (finding F20), where the target is '
              'proved to be old or a prefix of new; the target path may be a symbolic link (the commit renames over the link, never writes through it; regenerated table: exactly one commit path in AtomicFile.close); temp/backup names never alias the target; rollback, empty-overwrite and backup rules; the same atomicity when death is an exception '
              'that unwinds the stack (prefix of the effects followed by what __del__/__exit__ and the callers do, taken from the regenerated '
              'table: no caller commits in finally/except and, since the fix of finding C17.F44 in registry.close, none swallows the I/O error '
              'of a write), for every caller; one statement over all death modes (C17_atomic_any_death) and its composition with the loader '
              'models of C16/C15 and the FlatfileMapping iterator over the caller table: the surviving file loads to the old or the new state '
              '(C17_loads; an empty file loads as no file).  The '
              'model is tied to the source by regenerated naming constants/defaults and by fault enumeration on the real code: real effect '
              'sequence and on-disk bytes after a kill at every effect boundary are compared with the model for all callers.')
LEVEL_NOTE = ('Trusted: Coq kernel, gen_tables.py, extraction + OCaml driver, the Python harness (I/O wrappers, fork/kill machinery), the POSIX '
              'file-system contract as modelled.  Modelled, not verified: all Python code; the loader models are those of C16/C15 (validated by '
              'those checks), the text decoding of a file is a hypothesis (empty file -> empty text).  NOT modelled / not covered: '
              '(1) dbi.FlatfileMapping add/set/remove are modelled as sequences of kernel writes and fault-enumerated (set loses the record in the '
              'dashed-out window: finding C17.F49); ids wider than the header width and duplicate ids already in the file are outside the domain; '
              '(2) cdb.Maker / cdb.ReaderWriter (seek/tell on the temp file, the .journal file): the model has append-only temp files, these '
              'callers are only scanned by the table extractor; (3) the plugin callers Karma.dump, Later._flushNotes, RSS (with-statement) are '
              'only table-scanned (no close() in finally/except, no swallowed write error), plugins.ChannelUserDB is fault-enumerated; '
              '(4) durability: no fsync before the rename, so a power loss (not a process death) can still leave an empty or partial new file; '
              '(5) two threads flushing the same target at once, and backup files of the same second / same basename overwriting each other '
              '(backups are not part of the property); (6) symbolic links other than a single-level link at the target path; '
              '(7) errors raised by the backup copy or the permission probe inside close() are covered as unwinding points of the harness, '
              'their own effects (a partial backup file) only by the effect-list model of the copy; (8) the real mktemp()/clock are replaced '
              'by fixed inputs in the harness (token uniqueness is an assumption); (9) permission bits and ownership of the target are not part of '
              'the file-system model (a rename commit does not read them): targets with non-default modes (0600/0640, plain and behind a link) '
              'are in the corpus so that a commit path that depends on them shows up as an effect-sequence disagreement and a failing crash point.')
TECHNIQUE = 'Coq proof (prefix invariants over effect lists) + regenerated tables + fault-enumeration correspondence of the extracted model'
EXPLANATION = 'C17: effect-list model of src/utils/file.py AtomicFile; theorems in coq/C17/Props.v'

TOKEN = '3f786850e387550fdab836ed7e6dc881de23001b'
NOW = 1700000000
XPLACE = '/X'            # canonical name of the tmp dir on the other file system
WATCH = ('conf/', 'data/', 'tmp/', 'backup/', 'store/', XPLACE + '/')
CALLERS = ('users', 'channels', 'networks', 'ignores', 'userdata', 'vacuum', 'registry', 'chanuserdb')


# --------------------------------------------------------------------------
# instrumentation (runs in the grandchild only)
class Rec:
    def __init__(self, crash, chunk, exdev, xdir, logfd):
        self.events, self.writes = [], []
        self.crash = (crash[0], crash[1]) if crash else None
        self.mode = crash[2] if crash and len(crash) > 2 else 'kill'
        self.fired = None
        self.chunk, self.exdev, self.xdir, self.logfd = chunk, exdev, xdir, logfd
        self.cwd = os.getcwd() + '/'
        self.info = {}
        self.other = []

    def canon(self, p):
        try:
            p = os.fspath(p)
        except TypeError:
            return None
        if isinstance(p, bytes):
            p = p.decode('utf8', 'replace')
        if p.startswith(self.cwd):
            p = p[len(self.cwd):]
        if self.xdir and p.startswith(self.xdir):
            p = XPLACE + '/' + p[len(self.xdir):]
        return p

    def watched(self, p):
        return p is not None and p.startswith(WATCH)

    def dump(self, status, exc=None):
        data = {'events': self.events, 'writes': [w.decode('latin1') for w in self.writes], 'info': self.info,
                'status': status, 'exc': exc, 'other': self.other, 'fired': self.fired}
        _real['write'](self.logfd, json.dumps(data).encode())

    def die(self):
        self.dump('crashed')
        os._exit(77)

    def trip(self):
        """the fault: instantaneous death, or an exception that unwinds the stack (raised once)"""
        if self.mode == 'kill':
            self.die()
        self.crash, self.fired = None, len(self.events)
        raise {'SystemExit': SystemExit(1), 'KeyboardInterrupt': KeyboardInterrupt(),
               'OSError': OSError(errno.EIO, 'injected I/O error')}[self.mode]

    def before(self):
        if self.crash == (len(self.events), 'before'):
            self.trip()

    def after(self, ev):
        self.events.append(ev)
        if self.crash == (len(self.events) - 1, 'after'):
            self.trip()


_real = {}


class TempProxy:
    """stands for AtomicFile._fd"""
    def __init__(self, rec, fd, path, encoding):
        self.__dict__.update(_rec=rec, _fd=fd, _path=path, _enc=encoding)

    def _bytes(self, data):
        return data.encode(self._enc) if isinstance(data, str) else bytes(data)

    def write(self, data):
        self._rec.before()
        r = self._fd.write(data)
        b = self._bytes(data)
        self._rec.writes.append(b)
        self._rec.after(['append', self._path, len(b)])
        return r

    def writelines(self, lines):
        lines = list(lines)
        b = b''.join(self._bytes(x) for x in lines)
        self._rec.before()
        r = self._fd.writelines(lines)
        self._rec.writes.append(b)
        self._rec.after(['append', self._path, len(b)])
        return r

    def close(self):
        if self._fd.closed:
            return self._fd.close()
        self._rec.before()
        r = self._fd.close()
        self._rec.after(['close', self._path])
        return r

    def __getattr__(self, name):
        return getattr(self._fd, name)


def instrument(rec, inp):
    import supybot.utils.file as ufile
    _real.update(write=os.write, open=builtins.open, codecs_open=codecs.open, rename=os.rename, replace=os.replace, remove=os.remove,
                 unlink=os.unlink, sendfile=os.sendfile, os_open=os.open, truncate=os.truncate, link=os.link,
                 symlink=os.symlink)

    def w_open(file, mode='r', *a, **k):
        p = rec.canon(file) if not isinstance(file, int) else None
        if rec.watched(p) and any(c in mode for c in 'wax+'):
            p = rec.canon(os.path.realpath(file))        # open() follows a symbolic link
            kind = 'create' if 'w' in mode else ('touch' if ('a' in mode and '+' not in mode) else 'open-' + mode)
            rec.before()
            f = _real['open'](file, mode, *a, **k)
            rec.after([kind, p])
            return f
        return _real['open'](file, mode, *a, **k)

    def w_codecs_open(filename, mode='r', encoding=None, *a, **k):
        f = _real['codecs_open'](filename, mode, encoding, *a, **k)
        p = rec.canon(filename)
        if rec.watched(p) and 'w' in mode:
            return TempProxy(rec, f, p, encoding)
        return f

    def w_rename(src, dst, *a, **k):
        s, d = rec.canon(src), rec.canon(dst)
        if rec.watched(s) or rec.watched(d):
            if rec.exdev and os.path.dirname(s) == 'tmp' and os.path.dirname(d) != 'tmp':
                raise OSError(errno.EXDEV, 'Invalid cross-device link', src, None, dst)
            rec.before()
            _real['rename'](src, dst, *a, **k)     # a real EXDEV propagates: no effect happened
            rec.after(['rename', s, d])
            return
        return _real['rename'](src, dst, *a, **k)

    def w_remove(p, *a, **k):
        c = rec.canon(p)
        if rec.watched(c):
            rec.before()
            _real['unlink'](p, *a, **k)
            rec.after(['remove', c])
            return
        return _real['unlink'](p, *a, **k)

    def w_sendfile(out_fd, in_fd, offset, count, *a, **k):
        try:
            p = rec.canon(os.readlink('/proc/self/fd/%d' % out_fd))
        except OSError:
            p = None
        if rec.watched(p):
            if rec.chunk:
                count = min(count, rec.chunk)
            rec.before()
            n = _real['sendfile'](out_fd, in_fd, offset, count, *a, **k)
            if n > 0:
                rec.after(['append', p, n])
            return n
        return _real['sendfile'](out_fd, in_fd, offset, count, *a, **k)

    def w_os_open(p, flags, *a, **k):
        c = rec.canon(p)
        if rec.watched(c) and flags & (os.O_WRONLY | os.O_RDWR | os.O_CREAT | os.O_TRUNC):
            rec.before()
            fd = _real['os_open'](p, flags, *a, **k)
            rec.after(['os.open', c])
            return fd
        return _real['os_open'](p, flags, *a, **k)

    def w_other(name):
        def f(*a, **k):
            ps = [rec.canon(x) for x in a[:2] if isinstance(x, (str, bytes, os.PathLike))]
            if any(rec.watched(p) for p in ps):
                rec.before()
                r = _real[name](*a, **k)
                rec.after([name] + ps)
                return r
            return _real[name](*a, **k)
        return f

    builtins.open = io.open = w_open
    codecs.open = w_codecs_open
    os.rename = w_rename
    os.replace = w_rename
    os.remove = os.unlink = w_remove
    os.sendfile = w_sendfile
    os.open = w_os_open
    for nm in ('truncate', 'link', 'symlink'):
        setattr(os, nm, w_other(nm))
    # explicit inputs of the model: token and clock
    ufile.mktemp = lambda suffix='': TOKEN + suffix

    _sleep = time.sleep

    class _T:
        time = staticmethod(lambda: NOW + 0.5)
        sleep = staticmethod(_sleep)
    ufile.time = _T
    # what the object really uses (the model follows the code's configuration)
    orig_init = ufile.AtomicFile.__init__

    def init(self, *a, **k):
        orig_init(self, *a, **k)
        rec.info.setdefault('sessions', []).append({
            'filename': rec.canon(self.filename), 'temp': rec.canon(self.tempFilename),
            'backupDir': self.backupDir if self.backupDir is None else rec.canon(self.backupDir),
            'mbis': bool(self.makeBackupIfSmaller), 'aeo': bool(self.allowEmptyOverwrite)})
    ufile.AtomicFile.__init__ = init
    # which of close()/rollback() the caller really calls (plugins.ChannelUserDB rolls back instead of writing a blank file)
    for meth in ('close', 'rollback'):
        def wrap(orig, meth=meth):
            def f(self, *a, **k):
                rec.info.setdefault('calls', []).append(meth)
                return orig(self, *a, **k)
            return f
        setattr(ufile.AtomicFile, meth, wrap(getattr(ufile.AtomicFile, meth)))


# --------------------------------------------------------------------------
# content of the databases, from a small spec  {'n': records, 'v': variant}
def _rec_name(v, i):
    return '%s%d' % ('abcdefgh'[v % 8], i)


def build_db(caller, spec, target):
    """returns a zero-argument function performing the flush under test"""
    import supybot.ircdb as ircdb, supybot.conf as conf, supybot.registry as registry, supybot.world as world
    n, v = spec['n'], spec.get('v', 0)
    if caller == 'users':
        d = ircdb.UsersDictionary()
        for i in range(n):
            u = ircdb.IrcUser(name=_rec_name(v, i), hostmasks=ircdb.ircutils.IrcSet(['%s!*@host%d.example' % (_rec_name(v, i), i)]),
                              capabilities=ircdb.UserCapabilitySet(['cap%d' % v]), password='pw%d' % i)
            u.id = i + 1
            d.users[i + 1] = u
        d.filename = target
        return d.flush
    if caller == 'channels':
        d = ircdb.ChannelsDictionary()
        for i in range(n):
            c = ircdb.IrcChannel()
            c.addBan('*!*@%s.example' % _rec_name(v, i), 0)
            c.addCapability('op' if v % 2 else 'voice')
            d.channels['#' + _rec_name(v, i)] = c
        d.filename = target
        return d.flush
    if caller == 'networks':
        d = ircdb.NetworksDictionary()
        for i in range(n):
            net = ircdb.IrcNetwork()
            net.stsPolicies['irc.%s.example' % _rec_name(v, i)] = 'duration=%d,port=6697' % (1000 + v)
            net.lastDisconnectTimes['irc.%s.example' % _rec_name(v, i)] = 1600000000 + i
            d.networks[_rec_name(v, i)] = net
        d.filename = target
        return d.flush
    if caller == 'ignores':
        d = ircdb.IgnoresDB()
        for i in range(n):
            d.add('*!*@%s.example' % _rec_name(v, i), 0 if i % 2 else 4000000000 + v)
        d.filename = target
        return d.flush
    if caller == 'userdata':
        for i in range(n):
            conf.users.register(_rec_name(v, i), registry.String('value %d of variant %d \xe9' % (i, v), 'help text %d' % i))
        conf.supybot.directories.conf.setValue(os.path.dirname(os.path.abspath(target)))
        assert os.path.basename(target) == 'userdata.conf'
        world.flushers[:] = [world._flushUserData]
        return world.flush
    if caller == 'registry':
        if n:      # n = 0: a small private group; n > 0: the bot's whole configuration
            conf.supybot.nick.setValue('bot%d' % v)
            return lambda: registry.close(conf.supybot, target)
        g = registry.Group()
        g.setName('verif')
        g.register('x', registry.String('v%d' % v, 'help'))
        return lambda: registry.close(g, target)
    if caller == 'chanuserdb':
        # plugins.ChannelUserDB (Seen, Karma-like per channel/user plugin databases): csv lines through AtomicFile
        d = _chanuserdb()(target)
        d.clear()
        for i in range(n):
            d['#' + _rec_name(v, i), i if i % 2 else _rec_name(v, i)] = (1600000000 + i, 'said \xe9 "quoted", %d' % v)
        return d.flush
    raise ValueError(caller)


def _chanuserdb():
    import supybot.plugins as plugins

    class DB(plugins.ChannelUserDB):
        def serialize(self, v):
            return list(v)

        def deserialize(self, channel, id, L):
            (t, text) = L
            return (float(t), text)
    return DB


def prepare_old(caller, spec, target):
    """writes the previous version of the file (uninstrumented); spec None = absent"""
    import supybot.utils.file as ufile, supybot.dbi as dbi
    if spec is None:
        return
    if caller == 'raw':
        with open(target, 'wb') as f:
            f.write(spec.encode('utf8'))
        return
    if caller == 'vacuum':
        db = dbi.FlatfileMapping(target)
        ids = [db.add('record %d of %s' % (i, _rec_name(spec.get('v', 0), i))) for i in range(spec['n'])]
        for i in ids[:spec.get('removed', 0)]:
            db.remove(i)
        return
    ufile.AtomicFile.default.tmpDir = None
    ufile.AtomicFile.default.backupDir = '/dev/null'
    if caller == 'userdata':
        # old userdata: written through a private group so that conf.users stays clean
        import supybot.registry as registry
        g = registry.Group()
        g.setName('users')
        for i in range(spec['n']):
            g.register(_rec_name(spec.get('v', 0), i), registry.String('old value %d' % i, 'help'))
        registry.close(g, target)
        return
    build_db(caller, spec, target)()


def loaded_state(caller, path, scratch):
    """loaded_state_here in a forked child: the real loaders keep class-level state across loads
    (IrcUserCreator.u, IrcChannelCreator.name ...: a load aborted by a truncated file poisons the next
    load in the same process), so every load gets a process of its own, as after a restart"""
    if caller == 'raw':
        return None, []         # no loader: nothing to fork for
    if not os.path.exists(path):
        return loaded_state_here(caller, path, scratch)      # constant answer, no loader runs
    r, w = os.pipe()
    pid = os.fork()
    if pid == 0:
        try:
            os.close(r)
            try:
                res = loaded_state_here(caller, path, scratch)
            except BaseException as e:
                res = ('LOADER-CRASH %s' % type(e).__name__, [])
            with os.fdopen(w, 'w') as f:
                json.dump(res, f)
        finally:
            os._exit(0)
    os.close(w)
    with os.fdopen(r) as f:
        data = f.read()
    os.waitpid(pid, 0)
    st, opened = json.loads(data)
    return st, opened


def loaded_state_here(caller, path, scratch):
    """load a copy of `path` with the real loader; returns (canonical state, [paths opened])"""
    import supybot.ircdb as ircdb, supybot.registry as registry, supybot.dbi as dbi
    if caller == 'raw':
        return None, []
    if not os.path.exists(path):
        # no file = the empty database (what every loader starts from when the file cannot be opened)
        return {'users': '', 'channels': '', 'networks': '', 'ignores': '[]', 'userdata': '[]', 'registry': '[]',
                'chanuserdb': '[]'}.get(caller, 'absent'), []
    cp = os.path.join(scratch, 'load_' + os.path.basename(path))
    shutil.copyfile(path, cp)
    opened = []
    ro = builtins.open

    def spy(file, mode='r', *a, **k):
        if isinstance(file, str) and 'r' in mode and '+' not in mode:
            opened.append(os.path.relpath(file, scratch))
        return ro(file, mode, *a, **k)
    builtins.open = spy
    try:
        if caller in ('users', 'channels', 'networks'):
            d = {'users': ircdb.UsersDictionary, 'channels': ircdb.ChannelsDictionary, 'networks': ircdb.NetworksDictionary}[caller]()
            d.open(cp)
            builtins.open = ro
            d.flush()
            st = ro(cp, 'rb').read().decode('latin1')
        elif caller == 'ignores':
            d = ircdb.IgnoresDB()
            d.open(cp)
            st = repr(sorted(d.hostmasks.items()))
        elif caller in ('userdata', 'registry'):
            saved = dict(registry._cache.items())
            try:
                registry.open_registry(cp, clear=True)
                st = repr(sorted(registry._cache.items()))
            except Exception as e:
                st = 'LOAD-ERROR %s' % type(e).__name__
            registry._cache.clear()
            for k, v in saved.items():
                registry._cache[k] = v
        elif caller == 'chanuserdb':
            st = repr(sorted(_chanuserdb()(cp).items(), key=repr))
        elif caller == 'vacuum':
            try:
                st = repr(list(dbi.FlatfileMapping(cp)))
            except Exception as e:
                st = 'LOAD-ERROR %s' % type(e).__name__
        else:
            raise ValueError(caller)
    finally:
        builtins.open = ro
    return st, sorted(set(opened))


# --------------------------------------------------------------------------
# one job = one child run (crash None = recording run)
def target_of(inp):
    c = inp['caller']
    return {'raw': 'conf/raw.db', 'users': 'conf/users.conf', 'channels': 'conf/channels.conf', 'networks': 'conf/networks.conf',
            'ignores': 'conf/ignores.conf', 'userdata': 'conf/userdata.conf', 'vacuum': 'data/flat.db', 'registry': 'conf/bot.conf', 'chanuserdb': 'data/Seen.db'}[c]


def link_target(inp):
    return 'store/' + os.path.basename(target_of(inp))


def child_main(inp, crash, xdir, logfd):
    import supybot.utils.file as ufile, supybot.dbi as dbi
    tmp, backup = inp.get('tmp', 'none'), inp.get('backup', 'none')
    tmpdir = {'none': None, 'same': 'tmp', 'exdev': 'tmp', 'realxdev': xdir, 'registry': None}[tmp]
    bdir = {'none': None, 'dir': 'backup', 'devnull': '/dev/null'}[backup]
    if tmp == 'registry':
        # the production defaults: AtomicFile.default.tmpDir/backupDir are the registry values themselves (callables,
        # forced at every AtomicFile(): Directory.__call__ creates the directory, DataFilename puts it under data/)
        import supybot.conf as conf
        conf.supybot.directories.data.setValue('data')
        conf.supybot.directories.data.tmp.setValue('tmp')
        conf.supybot.directories.backup.setValue('/dev/null' if backup == 'devnull' else 'backup')
        tmpdir, bdir = conf.supybot.directories.data.tmp, conf.supybot.directories.backup
    rec = Rec(crash, inp.get('chunk', 0), tmp == 'exdev', xdir, logfd)
    target = target_of(inp)
    if rec.mode != 'kill':       # "Exception ignored in __del__" of a half-constructed object goes to stderr
        dn = os.open(os.devnull, os.O_WRONLY)
        os.dup2(dn, 2)
    action = fd = None
    try:
        try:
            if inp['caller'] == 'raw':
                action = None
            elif inp['caller'] == 'vacuum':
                action = dbi.FlatfileMapping(target).vacuum
            else:
                action = build_db(inp['caller'], inp['new'], target)
            ufile.AtomicFile.default.tmpDir = tmpdir
            ufile.AtomicFile.default.backupDir = bdir
            instrument(rec, inp)
            if action is not None:
                action()
            else:
                kw = {}
                if inp.get('mbis') is not None:
                    kw['makeBackupIfSmaller'] = inp['mbis']
                if inp.get('aeo') is not None:
                    kw['allowEmptyOverwrite'] = inp['aeo']
                if inp.get('explicit_dirs'):
                    kw['tmpDir'], kw['backupDir'] = tmpdir, bdir
                res = []
                rec.info['results'] = res
                if inp.get('with'):
                    # context-manager style: __exit__ commits, or rolls back when an exception is in flight
                    with ufile.AtomicFile(target, **kw) as fd:
                        for o in inp['ops'][:-1]:
                            fd.write(o[1])
                            res.append('ok')
                    res.append('ok')
                else:
                    fd = ufile.AtomicFile(target, **kw)
                    for o in inp['ops']:
                        try:
                            if o[0] == 'w':
                                fd.write(o[1])
                            elif o[0] == 'close':
                                fd.close()
                            elif o[0] == 'rollback':
                                fd.rollback()
                            res.append('ok')
                        except (ValueError, OSError) as e:
                            if rec.fired is not None:
                                raise          # the injected fault is not the driver's to swallow
                            res.append('ValueError' if isinstance(e, ValueError) else 'OtherError')
        except BaseException as e:
            if rec.fired is None:
                raise
            rec.info['raised'] = type(e).__name__
        rec.info.setdefault('n_ops_events', len(rec.events))
        if rec.mode != 'kill':
            rec.crash = None      # an exception inside __del__ is ignored by the interpreter: not a fault point
        # the stack is unwound: frames and the traceback are gone, the AtomicFile object is collected
        # (__del__) exactly as when the exception reaches the top level of a real process
        action = fd = None
        # (reference counting alone collects it: no gc.collect(), which would copy the whole forked heap)
        rec.dump('unwound' if rec.fired is not None else 'completed')
        os._exit(0)
    except BaseException:
        rec.dump('exception', traceback.format_exc()[-1500:])
        os._exit(3)


def snapshot(jobdir, xdir):
    files, links = {}, {}
    for base, label in ((jobdir, ''), (xdir, XPLACE)):
        if not base or not os.path.isdir(base):
            continue
        for root, _, names in os.walk(base):
            for nm in names:
                full = os.path.join(root, nm)
                rel = os.path.relpath(full, base)
                rel = (label + '/' + rel) if label else rel
                if rel.startswith(WATCH):
                    if os.path.islink(full):
                        links[rel] = os.readlink(full)
                        if not os.path.exists(full):
                            continue                     # dangling: reading the path finds no file
                    with open(full, 'rb') as f:          # a link is read through, as the loader would
                        files[rel] = f.read().decode('latin1')
    return files, links


def run_job(base, xbase, idx, job):
    inp, crash = job['inp'], job['crash']
    jobdir = os.path.join(base, 'j%d' % idx)
    xdir = os.path.join(xbase, 'j%d' % idx) if (xbase and inp.get('tmp') == 'realxdev') else None
    for sub in ('conf', 'data', 'tmp', 'backup', 'store', 'scratch'):
        os.makedirs(os.path.join(jobdir, sub))
    if xdir:
        os.makedirs(xdir)
    os.chdir(jobdir)
    out = {'idx': idx}
    try:
        target = target_of(inp)
        prepare_old(inp['caller'], inp.get('old'), target)
        if inp.get('link'):
            # the target path is a symbolic link (conf/users.conf -> ../store/users.conf); dangling when there is no old file
            q = link_target(inp)
            if os.path.exists(target):
                os.rename(target, q)
            os.symlink(os.path.join('..', q), target)
        if inp.get('mode') is not None and os.path.exists(target):
            # an existing target whose permission bits are not those of a freshly created file (chmod 600 users.conf)
            os.chmod(target, inp['mode'])
        out['old'] = open(target, 'rb').read().decode('latin1') if os.path.exists(target) else None
        if crash is None:
            out['old_state'] = loaded_state(inp['caller'], target, os.path.join(jobdir, 'scratch'))[0]
        logfd = os.open(os.path.join(jobdir, 'log.json'), os.O_WRONLY | os.O_CREAT | os.O_TRUNC)
        pid = os.fork()
        if pid == 0:
            try:
                child_main(inp, crash, xdir + '/' if xdir else None, logfd)
            finally:
                os._exit(4)
        _, status = os.waitpid(pid, 0)
        os.close(logfd)
        out['exit'] = os.waitstatus_to_exitcode(status)
        raw = open(os.path.join(jobdir, 'log.json')).read()
        out['log'] = json.loads(raw) if raw else None
        out['files'], out['links'] = snapshot(jobdir, xdir)
        st, opened = loaded_state(inp['caller'], target, os.path.join(jobdir, 'scratch'))
        out['state'], out['opened'] = st, opened
    except Exception:
        out['error'] = traceback.format_exc()[-1500:]
    finally:
        os.chdir(base)
        shutil.rmtree(jobdir, True)
        if xdir:
            shutil.rmtree(xdir, True)
    return out


def run_jobs(jobs):
    """fork a pool of workers; each worker runs its share of jobs (forking one grandchild per job)"""
    if not jobs:
        return []
    d = boot.boot()
    base = os.path.join(d, 'jobs%d' % run_jobs.count)
    run_jobs.count += 1
    os.makedirs(base)
    xbase = None
    if xdev_available():
        xbase = '/dev/shm/verif_c17_%d_%d' % (os.getpid(), run_jobs.count)
        os.makedirs(xbase, exist_ok=True)
    nw = max(1, min(int(os.environ.get('VERIF_JOBS', os.cpu_count() or 4)), 16, len(jobs)))
    sys.stdout.flush(); sys.stderr.flush()
    pids = []
    for w in range(nw):
        pid = os.fork()
        if pid == 0:
            rc = 0
            try:
                with open(os.path.join(base, 'res%d.jsonl' % w), 'w') as f:
                    for idx in range(w, len(jobs), nw):
                        f.write(json.dumps(run_job(base, xbase, idx, jobs[idx])) + '\n')
            except BaseException:
                traceback.print_exc()
                rc = 1
            os._exit(rc)
        pids.append(pid)
    bad = 0
    for pid in pids:
        _, st = os.waitpid(pid, 0)
        bad += os.waitstatus_to_exitcode(st) != 0
    res = [None] * len(jobs)
    for w in range(nw):
        p = os.path.join(base, 'res%d.jsonl' % w)
        if os.path.exists(p):
            for line in open(p):
                r = json.loads(line)
                res[r['idx']] = r
    os.chdir(d)
    shutil.rmtree(base, True)
    if xbase:
        shutil.rmtree(xbase, True)
    if bad or any(r is None for r in res):
        raise RuntimeError('worker failure: %d workers failed, %d results missing' % (bad, sum(r is None for r in res)))
    return res


run_jobs.count = 0


def xdev_available():
    if xdev_available.v is None:
        try:
            d = boot.boot()
            xdev_available.v = (os.path.isdir('/dev/shm') and os.access('/dev/shm', os.W_OK)
                                and os.stat('/dev/shm').st_dev != os.stat(d).st_dev)
        except OSError:
            xdev_available.v = False
    return xdev_available.v


xdev_available.v = None


# --------------------------------------------------------------------------
# model side
def model_case(inp, log):
    """wire input of the model for one recorded session"""
    s = log['info']['sessions'][0]
    tmp = inp.get('tmp', 'none')
    tmpdir = {'none': None, 'same': 'tmp', 'exdev': 'tmp', 'realxdev': XPLACE, 'registry': 'data/tmp'}[tmp]
    cfg = [[] if tmpdir is None else [tmpdir], tmp in ('exdev', 'realxdev'),
           [] if s['backupDir'] is None else [s['backupDir']], s['mbis'], s['aeo'],
           [link_target(inp)] if inp.get('link') else []]
    return cfg, s['filename']


def wire_bytes(s):
    return [ord(c) for c in s]      # latin1 string = bytes


def canon_events(evs):
    m = {'create': 0, 'append': 1, 'close': 2, 'rename': 3, 'touch': 4, 'remove': 5}
    out = []
    for e in evs:
        out.append([m.get(e[0], e[0])] + e[1:])
    return out


def dec_eff(e):
    k = e[0]
    s = lambda v: ''.join(map(chr, v))
    if k == 1:
        return [1, s(e[1]), e[2]]
    if k == 3:
        return [3, s(e[1]), s(e[2])]
    return [k, s(e[1])]


def dec_opt(v):
    return None if v == [] else ''.join(map(chr, v[0]))


# --------------------------------------------------------------------------
def crash_points(ctx, events, limit):
    """(i, side) for every effect; when a flush has very many temp-file writes only a sample of those"""
    n = len(events)
    idx = list(range(n))
    if n > limit:
        keep = {i for i, e in enumerate(events) if not (e[0] == 'append' and i + 1 < n and events[i + 1][0] == 'append')}
        keep |= {0, 1, 2}
        rest = [i for i in idx if i not in keep]
        ctx.rng.shuffle(rest)
        keep |= set(rest[:max(0, limit - len(keep))])
        idx = sorted(keep)
    return [(i, side) for i in idx for side in ('before', 'after')]


def evaluate(ctx, cases, limit=40, kind_prefix=''):
    """cases: list of inp (crash=None -> all crash points; crash=[i,side] -> that one)"""
    recs = run_jobs([{'inp': c, 'crash': None} for c in cases])
    wires, infos = [], []
    for c, r in zip(cases, recs):
        log = r.get('log')
        if r.get('error') or not log or log['status'] != 'completed':
            ctx.disagree(c, 'a completed flush', {k: r.get(k) for k in ('error', 'exit')} | {'log': log},
                         'recording run did not complete')
            infos.append(None); wires.append(None)
            continue
        if len(log['info'].get('sessions', [])) != 1:
            # not (one) AtomicFile: no model prediction, but the crash points are still enumerated for the direct oracle
            ctx.disagree(c, 'one AtomicFile session', log['info'].get('sessions', []), 'the flush does not go through exactly one AtomicFile')
            n = len(log['events'])
            pts = [tuple(c['crash'][:2])] if c.get('crash') else crash_points(ctx, log['events'], limit)
            infos.append({'fn': target_of(c), 'pts': pts, 'ks': [], 'n': n, 'full_temp': True, 'nomodel': True})
            wires.append(None)
            continue
        cfg, fn = model_case(c, log)
        ops = [[0, wire_bytes(w)] for w in log['writes']]
        if c['caller'] == 'raw':
            ops, wi = [], iter(log['writes'])
            for o, res in zip(c['ops'], log['info']['results']):
                if o[0] == 'w':
                    if res == 'ok':
                        ops.append([0, wire_bytes(next(wi))])
                    else:
                        ops.append([0, wire_bytes(o[1].encode('utf8').decode('latin1'))])
                else:
                    ops.append([1] if o[0] == 'close' else [2])
            ops.append([2])
        else:
            ops += [[1] if m == 'close' else [2] for m in log['info'].get('calls', ['close'])]
        fs0 = [] if r['old'] is None else [[wire_bytes(link_target(c) if c.get('link') else fn), wire_bytes(r['old'])]]
        n = len(log['events'])
        pts = [tuple(c['crash'][:2])] if c.get('crash') else crash_points(ctx, log['events'], limit)
        ks = sorted({i + (side == 'after') for i, side in pts} | {0, n})
        full_temp = n <= 200
        wires.append([0, [fn, TOKEN, str(NOW), cfg, fs0, ops, c.get('chunk', 0), ks, full_temp]])
        infos.append({'fn': fn, 'pts': pts, 'ks': ks, 'n': n, 'full_temp': full_temp})
    live = [i for i, w in enumerate(wires) if w is not None]
    mouts = ctx.model([wires[i] for i in live]) if live else []
    mo = dict(zip(live, mouts))
    # the one-pass state computation of the wire function against the direct form apply (firstn k es) f0
    xc = [i for i in live if infos[i]['n'] <= 40][:ctx.n(25)]
    for i, d in zip(xc, ctx.model([[3, wires[i][1]] for i in xc]) if xc else []):
        if d is not None and d != mo[i]:
            ctx.disagree(cases[i], mo[i], d, 'model wire: one-pass states differ from apply (firstn k effects)')
    jobs, owner = [], []
    pred = {}
    for ci, (c, r) in enumerate(zip(cases, recs)):
        info = infos[ci]
        if info is None:
            continue
        log = r['log']
        m = mo.get(ci)
        final = r['files'].get(info['fn'])
        new = ''.join(log['writes']) if not info.get('nomodel') else (final or '')
        aeo = log['info']['sessions'][0]['aeo'] if not info.get('nomodel') else True
        info.update(old=r['old'], new=new, old_state=r['old_state'], new_state=r['state'], final=final,
                    events=canon_events(log['events']))
        if m is not None:
            if isinstance(m, tuple):
                ctx.disagree(c, m, None, 'model error')
                m = None
            else:
                names = [''.join(map(chr, x)) for x in m[0]]
                mres = [('ok' if x[0] == 0 else {2: 'ValueError', 12: 'OtherError'}.get(x[1], x[1])) for x in m[1]]
                meffs = [dec_eff(e) for e in m[2]]
                states = {k: [dec_opt(st[0]), dec_opt(st[1]) if info['full_temp'] else (None if st[1] == [] else st[1][0]),
                              dec_opt(st[2]), dec_opt(st[3]), bool(st[4])] for k, st in zip(info['ks'], m[3])}
                info.update(names=names, states=states)
                if meffs != canon_events(log['events']):
                    ctx.disagree(c, meffs, canon_events(log['events']), 'effect sequence of the uncrashed run')
                if names[0] != log['info']['sessions'][0]['temp']:
                    ctx.disagree(c, names[0], log['info']['sessions'][0]['temp'], 'temp file name')
                if c['caller'] == 'raw' and mres[:-1] != log['info']['results']:
                    ctx.disagree(c, mres, log['info']['results'], 'results of the method calls')
                check_disk(ctx, c, info, r, info['n'], None, True)
        # direct oracle on the complete run: the save worked (or was legitimately refused)
        full = dict(c, crash=None)
        calls = log['info'].get('calls', [])
        ends_close = (calls[:1] == ['close']) if c['caller'] != 'raw' else (
            c['ops'] and c['ops'][-1][0] == 'close' and all(o[0] == 'w' for o in c['ops'][:-1]))
        if ends_close:
            refused = (new == '' and r['old'] is not None and not aeo)
            want = r['old'] if refused else new
            if final != want:
                ctx.fail(full, 'complete save left %s instead of the %s version' % (short(final), 'old' if refused else 'new'))
        elif (c['caller'] != 'raw' and calls[:1] == ['rollback']) or (
                c['caller'] == 'raw' and c['ops'] and c['ops'][-1][0] == 'rollback' and all(o[0] == 'w' for o in c['ops'][:-1])):
            if final != r['old']:
                ctx.fail(full, 'rollback changed the target: %s' % short(final))
            if not info.get('nomodel') and log['info']['sessions'][0]['temp'] in r['files']:
                ctx.fail(full, 'rollback left the temp file behind')
        info['wire'] = wires[ci]
        for pt, mode in fault_plan(ctx, c, info, log, ci):
            jobs.append({'inp': c, 'crash': list(pt) + ([mode] if mode != 'kill' else [])})
            owner.append((ci, pt, mode))
    # model prediction for the flushes interrupted by an exception: prefix k, then the unwinding
    uw_keys = sorted({(ci, pt[0] + (pt[1] == 'after'), pt[0] != 0) for ci, pt, mode in owner
                      if mode != 'kill' and infos[ci].get('wire') is not None and 'names' in infos[ci]})
    uw_out = ctx.model([[4, infos[ci]['wire'][1][:7] + [k, inited, infos[ci]['full_temp']]] for ci, k, inited in uw_keys]) \
        if uw_keys else []
    uw = dict(zip(uw_keys, uw_out))
    res = run_jobs(jobs)
    for (ci, pt, mode), r in zip(owner, res):
        c, info = cases[ci], infos[ci]
        inp = dict(c, crash=list(pt) + ([mode] if mode != 'kill' else []))
        ctx.case(kind_prefix + c['caller'] + '/' + c.get('tmp', 'none') + '/' + pt[1] + ('' if mode == 'kill' else '/' + mode), inp,
                 nontrivial=(pt[0] + (pt[1] == 'after')) > 0)
        k = pt[0] + (pt[1] == 'after')
        if mode == 'kill':
            if r.get('error') or r.get('exit') != 77:
                ctx.disagree(inp, 'crash at %r' % (pt,), {k: r.get(k) for k in ('error', 'exit', 'log')}, 'crash point not reached')
                continue
            if 'states' in info:
                check_disk(ctx, inp, info, r, k, pt, False)
        else:
            log = r.get('log')
            if r.get('error') or r.get('exit') != 0 or not log or log['status'] != 'unwound' or log['fired'] != k:
                ctx.disagree(inp, '%s raised at %r' % (mode, pt), {k: r.get(k) for k in ('error', 'exit', 'log')}, 'fault point not reached')
                continue
            m = uw.get((ci, k, pt[0] != 0))
            if m is not None:
                if isinstance(m, tuple):
                    ctx.disagree(inp, m, None, 'model error')
                else:
                    meffs = [dec_eff(e) for e in m[0]]
                    if meffs != canon_events(log['events']):
                        ctx.disagree(inp, meffs, canon_events(log['events']),
                                     'effect sequence of the flush interrupted by %s %s effect %d' % (mode, pt[1], pt[0]))
                    st = m[1]
                    want = [dec_opt(st[0]), dec_opt(st[1]) if info['full_temp'] else (None if st[1] == [] else st[1][0]), dec_opt(st[2]),
                            dec_opt(st[3]), bool(st[4])]
                    fn, (temp, backup) = info['fn'], info['names']
                    got = [r['files'].get(fn), r['files'].get(temp), r['files'].get(backup)] + link_view(c, info, r)
                    cmp_got = [got[0], len(got[1]) if (isinstance(want[1], int) and got[1] is not None) else got[1]] + got[2:]
                    extra = sorted(set(r['files']) - {fn, temp, backup, link_target(c)})
                    if cmp_got != want or extra:
                        ctx.disagree(inp, [short(x) for x in want], [short(x) for x in got] + extra,
                                     'files on disk after %s was raised %s effect %d and the stack unwound' % (mode, pt[1], pt[0]))
        oracle(ctx, inp, c, info, r)


MODES = ('SystemExit', 'KeyboardInterrupt', 'OSError')
def fault_plan(ctx, c, info, log, ci):
    """[(point, mode)]: every crash point dies by kill; by SystemExit (what the SIGTERM handler raises); a fifth of them
    (half in the thorough tier) by KeyboardInterrupt; the writes/close of the temp file also by an OSError"""
    if c.get('crash'):
        cr = c['crash']
        return [((cr[0], cr[1]), cr[2] if len(cr) > 2 else 'kill')]
    plan = [(pt, 'kill') for pt in info['pts']]
    pts = info['pts'] if info['n'] <= 200 else info['pts'][:6] + info['pts'][-6:]
    sess = log['info'].get('sessions', [])
    temp = sess[0]['temp'] if len(sess) == 1 else None
    nops = log['info'].get('n_ops_events', info['n'])
    for pt in pts:
        if pt[0] >= nops:
            continue          # effects of the final collection of the object (__del__): exceptions there are ignored
        plan.append((pt, 'SystemExit'))
        if (ctx.scale > 1 and (pt[0] + ci) % 2 == 0) or (pt[0] + ci) % 5 == 0:
            plan.append((pt, 'KeyboardInterrupt'))
        ev = log['events'][pt[0]]
        if ev[0] in ('append', 'close') and ev[1] == temp and (ctx.scale > 1 or pt[1] == 'before'):
            plan.append((pt, 'OSError'))
    return plan


def short(s):
    if s is None:
        return 'no file'
    if isinstance(s, int):
        return '%d bytes' % s
    return '%d bytes %r' % (len(s), s[:40])


def link_view(inp, info, r):
    """[content of the file the link points to, is the target path still a link] -- ([None, False] without a link)"""
    if not inp.get('link'):
        return [None, False]
    return [r['files'].get(link_target(inp)), info['fn'] in r.get('links', {})]


def check_disk(ctx, inp, info, r, k, pt, full):
    """correspondence: disk after the (crashed) run == model state after k effects"""
    want = info['states'].get(k)
    if want is None:
        return
    fn, (temp, backup) = info['fn'], info['names']
    files = r['files']
    got = [files.get(fn), files.get(temp), files.get(backup)] + link_view(inp, info, r)
    ok = got[0] == want[0] and got[2:] == want[2:]
    # temp: user-space buffering before its close
    closed = any(e[0] == 'close' for e in r['log']['events'][:k])
    if isinstance(want[1], int):       # very long flush: the model reports the temp file's length only
        ok = ok and got[1] is not None and (len(got[1]) == want[1] if closed else len(got[1]) <= want[1])
    elif closed or want[1] is None or got[1] is None:
        ok = ok and got[1] == want[1]
    else:
        ok = ok and want[1].startswith(got[1])
    extra = sorted(set(files) - {fn, temp, backup, link_target(inp)})
    if not ok or extra:
        ctx.disagree(inp, [short(x) for x in want], [short(x) for x in got] + extra,
                     'files on disk after %s' % ('the complete run' if full else 'a kill %s effect %d' % (pt[1], pt[0])))


def oracle(ctx, inp, c, info, r):
    """the property text on the implementation"""
    fn = info['fn']
    got = r['files'].get(fn)
    old, new = info['old'], info['new']
    if not (got == old or got == new or (old is None and got == '')):
        how = 'a kill' if len(inp['crash']) < 3 else '%s raised (stack unwound, process exited normally)' % inp['crash'][2]
        ctx.fail(inp, 'after %s %s effect %d of %s the target is %s: neither the old (%s) nor the new (%s) version'
                 % (how, inp['crash'][1], inp['crash'][0], info.get('events', [])[inp['crash'][0]:inp['crash'][0] + 1] or 'the flush',
                    short(got), short(old), short(new)))
        return
    if c['caller'] != 'raw':
        allowed = {info['old_state'], info['new_state']}
        if r['state'] not in allowed:
            ctx.fail(inp, 'the file left by the %s does not load to the old or new state: %r' % ('crash' if len(inp['crash']) < 3 else inp['crash'][2], r['state'],))
        bad = [p for p in r['opened'] if p != 'load_' + os.path.basename(fn)]
        if bad:
            ctx.fail(inp, 'the loader read files other than the target: %r' % bad)


# --------------------------------------------------------------------------
# case generation
def raw_case(old, writes, tmp='none', backup='none', mbis=None, aeo=None, end='close', chunk=0, ops=None, explicit=False, with_=False,
             link=False):
    return {'caller': 'raw', 'old': old, 'ops': ops if ops is not None else [['w', w] for w in writes] + [[end]],
            'tmp': tmp, 'backup': backup, 'mbis': mbis, 'aeo': aeo, 'chunk': chunk, 'explicit_dirs': explicit, 'with': with_, 'link': link}


def db_case(caller, old, new, tmp='none', backup='none', chunk=0, link=False):
    return {'caller': caller, 'old': old, 'new': new, 'tmp': tmp, 'backup': backup, 'chunk': chunk, 'link': link}


WITNESS = raw_case('OLD-1 OLD-2 ', ['NEW-1 ', 'NEW-2 ', 'NEW-3 '], tmp='exdev', chunk=6)
CORPUS = [
    raw_case('old content\n', ['new ', 'content\n']),
    raw_case(None, ['first save\n']),
    raw_case('long old content ' * 4, ['short\n'], backup='dir', chunk=16),
    raw_case('long old content ' * 4, ['short\n'], backup='devnull'),
    raw_case('long old content ' * 4, ['short\n'], backup='none', tmp='same'),
    raw_case('old\n', [], aeo=False),
    raw_case('old\n', [], aeo=True, backup='dir'),
    raw_case(None, [], aeo=False),
    raw_case('old\n', ['abc', 'def'], end='rollback', tmp='same'),
    raw_case('old\n', ['x'], ops=[['w', 'x'], ['close'], ['w', 'y'], ['close'], ['rollback']]),
    raw_case('old\n', ['x'], ops=[['w', 'x'], ['rollback'], ['close'], ['rollback'], ['w', 'z']]),
    raw_case('OLD-1 OLD-2 ', ['NEW-1 ', 'NEW-2 ', 'NEW-3 '], tmp='exdev', chunk=6),
    raw_case('OLD ' * 8, ['N'], tmp='exdev', backup='dir', chunk=5),
    raw_case('\xe9\xe8 old', ['\xe9€ new'], tmp='same', explicit=True),
    raw_case('old content\n', ['new ', 'content\n'], with_=True),
    raw_case('long old content ' * 4, ['short\n'], backup='dir', tmp='same', chunk=16, with_=True),
]

# fixed finding C17.F44 (registry.close swallowed the I/O error of a write and committed the file without that value):
# its old witnesses stay in the corpus, so that the violation is reported again should it ever return
CORPUS += [
    dict(db_case('registry', {'n': 0, 'v': 1}, {'n': 0, 'v': 2}), crash=[3, 'before', 'OSError']),
    dict(db_case('userdata', {'n': 3, 'v': 1}, {'n': 1, 'v': 2}, backup='dir', chunk=32), crash=[3, 'before', 'OSError']),
]

# the target path is a symbolic link (conf/users.conf -> ../store/users.conf, the registry file, a flatfile)
CORPUS += [
    dict(raw_case('old content of a chmod 600 file\n' * 3, ['new ', 'content\n'], chunk=16), mode=0o600),
    dict(raw_case('old content of a chmod 600 file\n' * 3, ['new ', 'content\n'], tmp='same', backup='dir', chunk=16), mode=0o600),
    dict(db_case('users', {'n': 2, 'v': 1}, {'n': 1, 'v': 2}, chunk=64), mode=0o640),
    dict(raw_case('old content\n', ['new ', 'content\n'], link=True), mode=0o600),
    raw_case('old content\n', ['new ', 'content\n'], link=True),
    raw_case(None, ['first save through a dangling link\n'], link=True),
    raw_case('long old content ' * 4, ['short\n'], backup='dir', tmp='same', chunk=16, link=True),
    raw_case('OLD-1 OLD-2 ', ['NEW-1 ', 'NEW-2 '], tmp='exdev', chunk=6, link=True),
    raw_case('old\n', ['abc'], end='rollback', link=True),
    db_case('users', {'n': 2, 'v': 1}, {'n': 1, 'v': 2}, backup='dir', chunk=64, link=True),
    db_case('registry', {'n': 0, 'v': 1}, {'n': 0, 'v': 2}, tmp='same', link=True),
    db_case('vacuum', {'n': 3, 'v': 1, 'removed': 1}, None, link=True),
    db_case('userdata', None, {'n': 1, 'v': 2}, link=True),
]

# the production defaults of conf.py: tmpDir/backupDir are registry values forced at every AtomicFile()
CORPUS += [
    raw_case('long old content ' * 4, ['short\n'], tmp='registry', backup='dir', chunk=16),
    raw_case(None, ['first\n'], tmp='registry', backup='devnull'),
    db_case('users', {'n': 2, 'v': 1}, {'n': 1, 'v': 2}, tmp='registry', backup='dir', chunk=64),
    db_case('registry', {'n': 0, 'v': 1}, {'n': 0, 'v': 2}, tmp='registry', backup='dir'),
    db_case('chanuserdb', {'n': 3, 'v': 1}, {'n': 1, 'v': 2}, tmp='registry', backup='dir'),
    db_case('chanuserdb', {'n': 2, 'v': 1}, {'n': 0, 'v': 2}),       # an emptied ChannelUserDB rolls back ("refusing to write blank file")
]

TMPS = ['none', 'same', 'exdev', 'realxdev']
BACKUPS = ['none', 'dir', 'devnull']


def gen_raw(rng):
    shape = rng.choice(['absent', 'empty', 'shorter', 'longer', 'equal', 'big'])
    unit = rng.choice(['line %d\n', 'x', '\xe9€\n', 'record-%d;'])
    mk = lambda n: ''.join((unit % i) if '%' in unit else unit for i in range(n))
    nnew = rng.choice([0, 1, 2, 3, 5])
    writes = [mk(rng.randint(0, 3)) for _ in range(nnew)]
    newlen = sum(len(w.encode('utf8')) for w in writes)
    old = {'absent': None, 'empty': '', 'shorter': mk(1)[:max(0, newlen // 2)], 'longer': mk(4) + ''.join(writes),
           'equal': ''.join(writes), 'big': 'B' * 9000}[shape]
    if shape == 'big' and rng.random() < 0.5:
        old, writes = 'small\n', ['W' * 5000, 'Z' * 5000]
    tmp = rng.choice(TMPS)
    end = 'close' if rng.random() < 0.85 else 'rollback'
    ops = None
    if rng.random() < 0.1:
        ops = [rng.choice([['w', 'q'], ['close'], ['rollback']]) for _ in range(rng.randint(1, 5))]
    return raw_case(old, writes, tmp=tmp, backup=rng.choice(BACKUPS), mbis=rng.choice([None, True, False]),
                    aeo=rng.choice([None, True, False]), end=end,
                    chunk=rng.choice([0, 64, 4096] if shape == 'big' else [0, 1, 3, 7, 64, 4096]), ops=ops,
                    explicit=rng.random() < 0.3, with_=(ops is None and end == 'close' and rng.random() < 0.3),
                    link=rng.random() < 0.25)


def gen_db(rng, caller):
    sizes = [None, 0, 1, 3, 8]
    o, n = rng.choice(sizes), rng.choice(sizes[1:])
    old = None if o is None else {'n': o, 'v': rng.randint(0, 3)}
    new = {'n': n, 'v': rng.randint(0, 3)}
    if caller == 'vacuum':
        o = rng.choice([0, 1, 3, 8])
        old = {'n': o, 'v': rng.randint(0, 3), 'removed': rng.randint(0, o)}
        new = None
    if caller == 'registry':
        new = {'n': 0, 'v': rng.randint(0, 3)}
        old = rng.choice([None, {'n': 0, 'v': rng.randint(0, 3)}])
    return db_case(caller, old, new, tmp=rng.choice(TMPS), backup=rng.choice(BACKUPS), chunk=rng.choice([0, 16, 200]),
                   link=rng.random() < 0.3)


def usable(c):
    return c.get('tmp') != 'realxdev' or xdev_available()


FLAT_TEXTS = ['0003\n0001:record one\n0002:second: with colon\n', '0003\n----:removed\n0002:kept\n', '0001\n', '0002\n0001:no newline at end',
              '0002\n0001:a\r\n', '0002\n0001:\n', '0003\n0001:x\nbroken line\n0002:y\n', '0003\n0001:x\nab:notanumber\n', '0002\n:empty id\n',
              '0002\n0001:caf\xe9\n', '0002\n\n0001:x\n', '0002\n0001:x\n\n', '0004\n-001:gone\n0002:b\n0003:c:d:e\n']


def check_loader_table(ctx, only=None):
    """the caller table of theorem C17_loads on the implementation: (1) an empty file loads to the same state as no
    file for every caller that may meet a first-ever save; (2) the FlatfileMapping iterator model (flat_load) against
    the real one.  (The other loader models are those of C16/C15, validated by those checks.)"""
    from lib import wire
    d = boot.boot()
    base = os.path.join(d, 'loaders%d' % os.getpid())
    os.makedirs(os.path.join(base, 'scratch'), exist_ok=True)
    try:
        for caller in ('users', 'channels', 'networks', 'ignores', 'userdata'):
            inp = {'op': 'empty-file', 'caller': caller}
            if only is not None and only != inp:
                continue
            ctx.case('loader/empty-vs-absent', inp)
            path = os.path.join(base, os.path.basename(target_of({'caller': caller})))
            open(path, 'w').close()
            got = loaded_state(caller, path, os.path.join(base, 'scratch'))[0]
            absent = loaded_state_here(caller, path + '.absent', os.path.join(base, 'scratch'))[0]
            if got != absent:
                ctx.fail(inp, 'an empty %s loads to %r, no file to %r (the first-ever-save window is not harmless)' % (caller, got, absent))
        texts = list(FLAT_TEXTS)
        if only is None:
            for _ in range(ctx.n(40)):
                n = ctx.rng.randint(0, 5)
                texts.append('%04d\n' % (n + 1) + ''.join(
                    ctx.rng.choice(['%04d:rec %d\n' % (i, i), '----:gone\n', '%04d:a:b\n' % i, '%04d:\n' % i, 'junk\n', '%04d:x' % i])
                    for i in range(1, n + 1)))
        else:
            texts = [only['text']] if only.get('op') == 'flat-load' else []
        outs = ctx.model([[5, t] for t in texts]) if texts else []
        for t, mo in zip(texts, outs):
            inp = {'op': 'flat-load', 'text': t}
            ctx.case('loader/flat', inp)
            path = os.path.join(base, 'flat.db')
            with open(path, 'w', encoding='utf8') as f:
                f.write(t)
            real = loaded_state('vacuum', path, os.path.join(base, 'scratch'))[0]
            if mo is not None and not isinstance(mo, tuple):
                r = wire.r(mo, lambda l: [(int(wire.s(kv[0])), wire.s(kv[1])) for kv in l])
                mine = repr(r[1]) if r[0] == 'ok' else 'LOAD-ERROR %s' % r[1]
                if mine != real:
                    ctx.disagree(inp, mine, real, 'FlatfileMapping iteration')
    finally:
        shutil.rmtree(base, True)


# --------------------------------------------------------------------------
# dbi.FlatfileMapping.add: the in-place writer (fixed finding C17.F47).  Fault points = before/after every method call
# on the file object add() works with; a kill there, then a restart.
FLAT_ADD_CASES = [{'op': 'flat-add', 'n': 2, 'removed': 0, 'rec': 'third record'},
                  {'op': 'flat-add', 'n': 0, 'removed': 0, 'rec': 'first: with colon'},
                  {'op': 'flat-add', 'n': 3, 'removed': 2, 'rec': 'caf\xe9'},
                  {'op': 'flat-add', 'n': 1, 'removed': 1, 'rec': ''}]


def _flat_parse(path):
    lines = open(path, encoding='utf8').read().split('\n')
    recs = [l.split(':', 1) for l in lines[1:] if l and not l.startswith('-')]
    return int(lines[0]), [(int(i), t) for i, t in recs]


def _flat_run(base, case, crash):
    """prepare the old file, run add(rec) in a child (killed at `crash` = (call index, side) or None); returns
    (calls made, parsed file, records after a restart, ids after one more add)"""
    import supybot.dbi as dbi
    fn = os.path.join(base, 'flat_%d.db' % os.getpid())
    if os.path.exists(fn):
        os.remove(fn)
    db = dbi.FlatfileMapping(fn)
    ids = [db.add('record %d' % i) for i in range(case['n'])]
    for i in ids[:case['removed']]:
        db.remove(i)
    old = _flat_parse(fn)
    r, w = os.pipe()
    pid = os.fork()
    if pid == 0:
        n = [0]
        real = builtins.open

        class Proxy(object):
            def __init__(self, f):
                self.__dict__['_f'] = f

            def __getattr__(self, name):
                attr = getattr(self._f, name)
                if not callable(attr):
                    return attr

                def call(*a, **k):
                    if crash == (n[0], 'before'):
                        os._exit(77)
                    res = attr(*a, **k)
                    n[0] += 1
                    if crash == (n[0] - 1, 'after'):
                        os._exit(77)
                    return res
                return call

        def o(file, mode='r', *a, **k):
            f = real(file, mode, *a, **k)
            return Proxy(f) if (file == fn and '+' in mode) else f
        dbi.open = o
        try:
            if case['op'] == 'flat-add':
                db.add(case['rec'])
            elif case['op'] == 'flat-set':
                db.set(case['id'], case['rec'])
            else:
                db.remove(case['id'])
            os.write(w, str(n[0]).encode())
        finally:
            os._exit(0)
    os.close(w)
    out = os.read(r, 64)
    os.close(r)
    os.waitpid(pid, 0)
    disk = _flat_parse(fn)
    db2 = dbi.FlatfileMapping(fn)             # the restart
    recs = list(db2)
    db2.add('the add after the restart')
    after = [i for i, _ in db2]
    os.remove(fn)
    return (int(out) if out else None), old, disk, recs, after


def check_flat_add(ctx, only=None):
    d = boot.boot()
    for case in ([only] if only else FLAT_ADD_CASES):
        base = dict((k, case[k]) for k in ('op', 'n', 'removed', 'rec'))
        ncalls, old, final, _, _ = _flat_run(d, base, None)
        want_recs = old[1] + [(old[0], base['rec'])]
        if final != (old[0] + 1, want_recs):
            ctx.fail(dict(base, crash=None), 'add() left %r, expected next id %d and records %r' % (final, old[0] + 1, want_recs))
        pts = [tuple(case['crash'])] if case.get('crash') else [(i, sd) for i in range(ncalls or 0) for sd in ('before', 'after')]
        mstates = ctx.model([[6, [old[0], [[i, t] for i, t in old[1]], base['rec'], k]] for k in (0, 1, 2)])
        seen = []
        for pt in pts:
            inp = dict(base, crash=list(pt))
            ctx.case('flat-add/' + pt[1], inp)
            _, _, disk, recs, after = _flat_run(d, base, pt)
            if not seen or seen[-1] != disk:
                seen.append(disk)
            # the property on the implementation: old or new records, and no id is ever handed out twice
            if recs not in (old[1], want_recs):
                ctx.fail(inp, 'after a kill %s call %d of add() the records are %r: neither the old nor the new ones' % (pt[1], pt[0], recs))
            elif len(set(after)) != len(after):
                ctx.fail(inp, 'after a kill %s call %d of FlatfileMapping.add() the file is %r: the restarted bot hands out id %d twice '
                              '(ids %r); get()/remove() of that id then hit the wrong / both records'
                         % (pt[1], pt[0], disk, max(after, key=after.count), after))
        if not case.get('crash') and all(m is not None and not isinstance(m, tuple) for m in mstates):
            from lib import wire
            model_seq = []
            for m in mstates:
                st = (m[0], [(kv[0], wire.s(kv[1])) for kv in m[1]])
                if not model_seq or model_seq[-1] != st:
                    model_seq.append(st)
            if model_seq != seen:
                ctx.disagree(dict(base, crash=None), model_seq, seen, 'sequence of on-disk states of FlatfileMapping.add over all kill points')


FLAT_SET_CASES = [{'op': 'flat-set', 'n': 2, 'removed': 0, 'id': 1, 'rec': 'changed'},
                  {'op': 'flat-set', 'n': 3, 'removed': 1, 'id': 3, 'rec': 'last one changed: x'},
                  {'op': 'flat-set', 'n': 2, 'removed': 0, 'id': 7, 'rec': 'an id that is not in the file'},
                  {'op': 'flat-set', 'n': 2, 'removed': 2, 'id': 1, 'rec': 'a removed id comes back'},
                  {'op': 'flat-remove', 'n': 3, 'removed': 0, 'id': 2, 'rec': ''},
                  {'op': 'flat-remove', 'n': 2, 'removed': 1, 'id': 2, 'rec': ''},
                  {'op': 'flat-remove', 'n': 2, 'removed': 0, 'id': 9, 'rec': ''}]


def check_flat_set_remove(ctx, only=None):
    """dbi.FlatfileMapping.set / remove, in place: a kill before/after every method call on their file object, then a restart"""
    from lib import wire
    d = boot.boot()
    for case in ([only] if only else FLAT_SET_CASES):
        base = dict((k, case[k]) for k in ('op', 'n', 'removed', 'id', 'rec'))
        is_set = base['op'] == 'flat-set'
        what = 'set(%d, %r)' % (base['id'], base['rec']) if is_set else 'remove(%d)' % base['id']
        ncalls, old, final, _, _ = _flat_run(d, base, None)
        new = [r for r in old[1] if r[0] != base['id']] + ([(base['id'], base['rec'])] if is_set else [])
        if final[1] != new:
            ctx.fail(dict(base, crash=None), '%s left %r, expected %r' % (what, final[1], new))
        pts = [tuple(case['crash'])] if case.get('crash') else [(i, sd) for i in range(ncalls or 0) for sd in ('before', 'after')]
        payload = [old[0], [[i, t] for i, t in old[1]], is_set, base['id'], base['rec']]
        m0 = ctx.model([[7, payload + [0]]])[0]
        nwrites = m0[0] if (m0 is not None and not isinstance(m0, tuple)) else None
        mstates = ctx.model([[7, payload + [k]] for k in range((nwrites or 0) + 1)]) if nwrites is not None else []
        seen = []
        for pt in pts:
            inp = dict(base, crash=list(pt))
            ctx.case(base['op'] + '/' + pt[1], inp)
            _, _, disk, recs, after = _flat_run(d, base, pt)
            if not seen or seen[-1] != disk[1]:
                seen.append(disk[1])
            if recs not in (old[1], new):
                ctx.fail(inp, 'after a kill %s call %d of FlatfileMapping.%s the records are %r: neither the old ones %r nor the new ones %r'
                         % (pt[1], pt[0], what, recs, old[1], new))
        if not case.get('crash') and mstates and all(m is not None and not isinstance(m, tuple) for m in mstates):
            model_seq = []
            for m in mstates:
                st = [(kv[0], wire.s(kv[1])) for kv in m[1]]
                if not model_seq or model_seq[-1] != st:
                    model_seq.append(st)
            if model_seq != seen:
                ctx.disagree(dict(base, crash=None), model_seq, seen, 'sequence of on-disk records of FlatfileMapping.%s over all kill points' % what)


def run(ctx):
    boot.boot()
    import supybot.ircdb, supybot.dbi, supybot.world  # noqa: F401  (before forking)
    rng = ctx.rng
    cases = [dict(c) for c in CORPUS]
    # systematic part: every caller x every tmp mode, shrinking save (backup path) and growing save
    for caller in CALLERS:
        for tmp in TMPS:
            if tmp == 'realxdev' and ctx.scale == 1 and caller not in ('users', 'registry'):
                continue       # quick tier: the real second file system for two callers (+ raw), the injected EXDEV for all
            if caller == 'vacuum':
                cases.append(db_case(caller, {'n': 4, 'v': 1, 'removed': 2}, None, tmp=tmp, backup='dir', chunk=32, link=(tmp == 'same')))
            elif caller == 'registry':
                cases.append(db_case(caller, {'n': 0, 'v': 1}, {'n': 0, 'v': 2}, tmp=tmp, backup='dir', chunk=32, link=(tmp == 'same')))
            else:
                cases.append(db_case(caller, {'n': 3, 'v': 1}, {'n': 1, 'v': 2}, tmp=tmp, backup='dir', chunk=32, link=(tmp == 'same')))
                if tmp in ('none', 'exdev'):
                    cases.append(db_case(caller, None if tmp == 'none' else {'n': 1, 'v': 0}, {'n': 3, 'v': 3}, tmp=tmp, chunk=50))
    for _ in range(ctx.n(28)):
        cases.append(gen_raw(rng))
    for _ in range(ctx.n(10)):
        cases.append(gen_db(rng, rng.choice(CALLERS)))
    cases = [c for c in cases if usable(c)]
    if not xdev_available():
        ctx.notes.append('no second file system available: cross-device cases use the injected EXDEV only')
    evaluate(ctx, cases, limit=22 if ctx.scale == 1 else 80)
    # the whole configuration of the bot (thousands of writes): sampled crash points
    big = [db_case('registry', {'n': 0, 'v': 1}, {'n': 1, 'v': 2}, tmp='same', backup='dir')]
    if ctx.scale > 1:
        big.append(db_case('registry', {'n': 1, 'v': 1}, {'n': 1, 'v': 2}, tmp='exdev', backup='none', chunk=20000))
    evaluate(ctx, big, limit=24 if ctx.scale == 1 else 120, kind_prefix='full-')
    check_loader_table(ctx)
    check_flat_add(ctx)
    check_flat_set_remove(ctx)


def _flat_set_existing(inp):
    """class predicate of finding C17.F49: set() of an id that is (live) in the file"""
    return inp.get('op') == 'flat-set' and inp.get('removed', 0) < inp.get('id', 0) <= inp.get('n', 0)


CLASSES = {'flat_set_in_place': _flat_set_existing,
           'tmpdir_other_fs': lambda inp: inp.get('tmp') in ('exdev', 'realxdev') and
           (inp.get('caller') != 'raw' or any(o[0] == 'close' for o in inp.get('ops', [])))}


def replay(ctx, inp):
    boot.boot()
    import supybot.ircdb, supybot.dbi, supybot.world  # noqa: F401
    sub = type(ctx)(ctx.pid, ctx.tier, ctx.seed, {'model_ok': False})
    if inp.get('op') in ('flat-set', 'flat-remove'):
        import supybot.dbi  # noqa: F401
        check_flat_set_remove(sub, only=inp)
        return sub.failures[0]['detail'] if sub.failures else None
    if inp.get('op') == 'flat-add':
        import supybot.dbi  # noqa: F401
        check_flat_add(sub, only=inp)
        return sub.failures[0]['detail'] if sub.failures else None
    if inp.get('op') in ('empty-file', 'flat-load'):
        check_loader_table(sub, only=inp)
        return sub.failures[0]['detail'] if sub.failures else None
    if not usable(inp):
        inp = dict(inp, tmp='exdev')
    evaluate(sub, [inp], limit=10 ** 6)
    return sub.failures[0]['detail'] if sub.failures else None


def shrink(ctx, inp):
    return inp
