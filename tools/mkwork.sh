#!/bin/bash
# tools/mkwork.sh Cnn : private copy of /verif and a scratch worktree of /repo for one builder
set -e
id=$1
mkdir -p /work/$id
rsync -a --delete --exclude .git --exclude .work --exclude replay /verif/ /work/$id/verif/
if [ ! -d /work/$id/repo ]; then git -C /repo worktree add --detach /work/$id/repo HEAD >/dev/null 2>&1; fi
echo /work/$id
