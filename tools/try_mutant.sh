#!/bin/bash
# tools/try_mutant.sh DIR Cnn [more ids]: confirm the demo (fails with patch, passes without), then run our checks against the patched /repo
d=$1; shift
cd /repo && git status --short | grep -v '^??' && { echo "/repo not clean"; exit 2; }
echo "== demo on clean /repo"; /venv/bin/python $d/demo.py /repo >/tmp/mut/demo_clean.log 2>&1; echo "rc=$?"
git -C /repo apply $d/patch.diff || { echo "patch does not apply"; exit 2; }
echo "== demo on patched /repo"; /venv/bin/python $d/demo.py /repo >/tmp/mut/demo_patched.log 2>&1; echo "rc=$?"; tail -3 /tmp/mut/demo_patched.log
for id in "$@"; do
  echo "== check $id on patched /repo"
  (cd /verif && ./check $id 2>&1 | grep -E "^(VIOLATION|$id quick|  broken)" | cut -c1-400)
done
git -C /repo checkout -- . ; git -C /repo status --short | grep -v '^??'
echo "== reverted"
