#!/bin/bash
# tools/try_mutant.sh DIR Cnn [more ids]: confirm the demo (exit 0 without / 1 with the patch) and run our checks
# against a scratch worktree carrying the patch (VERIF_REPO), so that concurrent work on /repo is not disturbed.
# With REAL=1 the patch is applied to /repo itself and reverted afterwards (the procedure of the brief).
d=$1; shift
if [ -n "$REAL" ]; then
  T=/repo
  git -C /repo status --short | grep -v '^??' && { echo "/repo not clean"; exit 2; }
else
  T=/tmp/mut/_try/repo
  [ -d $T ] || git -C /repo worktree add --detach $T HEAD >/dev/null 2>&1
  git -C $T checkout -q -f --detach main
fi
echo "== demo on clean tree"; /venv/bin/python $d/demo.py $T >/tmp/mut/demo_clean.log 2>&1; echo "rc=$?"
git -C $T apply $d/patch.diff || { echo "patch does not apply"; exit 2; }
echo "== demo on patched tree"; /venv/bin/python $d/demo.py $T >/tmp/mut/demo_patched.log 2>&1; echo "rc=$?"; tail -2 /tmp/mut/demo_patched.log | cut -c1-300
for id in "$@"; do
  echo "== check $id on patched tree"
  (cd /verif && VERIF_REPO=$T ./check $id 2>&1 | grep -E "^(VIOLATION|$id quick|  broken)" | cut -c1-400)
done
git -C $T checkout -q -- . ; git -C $T status --short | grep -v '^??'
echo "== reverted"
