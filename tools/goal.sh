#!/bin/bash
# tools/goal.sh FILE LINE [COL]: show the proof state just before LINE (1-based) of coq/FILE
cd "$(dirname "$0")/../coq"
f=$1; n=$2
tmp=$(dirname $f)/Zgoal_tmp.v
head -n $((n-1)) $f > $tmp
echo "Show. Abort." >> $tmp
coqc $(grep '^-Q' _CoqProject | tr '\n' ' ') $tmp 2>&1 | tail -${3:-40}
rm -f $tmp $(dirname $f)/Zgoal_tmp.* $(dirname $f)/.Zgoal_tmp.aux
