#!/bin/bash
# tools/baseline.sh DIR : run the pinned baseline test command inside DIR (a worktree of /repo) and report how many
# of BASELINE.json's stable_pass tests pass there
dir=${1:-/repo}
x=$(mktemp /verif/.work/junit.XXXXXX.xml)
(cd $dir && /venv/bin/python -m pytest -q -p no:cacheprovider --timeout=900 --continue-on-collection-errors --junitxml=$x >/dev/null 2>&1)
/venv/bin/python - "$x" <<'P'
import json, sys, xml.etree.ElementTree as ET
want = set(json.load(open('/root/.vp/BASELINE.json'))['stable_pass'])
ok = set()
for tc in ET.parse(sys.argv[1]).getroot().iter('testcase'):
    if not any(c.tag in ('failure', 'error', 'skipped') for c in tc):
        ok.add('%s::%s' % (tc.get('classname'), tc.get('name')))
miss = sorted(want - ok)
print('baseline: %d/%d stable tests pass' % (len(want & ok), len(want)))
for m in miss[:20]:
    print('  NOT PASSING:', m)
P
rm -f $x
