#!/usr/bin/env python3
import json, glob, os, re
os.chdir('/verif')
for f in sorted(glob.glob('coq/C??/Props.v')):
    pid = f.split('/')[1]
    text = open(f).read()
    names = re.findall(r'^\s*Theorem\s+(\w+)', text, re.M)
    fn = 'findings/%s.json' % pid
    fs = json.load(open(fn))['findings'] if os.path.exists(fn) else []
    lines = sum(len(open(x).read().split('\n')) for x in glob.glob('coq/%s/*.v' % pid))
    print('%s: %d theorems, %d coq lines, findings %s' % (pid, len(names), lines, [x['id'] for x in fs]))
    print('   ' + ', '.join(names))
