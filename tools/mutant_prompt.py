#!/usr/bin/env python3
"""tools/mutant_prompt.py Cnn k [hint] -> prompt text for a fresh mutation agent (nothing from /verif besides the property text)"""
import json, sys
pid, k = sys.argv[1], sys.argv[2]
hint = sys.argv[3] if len(sys.argv) > 3 else ''
p = [json.loads(l) for l in open('/verif/properties.jsonl') if json.loads(l)['id'] == pid][0]
d = '/tmp/mut/%s_%s' % (pid, k)
print('''You are testing how well a regression would be noticed in Limnoria (a Python IRC bot). You get ONE semantic property of the software and a private git worktree of its repository at %(d)s/repo. Work ONLY inside %(d)s (read and modify the worktree there; never touch /repo, /verif or /work, and do not read them).

PROPERTY %(id)s — %(title)s
Statement: %(statement)s
Quantified over: %(qtext)s
Why the existing tests cannot settle it: %(why)s
Code that is meant to make it hold: %(mech)s
Files: %(files)s

TASK: make a small, realistic change to the code in the worktree (the kind of regression a developer could introduce: a refactor gone slightly wrong, an off-by-one, a dropped or weakened check, two statements reordered, a wrong variable, a cache not invalidated, ...) that BREAKS this property while
 (a) the code still imports and runs, and
 (b) the existing test suite still passes exactly as before: `cd %(d)s/repo && /venv/bin/python -m pytest -q -p no:cacheprovider --timeout=900 --continue-on-collection-errors 2>&1 | tail -3` must report the same number of passed tests as on the unmodified tree (347 passed; the many failures/errors are pre-existing because the suite cannot build a live bot under pytest).
The change must need something SPECIFIC to manifest — a particular interleaving or order of operations, a crash or fault at a particular point, a multi-step sequence, an unusual input, a particular configuration, or two cooperating sites that each look fine alone — not something that ordinary use would expose at once. Do not add obviously malicious code, do not touch tests, keep the diff small (ideally < 15 lines).%(hint)s

DELIVERABLES in %(d)s:
 - patch.diff  : `git -C %(d)s/repo diff > %(d)s/patch.diff`
 - demo.py     : a standalone script, run as `/venv/bin/python %(d)s/demo.py <path-to-a-repo-tree>`, that exits 1 and prints what went wrong when the property is violated, and exits 0 on the unmodified tree. It must put <path-to-a-repo-tree> first on sys.path and import `supybot` from there.
 - meta.json   : {"property": "%(id)s", "change": "...what the change does...", "needs": "...what it needs in order to manifest...", "ran": ["commands you ran and what they showed"]}
Verify yourself before finishing: demo.py exits 1 against %(d)s/repo with your change, exits 0 against the same tree after `git -C %(d)s/repo apply -R %(d)s/patch.diff` (then re-apply with `git -C %(d)s/repo apply %(d)s/patch.diff`; do NOT use git stash: the stash is shared between worktrees), and the pytest pass count is unchanged with the change applied.

How to run real bot code outside pytest (needed by demo.py): chdir to a fresh temporary directory (never run from inside the repo: it would write conf/data/logs there); `sys.path.insert(0, repo)` (package `supybot` is the symlink repo/supybot -> src); write a registry file containing `supybot.directories.data/conf/log/backup: <tmp>/...`, `supybot.networks.test.server: should.not.need.this`, `supybot.nick: test`, `supybot.reply.whenAddressedBy.chars: @`, `supybot.protocols.irc.throttleTime: 0`, `supybot.log.stdout: False`; call `supybot.registry.open_registry(fn)` BEFORE importing `supybot.conf`/`log`/`ircdb`; then `conf.supybot.flush.setValue(False)`, `conf.supybot.directories.plugins.setValue([repo + '/plugins'])`; keep `world.testing = log.testing = False` (otherwise capability checks grant everything and the firewall re-raises). A live bot: `irc = irclib.Irc('test')`, give it a stub driver object with `reconnect(*a, **k)` and `die()`, drain `irc.takeMsg()`, load plugins with `plugin.loadPluginClass(irc, plugin.loadPluginModule(name))` (Owner first, then Misc, Config, User, ...), feed with `irc.feedMsg(ircmsgs.privmsg(to, text, prefix=frm))`. A SocketDriver can be built with `__new__` plus a fake `conn` object. Many properties need no live bot at all (pure functions/classes can be imported and called directly).

Final message: one paragraph saying what you changed, what it needs to manifest, and the exact results of the three verification commands.''' % dict(
    d=d, id=p['id'], title=p['title'], statement=p['statement'], qtext=p['quantifier']['text'], why=p['why_tests_cant'],
    mech='; '.join('%s (%s)' % (m.get('name'), m.get('where')) for m in p['anchors']['mechanism']),
    files=', '.join(p['anchors']['files']), hint=('\nHINT for variety: ' + hint) if hint else ''))
