#!/bin/bash
# tools/runall.sh SEED [TIER]: run every claimed check, one line per property
cd "$(dirname "$0")/.."
seed=${1:-0}; tier=${2:-quick}
for f in harness/c[0-9][0-9].py; do
  id=C$(basename $f .py | cut -c2-)
  out=$(VERIF_SEED=$seed ./check $id --tier $tier 2>&1)
  rc=$?
  echo "seed=$seed rc=$rc $(echo "$out" | grep -E "^$id (quick|thorough)" | cut -c1-200)"
  echo "$out" | grep -E "^(VIOLATION|  broken)" | cut -c1-300
done
