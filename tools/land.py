#!/venv/bin/python
"""tools/land.py PLAN.json [--dest /verif]: land repairs of genuine defects.
For each entry of the plan: `git -C /repo apply PATCH`, commit with MSG (first line must start with "fix:"), then put the
commit id in place of the word COMMIT in the matching "fixed: ..." strings of DEST/findings/<property>.json.
The plan is a list of {"patch":..., "msg":..., "marks":[[property, substring of the fixed string], ...]}."""
import json, subprocess, sys, os
plan = json.load(open(sys.argv[1]))
dest = sys.argv[sys.argv.index('--dest') + 1] if '--dest' in sys.argv else '/verif'
def sh(*a):
    return subprocess.run(a, check=True, stdout=subprocess.PIPE, text=True).stdout.strip()
assert not [l for l in sh('git', '-C', '/repo', 'status', '--short').split('\n') if l and not l.startswith('??')], '/repo not clean'
for e in plan:
    msg = open(e['msg']).read()
    assert msg.startswith('fix:'), e['msg']
    try:
        sh('git', '-C', '/repo', 'apply', e['patch'])
    except subprocess.CalledProcessError:
        # written against the pinned tree; an earlier repair touched the same function
        sh('git', '-C', '/repo', 'apply', '--3way', e['patch'])
    sh('git', '-C', '/repo', 'commit', '-q', '-a', '-F', e['msg'])
    cid = sh('git', '-C', '/repo', 'rev-parse', '--short', 'HEAD')
    print(cid, msg.split('\n')[0])
    for prop, sub in e['marks']:
        p = os.path.join(dest, 'findings', prop + '.json')
        j = json.load(open(p))
        hit = [i for i, s in enumerate(j.get('fixed', [])) if sub in s and ' COMMIT ' in s]
        assert len(hit) == 1, (prop, sub, hit)
        j['fixed'][hit[0]] = j['fixed'][hit[0]].replace(' COMMIT ', ' %s ' % cid, 1)
        json.dump(j, open(p, 'w'), indent=1)
        open(p, 'a').write('\n')
