#!/usr/bin/env python3
"""tools/keep_mutant.py DIR NAME "caught-by notes": file a confirmed seeded change under /verif/seeded/NAME"""
import json, os, shutil, sys
d, name, notes = sys.argv[1], sys.argv[2], sys.argv[3]
dst = '/verif/seeded/' + name
os.makedirs(dst, exist_ok=True)
for f in ('patch.diff', 'demo.py'):
    shutil.copy(os.path.join(d, f), dst)
meta = json.load(open(os.path.join(d, 'meta.json')))
meta['confirmed'] = ('demo.py exits 0 on the unchanged /repo and 1 with patch.diff applied (tools/try_mutant.sh); '
                     'agent reported pytest 347 passed with the change')
meta['our_checks'] = notes
json.dump(meta, open(os.path.join(dst, 'meta.json'), 'w'), indent=1)
print('kept', dst)
