#!/venv/bin/python
"""tools/reconcile_fixed.py NEWDIR: a builder's findings file still says COMMIT for repairs that are already landed;
take the commit ids from /verif/findings (same text after the id)."""
import json, glob, os, sys
new = sys.argv[1]
for p in sorted(glob.glob(os.path.join(new, 'findings', 'C*.json'))):
    old = os.path.join('/verif/findings', os.path.basename(p))
    if not os.path.exists(old):
        continue
    j, o = json.load(open(p)), json.load(open(old))
    have = {s.split(None, 3)[3][:80]: s.split(None, 3)[2] for s in o.get('fixed', []) if s.split(None, 3)[2] != 'COMMIT'}
    ch = False
    for i, s in enumerate(j.get('fixed', [])):
        w = s.split(None, 3)
        if w[2] == 'COMMIT' and w[3][:80] in have:
            j['fixed'][i] = ' '.join(w[:2] + [have[w[3][:80]], w[3]])
            ch = True
    if ch:
        json.dump(j, open(p, 'w'), indent=1); open(p, 'a').write('\n')
        print('reconciled', os.path.basename(p))
