#!/bin/bash
# tools/mkmut.sh Cnn k [hint]: scratch worktree + prompt for a mutation agent
id=$1; k=$2; d=/tmp/mut/${id}_$k
mkdir -p $d
[ -d $d/repo ] || git -C /repo worktree add --detach $d/repo HEAD >/dev/null 2>&1
python3 /verif/tools/mutant_prompt.py $id $k "$3" > $d/prompt.txt
echo $d
