#!/bin/bash
# tools/merge.sh Cnn : copy one builder's property files back into /verif
set -e
id=$1; lc=$(echo $id | tr 'C' 'c'); n=${id:1}
w=/work/$id/verif
D=${DEST:-/verif}
rsync -a --delete --exclude '*.vo' --exclude '*.vok' --exclude '*.vos' --exclude '*.glob' --exclude '.*.aux' $w/coq/$id/ $D/coq/$id/
find $D/coq/$id -name "*.v" -exec touch {} +
cp $w/harness/$lc.py $D/harness/
[ -f $w/harness/tables/t$n.py ] && cp $w/harness/tables/t$n.py $D/harness/tables/
[ -f $w/findings/$id.json ] && cp $w/findings/$id.json $D/findings/
[ -d $w/corpus/$id ] && rsync -a $w/corpus/$id/ $D/corpus/$id/
echo merged $id
