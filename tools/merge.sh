#!/bin/bash
# tools/merge.sh Cnn : copy one builder's property files back into /verif
set -e
id=$1; lc=$(echo $id | tr 'C' 'c'); n=${id:1}
w=/work/$id/verif
rsync -a --delete --exclude '*.vo' --exclude '*.vok' --exclude '*.vos' --exclude '*.glob' --exclude '.*.aux' $w/coq/$id/ /verif/coq/$id/
find /verif/coq/$id -name "*.v" -exec touch {} +
cp $w/harness/$lc.py /verif/harness/
[ -f $w/harness/tables/t$n.py ] && cp $w/harness/tables/t$n.py /verif/harness/tables/
[ -f $w/findings/$id.json ] && cp $w/findings/$id.json /verif/findings/
[ -d $w/corpus/$id ] && rsync -a $w/corpus/$id/ /verif/corpus/$id/
echo merged $id
