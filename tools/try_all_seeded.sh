#!/bin/bash
# tools/try_all_seeded.sh: re-validate every kept seeded change against the current /repo HEAD (scratch worktree).
# The checks to run are meta.json's "caught_by" (default: the property the change was made for).
cd /verif
for d in seeded/*/; do
  n=$(basename $d); id=${n%%_*}
  ids=$(/venv/bin/python -c "import json,sys; m=json.load(open('$d/meta.json')); print(' '.join(m.get('caught_by',[m.get('property','$id')])))")
  echo "##### $n"
  tools/try_mutant.sh /verif/seeded/$n $ids 2>&1 | grep -E "^rc=|^== |^VIOLATION|quick:|patch does not apply" | cut -c1-220
done
