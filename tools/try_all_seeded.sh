#!/bin/bash
# tools/try_all_seeded.sh: re-validate every kept seeded change against the current /repo HEAD (scratch worktree)
cd /verif
for d in seeded/*/; do
  n=$(basename $d); id=${n%%_*}
  ids=$id; [ $id = C08 ] && ids="C08 C09"; [ $id = C09 ] && ids="C09 C08"
  echo "##### $n"
  tools/try_mutant.sh /verif/seeded/$n $ids 2>&1 | grep -E "^rc=|^== |^VIOLATION|quick:|patch does not apply" | cut -c1-220
done
