#!/bin/bash
# MANIFEST.setup_cmd: regenerate tables from /repo, build all Coq files (full
# .vo build), extract the models and link the `modelrun` binary.  Offline.
set -u
cd "$(dirname "$0")"
exec /venv/bin/python harness/build.py --all "$@"
