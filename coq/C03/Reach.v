(* C03/Reach.v — the hypothesis db_ok of the anti-symmetry theorem is what
   CapabilitySet.add maintains: sets built from [] by add (of capabilities on
   which invertCapability is an involution) never hold an element next to its
   inverse. *)
From Coq Require Import List NArith ZArith Bool Arith Lia.
Import ListNotations.
Require Import Base.Wire Base.PyStr C03.Model C03.Fold C03.CaseInsens C03.Anti.
Open Scope N_scope.

Lemma seq_eqb_sym a b : seq_eqb a b = seq_eqb b a.
Proof.
  destruct (seq_eqb a b) eqn:E1, (seq_eqb b a) eqn:E2; try reflexivity.
  - apply seq_eqb_eq in E1. subst. rewrite seq_eqb_refl in E2. discriminate.
  - apply seq_eqb_eq in E2. subst. rewrite seq_eqb_refl in E1. discriminate.
Qed.

(* invertCapability is an involution on x *)
Definition invol (x : str) : bool :=
  match invertCapability x with
  | Ok i => match invertCapability i with Ok x' => seq_eqb x x' | Raise _ => false end
  | Raise _ => false
  end.

Definition sets_ok (S : cset) : bool := set_ok S && forallb invol S.

Lemma invert_length x i : invertCapability x = Ok i -> length i <> length x.
Proof.
  unfold invertCapability. destruct (negb (isCapability x)); [discriminate|].
  destruct (isAntiCapability x) eqn:Ea.
  - unfold unAntiCapability. destruct (negb (isCapability x)); [discriminate|]. rewrite Ea. cbn [negb].
    unfold isAntiCapability in Ea.
    destruct (chan_parts x) as [[ch cap]|] eqn:Ecp.
    + apply andb_true_iff in Ea as [_ Hd]. destruct cap as [|c0 cap']; [discriminate|].
      destruct (chan_parts_inv _ _ _ Ecp) as [Hx _]. subst x. intro H. inversion H; subst.
      rewrite !app_length. cbn. lia.
    + apply andb_true_iff in Ea as [_ Hd]. destruct x as [|c0 x']; [discriminate|].
      intro H. inversion H; subst. cbn. lia.
  - unfold makeAntiCapability. destruct (negb (isCapability x)); [discriminate|]. rewrite Ea.
    destruct (chan_parts x) as [[ch cap]|] eqn:Ecp.
    + unfold makeChannelCapability. destruct (negb (isCapability (DASH :: cap))); [discriminate|].
      destruct (negb (isChannel ch)); [discriminate|].
      destruct (chan_parts_inv _ _ _ Ecp) as [Hx _]. subst x. intro H. inversion H; subst.
      rewrite !app_length. cbn. lia.
    + intro H. inversion H; subst. cbn. lia.
Qed.

Lemma invert_neq x i : invertCapability x = Ok i -> seq_eqb i x = false.
Proof.
  intro H. apply seq_eqb_neq. intro E. subst. exact (invert_length _ _ H eq_refl).
Qed.

Lemma smem_sremove_iff x y S : smem x (sremove y S) = smem x S && negb (seq_eqb y x).
Proof.
  unfold smem, sremove. induction S as [|z S IH]; [reflexivity|]. cbn [filter existsb].
  destruct (seq_eqb y z) eqn:Eyz; cbn [negb].
  - rewrite IH. apply seq_eqb_eq in Eyz. subst z.
    destruct (seq_eqb x y) eqn:Exy; cbn [orb]; [|reflexivity].
    apply seq_eqb_eq in Exy. subst. rewrite seq_eqb_refl. cbn. rewrite andb_false_r. reflexivity.
  - cbn [existsb]. rewrite IH. destruct (seq_eqb x z) eqn:Exz; cbn [orb]; [|reflexivity].
    apply seq_eqb_eq in Exz. subst z. rewrite Eyz. reflexivity.
Qed.

Lemma smem_snoc x S y : smem x (S ++ [y]) = smem x S || seq_eqb x y.
Proof. unfold smem. rewrite existsb_app. cbn. rewrite orb_false_r. reflexivity. Qed.

Lemma forallb_sremove {f : str -> bool} y S : forallb f S = true -> forallb f (sremove y S) = true.
Proof.
  unfold sremove. rewrite !forallb_forall. intros H x Hx. apply filter_In in Hx as [Hx _]. apply H. exact Hx.
Qed.

Lemma In_smem x S : In x S -> smem x S = true.
Proof. intro H. unfold smem. apply existsb_exists. exists x. split; [exact H|apply seq_eqb_refl]. Qed.

(* CapabilitySet.add keeps the invariant *)
Theorem cs_add_preserves S c S' :
  sets_ok S = true -> invol (fold c) = true -> cs_add S c = Ok S' -> sets_ok S' = true.
Proof.
  unfold sets_ok. intros Hok Hinv Hadd. apply andb_true_iff in Hok as [Hso Hiv].
  unfold cs_add in Hadd. set (c' := fold c) in *.
  unfold invol in Hinv.
  destruct (invertCapability c') as [inv|] eqn:Ei; [|discriminate].
  destruct (invertCapability inv) as [c2|] eqn:Ei2; [|discriminate].
  apply seq_eqb_eq in Hinv. subst c2. cbn [bind] in Hadd.
  set (S1 := sremove inv S) in *.
  assert (Hinv_c : invol c' = true) by (unfold invol; rewrite Ei, Ei2; apply seq_eqb_refl).
  (* facts about S1 *)
  assert (HS1 : forall x, In x S1 -> In x S /\ seq_eqb inv x = false).
  { intros x Hx. unfold S1, sremove in Hx. apply filter_In in Hx as [H1 H2]. apply negb_true_iff in H2. auto. }
  assert (Hno : forall S2, (forall x, smem x S2 = true -> smem x S1 = true \/ seq_eqb x c' = true) ->
                forall x, In x S1 -> no_inverse_in S2 x = true).
  { intros S2 HS2 x Hx. destruct (HS1 x Hx) as [HxS Hne].
    unfold set_ok in Hso. rewrite forallb_forall in Hso. specialize (Hso x HxS).
    unfold no_inverse_in in *. destruct (invertCapability x) as [ix|] eqn:Eix; [|reflexivity].
    apply negb_true_iff in Hso. apply negb_true_iff.
    destruct (smem ix S2) eqn:Em; [|reflexivity]. exfalso.
    destruct (HS2 _ Em) as [H1|H1].
    - unfold S1 in H1. rewrite smem_sremove_iff in H1. apply andb_true_iff in H1 as [H1 _]. congruence.
    - apply seq_eqb_eq in H1. subst ix.
      (* invert x = c', and x is involutive: invert c' = x, but invert c' = inv, so x = inv *)
      rewrite forallb_forall in Hiv. specialize (Hiv x HxS). unfold invol in Hiv. rewrite Eix, Ei in Hiv.
      rewrite seq_eqb_sym in Hiv. congruence. }
  destruct (smem c' S1) eqn:Ec; inversion Hadd; subst S'; apply andb_true_iff; split.
  - unfold set_ok. apply forallb_forall. intros x Hx. apply (Hno S1); [|exact Hx]. intros y Hy. left. exact Hy.
  - apply forallb_sremove. exact Hiv.
  - unfold set_ok. rewrite forallb_app. apply andb_true_iff. split.
    + apply forallb_forall. intros x Hx. apply (Hno (S1 ++ [c'])); [|exact Hx].
      intros y Hy. rewrite smem_snoc in Hy. apply orb_true_iff in Hy. exact Hy.
    + cbn [forallb]. rewrite andb_true_r. unfold no_inverse_in. rewrite Ei. apply negb_true_iff.
      rewrite smem_snoc. unfold S1. rewrite smem_sremove_iff, seq_eqb_refl. cbn [negb]. rewrite andb_false_r. cbn [orb].
      apply (invert_neq _ _ Ei).
  - rewrite forallb_app. apply andb_true_iff. split; [apply forallb_sremove; exact Hiv|].
    cbn [forallb]. rewrite Hinv_c. reflexivity.
Qed.

Lemma sets_ok_nil : sets_ok [] = true.
Proof. reflexivity. Qed.

(* every set built from the empty set by successful adds of involutive capabilities is ok *)
Theorem built_sets_ok (cs : list str) :
  forallb (fun c => invol (fold c)) cs = true ->
  forall S, fold_left (fun r c => do acc <- r; cs_add acc c) cs (Ok []) = Ok S -> sets_ok S = true.
Proof.
  intro Hall.
  assert (Hgen : forall (r : res cset) S, (forall S0, r = Ok S0 -> sets_ok S0 = true) ->
            fold_left (fun r c => do acc <- r; cs_add acc c) cs r = Ok S -> sets_ok S = true).
  { induction cs as [|c cs IH]; intros r S Hr Hf; [cbn in Hf; apply Hr; exact Hf|].
    cbn [forallb] in Hall. apply andb_true_iff in Hall as [Hc Hrest].
    cbn [fold_left] in Hf. apply (IH Hrest (do acc <- r; cs_add acc c)); [|exact Hf].
    intros S0 HS0. destruct r as [acc|e]; cbn [bind] in HS0; [|discriminate].
    eapply cs_add_preserves; [apply Hr; reflexivity|exact Hc|exact HS0]. }
  intros S Hf. apply (Hgen (Ok []) S); [|exact Hf]. intros S0 H0. inversion H0. reflexivity.
Qed.

(* a capability of dom_cap is involutive, and so is its anti-capability *)
Lemma antipair_invol c a : antipair c a -> invol c = true /\ invol a = true.
Proof.
  intro H. destruct (antipair_facts _ _ H) as [_ [_ [_ [_ [H1 H2]]]]].
  unfold invol. rewrite H1, H2, H1. split; apply seq_eqb_refl.
Qed.

Example built_example :
  exists S, fold_left (fun r c => do acc <- r; cs_add acc c)
              [[102;111;111]; [45;98;97;114]; [35;99;44;111;112]; [45;102;111;111]] (Ok []) = Ok S
            /\ sets_ok S = true.
Proof. eexists. split; [vm_compute; reflexivity|vm_compute; reflexivity]. Qed.
