(* C03/Frame.v — what an edit of the account's capability set does NOT change:
   checkCapability reads the account's set only at the asked capability, its
   inverse, 'owner' and (for a channel capability) '#chan,op' and its inverse;
   two sets that agree there give the same answer.  Hence adding or removing
   any other capability leaves the answer for c untouched. *)
From Coq Require Import List NArith Bool.
Import ListNotations.
Require Import Base.Wire Base.PyStr C03.Model C03.Fold C03.CaseInsens C03.Anti C03.Total C03.Reach C03.Grant.

Definition agree (S1 S2 : cset) (c : str) : Prop :=
  smem (fold c) S1 = smem (fold c) S2 /\
  forall i, invertCapability (fold c) = Ok i -> smem i S1 = smem i S2.

Lemma cs_contains_agree S1 S2 c : agree S1 S2 c -> cs_contains S1 c = cs_contains S2 c.
Proof.
  intros [H1 H2]. unfold cs_contains. rewrite H1. destruct (smem (fold c) S2); [reflexivity|].
  destruct (invertCapability (fold c)) as [i|e] eqn:E; cbn; [rewrite (H2 i eq_refl)|]; reflexivity.
Qed.

Lemma cs_check_agree S1 S2 c : agree S1 S2 c -> cs_check S1 c = cs_check S2 c.
Proof.
  intros [H1 H2]. unfold cs_check. rewrite H1. destruct (smem (fold c) S2); [reflexivity|].
  destruct (invertCapability (fold c)) as [i|e] eqn:E; cbn; [rewrite (H2 i eq_refl)|]; reflexivity.
Qed.

Lemma ucs_contains_agree S1 S2 c io :
  smem OWNER S1 = smem OWNER S2 -> agree S1 S2 c -> ucs_contains S1 c io = ucs_contains S2 c io.
Proof.
  intros Ho Ha. unfold ucs_contains. rewrite Ho, !cs_contains_fold, (cs_contains_agree _ _ _ Ha). reflexivity.
Qed.

Lemma ucs_check_agree S1 S2 c io :
  smem OWNER S1 = smem OWNER S2 -> agree S1 S2 c -> ucs_check S1 c io = ucs_check S2 c io.
Proof.
  intros Ho Ha. unfold ucs_check. rewrite Ho, !cs_check_fold, (cs_check_agree _ _ _ Ha). reflexivity.
Qed.

Lemma user_check_agree S1 S2 i s c io :
  smem OWNER S1 = smem OWNER S2 -> agree S1 S2 c ->
  user_check (User S1 i s) c io = user_check (User S2 i s) c io.
Proof.
  intros Ho Ha. unfold user_check. cbn [u_ignore u_caps]. destruct i; [reflexivity|].
  apply ucs_check_agree; assumption.
Qed.

Theorem check_frame d u S2 c f :
  d_user d = Some u ->
  smem OWNER (u_caps u) = smem OWNER S2 ->
  agree (u_caps u) S2 c ->
  (forall chn cap chanop, chan_parts c = Some (chn, cap) ->
     makeChannelCapability chn OP = Ok chanop -> agree (u_caps u) S2 chanop) ->
  checkCapability (with_caps d S2) c f = checkCapability d c f.
Proof.
  intros Hu Ho Ha Hop. unfold checkCapability, with_caps. rewrite Hu.
  destruct u as [S1 ig sec]. cbn [d_user d_hostok u_secure u_caps u_ignore] in *.
  destruct (sec && negb (d_hostok d)); [reflexivity|].
  rewrite <- (ucs_contains_agree S1 S2 c false Ho Ha).
  rewrite <- (user_check_agree S1 S2 ig sec c (f_ignoreOwner f) Ho Ha).
  destruct (chan_parts c) as [[chn cap]|] eqn:Ec; [|reflexivity].
  destruct (makeChannelCapability chn OP) as [chanop|e] eqn:Em; cbn.
  - rewrite <- (user_check_agree S1 S2 ig sec chanop false Ho (Hop chn cap chanop eq_refl Em)). reflexivity.
  - reflexivity.
Qed.

(* an add touches the set at the added element and at its inverse only *)
Lemma cs_add_elsewhere S c S' x :
  cs_add S c = Ok S' -> x <> fold c ->
  (forall i, invertCapability (fold c) = Ok i -> x <> i) ->
  smem x S' = smem x S.
Proof.
  unfold cs_add. intros H Hx Hi.
  destruct (invertCapability (fold c)) as [inv|e] eqn:E; cbn in H; [|discriminate].
  assert (Hne : seq_eqb inv x = false).
  { destruct (seq_eqb inv x) eqn:Q; [|reflexivity]. apply seq_eqb_eq in Q. exfalso. apply (Hi inv eq_refl). congruence. }
  assert (Hnc : seq_eqb x (fold c) = false).
  { destruct (seq_eqb x (fold c)) eqn:Q; [|reflexivity]. apply seq_eqb_eq in Q. contradiction. }
  destruct (smem (fold c) (sremove inv S)); inversion H; subst.
  - rewrite smem_sremove_iff, Hne. cbn. apply andb_true_r.
  - rewrite smem_snoc, smem_sremove_iff, Hne, Hnc. cbn. rewrite andb_true_r, orb_false_r. reflexivity.
Qed.

(* the elements of the account's set an add of c may change / a question about c2 reads *)
Definition touched (c x : str) : Prop := x = fold c \/ invertCapability (fold c) = Ok x.
Definition queried (c2 x : str) : Prop :=
  x = OWNER \/ x = fold c2 \/ invertCapability (fold c2) = Ok x \/
  exists chn cap chanop, chan_parts c2 = Some (chn, cap) /\ makeChannelCapability chn OP = Ok chanop /\
                         (x = fold chanop \/ invertCapability (fold chanop) = Ok x).

Lemma ucs_add_elsewhere S c S' x :
  ucs_add S c = Ok S' -> ~ touched c x -> smem x S' = smem x S.
Proof.
  unfold ucs_add, touched. destruct (seq_eqb (fold c) ANTIOWNER); [discriminate|].
  intros H Hn. apply (cs_add_elsewhere S (fold c) S' x H); rewrite fold_idem.
  - intro E. apply Hn. left. exact E.
  - intros i Hi E. apply Hn. right. rewrite Hi, E. reflexivity.
Qed.

Theorem grant_frame d u c c2 f S' :
  d_user d = Some u -> ucs_add (u_caps u) c = Ok S' ->
  (forall x, queried c2 x -> ~ touched c x) ->
  checkCapability (with_caps d S') c2 f = checkCapability d c2 f.
Proof.
  intros Hu Hadd Hq.
  assert (E : forall x, queried c2 x -> smem x (u_caps u) = smem x S').
  { intros x Hx. symmetry. apply (ucs_add_elsewhere _ c); [exact Hadd|apply Hq; exact Hx]. }
  apply check_frame with (u := u); [exact Hu| | |].
  - apply E. left. reflexivity.
  - split; [apply E; right; left; reflexivity|].
    intros i Hi. apply E. right. right. left. exact Hi.
  - intros chn cap chanop Hc Hm. split.
    + apply E. right. right. right. exists chn, cap, chanop. auto.
    + intros i Hi. apply E. right. right. right. exists chn, cap, chanop. auto.
Qed.

(* non-vacuity: granting 'trusted' does not move the answer for 'admin' *)
Example grant_frame_example :
  forall x, queried [97; 100; 109; 105; 110] x -> ~ touched [116; 114; 117; 115; 116] x.
Proof.
  intros x Hq Ht.
  assert (Hx : x = [116; 114; 117; 115; 116] \/ x = [45; 116; 114; 117; 115; 116]).
  { destruct Ht as [E|E]; [left; rewrite E; vm_compute; reflexivity|right].
    vm_compute in E. inversion E. reflexivity. }
  destruct Hq as [E|[E|[E|[chn [cap [co [Hc _]]]]]]].
  - destruct Hx as [Hx|Hx]; rewrite Hx in E; vm_compute in E; discriminate.
  - destruct Hx as [Hx|Hx]; rewrite Hx in E; vm_compute in E; discriminate.
  - vm_compute in E. inversion E as [E']. destruct Hx as [Hx|Hx]; rewrite Hx in E'; discriminate.
  - vm_compute in Hc. discriminate.
Qed.

(* ---- the same over whole edit histories (adds and removes, failing edits included) ---- *)
Lemma cs_remove_elsewhere S c S' x : cs_remove S c = Ok S' -> x <> fold c -> smem x S' = smem x S.
Proof.
  unfold cs_remove. destruct (smem (fold c) S); [|discriminate]. intros H Hx. inversion H; subst.
  rewrite smem_sremove_iff.
  destruct (seq_eqb (fold c) x) eqn:Q; [apply seq_eqb_eq in Q; congruence|]. cbn. apply andb_true_r.
Qed.

Lemma cs_remove_gone S c S' : cs_remove S c = Ok S' -> smem (fold c) S' = false.
Proof.
  unfold cs_remove. destruct (smem (fold c) S); [|discriminate]. intros H. inversion H; subst.
  rewrite smem_sremove_iff, seq_eqb_refl. cbn. apply andb_false_r.
Qed.

Lemma user_edit_elsewhere S e x :
  ~ touched (snd e) x -> smem x (set_edit true S e) = smem x S.
Proof.
  intro Hn. unfold set_edit, set_edit_res. destruct e as [[|] c]; cbn [fst snd] in *.
  - destruct (ucs_add S c) as [S'|ex] eqn:E; [|reflexivity]. apply (ucs_add_elsewhere S c S' x E Hn).
  - destruct (cs_remove S c) as [S'|ex] eqn:E; [|reflexivity].
    apply (cs_remove_elsewhere S c S' x E). intro Q. apply Hn. left. exact Q.
Qed.

Lemma user_history_elsewhere es : forall S x,
  (forall e, In e es -> ~ touched (snd e) x) -> smem x (set_history true es S) = smem x S.
Proof.
  unfold set_history. induction es as [|e es IH]; intros S x H; cbn [fold_left]; [reflexivity|].
  rewrite IH by (intros e' He'; apply H; right; exact He').
  apply user_edit_elsewhere. apply H. left. reflexivity.
Qed.

Theorem history_frame d u es c2 f :
  d_user d = Some u ->
  (forall e x, In e es -> queried c2 x -> ~ touched (snd e) x) ->
  checkCapability (with_caps d (set_history true es (u_caps u))) c2 f = checkCapability d c2 f.
Proof.
  intros Hu Hq.
  assert (E : forall x, queried c2 x -> smem x (u_caps u) = smem x (set_history true es (u_caps u))).
  { intros x Hx. symmetry. apply user_history_elsewhere. intros e He. apply (Hq e x He Hx). }
  apply check_frame with (u := u); [exact Hu| | |].
  - apply E. left. reflexivity.
  - split; [apply E; right; left; reflexivity|].
    intros i Hi. apply E. right. right. left. exact Hi.
  - intros chn cap chanop Hc Hm. split.
    + apply E. right. right. right. exists chn, cap, chanop. auto.
    + intros i Hi. apply E. right. right. right. exists chn, cap, chanop. auto.
Qed.
