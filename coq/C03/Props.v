(* C03/Props.v — the property theorems, nothing else.
   Model: C03/Model.v (mirrors src/ircdb.py capability algebra, CapabilitySet,
   UserCapabilitySet, checkCapability, _checkCapabilityForUnknownUser).
   Proofs: Fold.v, CaseInsens.v, Anti.v, Total.v, Reach.v, Spec.v, Chan.v, Hist.v, Grant.v, Frame.v. *)
From Coq Require Import List NArith Bool.
Import ListNotations.
Require Import Base.Wire Base.PyStr C03.Model C03.Fold C03.CaseInsens C03.Anti C03.Total C03.Reach C03.Spec C03.Chan C03.Hist C03.Grant C03.Frame.

(* No exception escapes for a well-formed capability (non-empty, no
   whitespace), whatever the database and the three ignore* flags. *)
Theorem C03_total :
  forall d c f, wf_cap c = true -> exists b, checkCapability d c f = Ok b.
Proof. exact check_total. Qed.
Print Assumptions C03_total.

(* Asking for a capability and for its anti-capability gives opposite answers:
   for every database whose sets hold no element next to its own inverse (what
   CapabilitySet.add maintains), every flag setting without ignoreDefaultAllow,
   every capability of dom_cap (well-formed; the capability part of a channel
   capability is not itself a channel capability). *)
Theorem C03_anti_opposite :
  forall d c a f b,
    db_ok d = true -> f_ignoreDefaultAllow f = false ->
    dom_cap c = true -> isAntiCapability c = false -> makeAntiCapability c = Ok a ->
    checkCapability d c f = Ok b -> checkCapability d a f = Ok (negb b).
Proof.
  intros d c a f b Hok Hf Hd Hna Hm Hc.
  pose proof (anti_opp d c a f (makeAnti_antipair c a Hd Hna Hm) Hok Hf) as H.
  rewrite Hc in H. inversion H. reflexivity.
Qed.
Print Assumptions C03_anti_opposite.

(* An owner (recognised, not ignored) holds every capability and no anti-capability. *)
Theorem C03_owner_all :
  forall d u c f,
    d_user d = Some u -> (u_secure u && negb (d_hostok d)) = false ->
    smem OWNER (u_caps u) = true -> u_ignore u = false -> f_ignoreOwner f = false ->
    wf_cap c = true ->
    checkCapability d c f = Ok (negb (isAntiCapability c)).
Proof. exact owner_all. Qed.
Print Assumptions C03_owner_all.

(* An ignored account that holds the capability explicitly (or is owner) gets nothing. *)
Theorem C03_ignored_nothing :
  forall d u c f,
    d_user d = Some u -> (u_secure u && negb (d_hostok d)) = false ->
    u_ignore u = true -> ucs_contains (u_caps u) c false = Ok true ->
    checkCapability d c f = Ok (isAntiCapability c).
Proof. exact ignored_nothing. Qed.
Print Assumptions C03_ignored_nothing.

(* The answer never depends on the case of the asked name (rfc1459 folding),
   for every string, database and flag setting. *)
Theorem C03_case_insensitive :
  forall d c c' f, fold c = fold c' -> checkCapability d c f = checkCapability d c' f.
Proof. exact check_case_insensitive. Qed.
Print Assumptions C03_case_insensitive.

(* a secure account reached only through a login (hostmask does not match) is
   treated exactly like an unknown sender *)
Theorem C03_secure_mismatch_is_unknown :
  forall d u c f,
    d_user d = Some u -> u_secure u = true -> d_hostok d = false ->
    checkCapability d c f = check_unknown d c (f_ignoreDefaultAllow f).
Proof.
  intros d u c f Hu Hs Hh. unfold checkCapability. rewrite Hu, Hs, Hh. reflexivity.
Qed.
Print Assumptions C03_secure_mismatch_is_unknown.

(* The hypothesis db_ok of C03_anti_opposite is what CapabilitySet.add
   maintains: every set built from the empty set by adds of capabilities on
   which invertCapability is an involution (all of dom_cap and their
   anti-capabilities) holds no element next to its own inverse. *)
Theorem C03_add_maintains_set_ok :
  forall S c S', sets_ok S = true -> invol (fold c) = true -> cs_add S c = Ok S' -> sets_ok S' = true.
Proof. exact cs_add_preserves. Qed.
Print Assumptions C03_add_maintains_set_ok.

Theorem C03_built_sets_ok :
  forall cs, forallb (fun c => invol (fold c)) cs = true ->
  forall S, fold_left (fun r c => do acc <- r; cs_add acc c) cs (Ok []) = Ok S -> sets_ok S = true.
Proof. exact built_sets_ok. Qed.
Print Assumptions C03_built_sets_ok.

(* The documented precedence.  [spec_pos] (C03/Spec.v) is the decision list of
   the property text: the effective account (none if unknown or secure with a
   non-matching hostmask); asking for 'owner' itself; an owner holds everything
   (an ignored one nothing); an explicit user (anti)capability; for channel
   capabilities channel-op status, the channel's explicit setting, the channel
   default; otherwise the global default set, the registered-users set, the
   global default flag.  For every database whose sets were built by add and
   every (capability, anti-capability) pair of dom_cap, checkCapability computes
   exactly that list for the capability -- and, by C03_anti_opposite, its
   negation for the anti-capability. *)
Theorem C03_refines_spec :
  forall d p a, antipair p a -> db_ok d = true ->
  checkCapability d p flags0 =
  Ok (spec_pos d p a (match chan_parts p with Some (chn, x) => Some (chn, x, DASH :: x) | None => None end)).
Proof. exact check_is_spec. Qed.
Print Assumptions C03_refines_spec.

(* The documented precedence under ALL THREE ignore* flags and for BOTH members
   of a (capability, anti-capability) pair.  [spec_flags] (C03/Spec.v) is the
   decision list of C03_refines_spec with checkCapability's docstring applied:
   ignoreOwner switches off "owners have all capabilities" (an explicit 'owner'
   in the set is then just a capability), ignoreChannelOp switches off "channel
   ops have all channel capabilities", ignoreDefaultAllow makes every
   default-allow fallback (channel defaultAllow, global default flag) answer as
   if it were False; [anti] selects which member of the pair is asked and an
   answer b for the capability reads  holds anti b  for the asked one.  Three
   places mirror the code rather than the docstring read literally (notes (1)-(3)
   at spec_flags: the plain `return False` for a recognised sender's channel
   capability under ignoreDefaultAllow; ignoreOwner reaches neither the
   channel-op test nor the membership test).  For every database whose sets were
   built by add, every pair of dom_cap, whichever member is asked and EVERY flag
   triple, checkCapability computes exactly that list. *)
Theorem C03_refines_spec_flags :
  forall d p a f (anti : bool), antipair p a -> db_ok d = true ->
  checkCapability d (if anti then a else p) f = Ok (spec_flags d p a (chan_triple p) f anti).
Proof. exact check_is_spec_flags. Qed.
Print Assumptions C03_refines_spec_flags.

(* with the default flags, asked for the capability itself, spec_flags is the
   list of C03_refines_spec *)
Theorem C03_spec_flags_default :
  forall d p a ch, spec_flags d p a ch flags0 false = spec_pos d p a ch.
Proof. exact spec_flags0. Qed.
Print Assumptions C03_spec_flags_default.

(* Anti-symmetry for the flag triples where it holds: every triple without
   ignoreDefaultAllow (as C03_anti_opposite, here read off the decision list),
   and with ignoreDefaultAllow too unless the sender is a recognised account AND
   the capability is a channel capability. *)
Theorem C03_anti_opposite_flags :
  forall d p a f b, antipair p a -> db_ok d = true ->
  f_ignoreDefaultAllow f = false \/ effective_user d = None \/ chan_parts p = None ->
  checkCapability d p f = Ok b -> checkCapability d a f = Ok (negb b).
Proof. exact anti_opp_flags. Qed.
Print Assumptions C03_anti_opposite_flags.

(* Full statement that does NOT hold: "for every flag triple a capability and
   its anti-capability get opposite answers".  Outside the domain above the
   decision list refuses both (spec_flags_opposite_or_refused), witness: a
   recognised account without capabilities, "#c,x" / "#c,-x", a channel that says
   nothing about x, ignoreDefaultAllow.  AutoMode-only flag, outside the
   documented precedence: recorded in DESIGN section 6 as a non-finding. *)
Theorem C03_anti_opposite_ignoreDefaultAllow_refuted :
  antipair ida_witness_p ida_witness_a /\ db_ok ida_witness_db = true /\
  effective_user ida_witness_db <> None /\ chan_parts ida_witness_p <> None /\
  checkCapability ida_witness_db ida_witness_p (Flags false false true) = Ok false /\
  checkCapability ida_witness_db ida_witness_a (Flags false false true) = Ok false.
Proof. exact anti_opp_ignoreDefaultAllow_refuted. Qed.
Print Assumptions C03_anti_opposite_ignoreDefaultAllow_refuted.

(* every non-anti capability of dom_cap forms such a pair with its anti-capability *)
Theorem C03_dom_gives_pair :
  forall c a, dom_cap c = true -> isAntiCapability c = false -> makeAntiCapability c = Ok a -> antipair c a.
Proof. exact makeAnti_antipair. Qed.
Print Assumptions C03_dom_gives_pair.

(* The answer does not depend on the case of the CHANNEL part of the asked
   capability (rfc1459 folding: []\~ are the upper-case forms of {}|^): an
   instance of C03_case_insensitive, which holds because getChannel looks the
   name up through str.lower() AND the IrcDict key function ircutils.toLower
   (C03_unfolded_channel_table_differs: it fails for a table keyed by
   str.lower() alone). *)
Theorem C03_channel_case_insensitive :
  forall d chn chn' x f, fold chn = fold chn' ->
  checkCapability d (chn ++ COMMA :: x) f = checkCapability d (chn' ++ COMMA :: x) f.
Proof. exact check_channel_case. Qed.
Print Assumptions C03_channel_case_insensitive.

(* ... nor on the spelling under which the channel was stored: the table built
   by any sequence of setChannel calls depends only on the folded names, and a
   channel stored under one spelling is the one found under every other
   spelling of the same name. *)
Theorem C03_stored_channel_case_insensitive :
  forall sets sets', fold_names sets = fold_names sets' -> chans_of_sets sets = chans_of_sets sets'.
Proof. exact chans_of_sets_case. Qed.
Print Assumptions C03_stored_channel_case_insensitive.

Theorem C03_channel_found_under_any_spelling :
  forall d t n n' c, d_chans d = setChannel t n c -> fold n = fold n' -> getChannel d n' = c.
Proof. exact getChannel_after_setChannel. Qed.
Print Assumptions C03_channel_found_under_any_spelling.

(* The mechanism matters: with a channel table keyed by str.lower() only (a
   plain dict instead of the IrcDict) the channel "#a[" holding -x refuses
   "#a[,x" but grants "#a{,x" to a stranger, although both names fold to the
   same string; through the IrcDict both are refused. *)
Theorem C03_unfolded_channel_table_differs :
  fold NAME_SQ = fold NAME_CU /\
  (let d := Db None false (setChannel [] NAME_SQ CHAN_NOX) [] [] true in
   check_unknown_with getChannel d (NAME_SQ ++ COMMA :: CAP_X) false = Ok false /\
   check_unknown_with getChannel d (NAME_CU ++ COMMA :: CAP_X) false = Ok false) /\
  (let d := Db None false (setChannel_plain [] NAME_SQ CHAN_NOX) [] [] true in
   check_unknown_with getChannel_plain d (NAME_SQ ++ COMMA :: CAP_X) false = Ok false /\
   check_unknown_with getChannel_plain d (NAME_CU ++ COMMA :: CAP_X) false = Ok true).
Proof. exact plain_dict_is_case_sensitive. Qed.
Print Assumptions C03_unfolded_channel_table_differs.

(* The length bound of a channel name is inclusive (ircutils.isChannel:
   len(s) <= channellen; isChannelCapability / isAntiCapability /
   fromChannelCapability rest on it). *)
Theorem C03_isChannel_spec :
  forall s, isChannel s = true <->
  s <> [] /\ mem COMMA s = false /\ mem BEL s = false /\ hd_in gen.T03.CHANTYPES s = true /\
  (length s <= gen.T03.CHANNELLEN)%nat /\ one_word s = true.
Proof. exact isChannel_spec. Qed.
Print Assumptions C03_isChannel_spec.

(* with the regenerated CHANNELLEN: a name of exactly CHANNELLEN characters is a
   channel and one more is not; '<name>,x' is a channel capability, '<name>,-x'
   an anti-capability *)
Theorem C03_channel_length_boundary :
  length (name_of_len gen.T03.CHANNELLEN) = gen.T03.CHANNELLEN /\
  isChannel (name_of_len gen.T03.CHANNELLEN) = true /\
  isChannel (name_of_len (S gen.T03.CHANNELLEN)) = false /\
  chan_parts (name_of_len gen.T03.CHANNELLEN ++ COMMA :: [120]) = Some (name_of_len gen.T03.CHANNELLEN, [120]) /\
  isAntiCapability (name_of_len gen.T03.CHANNELLEN ++ COMMA :: DASH :: [120]) = true /\
  chan_parts (name_of_len (S gen.T03.CHANNELLEN) ++ COMMA :: [120]) = None.
Proof. exact channel_length_boundary. Qed.
Print Assumptions C03_channel_length_boundary.

(* For EVERY channel name of exactly CHANNELLEN characters, every database
   built by add and every flag triple, '<name>,x' and '<name>,-x' are decided by
   the channel branch of the decision list (channel-op status, the channel's
   explicit setting, its defaultAllow), not by the global defaults. *)
Theorem C03_boundary_channel_follows_spec :
  forall d chn x f (anti : bool),
  length chn = gen.T03.CHANNELLEN ->
  hd_in gen.T03.CHANTYPES chn = true -> mem COMMA chn = false -> mem BEL chn = false -> nows chn = true ->
  wf_cap x = true -> hd_is DASH x = false -> chan_parts x = None -> db_ok d = true ->
  checkCapability d (if anti then chn ++ COMMA :: DASH :: x else chn ++ COMMA :: x) f =
  Ok (spec_flags d (chn ++ COMMA :: x) (chn ++ COMMA :: DASH :: x) (Some (chn, x, DASH :: x)) f anti).
Proof. exact boundary_channel_follows_spec. Qed.
Print Assumptions C03_boundary_channel_follows_spec.

(* "After any history of edits".  CapabilitySet.remove keeps the invariant of
   C03_add_maintains_set_ok, and so does every history of add / remove edits on
   a CapabilitySet or a UserCapabilitySet, failing edits (KeyError of remove,
   the asserts of add) included: they leave the set unchanged.  Adds are of
   capabilities on which invertCapability is an involution (dom_cap and their
   anti-capabilities; outside: finding F21); removes are unrestricted. *)
Theorem C03_remove_maintains_set_ok :
  forall S c S', sets_ok S = true -> cs_remove S c = Ok S' -> sets_ok S' = true.
Proof. exact cs_remove_preserves. Qed.
Print Assumptions C03_remove_maintains_set_ok.

Theorem C03_history_sets_ok :
  forall user es S0, sets_ok S0 = true -> edits_ok es = true -> sets_ok (set_history user es S0) = true.
Proof. exact set_history_ok. Qed.
Print Assumptions C03_history_sets_ok.

(* Hence every database whose sets came out of edit histories -- the account's
   from the empty UserCapabilitySet, each channel's from IrcChannel()'s initial
   set, the registry sets from the empty set -- satisfies db_ok, the hypothesis
   of C03_anti_opposite(_flags), C03_refines_spec(_flags) and
   C03_boundary_channel_follows_spec. *)
Theorem C03_db_of_histories_ok :
  forall eu hostok ecs ed er flag,
  match eu with Some (es, _, _) => edits_ok es | None => true end = true ->
  forallb (fun kv => edits_ok (fst (snd kv))) ecs = true ->
  edits_ok ed = true -> edits_ok er = true ->
  db_ok (db_of_histories eu hostok ecs ed er flag) = true.
Proof. exact db_of_histories_ok. Qed.
Print Assumptions C03_db_of_histories_ok.

(* ircdb.checkCapabilities is all / any over checkCapability (default flags),
   and total on well-formed capabilities *)
Theorem C03_checkCapabilities_spec :
  forall d cs (f : str -> bool) ra,
  (forall c, In c cs -> checkCapability d c (Flags false false false) = Ok (f c)) ->
  checkCapabilities d cs ra = Ok (if ra then forallb f cs else existsb f cs).
Proof. exact checkCapabilities_spec. Qed.
Print Assumptions C03_checkCapabilities_spec.

Theorem C03_checkCapabilities_total :
  forall d cs ra, forallb wf_cap cs = true -> exists b, checkCapabilities d cs ra = Ok b.
Proof. exact checkCapabilities_total. Qed.
Print Assumptions C03_checkCapabilities_total.


(* The effect of a grant, as a step of the edit history: once
   IrcUser.addCapability(c) succeeded for a capability c that is not an
   anti-capability, the recognised, not ignored account holds c -- for EVERY
   channel table, default set, registered-users set, default flag and every
   triple of ignore* flags (an explicit user capability is decided before every
   fallback).  [with_caps d S'] is d with the account's set replaced by the
   result of the edit. *)
Theorem C03_grant_effective :
  forall d u c f S',
    d_user d = Some u -> (u_secure u && negb (d_hostok d)) = false -> u_ignore u = false ->
    isAntiCapability c = false -> ucs_add (u_caps u) c = Ok S' ->
    checkCapability (with_caps d S') c f = Ok true.
Proof. exact grant_effective. Qed.
Print Assumptions C03_grant_effective.

(* The same for ANY capability the edit accepted, anti-capabilities included,
   when the account is not an owner afterwards: addCapability('-x') makes '-x' hold. *)
Theorem C03_edit_effective_nonowner :
  forall d u c f S',
    d_user d = Some u -> (u_secure u && negb (d_hostok d)) = false -> u_ignore u = false ->
    ucs_add (u_caps u) c = Ok S' -> smem OWNER S' = false ->
    checkCapability (with_caps d S') c f = Ok true.
Proof. exact edit_effective_nonowner. Qed.
Print Assumptions C03_edit_effective_nonowner.

(* The effect of a revocation: after addCapability of the anti-capability a of
   p the non-owner account is refused p, whatever channels, default sets and
   the default flag say (flag triples without ignoreDefaultAllow, databases
   built by add: the domain of C03_anti_opposite). *)
Theorem C03_revoke_effective :
  forall d u p a f S',
    antipair p a -> db_ok (with_caps d S') = true -> f_ignoreDefaultAllow f = false ->
    d_user d = Some u -> (u_secure u && negb (d_hostok d)) = false -> u_ignore u = false ->
    ucs_add (u_caps u) a = Ok S' -> smem OWNER S' = false ->
    checkCapability (with_caps d S') p f = Ok false.
Proof. exact revoke_effective. Qed.
Print Assumptions C03_revoke_effective.

(* What an edit does NOT change (frame).  checkCapability reads the account's
   own set at 'owner', at the asked capability and its inverse, and for a
   channel capability at '#chan,op' and its inverse -- nowhere else: two sets
   that agree there give the same answer, for every database and flag triple. *)
Theorem C03_check_reads_only :
  forall d u S2 c f,
    d_user d = Some u ->
    smem OWNER (u_caps u) = smem OWNER S2 ->
    agree (u_caps u) S2 c ->
    (forall chn cap chanop, chan_parts c = Some (chn, cap) ->
       makeChannelCapability chn OP = Ok chanop -> agree (u_caps u) S2 chanop) ->
    checkCapability (with_caps d S2) c f = checkCapability d c f.
Proof. exact check_frame. Qed.
Print Assumptions C03_check_reads_only.

(* Hence a successful IrcUser.addCapability(c) moves the answer for no
   capability c2 whose queried elements are neither (folded) c nor its inverse:
   granting or revoking one capability never grants or revokes another. *)
Theorem C03_grant_frame :
  forall d u c c2 f S',
    d_user d = Some u -> ucs_add (u_caps u) c = Ok S' ->
    (forall x, queried c2 x -> ~ touched c x) ->
    checkCapability (with_caps d S') c2 f = checkCapability d c2 f.
Proof. exact grant_frame. Qed.
Print Assumptions C03_grant_frame.

(* ... and over whole edit histories of the account's set (IrcUser.addCapability
   / removeCapability in any order, failing edits included): if no edit touches
   an element the question about c2 reads, the answer for c2 after the history
   is the answer before it. *)
Theorem C03_history_frame :
  forall d u es c2 f,
    d_user d = Some u ->
    (forall e x, In e es -> queried c2 x -> ~ touched (snd e) x) ->
    checkCapability (with_caps d (set_history true es (u_caps u))) c2 f = checkCapability d c2 f.
Proof. exact history_frame. Qed.
Print Assumptions C03_history_frame.

(* a successful removeCapability(c) leaves (folded) c out of the set and every other element as it was *)
Theorem C03_remove_effect :
  forall S c S', cs_remove S c = Ok S' ->
    smem (fold c) S' = false /\ forall x, x <> fold c -> smem x S' = smem x S.
Proof. intros S c S' H. split; [exact (cs_remove_gone S c S' H)|intros x Hx; exact (cs_remove_elsewhere S c S' x H Hx)]. Qed.
Print Assumptions C03_remove_effect.
