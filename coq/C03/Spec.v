(* C03/Spec.v — the documented precedence as a readable decision list, and the
   theorem that checkCapability computes it (default flags). *)
From Coq Require Import List NArith ZArith Bool Arith Lia.
Import ListNotations.
Require Import Base.Wire Base.PyStr C03.Model C03.Fold C03.CaseInsens C03.Anti C03.Total C03.Chan.
Open Scope N_scope.

(* explicit setting of a (capability p, anti-capability a) pair in a set *)
Definition explicit (S : cset) (p a : str) : option bool :=
  if smem p S then Some true else if smem a S then Some false else None.

Definition first_some (l : list (option bool)) (dflt : bool) : bool :=
  fold_right (fun o acc => match o with Some b => b | None => acc end) dflt l.

(* The account the sender is treated as: none if unknown, or if the account is
   'secure' and the hostmask does not match one of its masks. *)
Definition effective_user (d : db) : option user :=
  match d_user d with
  | Some u => if u_secure u && negb (d_hostok d) then None else Some u
  | None => None
  end.

(* Answer for a NON-anti capability p whose anti-capability is a (both as asked;
   sets hold folded strings).  Channel capabilities: ch = Some (channel, x, -x). *)
Definition spec_pos (d : db) (p a : str) (ch : option (str * str * str)) : bool :=
  let p' := fold p in let a' := fold a in
  let user_level : option bool :=
    match effective_user d with
    | None => None
    | Some u =>
        if seq_eqb p' OWNER then Some (if u_ignore u then false else smem OWNER (u_caps u))
        else if smem OWNER (u_caps u) then Some (negb (u_ignore u))      (* an owner holds everything; an ignored one nothing *)
        else match explicit (u_caps u) p' a' with
             | Some b => Some (if u_ignore u then false else b)            (* explicit user (anti)capability *)
             | None => None
             end
    end in
  match user_level with
  | Some b => b
  | None =>
      match ch with
      | Some (chn, x, ax) =>
          let c := getChannel d chn in
          let chanop : option bool :=
            match effective_user d with
            | Some u => if negb (u_ignore u) && smem (fold (chn ++ [COMMA] ++ OP)) (u_caps u) then Some true else None
            | None => None
            end in
          first_some [chanop; explicit (ch_caps c) (fold x) (fold ax)] (ch_default c)
      | None =>
          first_some [explicit (d_defaults d) p' a';
                      match effective_user d with
                      | Some _ => explicit (d_registered d) p' a'
                      | None => None
                      end] (d_flag d)
      end
  end.

Definition flags0 : flags := Flags false false false.

Section Pos.
Variables (d : db) (p a : str).
Hypothesis Hpair : antipair p a.
Hypothesis Hok : db_ok d = true.

Let Hf := antipair_fold _ _ Hpair.

Lemma cs_check_explicit S : set_ok S = true ->
  cs_check S p = match explicit S (fold p) (fold a) with Some b => Ok b | None => Raise KeyError end.
Proof.
  intro HS. unfold cs_check, explicit. rewrite (pair_inv_ca _ _ Hpair). cbn [bind].
  destruct (smem (fold p) S); [reflexivity|]. destruct (smem (fold a) S); reflexivity.
Qed.

Lemma cs_contains_explicit S :
  cs_contains S p = Ok (match explicit S (fold p) (fold a) with Some _ => true | None => false end).
Proof.
  destruct (cs_contains_pair _ _ Hpair S) as [E _]. rewrite E. unfold explicit.
  destruct (smem (fold p) S); [reflexivity|]. destruct (smem (fold a) S); reflexivity.
Qed.

Lemma check_defaults_spec reg :
  check_defaults d p reg false =
  Ok (first_some [explicit (d_defaults d) (fold p) (fold a);
                  if reg then explicit (d_registered d) (fold p) (fold a) else None] (d_flag d)).
Proof.
  destruct (db_ok_parts _ Hok) as [HD [HR _]].
  unfold check_defaults. rewrite cs_contains_explicit. cbn [bind].
  rewrite (cs_check_explicit _ HD).
  destruct (explicit (d_defaults d) (fold p) (fold a)) as [b|]; [reflexivity|].
  destruct reg; cbn [bind first_some fold_right].
  - rewrite cs_contains_explicit. cbn [bind]. rewrite (cs_check_explicit _ HR).
    destruct (explicit (d_registered d) (fold p) (fold a)) as [b|]; [reflexivity|].
    unfold xres. rewrite (pair_anti_c _ _ Hpair). reflexivity.
  - unfold xres. rewrite (pair_anti_c _ _ Hpair). reflexivity.
Qed.
End Pos.

Lemma chan_check_spec ch x ax :
  antipair x ax -> set_ok (ch_caps ch) = true ->
  (do b <- cs_contains (ch_caps ch) x;
   if b then chan_check ch x else Ok (xres x (ch_default ch)))
  = Ok (first_some [explicit (ch_caps ch) (fold x) (fold ax)] (ch_default ch)).
Proof.
  intros Hp HS. rewrite (cs_contains_explicit _ _ Hp). cbn [bind].
  destruct (explicit (ch_caps ch) (fold x) (fold ax)) as [b|] eqn:E.
  - unfold chan_check. destruct (antipair_facts _ _ Hp) as [Hc _]. rewrite Hc. cbn [negb].
    rewrite (cs_contains_explicit _ _ Hp), E. cbn [bind]. rewrite (cs_check_explicit _ _ Hp _ HS), E. reflexivity.
  - cbn [first_some fold_right]. unfold xres. rewrite (pair_anti_c _ _ Hp). reflexivity.
Qed.

(* ------------------------------------------------------------------------- *)
(* The decision list for ALL THREE ignore* flags and for BOTH members of a
   (capability p, anti-capability a) pair.

   checkCapability's docstring:
     ignoreOwner        disables "owners have all capabilities"
                        (an explicit 'owner' in the set is then just a capability);
     ignoreChannelOp    disables "channel ops have all channel capabilities";
     ignoreDefaultAllow disables "if a user has neither the capability nor the
                        anticapability then they have the capability": every
                        default-allow fallback (channel defaultAllow, the global
                        default flag) answers as if it were False.

   [anti] says which member of the pair is asked; a level that decides "the
   sender has p: b" answers  holds anti b = (if anti then negb b else b).

   Three places where the list mirrors what the code does rather than the
   docstring read literally (each is what src/ircdb.py computes):
   (1) ignoreDefaultAllow, RECOGNISED sender, channel capability, nothing
       explicit: the code ends in a plain `return False`, not `_x(capability,
       False)`, so the anti-capability is refused too (for an unrecognised
       sender it is _x(capability, False): the anti-capability holds).  This is
       the only place where p and a do not get opposite answers; DESIGN
       section 6 lists it as a non-finding (AutoMode-only flag).
   (2) ignoreOwner is not handed to the channel-op test
       (`u._checkCapability(chanop)`): an owner still counts as channel op of
       every channel unless ignoreChannelOp is set as well.
   (3) ignoreOwner is not handed to the membership test
       (`capability in u.capabilities`): an IGNORED owner is stopped at the user
       level (gets nothing) even with ignoreOwner. *)
Definition holds (anti b : bool) : bool := if anti then negb b else b.

Definition is_some {A} (o : option A) : bool := match o with Some _ => true | None => false end.

Definition first_opt (l : list (option bool)) : option bool :=
  fold_right (fun o acc => match o with Some b => Some b | None => acc end) None l.

Definition spec_flags (d : db) (p a : str) (ch : option (str * str * str)) (f : flags) (anti : bool) : bool :=
  let p' := fold p in let a' := fold a in
  let user_level : option bool :=
    match effective_user d with
    | None => None
    | Some u =>
        let owner := smem OWNER (u_caps u) in
        if seq_eqb p' OWNER then Some (negb (u_ignore u) && owner)               (* asking for 'owner' itself *)
        else if owner && negb (f_ignoreOwner f) then Some (negb (u_ignore u))    (* owners have all capabilities (an ignored one nothing) *)
        else match explicit (u_caps u) p' a' with
             | Some b => Some (negb (u_ignore u) && b)                           (* explicit user (anti)capability *)
             | None => if owner && u_ignore u then Some false else None          (* note (3) *)
             end
    end in
  match user_level with
  | Some b => holds anti b
  | None =>
      match ch with
      | Some (chn, x, ax) =>
          let c := getChannel d chn in
          let chanop : option bool :=
            match effective_user d with
            | Some u =>
                if negb (f_ignoreChannelOp f) && negb (u_ignore u)
                   && (smem OWNER (u_caps u)                                     (* note (2) *)
                       || smem (fold (chn ++ [COMMA] ++ OP)) (u_caps u))
                then Some true else None
            | None => None
            end in
          match first_opt [chanop; explicit (ch_caps c) (fold x) (fold ax)] with
          | Some b => holds anti b
          | None =>
              if f_ignoreDefaultAllow f then
                match effective_user d with
                | Some _ => false                                                (* note (1): plain False *)
                | None => holds anti false
                end
              else holds anti (ch_default c)
          end
      | None =>
          holds anti
            (first_some [explicit (d_defaults d) p' a';
                         match effective_user d with
                         | Some _ => explicit (d_registered d) p' a'
                         | None => None
                         end] (negb (f_ignoreDefaultAllow f) && d_flag d))
      end
  end.

(* (channel, x, -x) of a channel capability *)
Definition chan_triple (p : str) : option (str * str * str) :=
  match chan_parts p with Some (chn, x) => Some (chn, x, DASH :: x) | None => None end.

(* with the default flags and for the capability itself this is spec_pos *)
Lemma spec_flags0 d p a ch : spec_flags d p a ch flags0 false = spec_pos d p a ch.
Proof.
  unfold spec_flags, spec_pos, holds, flags0. cbn [f_ignoreOwner f_ignoreChannelOp f_ignoreDefaultAllow negb andb].
  cbv zeta.
  destruct (effective_user d) as [u|].
  - destruct (seq_eqb (fold p) OWNER).
    { destruct (u_ignore u), (smem OWNER (u_caps u)); reflexivity. }
    destruct (smem OWNER (u_caps u)) eqn:Eo; cbn [andb orb].
    { reflexivity. }
    destruct (explicit (u_caps u) (fold p) (fold a)) as [b|].
    { destruct (u_ignore u), b; reflexivity. }
    destruct ch as [[[chn x] ax]|]; [|reflexivity].
    cbn [first_opt first_some fold_right].
    destruct (negb (u_ignore u) && smem (fold (chn ++ [COMMA] ++ OP)) (u_caps u)); [reflexivity|].
    destruct (explicit (ch_caps (getChannel d chn)) (fold x) (fold ax)); reflexivity.
  - destruct ch as [[[chn x] ax]|]; [|reflexivity].
    cbn [first_opt first_some fold_right].
    destruct (explicit (ch_caps (getChannel d chn)) (fold x) (fold ax)); reflexivity.
Qed.

Section Ask.
Variables (p a : str).
Hypothesis Hpair : antipair p a.
Variable anti : bool.
Local Notation q := (if anti then a else p).
Local Notation ex S := (explicit S (fold p) (fold a)).

Lemma ask_isCap : isCapability q = true.
Proof. destruct (antipair_facts _ _ Hpair) as [Hc [Ha _]]. destruct anti; assumption. Qed.

Lemma ask_isAnti : isAntiCapability q = anti.
Proof. destruct anti; [exact (pair_anti_a _ _ Hpair)|exact (pair_anti_c _ _ Hpair)]. Qed.

Lemma ask_xres r : xres q r = holds anti r.
Proof. unfold xres, holds. rewrite ask_isAnti. reflexivity. Qed.

Lemma ask_contains S : cs_contains S q = Ok (is_some (ex S)).
Proof.
  destruct (cs_contains_pair _ _ Hpair S) as [E1 E2].
  assert (E : cs_contains S q = Ok (smem (fold p) S || smem (fold a) S)) by (destruct anti; assumption).
  rewrite E. unfold explicit, is_some. destruct (smem (fold p) S); [reflexivity|]. destruct (smem (fold a) S); reflexivity.
Qed.

Lemma ask_check S : set_ok S = true ->
  cs_check S q = match ex S with Some b => Ok (holds anti b) | None => Raise KeyError end.
Proof.
  intro HS. destruct anti.
  - unfold cs_check, explicit, holds. rewrite (pair_inv_ac _ _ Hpair). cbn [bind].
    destruct (smem (fold p) S) eqn:Ep.
    + rewrite (pair_excl _ _ _ HS (pair_inv_ca _ _ Hpair) Ep). reflexivity.
    + destruct (smem (fold a) S); reflexivity.
  - rewrite (cs_check_explicit _ _ Hpair _ HS). destruct (ex S); reflexivity.
Qed.

Lemma ask_defaults d reg iDA : db_ok d = true ->
  check_defaults d q reg iDA =
  Ok (holds anti (first_some [ex (d_defaults d); if reg then ex (d_registered d) else None]
                             (negb iDA && d_flag d))).
Proof.
  intro Hok. destruct (db_ok_parts _ Hok) as [HD [HR _]].
  assert (Hx : xres q (if iDA then false else d_flag d) = holds anti (negb iDA && d_flag d)).
  { rewrite ask_xres. destruct iDA; reflexivity. }
  unfold check_defaults. rewrite ask_contains. cbn [bind]. rewrite (ask_check _ HD).
  destruct (ex (d_defaults d)) as [b|]; [reflexivity|]. cbn [is_some first_some fold_right].
  destruct reg; cbn [bind].
  - rewrite ask_contains. cbn [bind]. rewrite (ask_check _ HR).
    destruct (ex (d_registered d)) as [b|]; [reflexivity|]. cbn [is_some]. rewrite Hx. reflexivity.
  - rewrite Hx. reflexivity.
Qed.

(* "if capability in c.capabilities: return c._checkCapability(capability) else K" *)
Lemma ask_chan ch (K : res bool) : set_ok (ch_caps ch) = true ->
  (do b <- cs_contains (ch_caps ch) q; if b then chan_check ch q else K)
  = match ex (ch_caps ch) with Some b => Ok (holds anti b) | None => K end.
Proof.
  intro HS. rewrite ask_contains. cbn [bind].
  destruct (ex (ch_caps ch)) as [b|] eqn:E; cbn [is_some]; [|reflexivity].
  unfold chan_check. rewrite ask_isCap. cbn [negb]. rewrite ask_contains, E. cbn [bind is_some].
  rewrite (ask_check _ HS), E. reflexivity.
Qed.

Lemma ask_owner_words :
  seq_eqb (fold q) OWNER = (negb anti && seq_eqb (fold p) OWNER) /\
  seq_eqb (fold q) ANTIOWNER = (anti && seq_eqb (fold p) OWNER).
Proof.
  destruct (owner_cond_gen _ _ (antipair_fold _ _ Hpair)) as [_ [H1 [H2 H3]]].
  destruct anti; cbn [negb andb]; auto.
Qed.

(* `capability in u.capabilities` (never told about ignoreOwner) *)
Lemma ask_ucs_contains S :
  ucs_contains S q false = Ok (seq_eqb (fold p) OWNER || smem OWNER S || is_some (ex S)).
Proof.
  unfold ucs_contains. destruct ask_owner_words as [H1 H2]. rewrite H1, H2. cbn [negb andb].
  rewrite cs_contains_fold, ask_contains.
  destruct anti, (seq_eqb (fold p) OWNER), (smem OWNER S); reflexivity.
Qed.

(* u._checkCapability(capability, ignoreOwner) *)
Lemma ask_user_check u io : set_ok (u_caps u) = true ->
  user_check u q io =
  if u_ignore u then Ok anti
  else if seq_eqb (fold p) OWNER then Ok (holds anti (smem OWNER (u_caps u)))
  else if negb io && smem OWNER (u_caps u) then Ok (holds anti true)
  else match ex (u_caps u) with Some b => Ok (holds anti b) | None => Raise KeyError end.
Proof.
  intro HS. unfold user_check. rewrite ask_isAnti. destruct (u_ignore u); [reflexivity|].
  unfold ucs_check. destruct ask_owner_words as [H1 H2]. rewrite H1, H2, fold_isAnti, ask_isAnti.
  rewrite cs_check_fold, (ask_check _ HS). unfold holds.
  destruct anti, (seq_eqb (fold p) OWNER), (smem OWNER (u_caps u)), io; reflexivity.
Qed.
End Ask.

(* the channel-op test  u._checkCapability(makeChannelCapability(channel, 'op')) *)
Lemma chanop_stage u chn :
  isChannel chn = true -> mem COMMA chn = false -> nows chn = true -> set_ok (u_caps u) = true ->
  (do chanop <- makeChannelCapability chn OP; user_check u chanop false) =
  if u_ignore u then Ok false
  else if smem OWNER (u_caps u) then Ok true
  else if smem (fold (chn ++ [COMMA] ++ OP)) (u_caps u) then Ok true
  else if smem (fold (chn ++ COMMA :: DASH :: OP)) (u_caps u) then Ok false
  else Raise KeyError.
Proof.
  intros Hch Hm Hnw HS.
  assert (Hop : antipair (chn ++ COMMA :: OP) (chn ++ COMMA :: DASH :: OP)).
  { apply ap_chan; try assumption; reflexivity. }
  unfold makeChannelCapability. change (isCapability OP) with true. rewrite Hch. cbn [negb bind].
  change (chn ++ [COMMA] ++ OP) with (chn ++ COMMA :: OP).
  pose proof (ask_user_check _ _ Hop false u false HS) as H. cbv iota in H. rewrite H.
  destruct (comma_not_owner (fold chn) (fold OP)) as [Oo1 _].
  assert (Ho1 : seq_eqb (fold (chn ++ COMMA :: OP)) OWNER = false).
  { rewrite fold_app. change (fold (COMMA :: OP)) with (fold_char COMMA :: fold OP). rewrite fold_comma. exact Oo1. }
  rewrite Ho1. cbn [negb andb]. unfold explicit, holds.
  destruct (u_ignore u); [reflexivity|]. destruct (smem OWNER (u_caps u)); [reflexivity|].
  destruct (smem (fold (chn ++ COMMA :: OP)) (u_caps u)); [reflexivity|].
  destruct (smem (fold (chn ++ COMMA :: DASH :: OP)) (u_caps u)); reflexivity.
Qed.

(* checkCapability computes the flag-aware decision list: for every database
   built by add, every pair of dom_cap, whichever member is asked, and EVERY
   flag triple *)
Theorem check_is_spec_flags d p a f (anti : bool) :
  antipair p a -> db_ok d = true ->
  checkCapability d (if anti then a else p) f = Ok (spec_flags d p a (chan_triple p) f anti).
Proof.
  intros Hp Hok. destruct (db_ok_parts _ Hok) as [HD [HR HU]].
  destruct f as [iO iC iDA].
  unfold checkCapability, spec_flags, effective_user, chan_triple.
  cbn [f_ignoreDefaultAllow f_ignoreOwner f_ignoreChannelOp]. cbv zeta.
  pose proof Hp as Hp'.
  destruct Hp' as [c0 Hwf Hcp Hd | chn x Hch Hm Hnw Hwx Hd Hcx].
  - (* plain capability *)
    assert (Hcpq : chan_parts (if anti then DASH :: c0 else c0) = None)
      by (destruct anti; [apply chan_parts_dash|exact Hcp]).
    rewrite Hcpq, Hcp.
    assert (Hunk : check_unknown d (if anti then DASH :: c0 else c0) iDA =
                   Ok (holds anti (first_some [explicit (d_defaults d) (fold c0) (fold (DASH :: c0)); None]
                                              (negb iDA && d_flag d)))).
    { unfold check_unknown. rewrite Hcpq. exact (ask_defaults _ _ Hp anti d false iDA Hok). }
    destruct (d_user d) as [u|] eqn:Eu; [|exact Hunk].
    destruct (u_secure u && negb (d_hostok d)); [exact Hunk|].
    specialize (HU u eq_refl).
    rewrite (ask_ucs_contains _ _ Hp anti), (ask_defaults _ _ Hp anti d true iDA Hok),
            (ask_user_check _ _ Hp anti u iO HU).
    cbn [bind].
    destruct (seq_eqb (fold c0) OWNER), (smem OWNER (u_caps u)),
             (explicit (u_caps u) (fold c0) (fold (DASH :: c0))) as [[|]|],
             (u_ignore u), iO, anti; reflexivity.
  - (* channel capability *)
    pose proof (one_word_wf _ Hwx) as Hx. pose proof (one_word_wf _ (wf_dash _ Hwx)) as Hdx.
    assert (Hsub : antipair x (DASH :: x)) by (apply ap_plain; assumption).
    pose proof (getChannel_ok d chn Hok) as Hcok.
    assert (Hcpq : chan_parts (if anti then chn ++ COMMA :: DASH :: x else chn ++ COMMA :: x)
                   = Some (chn, if anti then DASH :: x else x)).
    { destruct anti; [exact (chan_parts_make chn _ Hm Hch Hdx)|exact (chan_parts_make chn x Hm Hch Hx)]. }
    rewrite Hcpq, (chan_parts_make chn x Hm Hch Hx).
    destruct (comma_not_owner (fold chn) (fold x)) as [No1 _].
    assert (Hfo : seq_eqb (fold (chn ++ COMMA :: x)) OWNER = false).
    { rewrite fold_app. change (fold (COMMA :: x)) with (fold_char COMMA :: fold x). rewrite fold_comma. exact No1. }
    rewrite Hfo.
    assert (Hunk : check_unknown d (if anti then chn ++ COMMA :: DASH :: x else chn ++ COMMA :: x) iDA =
                   Ok (match first_opt [None; explicit (ch_caps (getChannel d chn)) (fold x) (fold (DASH :: x))] with
                       | Some b => holds anti b
                       | None => if iDA then holds anti false else holds anti (ch_default (getChannel d chn))
                       end)).
    { unfold check_unknown. rewrite Hcpq.
      rewrite (ask_chan _ _ Hsub anti (getChannel d chn) _ Hcok), (ask_xres _ _ Hsub anti).
      cbn [first_opt fold_right].
      destruct (explicit (ch_caps (getChannel d chn)) (fold x) (fold (DASH :: x))) as [b|]; cbn [catch_key]; [reflexivity|].
      destruct iDA; reflexivity. }
    destruct (d_user d) as [u|] eqn:Eu; [|exact Hunk].
    destruct (u_secure u && negb (d_hostok d)); [exact Hunk|].
    specialize (HU u eq_refl).
    rewrite (ask_ucs_contains _ _ Hp anti), Hfo, (ask_user_check _ _ Hp anti u iO HU), Hfo.
    rewrite (ask_chan _ _ Hsub anti (getChannel d chn) _ Hcok), (ask_xres _ _ Hsub anti), (ask_xres _ _ Hsub anti).
    rewrite (chanop_stage u chn Hch Hm Hnw HU).
    cbn [bind orb first_opt fold_right].
    destruct (smem OWNER (u_caps u)),
             (explicit (u_caps u) (fold (chn ++ COMMA :: x)) (fold (chn ++ COMMA :: DASH :: x))) as [[|]|],
             (u_ignore u), iO, iC,
             (smem (fold (chn ++ [COMMA] ++ OP)) (u_caps u)),
             (smem (fold (chn ++ COMMA :: DASH :: OP)) (u_caps u)),
             (explicit (ch_caps (getChannel d chn)) (fold x) (fold (DASH :: x))) as [[|]|],
             iDA, anti; reflexivity.
Qed.

(* checkCapability computes the decision list, for every database built by add
   and every non-anti capability of dom_cap (default flags): the instance
   flags0 / anti = false of check_is_spec_flags *)
Theorem check_is_spec d p a :
  antipair p a -> db_ok d = true ->
  checkCapability d p flags0 =
  Ok (spec_pos d p a
        (match chan_parts p with Some (chn, x) => Some (chn, x, DASH :: x) | None => None end)).
Proof.
  intros Hp Hok. rewrite <- spec_flags0. exact (check_is_spec_flags d p a flags0 false Hp Hok).
Qed.

(* ---- anti-symmetry, read off the decision list ---- *)
Lemma holds_true b : holds true b = negb (holds false b).
Proof. reflexivity. Qed.

(* the decision list gives p and a opposite answers, except in the one place of
   note (1): ignoreDefaultAllow, a recognised sender, a channel capability and
   nothing explicit -- there both are refused *)
Lemma spec_flags_opposite_or_refused d p a ch f :
  spec_flags d p a ch f true = negb (spec_flags d p a ch f false)
  \/ (f_ignoreDefaultAllow f = true /\ effective_user d <> None /\ ch <> None /\
      spec_flags d p a ch f true = false /\ spec_flags d p a ch f false = false).
Proof.
  unfold spec_flags. cbv zeta.
  destruct (effective_user d) as [u|].
  - match goal with |- context [match ?X with Some b => holds true b | None => _ end] => destruct X as [b|] end.
    { left. reflexivity. }
    destruct ch as [[[chn x] ax]|]; [|left; reflexivity].
    match goal with |- context [match ?X with Some b => holds true b | None => _ end] => destruct X as [b|] end.
    { left. reflexivity. }
    destruct (f_ignoreDefaultAllow f); [|left; reflexivity].
    right. repeat split; discriminate.
  - destruct ch as [[[chn x] ax]|]; [|left; reflexivity].
    match goal with |- context [match ?X with Some b => holds true b | None => _ end] => destruct X as [b|] end.
    { left. reflexivity. }
    destruct (f_ignoreDefaultAllow f); left; reflexivity.
Qed.

Lemma spec_flags_opposite d p a ch f :
  f_ignoreDefaultAllow f = false \/ effective_user d = None \/ ch = None ->
  spec_flags d p a ch f true = negb (spec_flags d p a ch f false).
Proof.
  intro H. destruct (spec_flags_opposite_or_refused d p a ch f) as [E|[H1 [H2 [H3 _]]]]; [exact E|].
  destruct H as [H|[H|H]]; congruence.
Qed.

(* capability and anti-capability get opposite answers for every flag triple
   without ignoreDefaultAllow -- and also with it, as long as the sender is not
   a recognised account or the capability is not a channel capability *)
Theorem anti_opp_flags d p a f b :
  antipair p a -> db_ok d = true ->
  f_ignoreDefaultAllow f = false \/ effective_user d = None \/ chan_parts p = None ->
  checkCapability d p f = Ok b -> checkCapability d a f = Ok (negb b).
Proof.
  intros Hp Hok Hdom Hc.
  pose proof (check_is_spec_flags d p a f false Hp Hok) as E1. cbv iota in E1.
  pose proof (check_is_spec_flags d p a f true Hp Hok) as E2. cbv iota in E2.
  rewrite E2. rewrite E1 in Hc. inversion Hc as [Hb]. f_equal.
  apply spec_flags_opposite.
  destruct Hdom as [H|[H|H]]; [left; exact H|right; left; exact H|right; right].
  unfold chan_triple. rewrite H. reflexivity.
Qed.

(* ... and NOT in the remaining case: with ignoreDefaultAllow a recognised
   account (no capabilities at all) is refused both "#c,x" and "#c,-x" when the
   channel says nothing about x.  (AutoMode-only flag; DESIGN section 6 lists
   this as a non-finding.) *)
Definition ida_witness_db : db := Db (Some (User [] false false)) true [] [] [] true.
Definition ida_witness_p : str := [35; 99; 44; 120].        (* "#c,x" *)
Definition ida_witness_a : str := [35; 99; 44; 45; 120].    (* "#c,-x" *)

Theorem anti_opp_ignoreDefaultAllow_refuted :
  antipair ida_witness_p ida_witness_a /\ db_ok ida_witness_db = true /\
  effective_user ida_witness_db <> None /\ chan_parts ida_witness_p <> None /\
  checkCapability ida_witness_db ida_witness_p (Flags false false true) = Ok false /\
  checkCapability ida_witness_db ida_witness_a (Flags false false true) = Ok false.
Proof.
  split.
  { change ida_witness_p with ([35; 99] ++ COMMA :: [120]).
    change ida_witness_a with ([35; 99] ++ COMMA :: DASH :: [120]).
    apply ap_chan; vm_compute; reflexivity. }
  split; [vm_compute; reflexivity|].
  split; [vm_compute; discriminate|].
  split; [vm_compute; discriminate|].
  split; vm_compute; reflexivity.
Qed.

(* non-vacuity / the AutoMode call shape: an unrecognised sender, "#chan,foo",
   a channel that says nothing about foo with defaultAllow, ignoreDefaultAllow:
   the decision list refuses the capability and grants the anti-capability,
   and so does the model *)
Example automode_stranger :
  let d := Db None false [([35;99;104;97;110], Chan [[45;111;112]] true)] [] [] true in
  let p := [35;99;104;97;110;44;102;111;111] in
  let a := [35;99;104;97;110;44;45;102;111;111] in
  let f := Flags true true true in
  db_ok d = true /\ dom_cap p = true /\ makeAntiCapability p = Ok a /\
  spec_flags d p a (chan_triple p) f false = false /\ spec_flags d p a (chan_triple p) f true = true /\
  checkCapability d p f = Ok false /\ checkCapability d a f = Ok true.
Proof. vm_compute. auto 8. Qed.

(* a channel name of exactly CHANNELLEN characters (the bound of isChannel is
   inclusive): '<name>,x' and '<name>,-x' are decided by the CHANNEL branch of the
   decision list -- channel-op status, the channel's explicit setting, its
   defaultAllow -- not by the global defaults *)
Theorem boundary_channel_follows_spec d chn x f (anti : bool) :
  length chn = gen.T03.CHANNELLEN ->
  hd_in gen.T03.CHANTYPES chn = true -> mem COMMA chn = false -> mem BEL chn = false -> nows chn = true ->
  wf_cap x = true -> hd_is DASH x = false -> chan_parts x = None -> db_ok d = true ->
  checkCapability d (if anti then chn ++ COMMA :: DASH :: x else chn ++ COMMA :: x) f =
  Ok (spec_flags d (chn ++ COMMA :: x) (chn ++ COMMA :: DASH :: x) (Some (chn, x, DASH :: x)) f anti).
Proof.
  intros Hlen Hhd Hm Hb Hnw Hwx Hd Hcx Hok.
  assert (Hne : chn <> []) by (intro E; subst; discriminate).
  assert (Hwc : wf_cap chn = true).
  { unfold wf_cap. rewrite Hnw. destruct chn; [congruence|reflexivity]. }
  assert (Hch : isChannel chn = true).
  { apply isChannel_spec. repeat split; try assumption; [lia|apply one_word_wf; exact Hwc]. }
  assert (Hp : antipair (chn ++ COMMA :: x) (chn ++ COMMA :: DASH :: x)) by (apply ap_chan; assumption).
  pose proof (check_is_spec_flags d _ _ f anti Hp Hok) as H.
  unfold chan_triple in H. rewrite (chan_parts_make chn x Hm Hch (one_word_wf _ Hwx)) in H. exact H.
Qed.

