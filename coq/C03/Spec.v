(* C03/Spec.v — the documented precedence as a readable decision list, and the
   theorem that checkCapability computes it (default flags). *)
From Coq Require Import List NArith ZArith Bool Arith Lia.
Import ListNotations.
Require Import Base.Wire Base.PyStr C03.Model C03.Fold C03.CaseInsens C03.Anti C03.Total.
Open Scope N_scope.

(* explicit setting of a (capability p, anti-capability a) pair in a set *)
Definition explicit (S : cset) (p a : str) : option bool :=
  if smem p S then Some true else if smem a S then Some false else None.

Definition first_some (l : list (option bool)) (dflt : bool) : bool :=
  fold_right (fun o acc => match o with Some b => b | None => acc end) dflt l.

(* The account the sender is treated as: none if unknown, or if the account is
   'secure' and the hostmask does not match one of its masks. *)
Definition effective_user (d : db) : option user :=
  match d_user d with
  | Some u => if u_secure u && negb (d_hostok d) then None else Some u
  | None => None
  end.

(* Answer for a NON-anti capability p whose anti-capability is a (both as asked;
   sets hold folded strings).  Channel capabilities: ch = Some (channel, x, -x). *)
Definition spec_pos (d : db) (p a : str) (ch : option (str * str * str)) : bool :=
  let p' := fold p in let a' := fold a in
  let user_level : option bool :=
    match effective_user d with
    | None => None
    | Some u =>
        if seq_eqb p' OWNER then Some (if u_ignore u then false else smem OWNER (u_caps u))
        else if smem OWNER (u_caps u) then Some (negb (u_ignore u))      (* an owner holds everything; an ignored one nothing *)
        else match explicit (u_caps u) p' a' with
             | Some b => Some (if u_ignore u then false else b)            (* explicit user (anti)capability *)
             | None => None
             end
    end in
  match user_level with
  | Some b => b
  | None =>
      match ch with
      | Some (chn, x, ax) =>
          let c := getChannel d chn in
          let chanop : option bool :=
            match effective_user d with
            | Some u => if negb (u_ignore u) && smem (fold (chn ++ [COMMA] ++ OP)) (u_caps u) then Some true else None
            | None => None
            end in
          first_some [chanop; explicit (ch_caps c) (fold x) (fold ax)] (ch_default c)
      | None =>
          first_some [explicit (d_defaults d) p' a';
                      match effective_user d with
                      | Some _ => explicit (d_registered d) p' a'
                      | None => None
                      end] (d_flag d)
      end
  end.

Definition flags0 : flags := Flags false false false.

Section Pos.
Variables (d : db) (p a : str).
Hypothesis Hpair : antipair p a.
Hypothesis Hok : db_ok d = true.

Let Hf := antipair_fold _ _ Hpair.

Lemma cs_check_explicit S : set_ok S = true ->
  cs_check S p = match explicit S (fold p) (fold a) with Some b => Ok b | None => Raise KeyError end.
Proof.
  intro HS. unfold cs_check, explicit. rewrite (pair_inv_ca _ _ Hpair). cbn [bind].
  destruct (smem (fold p) S); [reflexivity|]. destruct (smem (fold a) S); reflexivity.
Qed.

Lemma cs_contains_explicit S :
  cs_contains S p = Ok (match explicit S (fold p) (fold a) with Some _ => true | None => false end).
Proof.
  destruct (cs_contains_pair _ _ Hpair S) as [E _]. rewrite E. unfold explicit.
  destruct (smem (fold p) S); [reflexivity|]. destruct (smem (fold a) S); reflexivity.
Qed.

Lemma check_defaults_spec reg :
  check_defaults d p reg false =
  Ok (first_some [explicit (d_defaults d) (fold p) (fold a);
                  if reg then explicit (d_registered d) (fold p) (fold a) else None] (d_flag d)).
Proof.
  destruct (db_ok_parts _ Hok) as [HD [HR _]].
  unfold check_defaults. rewrite cs_contains_explicit. cbn [bind].
  rewrite (cs_check_explicit _ HD).
  destruct (explicit (d_defaults d) (fold p) (fold a)) as [b|]; [reflexivity|].
  destruct reg; cbn [bind first_some fold_right].
  - rewrite cs_contains_explicit. cbn [bind]. rewrite (cs_check_explicit _ HR).
    destruct (explicit (d_registered d) (fold p) (fold a)) as [b|]; [reflexivity|].
    unfold xres. rewrite (pair_anti_c _ _ Hpair). reflexivity.
  - unfold xres. rewrite (pair_anti_c _ _ Hpair). reflexivity.
Qed.
End Pos.

Lemma chan_check_spec ch x ax :
  antipair x ax -> set_ok (ch_caps ch) = true ->
  (do b <- cs_contains (ch_caps ch) x;
   if b then chan_check ch x else Ok (xres x (ch_default ch)))
  = Ok (first_some [explicit (ch_caps ch) (fold x) (fold ax)] (ch_default ch)).
Proof.
  intros Hp HS. rewrite (cs_contains_explicit _ _ Hp). cbn [bind].
  destruct (explicit (ch_caps ch) (fold x) (fold ax)) as [b|] eqn:E.
  - unfold chan_check. destruct (antipair_facts _ _ Hp) as [Hc _]. rewrite Hc. cbn [negb].
    rewrite (cs_contains_explicit _ _ Hp), E. cbn [bind]. rewrite (cs_check_explicit _ _ Hp _ HS), E. reflexivity.
  - cbn [first_some fold_right]. unfold xres. rewrite (pair_anti_c _ _ Hp). reflexivity.
Qed.

(* checkCapability computes the decision list, for every database built by add
   and every non-anti capability of dom_cap *)
Theorem check_is_spec d p a :
  antipair p a -> db_ok d = true ->
  checkCapability d p flags0 =
  Ok (spec_pos d p a
        (match chan_parts p with Some (chn, x) => Some (chn, x, DASH :: x) | None => None end)).
Proof.
  intros Hp Hok. destruct (db_ok_parts _ Hok) as [HD [HR HU]].
  unfold checkCapability, spec_pos, effective_user. cbn [flags0 f_ignoreDefaultAllow f_ignoreOwner f_ignoreChannelOp negb].
  pose proof Hp as Hp'.
  destruct Hp' as [c0 Hwf Hcp Hd | chn x Hch Hm Hnw Hwx Hd Hcx].
  - (* plain capability *)
    rewrite Hcp.
    destruct (d_user d) as [u|] eqn:Eu.
    2:{ unfold check_unknown. rewrite Hcp. rewrite (check_defaults_spec _ _ _ Hp Hok). reflexivity. }
    destruct (u_secure u && negb (d_hostok d)).
    { unfold check_unknown. rewrite Hcp. rewrite (check_defaults_spec _ _ _ Hp Hok). reflexivity. }
    specialize (HU u eq_refl).
    unfold ucs_contains. cbn [negb andb].
    destruct (owner_cond_gen _ _ (antipair_fold _ _ Hp)) as [_ [Hna _]]. rewrite Hna, orb_false_r.
    destruct (seq_eqb (fold c0) OWNER) eqn:Eo.
    + cbn [bind]. unfold user_check. destruct (u_ignore u).
      * cbn [catch_key]. rewrite (pair_anti_c _ _ Hp). reflexivity.
      * unfold ucs_check. rewrite Eo. cbn [orb]. rewrite fold_isAnti, (pair_anti_c _ _ Hp).
        destruct (smem OWNER (u_caps u)); reflexivity.
    + destruct (smem OWNER (u_caps u)) eqn:Eow.
      * cbn [bind]. unfold user_check. destruct (u_ignore u).
        -- cbn [catch_key]. rewrite (pair_anti_c _ _ Hp). reflexivity.
        -- unfold ucs_check. rewrite Eo, Hna, Eow. cbn [orb negb andb catch_key].
           rewrite fold_isAnti, (pair_anti_c _ _ Hp). reflexivity.
      * rewrite cs_contains_fold, (cs_contains_explicit _ _ Hp). cbn [bind].
        destruct (explicit (u_caps u) (fold c0) (fold (DASH :: c0))) as [b|] eqn:Ee.
        -- unfold user_check. destruct (u_ignore u).
           ++ cbn [catch_key]. rewrite (pair_anti_c _ _ Hp). reflexivity.
           ++ unfold ucs_check. rewrite Eo, Hna, Eow. cbn [orb negb andb].
              rewrite cs_check_fold, (cs_check_explicit _ _ Hp _ HU), Ee. reflexivity.
        -- rewrite (check_defaults_spec _ _ _ Hp Hok). reflexivity.
  - (* channel capability *)
    pose proof (one_word_wf _ Hwx) as Hx. pose proof (one_word_wf _ (wf_dash _ Hwx)) as Hdx.
    rewrite (chan_parts_make chn x Hm Hch Hx).
    assert (Hsub : antipair x (DASH :: x)) by (apply ap_plain; assumption).
    pose proof (getChannel_ok d chn Hok) as Hcok.
    destruct (comma_not_owner (fold chn) (fold x)) as [No1 No2].
    assert (Hfo : seq_eqb (fold (chn ++ COMMA :: x)) OWNER = false).
    { rewrite fold_app. change (fold (COMMA :: x)) with (fold_char COMMA :: fold x). rewrite fold_comma. exact No1. }
    assert (Hfa : seq_eqb (fold (chn ++ COMMA :: x)) ANTIOWNER = false).
    { rewrite fold_app. change (fold (COMMA :: x)) with (fold_char COMMA :: fold x). rewrite fold_comma. exact No2. }
    assert (Hunknown : check_unknown d (chn ++ COMMA :: x) false =
                       Ok (first_some [None; explicit (ch_caps (getChannel d chn)) (fold x) (fold (DASH :: x))]
                                      (ch_default (getChannel d chn)))).
    { unfold check_unknown. rewrite (chan_parts_make chn x Hm Hch Hx).
      cbn [negb andb]. 
      pose proof (chan_check_spec (getChannel d chn) x (DASH :: x) Hsub Hcok) as Hcs.
      cbn [first_some fold_right] in *. rewrite Hcs. reflexivity. }
    destruct (d_user d) as [u|] eqn:Eu; [|exact Hunknown].
    destruct (u_secure u && negb (d_hostok d)); [exact Hunknown|].
    specialize (HU u eq_refl).
    unfold ucs_contains. cbn [negb andb]. rewrite Hfo, Hfa. cbn [orb].
    (* the chan-op stage and what follows *)
    assert (Hrest :
      (let after_op :=
         let ch := getChannel d chn in
         do b2 <- cs_contains (ch_caps ch) x;
         if b2 then chan_check ch x else if true then Ok (xres x (ch_default ch)) else Ok false in
       match (do chanop <- makeChannelCapability chn OP; user_check u chanop false) with
       | Ok true => Ok (xres x true)
       | Ok false => after_op
       | Raise KeyError => after_op
       | Raise e => Raise e
       end)
      = Ok (first_some [if negb (u_ignore u) && smem (fold (chn ++ [COMMA] ++ OP)) (u_caps u) then Some true else None;
                        explicit (ch_caps (getChannel d chn)) (fold x) (fold (DASH :: x))]
                       (ch_default (getChannel d chn)))
      \/ smem OWNER (u_caps u) = true).
    { destruct (smem OWNER (u_caps u)) eqn:Eow; [right; reflexivity|left].
      cbv zeta. unfold makeChannelCapability. change (isCapability OP) with true. rewrite Hch. cbn [negb bind].
      pose proof (chan_check_spec (getChannel d chn) x (DASH :: x) Hsub Hcok) as Hcs. cbn [first_some fold_right] in Hcs.
      unfold user_check. destruct (u_ignore u) eqn:Eig.
      - assert (Hno : isAntiCapability (chn ++ [COMMA] ++ OP) = false).
        { assert (Hop : antipair (chn ++ COMMA :: OP) (chn ++ COMMA :: DASH :: OP)).
          { apply ap_chan; try assumption; try reflexivity. }
          exact (pair_anti_c _ _ Hop). }
        rewrite Hno. cbn [negb andb first_some fold_right]. exact Hcs.
      - cbn [negb andb]. unfold ucs_check.
        assert (Hop : antipair (chn ++ COMMA :: OP) (chn ++ COMMA :: DASH :: OP)).
        { apply ap_chan; try assumption; try reflexivity. }
        destruct (owner_cond_gen _ _ (antipair_fold _ _ Hop)) as [_ [Hx1 _]].
        destruct (comma_not_owner (fold chn) (fold OP)) as [Oo1 Oo2].
        assert (Ho1 : seq_eqb (fold (chn ++ [COMMA] ++ OP)) OWNER = false).
        { rewrite fold_app. change (fold ([COMMA] ++ OP)) with (fold_char COMMA :: fold OP). rewrite fold_comma. exact Oo1. }
        assert (Ho2 : seq_eqb (fold (chn ++ [COMMA] ++ OP)) ANTIOWNER = false).
        { rewrite fold_app. change (fold ([COMMA] ++ OP)) with (fold_char COMMA :: fold OP). rewrite fold_comma. exact Oo2. }
        rewrite Ho1, Ho2, Eow. cbn [orb andb].
        rewrite cs_check_fold. change (chn ++ [COMMA] ++ OP) with (chn ++ COMMA :: OP).
        rewrite (cs_check_explicit _ _ Hop _ HU). unfold explicit.
        destruct (smem (fold (chn ++ COMMA :: OP)) (u_caps u)).
        + cbn [first_some fold_right]. unfold xres. rewrite (pair_anti_c _ _ Hsub). reflexivity.
        + destruct (smem (fold (chn ++ COMMA :: DASH :: OP)) (u_caps u)); cbn [first_some fold_right]; exact Hcs. }
    destruct (smem OWNER (u_caps u)) eqn:Eow.
    + cbn [bind]. unfold user_check. destruct (u_ignore u).
      * cbn [catch_key negb]. rewrite (pair_anti_c _ _ Hp). reflexivity.
      * unfold ucs_check. rewrite Hfo, Hfa, Eow. cbn [orb negb andb catch_key].
        rewrite fold_isAnti, (pair_anti_c _ _ Hp). reflexivity.
    + destruct Hrest as [Hrest|Hrest]; [|discriminate].
      rewrite cs_contains_fold, (cs_contains_explicit _ _ Hp). cbn [bind].
      destruct (explicit (u_caps u) (fold (chn ++ COMMA :: x)) (fold (chn ++ COMMA :: DASH :: x))) as [b|] eqn:Ee.
      * unfold user_check. destruct (u_ignore u).
        -- cbn [catch_key]. rewrite (pair_anti_c _ _ Hp). reflexivity.
        -- unfold ucs_check. rewrite Hfo, Hfa, Eow. cbn [orb negb andb].
           rewrite cs_check_fold, (cs_check_explicit _ _ Hp _ HU), Ee. reflexivity.
      * exact Hrest.
Qed.
