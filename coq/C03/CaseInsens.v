(* C03/CaseInsens.v — the answer does not depend on the case of the asked capability *)
From Coq Require Import List NArith ZArith Bool Arith Lia.
Import ListNotations.
Require Import Base.Wire Base.PyStr C03.Model C03.Fold.
Open Scope N_scope.

Lemma cs_contains_fold S c : cs_contains S (fold c) = cs_contains S c.
Proof. unfold cs_contains. rewrite fold_idem. reflexivity. Qed.
Lemma cs_check_fold S c : cs_check S (fold c) = cs_check S c.
Proof. unfold cs_check. rewrite fold_idem. reflexivity. Qed.
Lemma ucs_contains_fold S c b : ucs_contains S (fold c) b = ucs_contains S c b.
Proof. unfold ucs_contains. rewrite fold_idem. reflexivity. Qed.
Lemma ucs_check_fold S c b : ucs_check S (fold c) b = ucs_check S c b.
Proof. unfold ucs_check. rewrite fold_idem. reflexivity. Qed.
Lemma user_check_fold u c b : user_check u (fold c) b = user_check u c b.
Proof. unfold user_check. rewrite fold_isAnti, ucs_check_fold. reflexivity. Qed.
Lemma xres_fold c r : xres (fold c) r = xres c r.
Proof. unfold xres. rewrite fold_isAnti. reflexivity. Qed.
Lemma chan_check_fold ch c : chan_check ch (fold c) = chan_check ch c.
Proof.
  unfold chan_check. rewrite fold_isCapability, cs_contains_fold, cs_check_fold, fold_isAnti. reflexivity.
Qed.
Lemma getChannel_fold d n : getChannel d (fold n) = getChannel d n.
Proof.
  unfold getChannel. rewrite (fold_lower (fold n)), fold_idem, fold_lower. reflexivity.
Qed.
Lemma check_defaults_fold d c r i : check_defaults d (fold c) r i = check_defaults d c r i.
Proof.
  unfold check_defaults. rewrite !cs_contains_fold, !cs_check_fold, xres_fold. reflexivity.
Qed.

Lemma check_unknown_fold d c i : check_unknown d (fold c) i = check_unknown d c i.
Proof.
  unfold check_unknown. rewrite fold_chan_parts.
  destruct (chan_parts c) as [[chn cap]|]; cbn [fold_pair].
  - rewrite getChannel_fold, cs_contains_fold, chan_check_fold, xres_fold, check_defaults_fold. reflexivity.
  - apply check_defaults_fold.
Qed.

Lemma chanop_fold u chn :
  (do chanop <- makeChannelCapability (fold chn) OP; user_check u chanop false) =
  (do chanop <- makeChannelCapability chn OP; user_check u chanop false).
Proof.
  assert (Hop : fold OP = OP) by (vm_compute; reflexivity).
  rewrite <- Hop at 1. rewrite fold_makeChannelCapability.
  destruct (makeChannelCapability chn OP) as [co|e]; cbn [fold_res bind]; [apply user_check_fold|reflexivity].
Qed.

Theorem check_fold d c f : checkCapability d (fold c) f = checkCapability d c f.
Proof.
  unfold checkCapability.
  rewrite check_unknown_fold, fold_chan_parts.
  destruct (d_user d) as [u|]; [|reflexivity].
  destruct (u_secure u && negb (d_hostok d)); [reflexivity|].
  rewrite ucs_contains_fold, user_check_fold.
  destruct (chan_parts c) as [[chn cap]|]; cbn [fold_pair].
  - rewrite getChannel_fold, cs_contains_fold, chan_check_fold, !xres_fold, chanop_fold. reflexivity.
  - rewrite check_defaults_fold. reflexivity.
Qed.

(* two spellings that fold to the same string get the same answer *)
Corollary check_case_insensitive d c c' f :
  fold c = fold c' -> checkCapability d c f = checkCapability d c' f.
Proof. intro H. rewrite <- (check_fold d c), <- (check_fold d c'), H. reflexivity. Qed.

(* non-vacuity: "#Chan,X[Y]" and "#chan,x{y}" fold to the same string *)
Example fold_example :
  fold [35; 67; 104; 97; 110; 44; 88; 91; 89; 93] = fold [35; 99; 104; 97; 110; 44; 120; 123; 121; 125].
Proof. vm_compute. reflexivity. Qed.
