(* C03/Total.v — checkCapability never raises on a well-formed capability;
   the owner rule. *)
From Coq Require Import List NArith ZArith Bool Arith Lia.
Import ListNotations.
Require Import Base.Wire Base.PyStr C03.Model C03.Fold C03.CaseInsens C03.Anti.
Open Scope N_scope.

Definition okres (r : res bool) : Prop := exists b, r = Ok b.
Definition okkey (r : res bool) : Prop := okres r \/ r = Raise KeyError.

Lemma okres_ok b : okres (Ok b). Proof. exists b. reflexivity. Qed.
#[local] Hint Resolve okres_ok : core.

Lemma wf_sub c ch x : wf_cap c = true -> chan_parts c = Some (ch, x) -> wf_cap x = true /\ isChannel ch = true.
Proof.
  intros Hwf Hcp. destruct (chan_parts_inv _ _ _ Hcp) as [Hc [_ [Hch Hx]]]. subst c.
  split; [|exact Hch]. eapply wf_app_inv; [exact Hwf|apply isCapability_nonempty; exact Hx].
Qed.

Lemma invert_total c : wf_cap c = true -> exists i, invertCapability c = Ok i.
Proof.
  intro Hwf. unfold invertCapability, isCapability. rewrite (one_word_wf _ Hwf). cbn [negb].
  destruct (isAntiCapability c) eqn:Ea.
  - unfold unAntiCapability, isCapability. rewrite (one_word_wf _ Hwf), Ea. cbn [negb].
    destruct (chan_parts c) as [[ch x]|]; eauto.
  - unfold makeAntiCapability, isCapability. rewrite (one_word_wf _ Hwf), Ea. cbn [negb].
    destruct (chan_parts c) as [[ch x]|] eqn:Ecp; [|eauto].
    destruct (wf_sub _ _ _ Hwf Ecp) as [Hwx Hch].
    unfold makeChannelCapability, isCapability. rewrite (one_word_wf _ (wf_dash _ Hwx)), Hch. cbn [negb]. eauto.
Qed.

Lemma cs_contains_total S c : wf_cap c = true -> okres (cs_contains S c).
Proof.
  intro Hwf. unfold cs_contains. destruct (smem (fold c) S); [auto|].
  rewrite <- fold_wf in Hwf. destruct (invert_total _ Hwf) as [i Hi]. rewrite Hi. cbn [bind]. auto.
Qed.

Lemma cs_check_okkey S c : wf_cap c = true -> okkey (cs_check S c).
Proof.
  intro Hwf. unfold cs_check. destruct (smem (fold c) S); [left; auto|].
  rewrite <- fold_wf in Hwf. destruct (invert_total _ Hwf) as [i Hi]. rewrite Hi. cbn [bind].
  destruct (smem i S); [left; auto|right; reflexivity].
Qed.

Lemma cs_check_after_contains S c :
  cs_contains S c = Ok true -> okres (cs_check S c).
Proof.
  unfold cs_contains, cs_check. destruct (smem (fold c) S); [auto|].
  destruct (invertCapability (fold c)) as [i|e]; cbn [bind]; [|discriminate].
  intro H. inversion H as [Hs]. rewrite Hs. auto.
Qed.

Lemma ucs_contains_total S c io : wf_cap c = true -> okres (ucs_contains S c io).
Proof.
  intro Hwf. unfold ucs_contains.
  destruct ((negb io && seq_eqb (fold c) OWNER) || seq_eqb (fold c) ANTIOWNER); [auto|].
  destruct (negb io && smem OWNER S); [auto|].
  apply cs_contains_total. rewrite fold_wf. exact Hwf.
Qed.

Lemma ucs_check_okkey S c io : wf_cap c = true -> okkey (ucs_check S c io).
Proof.
  intro Hwf. unfold ucs_check.
  destruct (seq_eqb (fold c) OWNER || seq_eqb (fold c) ANTIOWNER); [destruct (smem OWNER S); left; auto|].
  destruct (negb io && smem OWNER S); [left; auto|].
  apply cs_check_okkey. rewrite fold_wf. exact Hwf.
Qed.

Lemma user_check_okkey u c io : wf_cap c = true -> okkey (user_check u c io).
Proof.
  intro Hwf. unfold user_check. destruct (u_ignore u); [left; auto|apply ucs_check_okkey; exact Hwf].
Qed.

Lemma chan_check_total ch c : wf_cap c = true -> okres (chan_check ch c).
Proof.
  intro Hwf. unfold chan_check, isCapability. rewrite (one_word_wf _ Hwf). cbn [negb].
  destruct (cs_contains_total (ch_caps ch) c Hwf) as [b Hb]. rewrite Hb. cbn [bind].
  destruct b; [apply cs_check_after_contains; exact Hb|auto].
Qed.

Lemma check_defaults_total d c reg iDA : wf_cap c = true -> okres (check_defaults d c reg iDA).
Proof.
  intro Hwf. unfold check_defaults.
  destruct (cs_contains_total (d_defaults d) c Hwf) as [b Hb]. rewrite Hb. cbn [bind].
  destruct b; [apply cs_check_after_contains; exact Hb|].
  destruct reg; cbn [bind]; [|auto].
  destruct (cs_contains_total (d_registered d) c Hwf) as [b2 Hb2]. rewrite Hb2. cbn [bind].
  destruct b2; [apply cs_check_after_contains; exact Hb2|auto].
Qed.

Lemma okres_catch r k : okres r -> okres (catch_key r k).
Proof. intros [b Hb]. subst. exact (okres_ok b). Qed.

Lemma okkey_catch r k : okkey r -> okres k -> okres (catch_key r k).
Proof. intros [Hr|Hr] Hk; [apply okres_catch; exact Hr|subst; exact Hk]. Qed.

Lemma check_unknown_total d c iDA : wf_cap c = true -> okres (check_unknown d c iDA).
Proof.
  intro Hwf. unfold check_unknown.
  destruct (chan_parts c) as [[chn cap]|] eqn:Ecp; [|apply check_defaults_total; exact Hwf].
  destruct (wf_sub _ _ _ Hwf Ecp) as [Hwx Hch].
  apply okres_catch.
  destruct (cs_contains_total (ch_caps (getChannel d chn)) cap Hwx) as [b Hb]. rewrite Hb. cbn [bind].
  destruct b; [apply chan_check_total; exact Hwx|auto].
Qed.

Lemma wf_OP : wf_cap OP = true. Proof. vm_compute. reflexivity. Qed.

Lemma isChannel_nows_chanop ch : isChannel ch = true -> nows ch = true -> wf_cap (ch ++ COMMA :: OP) = true.
Proof. intros _ Hn. apply wf_chan; [exact Hn|exact wf_OP]. Qed.

Theorem check_total d c f : wf_cap c = true -> exists b, checkCapability d c f = Ok b.
Proof.
  intro Hwf. change (okres (checkCapability d c f)). unfold checkCapability.
  destruct (d_user d) as [u|]; [|apply check_unknown_total; exact Hwf].
  destruct (u_secure u && negb (d_hostok d)); [apply check_unknown_total; exact Hwf|].
  destruct (ucs_contains_total (u_caps u) c false Hwf) as [b Hb]. rewrite Hb. cbn [bind].
  match goal with |- okres (if b then catch_key _ ?R else ?R) => assert (Hrest : okres R) end.
  { destruct (chan_parts c) as [[chn cap]|] eqn:Ecp; [|apply check_defaults_total; exact Hwf].
    destruct (wf_sub _ _ _ Hwf Ecp) as [Hwx Hch].
    cbv zeta.
    assert (Hafter : okres (do b2 <- cs_contains (ch_caps (getChannel d chn)) cap;
                            if b2 then chan_check (getChannel d chn) cap
                            else if negb (f_ignoreDefaultAllow f) then Ok (xres cap (ch_default (getChannel d chn)))
                                 else Ok false)).
    { destruct (cs_contains_total (ch_caps (getChannel d chn)) cap Hwx) as [b2 Hb2]. rewrite Hb2. cbn [bind].
      destruct b2; [apply chan_check_total; exact Hwx|]. destruct (negb (f_ignoreDefaultAllow f)); auto. }
    destruct (negb (f_ignoreChannelOp f)); [|exact Hafter].
    unfold makeChannelCapability. change (isCapability OP) with true. rewrite Hch. cbn [negb bind].
    assert (Hwco : wf_cap (chn ++ [COMMA] ++ OP) = true).
    { destruct (chan_parts_inv _ _ _ Ecp) as [Hc _]. subst c. unfold wf_cap in Hwf.
      apply andb_true_iff in Hwf as [_ Hn]. rewrite nows_app in Hn. apply andb_true_iff in Hn as [Hn _].
      apply wf_chan; [exact Hn|exact wf_OP]. }
    destruct (user_check_okkey u (chn ++ [COMMA] ++ OP) false Hwco) as [[[|] Hr]|Hr]; rewrite Hr; auto. }
  destruct b; [|exact Hrest].
  apply okkey_catch; [apply user_check_okkey; exact Hwf|exact Hrest].
Qed.

(* ---- the owner rule ---- *)
Theorem owner_all d u c f :
  d_user d = Some u -> (u_secure u && negb (d_hostok d)) = false ->
  smem OWNER (u_caps u) = true -> u_ignore u = false -> f_ignoreOwner f = false ->
  wf_cap c = true ->
  checkCapability d c f = Ok (negb (isAntiCapability c)).
Proof.
  intros Hu Hsec Hown Hign Hio Hwf. unfold checkCapability. rewrite Hu, Hsec.
  unfold ucs_contains. cbn [negb andb]. rewrite Hown.
  destruct (seq_eqb (fold c) OWNER || seq_eqb (fold c) ANTIOWNER); cbn [bind];
    unfold user_check, ucs_check; rewrite Hign, Hio, Hown; cbn [negb andb];
    rewrite fold_isAnti;
    destruct (seq_eqb (fold c) OWNER || seq_eqb (fold c) ANTIOWNER); reflexivity.
Qed.

(* an ignored account that holds the capability explicitly (or is owner) gets nothing *)
Theorem ignored_nothing d u c f :
  d_user d = Some u -> (u_secure u && negb (d_hostok d)) = false ->
  u_ignore u = true -> ucs_contains (u_caps u) c false = Ok true ->
  checkCapability d c f = Ok (isAntiCapability c).
Proof.
  intros Hu Hsec Hign Hc. unfold checkCapability. rewrite Hu, Hsec, Hc. cbn [bind].
  unfold user_check. rewrite Hign. reflexivity.
Qed.
