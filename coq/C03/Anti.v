(* C03/Anti.v — a capability and its anti-capability get opposite answers *)
From Coq Require Import List NArith ZArith Bool Arith Lia.
Import ListNotations.
Require Import Base.Wire Base.PyStr C03.Model C03.Fold C03.CaseInsens.
Require gen.T03.
Open Scope N_scope.

Definition nows (s : str) : bool := forallb (fun c => negb (ws c)) s.
(* a capability as commands produce them: non-empty, no whitespace *)
Definition wf_cap (c : str) : bool := nonempty c && nows c.

Lemma skip_word_nows s : nows s = true -> skip_word s = [].
Proof.
  induction s as [|x s IH]; [reflexivity|]. cbn [nows forallb skip_word]. intro H.
  apply andb_true_iff in H as [H1 H2]. apply negb_true_iff in H1. rewrite H1. apply IH. exact H2.
Qed.

Lemma one_word_wf s : wf_cap s = true -> one_word s = true.
Proof.
  unfold wf_cap. intro H. apply andb_true_iff in H as [Hne Hn].
  destruct s as [|x s]; [discriminate|]. unfold one_word.
  pose proof Hn as Hn'. cbn [nows forallb] in Hn'. apply andb_true_iff in Hn' as [Hx _]. apply negb_true_iff in Hx.
  cbn [skip_ws]. rewrite Hx. rewrite skip_word_nows by exact Hn. reflexivity.
Qed.

Lemma ws_dash : ws DASH = false. Proof. vm_compute. reflexivity. Qed.
Lemma ws_comma : ws COMMA = false. Proof. vm_compute. reflexivity. Qed.
Lemma ct_dash : mem DASH gen.T03.CHANTYPES = false. Proof. vm_compute. reflexivity. Qed.

Lemma nows_app a b : nows (a ++ b) = nows a && nows b.
Proof. apply forallb_app. Qed.

Lemma wf_dash c : wf_cap c = true -> wf_cap (DASH :: c) = true.
Proof.
  unfold wf_cap. intro H. apply andb_true_iff in H as [_ Hn].
  cbn [nonempty nows forallb andb]. rewrite ws_dash. exact Hn.
Qed.

Lemma split1_char_inv k s a b :
  split1 [k] s = Some (a, b) -> s = a ++ k :: b /\ mem k a = false.
Proof.
  revert a b. induction s as [|x s IH]; intros a b; [discriminate|].
  rewrite split1_single. destruct (N.eqb k x) eqn:E.
  - intro H. inversion H; subst. apply N.eqb_eq in E. subst. split; reflexivity.
  - destruct (split1 [k] s) as [[a' b']|]; [|discriminate].
    intro H. inversion H; subst. destruct (IH _ _ eq_refl) as [Hs Hm]. subst s.
    split; [reflexivity|]. cbn [mem existsb]. rewrite E. exact Hm.
Qed.

Lemma chan_parts_inv c ch x :
  chan_parts c = Some (ch, x) ->
  c = ch ++ COMMA :: x /\ mem COMMA ch = false /\ isChannel ch = true /\ isCapability x = true.
Proof.
  unfold chan_parts, isChannelCapability.
  destruct (split_comma c) as [[a b]|] eqn:E; [|discriminate].
  destruct (isChannel a && isCapability b) eqn:Eb; [|discriminate].
  intro H. inversion H; subst. apply andb_true_iff in Eb as [E1 E2].
  destruct (split1_char_inv _ _ _ _ E) as [Hc Hm]. auto.
Qed.

Lemma chan_parts_make ch x :
  mem COMMA ch = false -> isChannel ch = true -> isCapability x = true ->
  chan_parts (ch ++ COMMA :: x) = Some (ch, x).
Proof.
  intros Hm Hc Hx. unfold chan_parts, isChannelCapability, split_comma.
  rewrite split1_char by exact Hm. rewrite Hc, Hx. reflexivity.
Qed.

Lemma chan_parts_dash c : chan_parts (DASH :: c) = None.
Proof.
  unfold chan_parts, isChannelCapability, split_comma. rewrite split1_single.
  change (N.eqb COMMA DASH) with false. cbv iota.
  destruct (split1 [COMMA] c) as [[a b]|]; [|reflexivity].
  unfold isChannel. cbn [hd_in]. rewrite ct_dash. rewrite !andb_false_r. reflexivity.
Qed.

(* the two shapes of a (capability, anti-capability) pair *)
Inductive antipair : str -> str -> Prop :=
| ap_plain c :
    wf_cap c = true -> chan_parts c = None -> hd_is DASH c = false ->
    antipair c (DASH :: c)
| ap_chan ch x :
    isChannel ch = true -> mem COMMA ch = false -> nows ch = true ->
    wf_cap x = true -> hd_is DASH x = false -> chan_parts x = None ->
    antipair (ch ++ COMMA :: x) (ch ++ COMMA :: DASH :: x).

(* the domain of the anti-symmetry theorem: well-formed, and the capability
   part of a channel capability is not itself a channel capability *)
Definition dom_cap (c : str) : bool :=
  wf_cap c &&
  match chan_parts c with
  | Some (_, x) => match chan_parts x with None => true | Some _ => false end
  | None => true
  end.

Lemma wf_app_inv a k b : wf_cap (a ++ k :: b) = true -> b <> [] -> wf_cap b = true.
Proof.
  unfold wf_cap. intros H Hb. apply andb_true_iff in H as [_ Hn].
  rewrite nows_app in Hn. apply andb_true_iff in Hn as [_ Hn]. cbn [nows forallb] in Hn.
  apply andb_true_iff in Hn as [_ Hn]. destruct b; [congruence|]. cbn [nonempty andb]. exact Hn.
Qed.

Lemma isCapability_nonempty x : isCapability x = true -> x <> [].
Proof. intros H E. subst. discriminate. Qed.

Lemma makeAnti_antipair c a :
  dom_cap c = true -> isAntiCapability c = false -> makeAntiCapability c = Ok a -> antipair c a.
Proof.
  unfold dom_cap. intros Hd Hna Hm. apply andb_true_iff in Hd as [Hwf Hnest].
  unfold makeAntiCapability in Hm. unfold isCapability in Hm. rewrite (one_word_wf _ Hwf), Hna in Hm.
  cbn [negb] in Hm. unfold isAntiCapability in Hna.
  destruct (chan_parts c) as [[ch x]|] eqn:Ecp.
  - destruct (chan_parts_inv _ _ _ Ecp) as [Hc [Hmem [Hch Hx]]]. subst c.
    rewrite Hx in Hna. cbn [andb] in Hna.
    assert (Hwx : wf_cap x = true) by (eapply wf_app_inv; [exact Hwf|apply isCapability_nonempty; exact Hx]).
    unfold makeChannelCapability in Hm. unfold isCapability in Hm.
    rewrite (one_word_wf _ (wf_dash _ Hwx)), Hch in Hm. cbn [negb] in Hm. inversion Hm; subst.
    cbn [app]. apply ap_chan; try assumption.
    + unfold wf_cap in Hwf. apply andb_true_iff in Hwf as [_ Hn]. rewrite nows_app in Hn.
      apply andb_true_iff in Hn as [Hn _]. exact Hn.
    + destruct (chan_parts x); [discriminate|reflexivity].
  - unfold isCapability in Hna. rewrite (one_word_wf _ Hwf) in Hna. cbn [andb] in Hna.
    inversion Hm; subst. apply ap_plain; assumption.
Qed.

Lemma wf_chan ch x : nows ch = true -> wf_cap x = true -> wf_cap (ch ++ COMMA :: x) = true.
Proof.
  unfold wf_cap. intros Hc Hx. apply andb_true_iff in Hx as [_ Hx].
  rewrite nows_app. cbn [nows forallb]. rewrite ws_comma. cbn [negb andb].
  fold (nows x). rewrite Hc, Hx. destruct ch; reflexivity.
Qed.

Lemma antipair_facts c a :
  antipair c a ->
  isCapability c = true /\ isCapability a = true /\
  isAntiCapability c = false /\ isAntiCapability a = true /\
  invertCapability c = Ok a /\ invertCapability a = Ok c.
Proof.
  intros [c0 Hwf Hcp Hd | ch x Hch Hm Hnw Hwx Hd Hcx].
  - pose proof (one_word_wf _ Hwf) as Hc. pose proof (one_word_wf _ (wf_dash _ Hwf)) as Ha.
    assert (Hna : isAntiCapability c0 = false).
    { unfold isAntiCapability. rewrite Hcp, Hd. apply andb_false_r. }
    assert (Han : isAntiCapability (DASH :: c0) = true).
    { unfold isAntiCapability. rewrite chan_parts_dash. unfold isCapability. rewrite Ha. reflexivity. }
    repeat split; try assumption.
    + unfold invertCapability, makeAntiCapability, isCapability. rewrite Hc, Hna, Hcp. reflexivity.
    + unfold invertCapability, unAntiCapability, isCapability. rewrite Ha, Han, chan_parts_dash. reflexivity.
  - pose proof (one_word_wf _ Hwx) as Hx. pose proof (one_word_wf _ (wf_dash _ Hwx)) as Hdx.
    assert (Hcpc := chan_parts_make ch x Hm Hch Hx).
    assert (Hcpa := chan_parts_make ch (DASH :: x) Hm Hch Hdx).
    pose proof (one_word_wf _ (wf_chan ch x Hnw Hwx)) as Hc.
    pose proof (one_word_wf _ (wf_chan ch _ Hnw (wf_dash _ Hwx))) as Ha.
    assert (Hna : isAntiCapability (ch ++ COMMA :: x) = false).
    { unfold isAntiCapability. rewrite Hcpc, Hd. apply andb_false_r. }
    assert (Han : isAntiCapability (ch ++ COMMA :: DASH :: x) = true).
    { unfold isAntiCapability. rewrite Hcpa. unfold isCapability. rewrite Hdx. reflexivity. }
    repeat split; try assumption.
    + unfold invertCapability, makeAntiCapability, isCapability. rewrite Hc, Hna, Hcpc. cbn [negb].
      unfold makeChannelCapability, isCapability. rewrite Hdx, Hch. reflexivity.
    + unfold invertCapability, unAntiCapability, isCapability. rewrite Ha, Han, Hcpa. reflexivity.
Qed.

Lemma fold_nows s : nows (fold s) = nows s.
Proof.
  induction s as [|x s IH]; [reflexivity|]. cbn [fold map nows forallb]. fold (fold s). fold (nows (fold s)). fold (nows s).
  rewrite fold_char_ws, IH. reflexivity.
Qed.
Lemma fold_wf s : wf_cap (fold s) = wf_cap s.
Proof. unfold wf_cap. rewrite fold_nonempty, fold_nows. reflexivity. Qed.

Lemma antipair_fold c a : antipair c a -> antipair (fold c) (fold a).
Proof.
  intros [c0 Hwf Hcp Hd | ch x Hch Hm Hnw Hwx Hd Hcx].
  - change (fold (DASH :: c0)) with (fold_char DASH :: fold c0). rewrite fold_dash.
    apply ap_plain.
    + rewrite fold_wf. exact Hwf.
    + rewrite fold_chan_parts, Hcp. reflexivity.
    + rewrite fold_hd_is by exact dash_special. exact Hd.
  - rewrite !fold_app. change (fold (COMMA :: x)) with (fold_char COMMA :: fold x).
    change (fold (COMMA :: DASH :: x)) with (fold_char COMMA :: fold_char DASH :: fold x).
    rewrite fold_comma, fold_dash. apply ap_chan.
    + rewrite fold_isChannel. exact Hch.
    + rewrite fold_mem by exact comma_special. exact Hm.
    + rewrite fold_nows. exact Hnw.
    + rewrite fold_wf. exact Hwx.
    + rewrite fold_hd_is by exact dash_special. exact Hd.
    + rewrite fold_chan_parts, Hcx. reflexivity.
Qed.

Lemma antipair_neq c a : antipair c a -> seq_eqb c a = false.
Proof.
  intro H. apply seq_eqb_neq. intro E. subst a.
  assert (Hl : forall (p q : str), length p = length q -> p = q -> True) by trivial.
  inversion H as [c0 Hwf Hcp Hd Ec Ea | ch x Hch Hm Hnw Hwx Hd Hcx Ec Ea].
  - apply (f_equal (@length N)) in Ea. cbn in Ea. lia.
  - assert (E2 : ch ++ COMMA :: x = ch ++ COMMA :: DASH :: x) by congruence.
    apply app_inv_head in E2. apply (f_equal (@length N)) in E2. cbn in E2. lia.
Qed.

(* ---- sets ---- *)
Definition no_inverse_in (S : cset) (x : str) : bool :=
  match invertCapability x with Ok i => negb (smem i S) | Raise _ => true end.
(* no element sits next to its own inverse (what CapabilitySet.add maintains) *)
Definition set_ok (S : cset) : bool := forallb (no_inverse_in S) S.

Lemma smem_In c S : smem c S = true -> In c S.
Proof.
  unfold smem. rewrite existsb_exists. intros [x [Hin He]]. apply seq_eqb_eq in He. subst. exact Hin.
Qed.

Lemma pair_excl S p q :
  set_ok S = true -> invertCapability p = Ok q -> smem p S = true -> smem q S = false.
Proof.
  unfold set_ok. intros Hok Hinv Hp. rewrite forallb_forall in Hok.
  specialize (Hok _ (smem_In _ _ Hp)). unfold no_inverse_in in Hok. rewrite Hinv in Hok.
  apply negb_true_iff in Hok. exact Hok.
Qed.

(* "opposite answers": Ok b / Ok (negb b), or the same exception *)
Inductive opp : res bool -> res bool -> Prop :=
| opp_ok b : opp (Ok b) (Ok (negb b))
| opp_raise e : opp (Raise e) (Raise e).

Lemma opp_tf : opp (Ok true) (Ok false). Proof. exact (opp_ok true). Qed.
Lemma opp_ft : opp (Ok false) (Ok true). Proof. exact (opp_ok false). Qed.

Lemma opp_catch r1 r2 k1 k2 : opp r1 r2 -> opp k1 k2 -> opp (catch_key r1 k1) (catch_key r2 k2).
Proof.
  intros Hr Hk. destruct Hr as [b|e]; [constructor|]. destruct e; cbn [catch_key]; try constructor. exact Hk.
Qed.

Lemma comma_not_owner s t :
  seq_eqb (s ++ COMMA :: t) OWNER = false /\ seq_eqb (s ++ COMMA :: t) ANTIOWNER = false.
Proof.
  split; apply seq_eqb_neq; intro E;
    apply (f_equal (mem COMMA)) in E; rewrite mem_app in E; cbn [mem existsb] in E;
    rewrite N.eqb_refl in E; rewrite orb_true_r in E; vm_compute in E; discriminate.
Qed.

Lemma owner_cond_gen p q :
  antipair p q ->
  (seq_eqb p OWNER || seq_eqb p ANTIOWNER) = (seq_eqb q OWNER || seq_eqb q ANTIOWNER)
  /\ (seq_eqb p ANTIOWNER = false) /\ (seq_eqb q OWNER = false)
  /\ seq_eqb q ANTIOWNER = seq_eqb p OWNER.
Proof.
  intros [c0 Hwf Hcp Hd | ch x Hch Hm Hnw Hwx Hd Hcx].
  - assert (H1 : seq_eqb c0 ANTIOWNER = false).
    { destruct c0 as [|y r]; [reflexivity|]. cbn [hd_is] in Hd. cbn [seq_eqb ANTIOWNER]. rewrite Hd. reflexivity. }
    assert (H2 : seq_eqb (DASH :: c0) OWNER = false) by reflexivity.
    assert (H3 : seq_eqb (DASH :: c0) ANTIOWNER = seq_eqb c0 OWNER) by reflexivity.
    rewrite H1, H2, H3. rewrite orb_false_r. auto.
  - destruct (comma_not_owner ch x) as [A1 A2]. destruct (comma_not_owner ch (DASH :: x)) as [B1 B2].
    rewrite A1, A2, B1, B2. auto.
Qed.

Section Pair.
Variables c a : str.
Hypothesis Hpair : antipair c a.

Let Hf := antipair_fold _ _ Hpair.
Let Hfacts := antipair_facts _ _ Hf.

Lemma pair_inv_ca : invertCapability (fold c) = Ok (fold a).
Proof. destruct Hfacts as [_ [_ [_ [_ [H _]]]]]. exact H. Qed.
Lemma pair_inv_ac : invertCapability (fold a) = Ok (fold c).
Proof. destruct Hfacts as [_ [_ [_ [_ [_ H]]]]]. exact H. Qed.
Lemma pair_anti_c : isAntiCapability c = false.
Proof. destruct (antipair_facts _ _ Hpair) as [_ [_ [H _]]]. exact H. Qed.
Lemma pair_anti_a : isAntiCapability a = true.
Proof. destruct (antipair_facts _ _ Hpair) as [_ [_ [_ [H _]]]]. exact H. Qed.

Lemma cs_contains_pair S :
  cs_contains S c = Ok (smem (fold c) S || smem (fold a) S) /\
  cs_contains S a = Ok (smem (fold c) S || smem (fold a) S).
Proof.
  unfold cs_contains. rewrite pair_inv_ca, pair_inv_ac. cbn [bind].
  destruct (smem (fold c) S), (smem (fold a) S); split; reflexivity.
Qed.

Lemma cs_check_opp S : set_ok S = true -> opp (cs_check S c) (cs_check S a).
Proof.
  intro Hok. unfold cs_check. rewrite pair_inv_ca, pair_inv_ac. cbn [bind].
  destruct (smem (fold c) S) eqn:Ec.
  - rewrite (pair_excl _ _ _ Hok pair_inv_ca Ec). exact opp_tf.
  - destruct (smem (fold a) S); [exact opp_ft|constructor].
Qed.

Lemma xres_opp r : opp (Ok (xres c r)) (Ok (xres a r)).
Proof. unfold xres. rewrite pair_anti_c, pair_anti_a. constructor. Qed.

Lemma owner_cond :
  (seq_eqb (fold c) OWNER || seq_eqb (fold c) ANTIOWNER)
  = (seq_eqb (fold a) OWNER || seq_eqb (fold a) ANTIOWNER)
  /\ (seq_eqb (fold c) ANTIOWNER = false) /\ (seq_eqb (fold a) OWNER = false)
  /\ seq_eqb (fold a) ANTIOWNER = seq_eqb (fold c) OWNER.
Proof. exact (owner_cond_gen _ _ Hf). Qed.

Lemma ucs_contains_pair S : ucs_contains S c false = ucs_contains S a false /\ exists b, ucs_contains S c false = Ok b.
Proof.
  unfold ucs_contains. destruct owner_cond as [_ [H1 [H2 H3]]].
  rewrite H1, H2, H3. rewrite orb_false_r. rewrite andb_false_r. cbn [orb].
  rewrite !cs_contains_fold. destruct (cs_contains_pair S) as [E1 E2]. rewrite E1, E2.
  destruct (seq_eqb (fold c) OWNER); cbn [negb andb orb]; try (split; eauto; fail).
  all: destruct (smem OWNER S); split; eauto.
Qed.

Lemma ucs_check_opp S io : set_ok S = true -> opp (ucs_check S c io) (ucs_check S a io).
Proof.
  intro Hok. unfold ucs_check. destruct owner_cond as [Hc _]. rewrite <- Hc.
  rewrite !fold_isAnti, pair_anti_c, pair_anti_a.
  destruct (seq_eqb (fold c) OWNER || seq_eqb (fold c) ANTIOWNER).
  - destruct (smem OWNER S); [exact opp_tf|exact opp_ft].
  - destruct (negb io && smem OWNER S); [exact opp_tf|].
    rewrite !cs_check_fold. apply cs_check_opp. exact Hok.
Qed.

Lemma user_check_opp u io : set_ok (u_caps u) = true -> opp (user_check u c io) (user_check u a io).
Proof.
  intro Hok. unfold user_check. rewrite pair_anti_c, pair_anti_a.
  destruct (u_ignore u); [exact opp_ft|apply ucs_check_opp; exact Hok].
Qed.

Lemma chan_check_opp ch : set_ok (ch_caps ch) = true -> opp (chan_check ch c) (chan_check ch a).
Proof.
  intro Hok. unfold chan_check.
  destruct (antipair_facts _ _ Hpair) as [Hc [Ha _]]. rewrite Hc, Ha. cbn [negb].
  destruct (cs_contains_pair (ch_caps ch)) as [E1 E2]. rewrite E1, E2. cbn [bind].
  destruct (smem (fold c) (ch_caps ch) || smem (fold a) (ch_caps ch)).
  - apply cs_check_opp. exact Hok.
  - rewrite pair_anti_c, pair_anti_a. destruct (ch_default ch); [exact opp_tf|exact opp_ft].
Qed.

Lemma check_defaults_opp d reg :
  set_ok (d_defaults d) = true -> set_ok (d_registered d) = true ->
  opp (check_defaults d c reg false) (check_defaults d a reg false).
Proof.
  intros HD HR. unfold check_defaults.
  destruct (cs_contains_pair (d_defaults d)) as [E1 E2]. rewrite E1, E2. cbn [bind].
  destruct (smem (fold c) (d_defaults d) || smem (fold a) (d_defaults d)); [apply cs_check_opp; exact HD|].
  destruct reg.
  - destruct (cs_contains_pair (d_registered d)) as [F1 F2]. rewrite F1, F2. cbn [bind].
    destruct (smem (fold c) (d_registered d) || smem (fold a) (d_registered d)); [apply cs_check_opp; exact HR|].
    apply xres_opp.
  - cbn [bind]. apply xres_opp.
Qed.
End Pair.

(* ---- databases whose sets were built by add ---- *)
Definition db_ok (d : db) : bool :=
  match d_user d with Some u => set_ok (u_caps u) | None => true end
  && forallb (fun kv => set_ok (ch_caps (snd kv))) (d_chans d)
  && set_ok (d_defaults d) && set_ok (d_registered d).

Lemma default_chan_ok : set_ok (ch_caps default_chan) = true.
Proof. vm_compute. reflexivity. Qed.

Lemma dict_get_In {A} k (l : list (str * A)) v : dict_get k l = Some v -> exists k', In (k', v) l.
Proof.
  induction l as [|[k2 v2] l IH]; cbn [dict_get]; [discriminate|].
  destruct (seq_eqb k k2).
  - intro H. inversion H; subst. exists k2. left. reflexivity.
  - intro H. destruct (IH H) as [k' Hin]. exists k'. right. exact Hin.
Qed.

Lemma getChannel_ok d n : db_ok d = true -> set_ok (ch_caps (getChannel d n)) = true.
Proof.
  unfold db_ok, getChannel. intro H. repeat (apply andb_true_iff in H as [H ?]).
  match goal with Hx : forallb _ (d_chans d) = true |- _ => rename Hx into Hc end.
  destruct (dict_get (fold (lower n)) (d_chans d)) as [ch|] eqn:E; [|exact default_chan_ok].
  destruct (dict_get_In _ _ _ E) as [k' Hin]. rewrite forallb_forall in Hc. exact (Hc _ Hin).
Qed.

Lemma db_ok_parts d :
  db_ok d = true ->
  set_ok (d_defaults d) = true /\ set_ok (d_registered d) = true /\
  (forall u, d_user d = Some u -> set_ok (u_caps u) = true).
Proof.
  unfold db_ok. intro H. repeat (apply andb_true_iff in H as [H ?]).
  repeat split; try assumption. intros u Hu. rewrite Hu in H. exact H.
Qed.

Lemma check_unknown_opp d c a :
  antipair c a -> db_ok d = true ->
  opp (check_unknown d c false) (check_unknown d a false).
Proof.
  intros Hp Hok. destruct (db_ok_parts _ Hok) as [HD [HR _]].
  unfold check_unknown.
  pose proof Hp as Hp'.
  destruct Hp' as [c0 Hwf Hcp Hd | ch x Hch Hm Hnw Hwx Hd Hcx].
  - rewrite Hcp, chan_parts_dash. apply check_defaults_opp; assumption.
  - pose proof (one_word_wf _ Hwx) as Hx. pose proof (one_word_wf _ (wf_dash _ Hwx)) as Hdx.
    rewrite (chan_parts_make ch x Hm Hch Hx), (chan_parts_make ch (DASH :: x) Hm Hch Hdx).
    assert (Hsub : antipair x (DASH :: x)) by (apply ap_plain; assumption).
    pose proof (getChannel_ok d ch Hok) as Hcok.
    apply opp_catch; [|apply check_defaults_opp; assumption].
    destruct (cs_contains_pair _ _ Hsub (ch_caps (getChannel d ch))) as [E1 E2]. rewrite E1, E2. cbn [bind].
    destruct (smem (fold x) (ch_caps (getChannel d ch)) || smem (fold (DASH :: x)) (ch_caps (getChannel d ch))).
    + apply chan_check_opp; assumption.
    + apply xres_opp. exact Hsub.
Qed.

Theorem anti_opp d c a f :
  antipair c a -> db_ok d = true -> f_ignoreDefaultAllow f = false ->
  opp (checkCapability d c f) (checkCapability d a f).
Proof.
  intros Hp Hok Hf. destruct (db_ok_parts _ Hok) as [HD [HR HU]].
  unfold checkCapability. rewrite Hf.
  destruct (d_user d) as [u|] eqn:Eu; [|apply check_unknown_opp; assumption].
  specialize (HU u eq_refl).
  destruct (u_secure u && negb (d_hostok d)); [apply check_unknown_opp; assumption|].
  destruct (ucs_contains_pair _ _ Hp (u_caps u)) as [Ec [b Eb]]. rewrite <- Ec, Eb. cbn [bind].
  assert (Hrest :
    opp (match chan_parts c with
         | Some (chn, cap) =>
             let after_op :=
               let ch := getChannel d chn in
               do b2 <- cs_contains (ch_caps ch) cap;
               if b2 then chan_check ch cap
               else if negb false then Ok (xres cap (ch_default ch)) else Ok false in
             if negb (f_ignoreChannelOp f) then
               match (do chanop <- makeChannelCapability chn OP; user_check u chanop false) with
               | Ok true => Ok (xres cap true)
               | Ok false => after_op
               | Raise KeyError => after_op
               | Raise e => Raise e
               end
             else after_op
         | None => check_defaults d c true false
         end)
        (match chan_parts a with
         | Some (chn, cap) =>
             let after_op :=
               let ch := getChannel d chn in
               do b2 <- cs_contains (ch_caps ch) cap;
               if b2 then chan_check ch cap
               else if negb false then Ok (xres cap (ch_default ch)) else Ok false in
             if negb (f_ignoreChannelOp f) then
               match (do chanop <- makeChannelCapability chn OP; user_check u chanop false) with
               | Ok true => Ok (xres cap true)
               | Ok false => after_op
               | Raise KeyError => after_op
               | Raise e => Raise e
               end
             else after_op
         | None => check_defaults d a true false
         end)).
  { pose proof Hp as Hp'.
    destruct Hp' as [c0 Hwf Hcp Hd | ch x Hch Hm Hnw Hwx Hd Hcx].
    - rewrite Hcp, chan_parts_dash. apply check_defaults_opp; assumption.
    - pose proof (one_word_wf _ Hwx) as Hx. pose proof (one_word_wf _ (wf_dash _ Hwx)) as Hdx.
      rewrite (chan_parts_make ch x Hm Hch Hx), (chan_parts_make ch (DASH :: x) Hm Hch Hdx).
      assert (Hsub : antipair x (DASH :: x)) by (apply ap_plain; assumption).
      pose proof (getChannel_ok d ch Hok) as Hcok.
      cbv zeta.
      assert (Hafter :
        opp (do b2 <- cs_contains (ch_caps (getChannel d ch)) x;
             if b2 then chan_check (getChannel d ch) x
             else if negb false then Ok (xres x (ch_default (getChannel d ch))) else Ok false)
            (do b2 <- cs_contains (ch_caps (getChannel d ch)) (DASH :: x);
             if b2 then chan_check (getChannel d ch) (DASH :: x)
             else if negb false then Ok (xres (DASH :: x) (ch_default (getChannel d ch))) else Ok false)).
      { destruct (cs_contains_pair _ _ Hsub (ch_caps (getChannel d ch))) as [E1 E2]. rewrite E1, E2. cbn [bind negb].
        destruct (smem (fold x) (ch_caps (getChannel d ch)) || smem (fold (DASH :: x)) (ch_caps (getChannel d ch))).
        - apply chan_check_opp; assumption.
        - apply xres_opp. exact Hsub. }
      destruct (negb (f_ignoreChannelOp f)); [|exact Hafter].
      destruct (do chanop <- makeChannelCapability ch OP; user_check u chanop false) as [[|]|e].
      + apply xres_opp. exact Hsub.
      + exact Hafter.
      + destruct e; try constructor. exact Hafter. }
  destruct b; [|exact Hrest].
  apply opp_catch; [apply user_check_opp; assumption|exact Hrest].
Qed.

(* non-vacuity: a database with an owner-less user holding foo / -#chan,op, a
   channel entry and default sets satisfies db_ok; "foo" / "#chan,foo" are in dom_cap *)
Example db_ok_example :
  db_ok (Db (Some (User [[102;111;111]; [35;99;104;97;110;44;45;111;112]] false false)) true
            [([35;99;104;97;110], Chan [[45;111;112]; [102;111;111]] true)]
            [[45;111;119;110;101;114]; [45;97;100;109;105;110]] [[98;97;114]] true) = true
  /\ dom_cap [102;111;111] = true /\ dom_cap [35;99;104;97;110;44;102;111;111] = true.
Proof. vm_compute. auto. Qed.

(* outside dom_cap the statement fails in the model: the nested channel
   capability "#a,#b,y" and its anti "#a,-#b,y" are both refused when channel
   #a holds "#b,-y" *)
Example nested_refuted :
  let d := Db None false [([35;97], Chan [[35;98;44;45;121]] true)] [] [] true in
  let c := [35;97;44;35;98;44;121] in
  dom_cap c = false /\ set_ok [[35;98;44;45;121]] = true /\
  makeAntiCapability c = Ok [35;97;44;45;35;98;44;121] /\
  checkCapability d c (Flags false false false) = Ok false /\
  checkCapability d [35;97;44;45;35;98;44;121] (Flags false false false) = Ok false.
Proof. vm_compute. auto 6. Qed.
