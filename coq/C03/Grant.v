(* C03/Grant.v — the effect of a grant: once IrcUser.addCapability(c) succeeded
   for a capability c (not an anti-capability), the recognised, not ignored
   account holds c -- whatever the channel tables, the default sets, the global
   default flag and the three ignore* flags say (an explicit user capability is
   decided before every fallback). *)
From Coq Require Import List NArith Bool.
Import ListNotations.
Require Import Base.Wire Base.PyStr C03.Model C03.Fold C03.CaseInsens C03.Anti C03.Total C03.Reach.

Definition with_caps (d : db) (S : cset) : db :=
  Db (match d_user d with Some u => Some (User S (u_ignore u) (u_secure u)) | None => None end)
     (d_hostok d) (d_chans d) (d_defaults d) (d_registered d) (d_flag d).

Lemma cs_add_mem S c S' : cs_add S c = Ok S' -> smem (fold c) S' = true.
Proof.
  unfold cs_add. destruct (invertCapability (fold c)) as [inv|e]; cbn; [|discriminate].
  destruct (smem (fold c) (sremove inv S)) eqn:E; intro H; inversion H; subst.
  - exact E.
  - rewrite smem_snoc, seq_eqb_refl. apply orb_true_r.
Qed.

Lemma ucs_add_mem S c S' : ucs_add S c = Ok S' -> smem (fold c) S' = true.
Proof.
  unfold ucs_add. destruct (seq_eqb (fold c) ANTIOWNER); [discriminate|].
  intro H. apply cs_add_mem in H. rewrite fold_idem in H. exact H.
Qed.

Lemma anti_owner_is_anti : isAntiCapability ANTIOWNER = true.
Proof. vm_compute. reflexivity. Qed.
Lemma owner_not_anti : isAntiCapability OWNER = false.
Proof. vm_compute. reflexivity. Qed.

Lemma ucs_contains_of_mem S c io : smem (fold c) S = true -> ucs_contains S c io = Ok true.
Proof.
  intro H. unfold ucs_contains.
  destruct ((negb io && seq_eqb (fold c) OWNER) || seq_eqb (fold c) ANTIOWNER); [reflexivity|].
  destruct (negb io && smem OWNER S); [reflexivity|].
  unfold cs_contains. rewrite fold_idem, H. reflexivity.
Qed.

Lemma ucs_check_of_mem S c io :
  smem (fold c) S = true -> isAntiCapability (fold c) = false -> ucs_check S c io = Ok true.
Proof.
  intros H Ha. unfold ucs_check. rewrite Ha. cbn [negb].
  destruct (seq_eqb (fold c) OWNER) eqn:Eo.
  - apply seq_eqb_eq in Eo. rewrite Eo in H. cbn [orb]. rewrite H. reflexivity.
  - destruct (seq_eqb (fold c) ANTIOWNER) eqn:Ea.
    + apply seq_eqb_eq in Ea. rewrite Ea, anti_owner_is_anti in Ha. discriminate.
    + cbn [orb]. destruct (negb io && smem OWNER S); [reflexivity|].
      unfold cs_check. rewrite fold_idem, H. reflexivity.
Qed.

Theorem grant_effective d u c f S' :
  d_user d = Some u -> (u_secure u && negb (d_hostok d)) = false -> u_ignore u = false ->
  isAntiCapability c = false -> ucs_add (u_caps u) c = Ok S' ->
  checkCapability (with_caps d S') c f = Ok true.
Proof.
  intros Hu Hs Hi Ha Hadd. apply ucs_add_mem in Hadd.
  unfold checkCapability, with_caps. rewrite Hu. cbn [d_user d_hostok u_secure u_caps].
  rewrite Hs. rewrite (ucs_contains_of_mem _ _ _ Hadd). cbn.
  unfold user_check. cbn [u_ignore u_caps]. rewrite Hi.
  rewrite (ucs_check_of_mem _ _ _ Hadd) by (rewrite fold_isAnti; exact Ha). reflexivity.
Qed.

(* the same for ANY capability, anti-capabilities included, when the account is
   not an owner after the edit: IrcUser.addCapability('-x') makes '-x' hold *)
Lemma ucs_check_of_mem_nonowner S c io :
  smem (fold c) S = true -> smem OWNER S = false -> seq_eqb (fold c) ANTIOWNER = false ->
  ucs_check S c io = Ok true.
Proof.
  intros H Ho Ha. unfold ucs_check. rewrite Ha, Ho, andb_false_r.
  destruct (seq_eqb (fold c) OWNER) eqn:Eo.
  - apply seq_eqb_eq in Eo. rewrite Eo in H. congruence.
  - cbn [orb]. unfold cs_check. rewrite fold_idem, H. reflexivity.
Qed.

Theorem edit_effective_nonowner d u c f S' :
  d_user d = Some u -> (u_secure u && negb (d_hostok d)) = false -> u_ignore u = false ->
  ucs_add (u_caps u) c = Ok S' -> smem OWNER S' = false ->
  checkCapability (with_caps d S') c f = Ok true.
Proof.
  intros Hu Hs Hi Hadd Ho.
  assert (Hna : seq_eqb (fold c) ANTIOWNER = false).
  { unfold ucs_add in Hadd. destruct (seq_eqb (fold c) ANTIOWNER); [discriminate|reflexivity]. }
  apply ucs_add_mem in Hadd.
  unfold checkCapability, with_caps. rewrite Hu. cbn [d_user d_hostok u_secure u_caps].
  rewrite Hs. rewrite (ucs_contains_of_mem _ _ _ Hadd). cbn.
  unfold user_check. cbn [u_ignore u_caps]. rewrite Hi.
  rewrite (ucs_check_of_mem_nonowner _ _ _ Hadd Ho Hna). reflexivity.
Qed.

(* the effect of a revocation: after addCapability of the anti-capability a of p
   the (non-owner) account is refused p -- again whatever channels, default
   sets and the default flag say (flag triples without ignoreDefaultAllow). *)
Theorem revoke_effective d u p a f S' :
  antipair p a -> db_ok (with_caps d S') = true -> f_ignoreDefaultAllow f = false ->
  d_user d = Some u -> (u_secure u && negb (d_hostok d)) = false -> u_ignore u = false ->
  ucs_add (u_caps u) a = Ok S' -> smem OWNER S' = false ->
  checkCapability (with_caps d S') p f = Ok false.
Proof.
  intros Hp Hok Hf Hu Hs Hi Hadd Ho.
  pose proof (edit_effective_nonowner d u a f S' Hu Hs Hi Hadd Ho) as Ha.
  pose proof (anti_opp (with_caps d S') p a f Hp Hok Hf) as Hopp.
  rewrite Ha in Hopp. inversion Hopp as [b Hb Hnb|e He1 He2].
  destruct b; [discriminate|reflexivity].
Qed.

(* non-vacuity: a concrete account, a concrete grant *)
Example grant_example :
  let d := Db (Some (User [] false false)) true [] [] [] false in
  exists S', ucs_add [] [116; 114; 117; 115; 116] = Ok S' /\
             checkCapability d [116; 114; 117; 115; 116] (Flags false false false) = Ok false /\
             checkCapability (with_caps d S') [116; 114; 117; 115; 116] (Flags false false false) = Ok true.
Proof. eexists. split; [vm_compute; reflexivity|]. split; vm_compute; reflexivity. Qed.

Example revoke_example :
  let d := Db (Some (User [[116; 114; 117; 115; 116]] false false)) true [] [[116; 114; 117; 115; 116]] [] true in
  exists S', ucs_add [[116; 114; 117; 115; 116]] [45; 116; 114; 117; 115; 116] = Ok S' /\
             smem OWNER S' = false /\ db_ok (with_caps d S') = true /\
             checkCapability d [116; 114; 117; 115; 116] (Flags false false false) = Ok true /\
             checkCapability (with_caps d S') [116; 114; 117; 115; 116] (Flags false false false) = Ok false.
Proof. eexists. split; [vm_compute; reflexivity|]. repeat split; vm_compute; reflexivity. Qed.
