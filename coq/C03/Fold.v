(* C03/Fold.v — facts about rfc1459 folding drawn from the regenerated table,
   and commutation of the capability algebra with folding. *)
From Coq Require Import List NArith ZArith Bool Arith Lia.
Import ListNotations.
Require Import Base.Wire Base.PyStr C03.Model.
Require gen.T03.
Open Scope N_scope.

(* characters whose identity the algebra depends on *)
Definition special : list N :=
  [COMMA; DASH; BEL] ++ gen.T03.CHANTYPES ++ gen.T03.WHITESPACE.

Definition upper_range : list N := map N.of_nat (seq 65 26).

Definition fold_table_ok (t : list (N * N)) : bool :=
  forallb (fun kv => negb (mem (fst kv) special) && negb (mem (snd kv) special)
                     && match assocN (snd kv) t with None => true | Some _ => false end) t
  && forallb (fun c => N.eqb (fold_char_with t c) (c + 32) && N.eqb (fold_char_with t (c + 32)) (c + 32))
             upper_range
  && negb (mem DASH gen.T03.CHANTYPES) && negb (mem DASH gen.T03.WHITESPACE)
  && negb (mem COMMA gen.T03.WHITESPACE).

Lemma fold_table_ok_current : fold_table_ok gen.T03.FOLD = true.
Proof. vm_compute. reflexivity. Qed.

Lemma assocN_In c t v : assocN c t = Some v -> In (c, v) t.
Proof.
  induction t as [|[k w] t IH]; simpl; [discriminate|].
  destruct (N.eqb c k) eqn:E; intro H.
  - inversion H; subst. apply N.eqb_eq in E; subst. left; reflexivity.
  - right. apply IH. exact H.
Qed.

Section WithTable.
Variable t : list (N * N).
Hypothesis Hok : fold_table_ok t = true.
Let fc := fold_char_with t.

Lemma tbl_entries kv : In kv t ->
  mem (fst kv) special = false /\ mem (snd kv) special = false /\ assocN (snd kv) t = None.
Proof.
  intro Hin. unfold fold_table_ok in Hok.
  repeat (apply andb_true_iff in Hok as [Hok ?]).
  rewrite forallb_forall in Hok. specialize (Hok _ Hin).
  repeat (apply andb_true_iff in Hok as [Hok ?]).
  apply negb_true_iff in Hok. 
  match goal with H : negb (mem (snd kv) special) = true |- _ => apply negb_true_iff in H end.
  destruct (assocN (snd kv) t); [discriminate|]. auto.
Qed.

Lemma fc_special x k : mem k special = true -> N.eqb (fc x) k = N.eqb x k.
Proof.
  intro Hk. unfold fc, fold_char_with. destruct (assocN x t) as [v|] eqn:E; [|reflexivity].
  apply assocN_In in E. destruct (tbl_entries _ E) as [H1 [H2 _]]. cbn [fst snd] in *.
  destruct (N.eqb v k) eqn:E1.
  - apply N.eqb_eq in E1. subst. congruence.
  - destruct (N.eqb x k) eqn:E2; [|reflexivity]. apply N.eqb_eq in E2. subst. congruence.
Qed.

Lemma fc_mem x K : (forall k, mem k K = true -> mem k special = true) -> mem (fc x) K = mem x K.
Proof.
  intro HK. induction K as [|k K IH]; [reflexivity|].
  cbn [mem existsb]. fold (mem (fc x) K). fold (mem x K).
  rewrite IH.
  - rewrite fc_special; [reflexivity|]. apply HK. cbn [mem existsb]. rewrite N.eqb_refl. reflexivity.
  - intros k' Hk'. apply HK. cbn [mem existsb]. fold (mem k' K). rewrite Hk'. apply orb_true_r.
Qed.

Lemma fc_idem x : fc (fc x) = fc x.
Proof.
  unfold fc, fold_char_with. destruct (assocN x t) as [v|] eqn:E.
  - apply assocN_In in E. destruct (tbl_entries _ E) as [_ [_ H3]]. cbn [snd] in H3. rewrite H3. reflexivity.
  - rewrite E. reflexivity.
Qed.
End WithTable.

(* ---- specialised to the current table ---- *)
Lemma special_sub_ws k : mem k gen.T03.WHITESPACE = true -> mem k special = true.
Proof. intro H. unfold special. rewrite !mem_app. rewrite H. rewrite !orb_true_r. reflexivity. Qed.
Lemma special_sub_ct k : mem k gen.T03.CHANTYPES = true -> mem k special = true.
Proof. intro H. unfold special. rewrite !mem_app. rewrite H. rewrite !orb_true_r. reflexivity. Qed.

Lemma fold_char_eqb x k : mem k special = true -> N.eqb (fold_char x) k = N.eqb x k.
Proof. apply fc_special. exact fold_table_ok_current. Qed.
Lemma fold_char_ws x : ws (fold_char x) = ws x.
Proof. apply (fc_mem _ fold_table_ok_current). exact special_sub_ws. Qed.
Lemma fold_char_ct x : mem (fold_char x) gen.T03.CHANTYPES = mem x gen.T03.CHANTYPES.
Proof. apply (fc_mem _ fold_table_ok_current). exact special_sub_ct. Qed.
Lemma fold_char_idem x : fold_char (fold_char x) = fold_char x.
Proof. apply fc_idem. exact fold_table_ok_current. Qed.

Lemma comma_special : mem COMMA special = true. Proof. reflexivity. Qed.
Lemma dash_special : mem DASH special = true. Proof. reflexivity. Qed.
Lemma bel_special : mem BEL special = true. Proof. reflexivity. Qed.

Lemma fold_idem s : fold (fold s) = fold s.
Proof. unfold fold. rewrite map_map. apply map_ext. apply fold_char_idem. Qed.

Lemma fold_app a b : fold (a ++ b) = fold a ++ fold b.
Proof. apply map_app. Qed.

Lemma fold_mem k s : mem k special = true -> mem k (fold s) = mem k s.
Proof.
  intro Hk. induction s as [|x s IH]; [reflexivity|].
  cbn [fold map mem existsb]. fold (fold s). fold (mem k (fold s)). fold (mem k s).
  rewrite IH. rewrite (N.eqb_sym k), (N.eqb_sym k x). rewrite fold_char_eqb by exact Hk. reflexivity.
Qed.

Lemma fold_skip_ws s : skip_ws (fold s) = fold (skip_ws s).
Proof.
  induction s as [|x s IH]; [reflexivity|]. cbn [fold map skip_ws]. fold (fold s).
  rewrite fold_char_ws. destruct (ws x); [exact IH|reflexivity].
Qed.
Lemma fold_skip_word s : skip_word (fold s) = fold (skip_word s).
Proof.
  induction s as [|x s IH]; [reflexivity|]. cbn [fold map skip_word]. fold (fold s).
  rewrite fold_char_ws. destruct (ws x); [reflexivity|exact IH].
Qed.
Lemma fold_nil_iff s : fold s = [] <-> s = [].
Proof. destruct s; split; intro H; try reflexivity; discriminate. Qed.

Lemma fold_one_word s : one_word (fold s) = one_word s.
Proof.
  unfold one_word. rewrite fold_skip_ws.
  destruct (skip_ws s) as [|y r] eqn:E; [reflexivity|].
  destruct (fold (y :: r)) as [|n l] eqn:Ef; [discriminate|]. rewrite <- Ef.
  rewrite fold_skip_word, fold_skip_ws.
  destruct (skip_ws (skip_word (y :: r))); reflexivity.
Qed.

Lemma fold_nonempty s : nonempty (fold s) = nonempty s.
Proof. destruct s; reflexivity. Qed.

Lemma fold_hd_is k s : mem k special = true -> hd_is k (fold s) = hd_is k s.
Proof. intro Hk. destruct s as [|x s]; [reflexivity|]. cbn. apply fold_char_eqb. exact Hk. Qed.

Lemma fold_hd_in_ct s : hd_in gen.T03.CHANTYPES (fold s) = hd_in gen.T03.CHANTYPES s.
Proof. destruct s as [|x s]; [reflexivity|]. cbn [fold map hd_in]. apply fold_char_ct. Qed.

Lemma fold_length s : length (fold s) = length s.
Proof. apply map_length. Qed.

Lemma fold_isChannel s : isChannel (fold s) = isChannel s.
Proof.
  unfold isChannel. rewrite fold_nonempty, !fold_mem, fold_hd_in_ct, fold_length, fold_one_word;
    [reflexivity|exact bel_special|exact comma_special].
Qed.

Lemma split1_single c x s :
  split1 [c] (x :: s) =
  if N.eqb c x then Some ([], s)
  else match split1 [c] s with Some (a, b) => Some (x :: a, b) | None => None end.
Proof.
  cbn [split1 startswith length skipn]. destruct (N.eqb c x); cbn [andb]; reflexivity.
Qed.

Lemma fold_split_comma s :
  split_comma (fold s) =
  match split_comma s with Some (a, b) => Some (fold a, fold b) | None => None end.
Proof.
  unfold split_comma. induction s as [|x s IH]; [reflexivity|].
  change (fold (x :: s)) with (fold_char x :: fold s).
  rewrite !split1_single. rewrite (N.eqb_sym COMMA), (N.eqb_sym COMMA x).
  rewrite fold_char_eqb by exact comma_special.
  destruct (N.eqb x COMMA); [reflexivity|].
  rewrite IH. destruct (split1 [COMMA] s) as [[a b]|]; reflexivity.
Qed.

Lemma fold_isCapability c : isCapability (fold c) = isCapability c.
Proof. apply fold_one_word. Qed.

Lemma fold_isChannelCapability c : isChannelCapability (fold c) = isChannelCapability c.
Proof.
  unfold isChannelCapability. rewrite fold_split_comma.
  destruct (split_comma c) as [[a b]|]; [|reflexivity].
  rewrite fold_isChannel, fold_isCapability. reflexivity.
Qed.

Definition fold_pair (o : option (str * str)) : option (str * str) :=
  match o with Some (a, b) => Some (fold a, fold b) | None => None end.

Lemma fold_chan_parts c : chan_parts (fold c) = fold_pair (chan_parts c).
Proof.
  unfold chan_parts. rewrite fold_isChannelCapability.
  destruct (isChannelCapability c); [apply fold_split_comma|reflexivity].
Qed.

Lemma fold_isAnti c : isAntiCapability (fold c) = isAntiCapability c.
Proof.
  unfold isAntiCapability. rewrite fold_chan_parts.
  destruct (chan_parts c) as [[a b]|]; cbn [fold_pair];
    rewrite fold_isCapability, fold_hd_is by exact dash_special; reflexivity.
Qed.

Definition fold_res (r : res str) : res str :=
  match r with Ok s => Ok (fold s) | Raise e => Raise e end.

Lemma fold_dash : fold_char DASH = DASH.
Proof. vm_compute. reflexivity. Qed.
Lemma fold_comma : fold_char COMMA = COMMA.
Proof. vm_compute. reflexivity. Qed.

Lemma fold_makeChannelCapability ch cap :
  makeChannelCapability (fold ch) (fold cap) = fold_res (makeChannelCapability ch cap).
Proof.
  unfold makeChannelCapability. rewrite fold_isCapability, fold_isChannel.
  destruct (isCapability cap); cbn [negb]; [|reflexivity].
  destruct (isChannel ch); cbn [negb fold_res]; [|reflexivity].
  rewrite !fold_app. cbn [fold map]. rewrite fold_comma. reflexivity.
Qed.

Lemma fold_makeAnti c : makeAntiCapability (fold c) = fold_res (makeAntiCapability c).
Proof.
  unfold makeAntiCapability. rewrite fold_isCapability, fold_isAnti, fold_chan_parts.
  destruct (isCapability c); cbn [negb]; [|reflexivity].
  destruct (isAntiCapability c); [reflexivity|].
  destruct (chan_parts c) as [[ch cap]|]; cbn [fold_pair].
  - rewrite <- fold_makeChannelCapability. cbn [fold map]. rewrite fold_dash. reflexivity.
  - cbn [fold_res fold map]. rewrite fold_dash. reflexivity.
Qed.

Lemma fold_tl s : fold (tl s) = tl (fold s).
Proof. destruct s; reflexivity. Qed.

Lemma fold_unAnti c : unAntiCapability (fold c) = fold_res (unAntiCapability c).
Proof.
  unfold unAntiCapability. rewrite fold_isCapability, fold_isAnti, fold_chan_parts.
  destruct (isCapability c); cbn [negb]; [|reflexivity].
  destruct (isAntiCapability c); cbn [negb]; [|reflexivity].
  destruct (chan_parts c) as [[ch cap]|]; cbn [fold_pair fold_res].
  - rewrite !fold_app. cbn [fold map]. rewrite fold_comma, fold_tl. reflexivity.
  - rewrite fold_tl. reflexivity.
Qed.

Lemma fold_invert c : invertCapability (fold c) = fold_res (invertCapability c).
Proof.
  unfold invertCapability. rewrite fold_isCapability, fold_isAnti.
  destruct (isCapability c); cbn [negb]; [|reflexivity].
  destruct (isAntiCapability c); [apply fold_unAnti|apply fold_makeAnti].
Qed.

(* ASCII lower followed by folding is folding (used by getChannel) *)
Lemma fold_lower_char x : fold_char (lower_char x) = fold_char x.
Proof.
  unfold lower_char. destruct ((65 <=? x) && (x <=? 90)) eqn:E; [|reflexivity].
  apply andb_true_iff in E as [E1 E2]. apply N.leb_le in E1, E2.
  pose proof fold_table_ok_current as Hok. unfold fold_table_ok in Hok.
  repeat (apply andb_true_iff in Hok as [Hok ?]).
  match goal with H : forallb _ upper_range = true |- _ => rename H into Hr end.
  rewrite forallb_forall in Hr.
  assert (Hin : In x upper_range).
  { unfold upper_range. apply in_map_iff. exists (N.to_nat x). split; [apply N2Nat.id|].
    apply in_seq. lia. }
  specialize (Hr _ Hin). apply andb_true_iff in Hr as [Hf1 Hf2].
  apply N.eqb_eq in Hf1, Hf2. unfold fold_char. congruence.
Qed.

Lemma fold_lower s : fold (lower s) = fold s.
Proof. unfold fold, lower. rewrite map_map. apply map_ext. apply fold_lower_char. Qed.
