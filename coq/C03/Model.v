(* C03/Model.v — executable model of the capability algebra and of
   ircdb.checkCapability (src/ircdb.py:39-197, 243-251, 449-458, 1203-1311).
   User lookup is an input (C04 models it): [d_user] is the account
   users.getUser(hostmask) returned (None = KeyError / DuplicateHostmask) and
   [d_hostok] is u.checkHostmask(hostmask, useAuth=False).  No proofs here. *)
From Coq Require Import List NArith ZArith Bool Arith.
Import ListNotations.
Require Import Base.Wire Base.PyStr.
Require gen.T03.
Open Scope N_scope.

Definition COMMA : N := 44.  Definition DASH : N := 45.  Definition BEL : N := 7.

(* ---- case folding (ircutils.toLower) and ASCII str.lower() ---- *)
Fixpoint assocN (c : N) (t : list (N * N)) : option N :=
  match t with
  | [] => None
  | (k, v) :: t' => if N.eqb c k then Some v else assocN c t'
  end.
Definition fold_char_with (t : list (N * N)) (c : N) : N :=
  match assocN c t with Some d => d | None => c end.
Definition fold_char := fold_char_with gen.T03.FOLD.
Definition fold (s : str) : str := map fold_char s.
Definition lower_char (c : N) : N := if (65 <=? c) && (c <=? 90) then c + 32 else c.
Definition lower (s : str) : str := map lower_char s.

(* ---- len(s.split(None, 1)) == 1 ---- *)
Definition ws (c : N) : bool := mem c gen.T03.WHITESPACE.
Fixpoint skip_ws (s : str) : str :=
  match s with c :: s' => if ws c then skip_ws s' else s | [] => [] end.
Fixpoint skip_word (s : str) : str :=
  match s with c :: s' => if ws c then s else skip_word s' | [] => [] end.
Definition one_word (s : str) : bool :=
  match skip_ws s with
  | [] => false
  | t => match skip_ws (skip_word t) with [] => true | _ => false end
  end.

Definition isCapability (c : str) : bool := one_word c.

Definition hd_is (x : N) (s : str) : bool := match s with c :: _ => N.eqb c x | [] => false end.
Definition hd_in (l : list N) (s : str) : bool := match s with c :: _ => mem c l | [] => false end.

Definition isChannel (s : str) : bool :=
  nonempty s && negb (mem COMMA s) && negb (mem BEL s) && hd_in gen.T03.CHANTYPES s
  && Nat.leb (length s) gen.T03.CHANNELLEN && one_word s.

Definition split_comma (c : str) : option (str * str) := split1 [COMMA] c.

Definition isChannelCapability (c : str) : bool :=
  match split_comma c with
  | Some (ch, cap) => isChannel ch && isCapability cap
  | None => false
  end.

(* the (channel, capability) pair when c is a channel capability *)
Definition chan_parts (c : str) : option (str * str) :=
  if isChannelCapability c then split_comma c else None.

Definition isAntiCapability (c : str) : bool :=
  let cap := match chan_parts c with Some (_, cap) => cap | None => c end in
  isCapability cap && hd_is DASH cap.

Definition makeChannelCapability (ch cap : str) : res str :=
  if negb (isCapability cap) then Raise AssertionError
  else if negb (isChannel ch) then Raise AssertionError
  else Ok (ch ++ [COMMA] ++ cap).

Definition makeAntiCapability (c : str) : res str :=
  if negb (isCapability c) then Raise AssertionError
  else if isAntiCapability c then Raise AssertionError
  else match chan_parts c with
       | Some (ch, cap) => makeChannelCapability ch (DASH :: cap)
       | None => Ok (DASH :: c)
       end.

Definition unAntiCapability (c : str) : res str :=
  if negb (isCapability c) then Raise AssertionError
  else if negb (isAntiCapability c) then Raise ValueError
  else match chan_parts c with
       | Some (ch, cap) => Ok (ch ++ [COMMA] ++ tl cap)
       | None => Ok (tl c)
       end.

Definition invertCapability (c : str) : res str :=
  if negb (isCapability c) then Raise AssertionError
  else if isAntiCapability c then unAntiCapability c else makeAntiCapability c.

(* ---- CapabilitySet: a Python set of folded strings ---- *)
Definition cset := list str.
Definition smem (c : str) (S : cset) : bool := existsb (seq_eqb c) S.
Definition sremove (c : str) (S : cset) : cset := filter (fun x => negb (seq_eqb c x)) S.

Definition cs_add (S : cset) (c : str) : res cset :=
  let c' := fold c in
  do inv <- invertCapability c';
  let S1 := sremove inv S in
  Ok (if smem c' S1 then S1 else S1 ++ [c']).

Definition cs_contains (S : cset) (c : str) : res bool :=
  let c' := fold c in
  if smem c' S then Ok true
  else do inv <- invertCapability c'; Ok (smem inv S).

Definition cs_check (S : cset) (c : str) : res bool :=
  let c' := fold c in
  if smem c' S then Ok true
  else do inv <- invertCapability c';
       if smem inv S then Ok false else Raise KeyError.

Definition OWNER : str := [111; 119; 110; 101; 114].
Definition ANTIOWNER : str := DASH :: OWNER.
Definition OP : str := [111; 112].

(* UserCapabilitySet.__contains__(capability, ignoreOwner) *)
Definition ucs_contains (S : cset) (c : str) (ignoreOwner : bool) : res bool :=
  let c' := fold c in
  if (negb ignoreOwner && seq_eqb c' OWNER) || seq_eqb c' ANTIOWNER then Ok true
  else if negb ignoreOwner && smem OWNER S then Ok true
  else cs_contains S c'.

Definition ucs_check (S : cset) (c : str) (ignoreOwner : bool) : res bool :=
  let c' := fold c in
  if seq_eqb c' OWNER || seq_eqb c' ANTIOWNER then
    if smem OWNER S then Ok (negb (isAntiCapability c')) else Ok (isAntiCapability c')
  else if negb ignoreOwner && smem OWNER S then
    Ok (negb (isAntiCapability c'))
  else cs_check S c'.

Definition ucs_add (S : cset) (c : str) : res cset :=
  if seq_eqb (fold c) ANTIOWNER then Raise AssertionError else cs_add S (fold c).

(* ---- records ---- *)
Record user := User { u_caps : cset; u_ignore : bool; u_secure : bool }.
Record chan := Chan { ch_caps : cset; ch_default : bool }.
Record db := Db {
  d_user : option user;          (* users.getUser(hostmask), None = no / ambiguous match *)
  d_hostok : bool;               (* u.checkHostmask(hostmask, useAuth=False) *)
  d_chans : list (str * chan);   (* keyed by folded lower-cased name *)
  d_defaults : cset;             (* conf.supybot.capabilities() *)
  d_registered : cset;           (* conf.supybot.capabilities.registeredUsers() *)
  d_flag : bool                  (* conf.supybot.capabilities.default() *)
}.
Record flags := Flags { f_ignoreOwner : bool; f_ignoreChannelOp : bool; f_ignoreDefaultAllow : bool }.

(* IrcUser._checkCapability *)
Definition user_check (u : user) (c : str) (ignoreOwner : bool) : res bool :=
  if u_ignore u then Ok (isAntiCapability c) else ucs_check (u_caps u) c ignoreOwner.

(* a channel nobody configured: IrcChannel() *)
Definition default_chan : chan :=
  Chan (map (fun c => DASH :: c) gen.T03.DEFAULT_OFF) true.

Definition getChannel (d : db) (name : str) : chan :=
  match dict_get (fold (lower name)) (d_chans d) with Some c => c | None => default_chan end.

(* IrcChannel._checkCapability *)
Definition chan_check (ch : chan) (c : str) : res bool :=
  if negb (isCapability c) then Raise AssertionError
  else do b <- cs_contains (ch_caps ch) c;
       if b then cs_check (ch_caps ch) c
       else Ok (if isAntiCapability c then negb (ch_default ch) else ch_default ch).

Definition xres (c : str) (ret : bool) : bool := if isAntiCapability c then negb ret else ret.

(* try: ... except KeyError: pass *)
Definition catch_key {A} (r : res A) (k : res A) : res A :=
  match r with Raise KeyError => k | _ => r end.

Definition check_defaults (d : db) (c : str) (registered : bool) (iDA : bool) : res bool :=
  do b <- cs_contains (d_defaults d) c;
  if b then cs_check (d_defaults d) c
  else do b2 <- (if registered then cs_contains (d_registered d) c else Ok false);
       if b2 then cs_check (d_registered d) c
       else Ok (xres c (if iDA then false else d_flag d)).

Definition check_unknown (d : db) (c : str) (iDA : bool) : res bool :=
  match chan_parts c with
  | Some (chn, cap) =>
      let ch := getChannel d chn in
      catch_key
        (do b <- cs_contains (ch_caps ch) cap;
         if b then chan_check ch cap
         else Ok (xres cap (negb iDA && ch_default ch)))
        (check_defaults d cap false iDA)
  | None => check_defaults d c false iDA
  end.

Definition checkCapability (d : db) (c : str) (f : flags) : res bool :=
  let iDA := f_ignoreDefaultAllow f in
  match d_user d with
  | None => check_unknown d c iDA
  | Some u =>
      if u_secure u && negb (d_hostok d) then check_unknown d c iDA
      else
        do b <- ucs_contains (u_caps u) c false;
        let rest :=
          match chan_parts c with
          | Some (chn, cap) =>
              let after_op :=
                let ch := getChannel d chn in
                do b2 <- cs_contains (ch_caps ch) cap;
                if b2 then chan_check ch cap
                else if negb iDA then Ok (xres cap (ch_default ch))
                else Ok false in
              if negb (f_ignoreChannelOp f) then
                match (do chanop <- makeChannelCapability chn OP; user_check u chanop false) with
                | Ok true => Ok (xres cap true)
                | Ok false => after_op
                | Raise KeyError => after_op
                | Raise e => Raise e
                end
              else after_op
          | None => check_defaults d c true iDA
          end in
        if b then catch_key (user_check u c (f_ignoreOwner f)) rest else rest
  end.

(* ---- ChannelsDictionary.channels is an ircutils.IrcDict (pinned by harness/tables/t03.py, table T03c) ----
   setChannel / getChannel lower the name with str.lower() (ASCII here) and the
   container itself folds every key it is handed: IrcDict.key = ircutils.toLower.
   [getChannel] above is the lookup; [setChannel] is the store, [chans_of_sets]
   replays the setChannel calls that built a table (a later store under a name
   that folds to the same key replaces the earlier entry). *)
Definition ircdict_key (k : str) : str := fold k.
Definition setChannel (t : list (str * chan)) (name : str) (c : chan) : list (str * chan) :=
  dict_set (ircdict_key (lower name)) c t.
Definition chans_of_sets (sets : list (str * chan)) : list (str * chan) :=
  fold_left (fun t kv => setChannel t (fst kv) (snd kv)) sets [].

(* ---- histories of edits on a capability set ----
   CapabilitySet.remove: the exact (folded) element, KeyError if absent (the
   inverse is not touched).  An edit is (true, c) = add c / (false, c) = remove c;
   [user] selects UserCapabilitySet (IrcUser.addCapability) or CapabilitySet
   (IrcChannel.addCapability, the registry sets).  add and remove raise BEFORE
   they mutate (the assert of invertCapability / of '-owner', the KeyError of
   set.remove), so a failing edit leaves the set as it was. *)
Definition cs_remove (S : cset) (c : str) : res cset :=
  let c' := fold c in if smem c' S then Ok (sremove c' S) else Raise KeyError.
Definition set_edit_res (user : bool) (S : cset) (e : bool * str) : res cset :=
  if fst e then (if user then ucs_add S (snd e) else cs_add S (snd e)) else cs_remove S (snd e).
Definition set_edit (user : bool) (S : cset) (e : bool * str) : cset :=
  match set_edit_res user S e with Ok S' => S' | Raise _ => S end.
Definition set_history (user : bool) (es : list (bool * str)) (S0 : cset) : cset :=
  fold_left (set_edit user) es S0.
(* the same, with the outcome of every edit (0 = ok, else the exception code) *)
Definition set_history_trace (user : bool) (es : list (bool * str)) (S0 : cset) : cset * list Z :=
  fold_left (fun acc e =>
               let r := set_edit_res user (fst acc) e in
               (match r with Ok S' => S' | Raise _ => fst acc end,
                snd acc ++ [match r with Ok _ => 0%Z | Raise x => exn_code x end]))
            es (S0, []).

(* ircdb.checkCapabilities(hostmask, capabilities, requireAll): default flags *)
Fixpoint checkCapabilities (d : db) (cs : list str) (requireAll : bool) : res bool :=
  match cs with
  | [] => Ok requireAll
  | c :: cs' =>
      do b <- checkCapability d c (Flags false false false);
      if requireAll then (if b then checkCapabilities d cs' requireAll else Ok false)
      else (if b then Ok true else checkCapabilities d cs' requireAll)
  end.

(* ---- wire ---- *)
Definition gSet (v : value) : cset := gLS v.
Definition gUser (v : value) : user := User (gSet (nth_v 0 v)) (gB (nth_v 1 v)) (gB (nth_v 2 v)).
Definition gChan (v : value) : chan := Chan (gSet (nth_v 0 v)) (gB (nth_v 1 v)).
Definition gDb (v : value) : db :=
  Db (gO gUser (nth_v 0 v)) (gB (nth_v 1 v))
     (map (fun kv => (gS (nth_v 0 kv), gChan (nth_v 1 kv))) (gL (nth_v 2 v)))
     (gSet (nth_v 3 v)) (gSet (nth_v 4 v)) (gB (nth_v 5 v)).
(* the same database, its channel table given as the sequence of setChannel(name, channel) calls *)
Definition gDbSets (v : value) : db :=
  Db (gO gUser (nth_v 0 v)) (gB (nth_v 1 v))
     (chans_of_sets (map (fun kv => (gS (nth_v 0 kv), gChan (nth_v 1 kv))) (gL (nth_v 2 v))))
     (gSet (nth_v 3 v)) (gSet (nth_v 4 v)) (gB (nth_v 5 v)).
Definition gFlags (v : value) : flags := Flags (gB (nth_v 0 v)) (gB (nth_v 1 v)) (gB (nth_v 2 v)).

(* run (op payload):
   0: checkCapability (db cap flags)
   1: algebra (cap) -> (isCap isChanCap isAnti makeAnti unAnti invert fold)
   2: fold a list of cs_add over [] -> resulting set (or raise)
   3: checkCapability (db cap flags), the channel table given as setChannel calls (names as spelled)
   4: history of add/remove edits (user? initial-set edits) -> (final set, outcome of every edit)
   5: checkCapabilities (db caps requireAll) *)
Definition run (v : value) : value :=
  let p := nth_v 1 v in
  match gN (nth_v 0 v) with
  | 0 => vR vB (checkCapability (gDb (nth_v 0 p)) (gS (nth_v 1 p)) (gFlags (nth_v 2 p)))
  | 1 => let c := gS p in
         L [vB (isCapability c); vB (isChannelCapability c); vB (isAntiCapability c);
            vR vS (makeAntiCapability c); vR vS (unAntiCapability c); vR vS (invertCapability c);
            vS (fold c)]
  | 2 => vR vLS (fold_left (fun r c => do acc <- r; cs_add acc c) (gLS p) (Ok []))
  | 3 => vR vB (checkCapability (gDbSets (nth_v 0 p)) (gS (nth_v 1 p)) (gFlags (nth_v 2 p)))
  | 4 => let r := set_history_trace (gB (nth_v 0 p))
                                     (map (fun e => (gB (nth_v 0 e), gS (nth_v 1 e))) (gL (nth_v 2 p)))
                                     (gSet (nth_v 1 p)) in
         L [vLS (fst r); L (map I (snd r))]
  | 5 => vR vB (checkCapabilities (gDb (nth_v 0 p)) (gLS (nth_v 1 p)) (gB (nth_v 2 p)))
  | _ => L []
  end.
