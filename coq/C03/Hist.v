(* C03/Hist.v — "after any history of edits": every set reached from the
   empty set (or from IrcChannel()'s initial set) by any sequence of add /
   remove edits -- failing edits included -- holds no element next to its own
   inverse, so the databases the theorems quantify over (db_ok) are exactly
   what histories of the real edit operations produce.  And
   ircdb.checkCapabilities is all / any over checkCapability. *)
From Coq Require Import List NArith ZArith Bool Arith Lia.
Import ListNotations.
Require Import Base.Wire Base.PyStr C03.Model C03.Fold C03.CaseInsens C03.Anti C03.Total C03.Reach.
Open Scope N_scope.

Lemma sremove_set_ok c S : set_ok S = true -> set_ok (sremove c S) = true.
Proof.
  unfold set_ok. rewrite !forallb_forall. intros H x Hx.
  assert (HxS : In x S) by (unfold sremove in Hx; apply filter_In in Hx; tauto).
  specialize (H x HxS). unfold no_inverse_in in *.
  destruct (invertCapability x) as [i|]; [|reflexivity].
  apply negb_true_iff in H. apply negb_true_iff. rewrite smem_sremove_iff, H. reflexivity.
Qed.

(* CapabilitySet.remove keeps the invariant *)
Theorem cs_remove_preserves S c S' : sets_ok S = true -> cs_remove S c = Ok S' -> sets_ok S' = true.
Proof.
  unfold sets_ok, cs_remove. intros H. apply andb_true_iff in H as [H1 H2].
  destruct (smem (fold c) S); [|discriminate]. intro E. inversion E; subst.
  apply andb_true_iff. split; [apply sremove_set_ok; exact H1|apply forallb_sremove; exact H2].
Qed.

(* UserCapabilitySet.add keeps it too *)
Lemma ucs_add_preserves S c S' :
  sets_ok S = true -> invol (fold c) = true -> ucs_add S c = Ok S' -> sets_ok S' = true.
Proof.
  unfold ucs_add. intros H Hi. destruct (seq_eqb (fold c) ANTIOWNER); [discriminate|].
  intro E. eapply cs_add_preserves; [exact H| |exact E]. rewrite fold_idem. exact Hi.
Qed.

(* the adds of a history are capabilities on which invertCapability is an involution
   (all of dom_cap and their anti-capabilities); removes are unrestricted *)
Definition edits_ok (es : list (bool * str)) : bool :=
  forallb (fun e => negb (fst e) || invol (fold (snd e))) es.

Lemma set_edit_preserves user S e :
  sets_ok S = true -> (negb (fst e) || invol (fold (snd e))) = true -> sets_ok (set_edit user S e) = true.
Proof.
  intros H He. unfold set_edit, set_edit_res. destruct e as [[|] c]; cbn [fst snd negb orb] in *.
  - destruct user.
    + destruct (ucs_add S c) as [S'|] eqn:E; [|exact H]. eapply ucs_add_preserves; eassumption.
    + destruct (cs_add S c) as [S'|] eqn:E; [|exact H]. eapply cs_add_preserves; eassumption.
  - destruct (cs_remove S c) as [S'|] eqn:E; [|exact H]. eapply cs_remove_preserves; eassumption.
Qed.

Theorem set_history_ok user es S0 :
  sets_ok S0 = true -> edits_ok es = true -> sets_ok (set_history user es S0) = true.
Proof.
  unfold set_history, edits_ok. revert S0. induction es as [|e es IH]; intros S0 H0 He; [exact H0|].
  cbn [forallb] in He. apply andb_true_iff in He as [He1 He2]. cbn [fold_left].
  apply IH; [apply set_edit_preserves; assumption|exact He2].
Qed.

Lemma default_chan_sets_ok : sets_ok (ch_caps default_chan) = true.
Proof. vm_compute. reflexivity. Qed.

Lemma sets_ok_set_ok S : sets_ok S = true -> set_ok S = true.
Proof. unfold sets_ok. intro H. apply andb_true_iff in H as [H _]. exact H. Qed.

(* a database all of whose sets came out of edit histories: the user's set from
   the empty UserCapabilitySet, every channel's from IrcChannel()'s initial set,
   the two registry sets from the empty CapabilitySet *)
Definition db_of_histories (eu : option (list (bool * str) * bool * bool)) (hostok : bool)
    (ecs : list (str * (list (bool * str) * bool))) (ed er : list (bool * str)) (flag : bool) : db :=
  Db (match eu with Some (es, ign, sec) => Some (User (set_history true es []) ign sec) | None => None end)
     hostok
     (map (fun kv => (fst kv, Chan (set_history false (fst (snd kv)) (ch_caps default_chan)) (snd (snd kv)))) ecs)
     (set_history false ed []) (set_history false er []) flag.

Theorem db_of_histories_ok eu hostok ecs ed er flag :
  match eu with Some (es, _, _) => edits_ok es | None => true end = true ->
  forallb (fun kv => edits_ok (fst (snd kv))) ecs = true ->
  edits_ok ed = true -> edits_ok er = true ->
  db_ok (db_of_histories eu hostok ecs ed er flag) = true.
Proof.
  intros Hu Hc Hd Hr. unfold db_ok, db_of_histories. cbn [d_user d_chans d_defaults d_registered].
  rewrite !andb_true_iff. repeat split.
  - destruct eu as [[[es ign] sec]|]; [|reflexivity]. cbn [u_caps].
    apply sets_ok_set_ok, set_history_ok; [reflexivity|exact Hu].
  - rewrite forallb_forall. intros kv Hin. apply in_map_iff in Hin as [kv0 [E Hin]]. subst kv. cbn [snd ch_caps].
    rewrite forallb_forall in Hc. apply sets_ok_set_ok, set_history_ok; [exact default_chan_sets_ok|exact (Hc _ Hin)].
  - apply sets_ok_set_ok, set_history_ok; [reflexivity|exact Hd].
  - apply sets_ok_set_ok, set_history_ok; [reflexivity|exact Hr].
Qed.

(* non-vacuity: a history with adds, a remove, a failing remove and a failing add *)
Example history_example :
  let es := [(true, [70;111;111]); (true, [45;102;111;111]); (false, [98;97;114]); (true, [45;111;119;110;101;114]);
             (true, [35;99;44;111;112]); (false, [35;67;44;111;112])] in
  edits_ok es = true /\ set_history true es [] = [[45;102;111;111]] /\
  snd (set_history_trace true es []) = [0; 0; 3; 5; 0; 0]%Z.
Proof. vm_compute. auto. Qed.

(* the trace variant computes the same set *)
Lemma set_history_trace_fst user es S0 : fst (set_history_trace user es S0) = set_history user es S0.
Proof.
  unfold set_history_trace, set_history.
  assert (G : forall acc, fst (fold_left (fun acc e =>
               let r := set_edit_res user (fst acc) e in
               (match r with Ok S' => S' | Raise _ => fst acc end,
                snd acc ++ [match r with Ok _ => 0%Z | Raise x => exn_code x end])) es acc)
              = fold_left (set_edit user) es (fst acc)).
  { induction es as [|e es IH]; intro acc; [reflexivity|]. cbn [fold_left]. rewrite IH. reflexivity. }
  exact (G (S0, [])).
Qed.

(* ---- checkCapabilities ---- *)
Theorem checkCapabilities_spec d cs (f : str -> bool) ra :
  (forall c, In c cs -> checkCapability d c (Flags false false false) = Ok (f c)) ->
  checkCapabilities d cs ra = Ok (if ra then forallb f cs else existsb f cs).
Proof.
  induction cs as [|c cs IH]; intro H; [destruct ra; reflexivity|].
  cbn [checkCapabilities]. rewrite (H c (or_introl eq_refl)). cbn [bind forallb existsb].
  assert (IH' := IH (fun c0 Hc => H c0 (or_intror Hc))).
  destruct ra, (f c); cbn [andb orb]; try reflexivity; exact IH'.
Qed.

Theorem checkCapabilities_total d cs ra :
  forallb wf_cap cs = true -> exists b, checkCapabilities d cs ra = Ok b.
Proof.
  induction cs as [|c cs IH]; intro H; [eexists; reflexivity|].
  cbn [forallb] in H. apply andb_true_iff in H as [Hc Hr].
  destruct (check_total d c (Flags false false false) Hc) as [b Hb].
  cbn [checkCapabilities]. rewrite Hb. cbn [bind].
  destruct ra, b; try (eexists; reflexivity); apply IH; exact Hr.
Qed.
