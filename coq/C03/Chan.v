(* C03/Chan.v — the channel table.  ChannelsDictionary.channels is an
   ircutils.IrcDict: store (setChannel) and lookup (getChannel) go through
   str.lower() and then through the container's own key function
   ircutils.toLower.  Consequences proved here: the answer of checkCapability
   depends neither on the spelling of the CHANNEL part of the asked capability
   nor on the spelling under which the channel was stored; and a table keyed by
   str.lower() only (a plain dict) does not have that property. *)
From Coq Require Import List NArith ZArith Bool Arith Lia.
Import ListNotations.
Require Import Base.Wire Base.PyStr C03.Model C03.Fold C03.CaseInsens.
Open Scope N_scope.

Lemma getChannel_case d n n' : fold n = fold n' -> getChannel d n = getChannel d n'.
Proof. intro H. rewrite <- (getChannel_fold d n), <- (getChannel_fold d n'), H. reflexivity. Qed.

(* asked side: only the folded channel name matters *)
Theorem check_channel_case d chn chn' x f :
  fold chn = fold chn' ->
  checkCapability d (chn ++ COMMA :: x) f = checkCapability d (chn' ++ COMMA :: x) f.
Proof.
  intro H. apply check_case_insensitive. rewrite !fold_app, H. reflexivity.
Qed.

(* stored side: setChannel sees a name only through its folded form *)
Lemma setChannel_case t n n' c : fold n = fold n' -> setChannel t n c = setChannel t n' c.
Proof.
  intro H. unfold setChannel, ircdict_key. rewrite (fold_lower n), (fold_lower n'), H. reflexivity.
Qed.

Definition fold_names (sets : list (str * chan)) : list (str * chan) :=
  map (fun kv => (fold (fst kv), snd kv)) sets.

Lemma chans_of_sets_gen sets sets' t :
  fold_names sets = fold_names sets' ->
  fold_left (fun t kv => setChannel t (fst kv) (snd kv)) sets t =
  fold_left (fun t kv => setChannel t (fst kv) (snd kv)) sets' t.
Proof.
  revert sets' t. induction sets as [|[n c] sets IH]; intros [|[n' c'] sets'] t H; try discriminate; [reflexivity|].
  cbn [fold_names map fst snd] in H. inversion H as [[Hn Hc Hr]]. subst c'.
  cbn [fold_left fst snd]. rewrite (setChannel_case t n n' c Hn). apply IH. exact Hr.
Qed.

Theorem chans_of_sets_case sets sets' :
  fold_names sets = fold_names sets' -> chans_of_sets sets = chans_of_sets sets'.
Proof. intro H. unfold chans_of_sets. apply chans_of_sets_gen. exact H. Qed.

(* store then look up, under any two spellings of the same name *)
Lemma dict_get_set_same {A} k (v : A) t : dict_get k (dict_set k v t) = Some v.
Proof.
  induction t as [|[k' v'] t IH]; cbn [dict_set dict_get].
  - rewrite seq_eqb_refl. reflexivity.
  - destruct (seq_eqb k k') eqn:E; cbn [dict_get]; rewrite E; [reflexivity|exact IH].
Qed.

Theorem getChannel_after_setChannel d t n n' c :
  d_chans d = setChannel t n c -> fold n = fold n' -> getChannel d n' = c.
Proof.
  intros Hd Hn. unfold getChannel. rewrite Hd. unfold setChannel, ircdict_key.
  rewrite (fold_lower n), (fold_lower n'), Hn, dict_get_set_same. reflexivity.
Qed.

(* ---- the counter-model: a plain dict keyed by str.lower() only ---- *)
Definition getChannel_plain (d : db) (name : str) : chan :=
  match dict_get (lower name) (d_chans d) with Some c => c | None => default_chan end.
Definition setChannel_plain (t : list (str * chan)) (name : str) (c : chan) : list (str * chan) :=
  dict_set (lower name) c t.

(* _checkCapabilityForUnknownUser over an arbitrary channel lookup *)
Definition check_unknown_with (gc : db -> str -> chan) (d : db) (c : str) (iDA : bool) : res bool :=
  match chan_parts c with
  | Some (chn, cap) =>
      let ch := gc d chn in
      catch_key
        (do b <- cs_contains (ch_caps ch) cap;
         if b then chan_check ch cap
         else Ok (xres cap (negb iDA && ch_default ch)))
        (check_defaults d cap false iDA)
  | None => check_defaults d c false iDA
  end.

Lemma check_unknown_with_getChannel d c i : check_unknown_with getChannel d c i = check_unknown d c i.
Proof. reflexivity. Qed.

(* channel "#a[" stored with the explicit anti-capability -x; asked as "#a{,x"
   (the same channel for IRC: fold "#a[" = fold "#a{").  Through the IrcDict
   both spellings are refused; through a plain dict the second one misses the
   entry, gets a fresh default channel and is granted. *)
Definition NAME_SQ : str := [35; 97; 91].     (* "#a[" *)
Definition NAME_CU : str := [35; 97; 123].    (* "#a{" *)
Definition CAP_X : str := [120].
Definition CHAN_NOX : chan := Chan [[45; 120]] true.

Theorem plain_dict_is_case_sensitive :
  fold NAME_SQ = fold NAME_CU /\
  (let d := Db None false (setChannel [] NAME_SQ CHAN_NOX) [] [] true in
   check_unknown_with getChannel d (NAME_SQ ++ COMMA :: CAP_X) false = Ok false /\
   check_unknown_with getChannel d (NAME_CU ++ COMMA :: CAP_X) false = Ok false) /\
  (let d := Db None false (setChannel_plain [] NAME_SQ CHAN_NOX) [] [] true in
   check_unknown_with getChannel_plain d (NAME_SQ ++ COMMA :: CAP_X) false = Ok false /\
   check_unknown_with getChannel_plain d (NAME_CU ++ COMMA :: CAP_X) false = Ok true).
Proof. vm_compute. auto 6. Qed.
