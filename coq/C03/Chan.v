(* C03/Chan.v — the channel table.  ChannelsDictionary.channels is an
   ircutils.IrcDict: store (setChannel) and lookup (getChannel) go through
   str.lower() and then through the container's own key function
   ircutils.toLower.  Consequences proved here: the answer of checkCapability
   depends neither on the spelling of the CHANNEL part of the asked capability
   nor on the spelling under which the channel was stored; and a table keyed by
   str.lower() only (a plain dict) does not have that property. *)
From Coq Require Import List NArith ZArith Bool Arith Lia.
Import ListNotations.
Require Import Base.Wire Base.PyStr C03.Model C03.Fold C03.CaseInsens.
Open Scope N_scope.

Lemma getChannel_case d n n' : fold n = fold n' -> getChannel d n = getChannel d n'.
Proof. intro H. rewrite <- (getChannel_fold d n), <- (getChannel_fold d n'), H. reflexivity. Qed.

(* asked side: only the folded channel name matters *)
Theorem check_channel_case d chn chn' x f :
  fold chn = fold chn' ->
  checkCapability d (chn ++ COMMA :: x) f = checkCapability d (chn' ++ COMMA :: x) f.
Proof.
  intro H. apply check_case_insensitive. rewrite !fold_app, H. reflexivity.
Qed.

(* stored side: setChannel sees a name only through its folded form *)
Lemma setChannel_case t n n' c : fold n = fold n' -> setChannel t n c = setChannel t n' c.
Proof.
  intro H. unfold setChannel, ircdict_key. rewrite (fold_lower n), (fold_lower n'), H. reflexivity.
Qed.

Definition fold_names (sets : list (str * chan)) : list (str * chan) :=
  map (fun kv => (fold (fst kv), snd kv)) sets.

Lemma chans_of_sets_gen sets sets' t :
  fold_names sets = fold_names sets' ->
  fold_left (fun t kv => setChannel t (fst kv) (snd kv)) sets t =
  fold_left (fun t kv => setChannel t (fst kv) (snd kv)) sets' t.
Proof.
  revert sets' t. induction sets as [|[n c] sets IH]; intros [|[n' c'] sets'] t H; try discriminate; [reflexivity|].
  cbn [fold_names map fst snd] in H. inversion H as [[Hn Hc Hr]]. subst c'.
  cbn [fold_left fst snd]. rewrite (setChannel_case t n n' c Hn). apply IH. exact Hr.
Qed.

Theorem chans_of_sets_case sets sets' :
  fold_names sets = fold_names sets' -> chans_of_sets sets = chans_of_sets sets'.
Proof. intro H. unfold chans_of_sets. apply chans_of_sets_gen. exact H. Qed.

(* store then look up, under any two spellings of the same name *)
Lemma dict_get_set_same {A} k (v : A) t : dict_get k (dict_set k v t) = Some v.
Proof.
  induction t as [|[k' v'] t IH]; cbn [dict_set dict_get].
  - rewrite seq_eqb_refl. reflexivity.
  - destruct (seq_eqb k k') eqn:E; cbn [dict_get]; rewrite E; [reflexivity|exact IH].
Qed.

Theorem getChannel_after_setChannel d t n n' c :
  d_chans d = setChannel t n c -> fold n = fold n' -> getChannel d n' = c.
Proof.
  intros Hd Hn. unfold getChannel. rewrite Hd. unfold setChannel, ircdict_key.
  rewrite (fold_lower n), (fold_lower n'), Hn, dict_get_set_same. reflexivity.
Qed.

(* ---- the counter-model: a plain dict keyed by str.lower() only ---- *)
Definition getChannel_plain (d : db) (name : str) : chan :=
  match dict_get (lower name) (d_chans d) with Some c => c | None => default_chan end.
Definition setChannel_plain (t : list (str * chan)) (name : str) (c : chan) : list (str * chan) :=
  dict_set (lower name) c t.

(* _checkCapabilityForUnknownUser over an arbitrary channel lookup *)
Definition check_unknown_with (gc : db -> str -> chan) (d : db) (c : str) (iDA : bool) : res bool :=
  match chan_parts c with
  | Some (chn, cap) =>
      let ch := gc d chn in
      catch_key
        (do b <- cs_contains (ch_caps ch) cap;
         if b then chan_check ch cap
         else Ok (xres cap (negb iDA && ch_default ch)))
        (check_defaults d cap false iDA)
  | None => check_defaults d c false iDA
  end.

Lemma check_unknown_with_getChannel d c i : check_unknown_with getChannel d c i = check_unknown d c i.
Proof. reflexivity. Qed.

(* channel "#a[" stored with the explicit anti-capability -x; asked as "#a{,x"
   (the same channel for IRC: fold "#a[" = fold "#a{").  Through the IrcDict
   both spellings are refused; through a plain dict the second one misses the
   entry, gets a fresh default channel and is granted. *)
Definition NAME_SQ : str := [35; 97; 91].     (* "#a[" *)
Definition NAME_CU : str := [35; 97; 123].    (* "#a{" *)
Definition CAP_X : str := [120].
Definition CHAN_NOX : chan := Chan [[45; 120]] true.

Theorem plain_dict_is_case_sensitive :
  fold NAME_SQ = fold NAME_CU /\
  (let d := Db None false (setChannel [] NAME_SQ CHAN_NOX) [] [] true in
   check_unknown_with getChannel d (NAME_SQ ++ COMMA :: CAP_X) false = Ok false /\
   check_unknown_with getChannel d (NAME_CU ++ COMMA :: CAP_X) false = Ok false) /\
  (let d := Db None false (setChannel_plain [] NAME_SQ CHAN_NOX) [] [] true in
   check_unknown_with getChannel_plain d (NAME_SQ ++ COMMA :: CAP_X) false = Ok false /\
   check_unknown_with getChannel_plain d (NAME_CU ++ COMMA :: CAP_X) false = Ok true).
Proof. vm_compute. auto 6. Qed.

(* ---- the length bound of a channel name is inclusive ----
   ircutils.isChannel: len(s) <= channellen.  ircdb.isChannelCapability /
   isAntiCapability / fromChannelCapability rest on it, so a name of exactly
   channellen characters still opens the channel branch of checkCapability. *)
Theorem isChannel_spec s :
  isChannel s = true <->
  s <> [] /\ mem COMMA s = false /\ mem BEL s = false /\ hd_in gen.T03.CHANTYPES s = true /\
  (length s <= gen.T03.CHANNELLEN)%nat /\ one_word s = true.
Proof.
  unfold isChannel. rewrite !andb_true_iff, !negb_true_iff, Nat.leb_le.
  split.
  - intros [[[[[H1 H2] H3] H4] H5] H6]. repeat split; try assumption. intro E. subst. discriminate.
  - intros [H1 [H2 [H3 [H4 [H5 H6]]]]]. repeat split; try assumption. destruct s; [congruence|reflexivity].
Qed.

(* '#' followed by n-1 letters 'b': a name of exactly n characters *)
Definition name_of_len (n : nat) : str := 35 :: repeat 98 (n - 1).

(* with the regenerated CHANNELLEN: exactly CHANNELLEN characters is a channel,
   one more is not; and '<name>,x' / '<name>,-x' then are a channel capability
   and its anti-capability (so the decision list of C03_refines_spec_flags takes
   its channel branch for them) *)
Theorem channel_length_boundary :
  length (name_of_len gen.T03.CHANNELLEN) = gen.T03.CHANNELLEN /\
  isChannel (name_of_len gen.T03.CHANNELLEN) = true /\
  isChannel (name_of_len (S gen.T03.CHANNELLEN)) = false /\
  chan_parts (name_of_len gen.T03.CHANNELLEN ++ COMMA :: [120]) = Some (name_of_len gen.T03.CHANNELLEN, [120]) /\
  isAntiCapability (name_of_len gen.T03.CHANNELLEN ++ COMMA :: DASH :: [120]) = true /\
  chan_parts (name_of_len (S gen.T03.CHANNELLEN) ++ COMMA :: [120]) = None.
Proof. vm_compute. auto 8. Qed.

(* every name that passes the other tests and is exactly CHANNELLEN long opens the channel branch *)
Theorem boundary_name_is_channel_capability chn x :
  chn <> [] -> mem COMMA chn = false -> mem BEL chn = false -> hd_in gen.T03.CHANTYPES chn = true ->
  one_word chn = true -> length chn = gen.T03.CHANNELLEN -> isCapability x = true ->
  chan_parts (chn ++ COMMA :: x) = Some (chn, x).
Proof.
  intros H1 H2 H3 H4 H5 H6 Hx.
  assert (Hc : isChannel chn = true) by (apply isChannel_spec; repeat split; try assumption; lia).
  unfold chan_parts, isChannelCapability, split_comma.
  rewrite split1_char by exact H2. rewrite Hc, Hx. reflexivity.
Qed.
