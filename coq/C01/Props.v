(* C01/Props.v — the property theorems, nothing else.
   Model: C01/Model.v (checkCommandCapability, _callCommand, gating converters and contexts,
   DefaultCapabilities.setValue, checkIgnored, PluginMixin.__call__ + Owner.doPrivmsg prefix),
   every capability question answered by C03's checkCapability.
   Proofs: Gate.v, Conv.v, Defaults.v, Ignored.v, Inventory.v. *)
From Coq Require Import List NArith Bool.
Import ListNotations.
Require Import Base.Wire Base.PyStr C03.Model C03.Anti C01.Model C01.Denial C01.Voice C01.ConfigChan C01.Gate C01.Conv C01.Defaults C01.Ignored C01.Inventory.
Require gen.T01.

(* If the body of a command runs, then for every name n the gate asks about -- the last word Y,
   the plugin P, P.X, ..., P.X.Y -- the caller holds neither -n nor (in a channel) #chan,-n, and
   the default allows the command or the caller holds n (or #chan,n).  Any database, channel,
   plugin, command path, converter spec. *)
Theorem C01_gate :
  forall d chan nc plugin canon command pre m,
    In EvBody (callCommand_trace d chan nc plugin canon command pre m) ->
    Forall (name_passes d chan) (gate_names canon command).
Proof. exact gate_sound. Qed.
Print Assumptions C01_gate.

(* Owner / Admin plugins: a caller who does not hold the plugin-name capability is refused by the
   first prefix iteration (not holding P = holding -P, C03's anti-symmetry); the body never runs
   and the only output is one no-capability error. *)
Theorem C01_owner_admin :
  forall d chan nc P command pre m,
    (P = OWNER \/ P = ADMIN) -> db_ok d = true -> chan_ok chan = true ->
    (forall y r, rev command = y :: r -> wf_name y = true) -> command <> [] ->
    holds d P = Ok false ->
    (exists v, callCommand_trace d chan nc P P command pre m = [EvNoCap v]) /\
    ~ In EvBody (callCommand_trace d chan nc P P command pre m).
Proof. exact owner_admin_denied. Qed.
Print Assumptions C01_owner_admin.

(* the same mechanism for any plugin whose name is a well-formed capability: holding -P refuses
   every command of P *)
Theorem C01_plugin_anticap :
  forall d chan nc P command pre m,
    wf_name P = true -> db_ok d = true -> chan_ok chan = true ->
    (forall y r, rev command = y :: r -> wf_name y = true) -> command <> [] ->
    holds d P = Ok false ->
    exists v, callCommand_trace d chan nc P P command pre m = [EvNoCap v].
Proof. exact plugin_denied. Qed.
Print Assumptions C01_plugin_anticap.

(* errorNoCapability called with Raise=True, or without a Raise keyword, raises for EVERY configured message text,
   the blank one included: an in-body check `if not checkCapability(...): irc.errorNoCapability(cap, Raise=True)`
   aborts the command (Error propagates to _callCommand) and none of the effects after it happens. *)
Theorem C01_denial_aborts :
  forall text kw holds_cap rest,
    kw_raises kw = true -> holds_cap = false ->
    (exists t, errorNoCapability text kw = EncRaise t) /\
    (exists t, inbody_check holds_cap text kw rest = [BDenied t]) /\
    (forall n, ~ In (BEffect n) (inbody_check holds_cap text kw rest)).
Proof. exact denial_aborts. Qed.
Print Assumptions C01_denial_aborts.

(* every errorNoCapability call site of the tree (src/ and all plugins) is of that aborting shape, and
   _error / errorNoCapability / the proxies' error(Raise=True) have the decision structure the model mirrors *)
Theorem C01_denial_sites :
  denial_shape_ok = true /\
  forall f e k, In (f, e, k) gen.T01.NOCAP_SITES -> exists kw, site_kw k = Some kw /\ kw_raises kw = true.
Proof. split; [exact denial_shape_current|exact (nocap_sites_spec gen.T01.NOCAP_SITES nocap_sites_current)]. Qed.
Print Assumptions C01_denial_sites.

(* Channel._voice (`channel voice` / `channel devoice`), the one command helper that picks the required capability
   from its arguments: if the MODE change is sent the caller holds the chosen #channel capability, and whenever any
   target is somebody else than the caller it is #channel,op that he holds.  (The inventory lemma pins that no other
   plugin function chooses its capability from its arguments and that the decision table is the modelled one.) *)
Theorem C01_voice :
  forall d channel nicks caller targets,
    voice_body d channel nicks caller = VMode targets ->
    targets = voice_targets nicks caller /\
    (exists cap, makeChannelCapability channel (voice_word nicks caller) = Ok cap /\ holds d cap = Ok true) /\
    ((exists n, In n targets /\ n <> caller) ->
     exists cap, makeChannelCapability channel OP = Ok cap /\ holds d cap = Ok true).
Proof. exact voice_gate. Qed.
Print Assumptions C01_voice.

(* `config channel [<network>] #a,#b,... <name> <value>`: a channel-specific value is written only for a listed channel
   the caller is authorised for (<channel>,op; owner when the variable is not op-settable) -- whatever its position in the list *)
Theorem C01_config_channel :
  forall d opset ro netspec channels ch n,
    In (CWrite ch n) (config_channel_set d opset ro netspec channels) ->
    In ch channels /\ authorised d opset ch.
Proof. exact config_channel_checked. Qed.
Print Assumptions C01_config_channel.

Theorem C01_config_channel_unauthorised :
  forall d opset ro netspec channels ch cap,
    config_cap opset ch = Ok cap -> holds d cap = Ok false ->
    forall n, ~ In (CWrite ch n) (config_channel_set d opset ro netspec channels).
Proof. exact config_channel_unauthorised. Qed.
Print Assumptions C01_config_channel_unauthorised.

(* If the body runs, every gating converter at a top-level position of the spec asked for its
   capability (in the state the preceding converters left) and was answered True. *)
Theorem C01_converters :
  forall d chan nc plugin canon command pre l1 g l2 extra,
    In EvBody (callCommand_trace d chan nc plugin canon command pre (Some (l1 ++ Gate g :: l2, extra))) ->
    exists s s' cap,
      run_spec d chan nc l1 (CS None false) = COk s /\
      gate_cap chan g s = (COk s', Ok cap) /\
      checkCapability d cap (gate_flags g) = Ok true.
Proof. exact converters_checked. Qed.
Print Assumptions C01_converters.

Theorem C01_converter_owner :
  forall d chan nc plugin canon command pre spec extra,
    In (Gate GOwner) spec ->
    In EvBody (callCommand_trace d chan nc plugin canon command pre (Some (spec, extra))) ->
    holds d OWNER = Ok true.
Proof. exact owner_converter. Qed.
Print Assumptions C01_converter_owner.

Theorem C01_converter_admin :
  forall d chan nc plugin canon command pre spec extra,
    In (Gate GAdmin) spec ->
    In EvBody (callCommand_trace d chan nc plugin canon command pre (Some (spec, extra))) ->
    holds d ADMIN = Ok true.
Proof. exact admin_converter. Qed.
Print Assumptions C01_converter_admin.

Theorem C01_converter_channel :
  forall d chan nc plugin canon command pre l1 l2 extra c a,
    In EvBody (callCommand_trace d chan nc plugin canon command pre (Some (l1 ++ Gate (GChan c a) :: l2, extra))) ->
    exists s ch, run_spec d chan nc l1 (CS None false) = COk s /\
      getChannel_conv chan a s = COk (CS (Some ch) (s_err s)) /\
      holds d (ch ++ [COMMA] ++ lower c) = Ok true.
Proof. exact chan_converter. Qed.
Print Assumptions C01_converter_channel.

(* For EVERY sequence of DefaultCapabilities.setValue calls without allowDefaultOwner -- whatever the
   value lists, `owner` included -- the stored set holds -owner and does not hold owner.
   (Was refuted on the pinned code by setValue(['owner']): finding C01.a, repaired in src/ircdb.py.) *)
Theorem C01_default_owner :
  forall init vs, owner_safe init = true -> no_allow vs = true -> owner_safe (setValues init vs) = true.
Proof. exact default_owner. Qed.
Print Assumptions C01_default_owner.

(* hence an unknown caller (or a secure account recognised only by login) never passes `owner`,
   whatever setValue calls configured the default set from the registered default *)
Theorem C01_unknown_never_owner :
  forall d vs,
    (d_user d = None \/ exists u, d_user d = Some u /\ u_secure u = true /\ d_hostok d = false) ->
    no_allow vs = true -> d_defaults d = setValues init_caps vs ->
    holds d OWNER = Ok false.
Proof. exact unknown_never_owner_reachable. Qed.
Print Assumptions C01_unknown_never_owner.

Theorem C01_nonowner_never_owner :
  forall d u, d_user d = Some u -> (u_secure u && negb (d_hostok d)) = false -> smem OWNER (u_caps u) = false ->
              holds d OWNER = Ok false.
Proof. exact nonowner_never_owner. Qed.
Print Assumptions C01_nonowner_never_owner.

(* An ignored caller gets neither effect nor reply, whatever the command. *)
Theorem C01_ignored :
  forall d p inner, checkIgnored (p_ign p) = Ok true -> events_of (pluginCall d p inner) = [].
Proof. exact ignored_silent. Qed.
Print Assumptions C01_ignored.

Theorem C01_ignored_channel :
  forall d p inner, p_noIgnore p = false -> p_noprefix p = false -> p_userhost p = true ->
                    checkIgnored (p_ign_chan p) = Ok true -> pluginCall d p inner = Ok [].
Proof. exact channel_ignored_silent. Qed.
Print Assumptions C01_ignored_channel.

(* ... also when the command is replayed later by the scheduler: what counts is whether the user who scheduled it is
   ignored when the event fires (was violated on the pinned code: finding C01.b, repaired in plugins/Scheduler) *)
Theorem C01_ignored_scheduled :
  forall i inner, checkIgnored i = Ok true -> scheduled_fire true i inner = Ok [].
Proof. exact scheduled_ignored_silent. Qed.
Print Assumptions C01_ignored_scheduled.

(* the exemption: holders of `trusted` (owners included) are never ignored -- unless their own ignore flag is set *)
Theorem C01_trusted_exempt :
  forall i u, i_user i = Some u -> user_check u TRUSTED false = Ok true -> checkIgnored i = Ok false.
Proof. exact trusted_exempt. Qed.
Print Assumptions C01_trusted_exempt.

Theorem C01_ignore_flag_wins :
  forall i u, i_user i = Some u -> u_ignore u = true -> checkIgnored i = Ok true.
Proof. exact ignore_flag_wins. Qed.
Print Assumptions C01_ignore_flag_wins.

(* Inventory of the current tree: every occurrence of a capability-asking converter in any
   wrap(...) of any bundled plugin (nested Commands classes included) is in a gating position
   (top level, or only inside context/reverse), or on the reviewed list (empty). *)
Theorem C01_inventory :
  forall p cl cmd occs c path a,
    In (p, cl, cmd, occs) gen.T01.WRAPS -> In (c, path, a) occs -> is_unknown c = false -> is_gating c = true ->
    (forall x, In x path -> str_in x TRANSPARENT = true) \/ reviewed p cmd c = true.
Proof. exact (wraps_ok_spec gen.T01.WRAPS wraps_ok_current). Qed.
Print Assumptions C01_inventory.

(* ... no spec shape escaped the extractor, the context classes catch what the model says, _callCommand
   is reached only from NestedCommandsIrcProxy.finalEval and commands.thread, the registered default
   set holds -owner and -admin *)
Theorem C01_inventory_tables : inventory_ok = true.
Proof. exact inventory_current. Qed.
Print Assumptions C01_inventory_tables.
