(* C01/Ignored.v — an ignored caller gets neither effect nor reply *)
From Coq Require Import List NArith ZArith Bool Arith Lia.
Import ListNotations.
Require Import Base.Wire Base.PyStr C03.Model C01.Model.
Open Scope N_scope.

Definition events_of (r : res (list event)) : list event := match r with Ok l => l | Raise _ => [] end.

Lemma doPrivmsg_ignored d p inner :
  checkIgnored (p_ign p) = Ok true -> doPrivmsg d p inner = Ok [].
Proof.
  intro H. unfold doPrivmsg. destruct (p_ctcp p); [reflexivity|]. destruct (p_addressed p); [|reflexivity].
  cbn [negb]. rewrite H. reflexivity.
Qed.

(* ignored globally (user flag, ignore database, defaultIgnore): the command dispatcher does nothing *)
Theorem ignored_silent d p inner :
  checkIgnored (p_ign p) = Ok true -> events_of (pluginCall d p inner) = [].
Proof.
  intro H. unfold pluginCall.
  destruct (p_noIgnore p || p_noprefix p || negb (p_userhost p)).
  - rewrite (doPrivmsg_ignored _ _ _ H). reflexivity.
  - destruct (checkIgnored (p_ign_chan p)) as [[|]|e]; cbn [bind]; try reflexivity.
    rewrite (doPrivmsg_ignored _ _ _ H). reflexivity.
Qed.

(* ignored in the channel the message was sent to (channel ignore list, ban, lobotomy) *)
Theorem channel_ignored_silent d p inner :
  p_noIgnore p = false -> p_noprefix p = false -> p_userhost p = true ->
  checkIgnored (p_ign_chan p) = Ok true -> pluginCall d p inner = Ok [].
Proof.
  intros H1 H2 H3 H. unfold pluginCall. rewrite H1, H2, H3, H. reflexivity.
Qed.

(* the exemption: an account that holds `trusted` (owners do) is never ignored, whatever the lists say ... *)
Theorem trusted_exempt i u :
  i_user i = Some u -> user_check u TRUSTED false = Ok true -> checkIgnored i = Ok false.
Proof. intros Hu Ht. unfold checkIgnored. rewrite Hu, Ht. reflexivity. Qed.

Lemma owner_trusted u : smem OWNER (u_caps u) = true -> u_ignore u = false -> user_check u TRUSTED false = Ok true.
Proof.
  intros Ho Hi. unfold user_check, ucs_check. rewrite Hi. 
  replace (seq_eqb (fold TRUSTED) OWNER || seq_eqb (fold TRUSTED) ANTIOWNER) with false by (vm_compute; reflexivity).
  cbn [negb andb]. rewrite Ho. replace (isAntiCapability (fold TRUSTED)) with false by (vm_compute; reflexivity). reflexivity.
Qed.

(* ... except that the account's own ignore flag wins over `trusted` *)
Theorem ignore_flag_wins i u : i_user i = Some u -> u_ignore u = true -> checkIgnored i = Ok true.
Proof.
  intros Hu Hi. unfold checkIgnored, user_check. rewrite Hu, Hi.
  replace (isAntiCapability TRUSTED) with false by (vm_compute; reflexivity). reflexivity.
Qed.

(* every way of being ignored *)
Theorem ignored_cases i :
  checkIgnored i = Ok true ->
  (i_user i = None /\ i_defaultIgnore i = true) \/ (exists u, i_user i = Some u /\ u_ignore u = true) \/ ign_tail i = true.
Proof.
  unfold checkIgnored. destruct (i_user i) as [u|].
  - destruct (user_check u TRUSTED false) as [[|]|e]; try discriminate.
    + destruct (u_ignore u) eqn:E; [eauto|]. intro H. inversion H. auto.
    + destruct e; try discriminate. destruct (u_ignore u) eqn:E; [eauto|]. intro H. inversion H. auto.
  - destruct (i_defaultIgnore i); [auto|]. intro H. inversion H. auto.
Qed.

Definition ex_dsp (ig : bool) : dsp :=
  Dsp false false true (Ign None false ig true false) false true (Ign None false ig false false) false false false.
Example ignored_nonvacuous :
  pluginCall (Db None false [] [ANTIOWNER] [] true) (ex_dsp true) [EvBody] = Ok [] /\
  pluginCall (Db None false [] [ANTIOWNER] [] true) (ex_dsp false) [EvBody] = Ok [EvBody].
Proof. vm_compute. auto. Qed.

(* a command replayed later by the scheduler: ignored at the time it fires => neither effect nor reply *)
Theorem scheduled_ignored_silent i inner :
  checkIgnored i = Ok true -> scheduled_fire true i inner = Ok [].
Proof. intro H. unfold scheduled_fire. rewrite H. reflexivity. Qed.

Theorem scheduled_not_ignored_runs i inner :
  checkIgnored i = Ok false -> scheduled_fire true i inner = Ok inner.
Proof. intro H. unfold scheduled_fire. rewrite H. reflexivity. Qed.

Example scheduled_nonvacuous :
  scheduled_fire true (Ign None false true false false) [EvBody] = Ok [] /\
  scheduled_fire true (Ign (Some (User [OWNER] false false)) false true false false) [EvBody] = Ok [EvBody].
Proof. vm_compute. auto. Qed.
