(* C01/ConfigChan.v — `config channel #a,#b,... <name> <value>`: every channel whose value is written was checked *)
From Coq Require Import List NArith ZArith Bool Arith Lia.
Import ListNotations.
Require Import Base.Wire Base.PyStr C03.Model C01.Model.
Open Scope N_scope.

Definition authorised (d : db) (opset : bool) (ch : str) : Prop :=
  exists cap, config_cap opset ch = Ok cap /\ holds d cap = Ok true.

Lemma set_value_writes d opset ro ch net k ch' n' :
  In (CWrite ch' n') (set_value d opset ro ch net k) ->
  (ch' = ch /\ n' = net /\ authorised d opset ch) \/ (In (CWrite ch' n') k /\ authorised d opset ch).
Proof.
  unfold set_value. destruct ro; [intros [H|[]]; discriminate|].
  destruct (config_cap opset ch) as [cap|e] eqn:Ec; [|intros [H|[]]; discriminate].
  destruct (holds d cap) as [[|]|e] eqn:Eh; try (intros [H|[]]; discriminate).
  assert (Ha : authorised d opset ch) by (exists cap; auto).
  intros [H|H]; [left; inversion H; subst; split; [reflexivity|split; [reflexivity|assumption]]|right; split; assumption].
Qed.

(* C01_config_channel: a channel-specific value is written only for channels the caller is authorised for
   (<channel>,op -- or owner when the variable is not op-settable), and every channel listed BEFORE it was authorised too *)
Theorem config_channel_checked d opset ro netspec channels ch n :
  In (CWrite ch n) (config_channel_set d opset ro netspec channels) ->
  In ch channels /\ authorised d opset ch.
Proof.
  induction channels as [|c r IH]; cbn [config_channel_set].
  - intros [H|[]]. discriminate.
  - intro H. apply set_value_writes in H as [[H1 [_ Ha]]|[H Ha]].
    + subst. split; [left; reflexivity|exact Ha].
    + destruct netspec.
      * apply set_value_writes in H as [[H1 [_ Ha2]]|[H _]].
        -- subst. split; [left; reflexivity|exact Ha2].
        -- destruct (IH H) as [Hin Hau]. split; [right; exact Hin|exact Hau].
      * destruct (IH H) as [Hin Hau]. split; [right; exact Hin|exact Hau].
Qed.

(* hence nothing is written for a listed channel the caller lacks the capability for -- wherever it stands in the list *)
Corollary config_channel_unauthorised d opset ro netspec channels ch cap :
  config_cap opset ch = Ok cap -> holds d cap = Ok false ->
  forall n, ~ In (CWrite ch n) (config_channel_set d opset ro netspec channels).
Proof.
  intros Hc Hh n H. apply config_channel_checked in H as [_ [cap' [Hc' Hh']]]. congruence.
Qed.

(* the first refused channel stops the loop: no later channel is written either *)
Lemma set_value_denied_stops d opset ro ch net k cap :
  ro = false -> config_cap opset ch = Ok cap -> holds d cap = Ok false -> set_value d opset ro ch net k = [CDenied cap].
Proof. intros Hr Hc Hh. unfold set_value. rewrite Hr, Hc, Hh. reflexivity. Qed.

Theorem config_channel_first_refusal d opset netspec ch r cap :
  config_cap opset ch = Ok cap -> holds d cap = Ok false ->
  config_channel_set d opset false netspec (ch :: r) = [CDenied cap].
Proof. intros Hc Hh. cbn [config_channel_set]. apply set_value_denied_stops; auto. Qed.

(* non-vacuity and the shape the seeded "check once, write all" refactoring got wrong: an op of #m only *)
Definition CM_ : str := [35; 109].   Definition CT_ : str := [35; 116].
Definition db_op_m : db := Db (Some (User [CM_ ++ [COMMA] ++ OP] false false)) true [] [ANTIOWNER] [] true.
Example config_channel_examples :
  config_channel_set db_op_m true false true [CM_] = [CWrite CM_ false; CWrite CM_ true; CSuccess] /\
  config_channel_set db_op_m true false true [CT_; CM_] = [CDenied (CT_ ++ [COMMA] ++ OP)] /\
  config_channel_set db_op_m true false false [CM_; CT_] = [CWrite CM_ false; CDenied (CT_ ++ [COMMA] ++ OP)] /\
  config_channel_set db_op_m false false false [CM_] = [CDenied OWNER].
Proof. vm_compute. auto 6. Qed.
