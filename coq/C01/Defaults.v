(* C01/Defaults.v — DefaultCapabilities.setValue and the "-owner is always a
   default" mechanism.  The repaired setValue looks for '-owner' among the
   stored elements (not through CapabilitySet.__contains__, which also answers
   True for the inverse `owner`), so for EVERY sequence of setValue calls
   without allowDefaultOwner the set holds -owner and not owner. *)
From Coq Require Import List NArith ZArith Bool Arith Lia.
Import ListNotations.
Require Import Base.Wire Base.PyStr C03.Model C03.Anti C01.Model.
Require gen.T01.
Open Scope N_scope.

Lemma fold_antiowner : fold ANTIOWNER = ANTIOWNER. Proof. vm_compute. reflexivity. Qed.
Lemma fold_owner : fold OWNER = OWNER. Proof. vm_compute. reflexivity. Qed.
Lemma invert_antiowner : invertCapability ANTIOWNER = Ok OWNER. Proof. vm_compute. reflexivity. Qed.
Lemma invert_owner : invertCapability OWNER = Ok ANTIOWNER. Proof. vm_compute. reflexivity. Qed.

Lemma smem_app c a b : smem c (a ++ b) = smem c a || smem c b.
Proof. unfold smem. apply existsb_app. Qed.

Lemma smem_sremove_same c S0 : smem c (sremove c S0) = false.
Proof.
  unfold smem, sremove. induction S0 as [|x S0 IH]; [reflexivity|]. cbn [filter].
  destruct (seq_eqb c x) eqn:E; cbn [negb]; [exact IH|]. cbn [existsb]. rewrite E. exact IH.
Qed.

Lemma smem_sremove_other c x S0 : seq_eqb x c = false -> smem c (sremove x S0) = smem c S0.
Proof.
  intro Hn. unfold smem, sremove. induction S0 as [|y S0 IH]; [reflexivity|]. cbn [filter existsb].
  destruct (seq_eqb x y) eqn:E; cbn [negb].
  - rewrite IH. apply seq_eqb_eq in E. subst y.
    destruct (seq_eqb c x) eqn:E2; [|reflexivity]. apply seq_eqb_eq in E2. subst. rewrite seq_eqb_refl in Hn. discriminate.
  - cbn [existsb]. rewrite IH. reflexivity.
Qed.

(* what cs_add S0 '-owner' produces *)
Lemma add_antiowner S0 cs :
  cs_add S0 ANTIOWNER = Ok cs -> smem ANTIOWNER cs = true /\ smem OWNER cs = false.
Proof.
  unfold cs_add. rewrite fold_antiowner, invert_antiowner. cbn [bind].
  destruct (smem ANTIOWNER (sremove OWNER S0)) eqn:E; intro H; inversion H; subst.
  - split; [exact E|apply smem_sremove_same].
  - rewrite !smem_app, smem_sremove_same, E. split; reflexivity.
Qed.

Definition owner_safe (cs : cset) : bool := smem ANTIOWNER cs && negb (smem OWNER cs).

(* ---- CapabilitySet.add never leaves owner next to -owner ---- *)
Definition excl (cs : cset) : bool := negb (smem OWNER cs && smem ANTIOWNER cs).

Lemma smem_sremove_le c x S0 : smem c (sremove x S0) = true -> smem c S0 = true.
Proof.
  unfold smem, sremove. induction S0 as [|y S0 IH]; [discriminate|]. cbn [filter existsb].
  destruct (negb (seq_eqb x y)); cbn [existsb]; intro H.
  - apply orb_true_iff in H as [H|H]; [rewrite H; reflexivity|]. rewrite (IH H). apply orb_true_r.
  - rewrite (IH H). apply orb_true_r.
Qed.

Lemma excl_sremove x S0 : excl S0 = true -> excl (sremove x S0) = true.
Proof.
  unfold excl. intro H. apply negb_true_iff in H. apply negb_true_iff.
  destruct (smem OWNER (sremove x S0)) eqn:E1; [|reflexivity].
  destruct (smem ANTIOWNER (sremove x S0)) eqn:E2; [|reflexivity].
  apply smem_sremove_le in E1. apply smem_sremove_le in E2. rewrite E1, E2 in H. discriminate.
Qed.

Lemma smem_snoc x S0 c : smem x (S0 ++ [c]) = smem x S0 || seq_eqb x c.
Proof. rewrite smem_app. cbn [smem existsb]. rewrite orb_false_r. reflexivity. Qed.

Lemma cs_add_excl S0 c R : excl S0 = true -> cs_add S0 c = Ok R -> excl R = true.
Proof.
  unfold cs_add. intro He. destruct (invertCapability (fold c)) as [inv|e] eqn:Ei; cbn [bind]; [|discriminate].
  pose proof (excl_sremove inv S0 He) as H1.
  destruct (smem (fold c) (sremove inv S0)); intro H; inversion H; subst; [exact H1|].
  unfold excl. rewrite !smem_snoc.
  destruct (seq_eqb OWNER (fold c)) eqn:Eo.
  - apply seq_eqb_eq in Eo. rewrite <- Eo in Ei. rewrite invert_owner in Ei. inversion Ei; subst inv.
    rewrite smem_sremove_same. rewrite <- Eo. replace (seq_eqb ANTIOWNER OWNER) with false by reflexivity.
    rewrite andb_false_r. reflexivity.
  - destruct (seq_eqb ANTIOWNER (fold c)) eqn:Ea.
    + apply seq_eqb_eq in Ea. rewrite <- Ea in Ei. rewrite invert_antiowner in Ei. inversion Ei; subst inv.
      rewrite smem_sremove_same. reflexivity.
    + rewrite !orb_false_r. exact H1.
Qed.

Lemma fold_add_raise v e :
  fold_left (fun r c => do acc <- r; cs_add acc c) v (Raise e) = @Raise cset e.
Proof. induction v as [|c v IH]; [reflexivity|]. cbn [fold_left bind]. exact IH. Qed.

Lemma fold_add_excl v acc R :
  excl acc = true -> fold_left (fun r c => do acc <- r; cs_add acc c) v (Ok acc) = Ok R -> excl R = true.
Proof.
  revert acc. induction v as [|c v IH]; intros acc He H; cbn [fold_left bind] in H.
  - inversion H; subst. exact He.
  - destruct (cs_add acc c) as [acc'|e] eqn:Ea.
    + eapply IH; [|exact H]. eapply cs_add_excl; eassumption.
    + rewrite fold_add_raise in H. discriminate.
Qed.

Lemma cs_of_list_excl v R : cs_of_list v = Ok R -> excl R = true.
Proof. unfold cs_of_list. apply fold_add_excl. reflexivity. Qed.

(* one setValue without allowDefaultOwner, ANY value list: -owner is in the new value and owner is not *)
Lemma setValue_safe v cs : setValue v false = Ok cs -> owner_safe cs = true.
Proof.
  unfold setValue, owner_safe. destruct (cs_of_list v) as [S0|e] eqn:Ev; cbn [bind]; [|discriminate].
  pose proof (cs_of_list_excl _ _ Ev) as He. unfold excl in He. apply negb_true_iff in He.
  destruct (smem ANTIOWNER S0) eqn:E1; cbn [negb andb].
  - rewrite andb_true_r in He. intro H. injection H as <-. rewrite E1, He. reflexivity.
  - intro H. apply add_antiowner in H as [H1 H2]. rewrite H1, H2. reflexivity.
Qed.

Definition no_allow (vs : list (list str * bool)) : bool := forallb (fun va => negb (snd va)) vs.

(* C01_default_owner: every sequence of setValue calls without allowDefaultOwner *)
Theorem default_owner init vs :
  owner_safe init = true -> no_allow vs = true -> owner_safe (setValues init vs) = true.
Proof.
  unfold setValues, no_allow. revert init. induction vs as [|[v a] vs IH]; intros init Hi Hd; [exact Hi|].
  cbn [fold_left]. cbn [forallb snd] in Hd. apply andb_true_iff in Hd as [Ha Hd]. apply negb_true_iff in Ha. subst a.
  apply IH; [|exact Hd]. cbn [fst snd].
  destruct (setValue v false) as [cs|e] eqn:E; [|exact Hi]. eapply setValue_safe; eassumption.
Qed.

Definition init_caps : cset := match cs_of_list gen.T01.DEFAULT_CAPS with Ok cs => cs | Raise _ => [] end.
Lemma init_safe : owner_safe init_caps = true. Proof. vm_compute. reflexivity. Qed.

Corollary default_owner_registered vs :
  no_allow vs = true -> owner_safe (setValues init_caps vs) = true.
Proof. apply default_owner. exact init_safe. Qed.

(* the input that broke the pinned code (finding C01.a, repaired): setValue(['owner']) now stores {-owner} *)
Example former_witness :
  setValues init_caps [([OWNER], false)] = [ANTIOWNER] /\
  setValues init_caps [([OWNER; [102;111;111]], false); ([[79;119;110;101;114]], false)] = [ANTIOWNER] /\
  holds (Db None false [] (setValues init_caps [([OWNER], false)]) [] true) OWNER = Ok false.
Proof. vm_compute. auto. Qed.

(* with --allow-default-owner the operator may still do it (the property's own exception) *)
Example allow_default_owner : setValues init_caps [([OWNER], true)] = [OWNER].
Proof. vm_compute. reflexivity. Qed.

(* hence: with -owner in the default set (and not owner), an unknown caller -- or a secure
   account recognised only by login -- never passes `owner` *)
Lemma chan_parts_owner : chan_parts OWNER = None. Proof. vm_compute. reflexivity. Qed.

Theorem unknown_never_owner d :
  (d_user d = None \/ exists u, d_user d = Some u /\ u_secure u = true /\ d_hostok d = false) ->
  owner_safe (d_defaults d) = true ->
  holds d OWNER = Ok false.
Proof.
  intros Hu Hs. unfold owner_safe in Hs. apply andb_true_iff in Hs as [H1 H2]. apply negb_true_iff in H2.
  assert (Hc : check_unknown d OWNER false = Ok false).
  { unfold check_unknown. rewrite chan_parts_owner. unfold check_defaults, cs_contains, cs_check.
    rewrite fold_owner, H2, invert_owner. cbn [bind]. rewrite H1. reflexivity. }
  unfold holds, checkCapability. destruct Hu as [Hu|[u [Hu [Hsec Hh]]]]; rewrite Hu.
  - exact Hc.
  - rewrite Hsec, Hh. exact Hc.
Qed.

(* ... in particular whatever setValue calls configured the default set *)
Corollary unknown_never_owner_reachable d vs :
  (d_user d = None \/ exists u, d_user d = Some u /\ u_secure u = true /\ d_hostok d = false) ->
  no_allow vs = true -> d_defaults d = setValues init_caps vs ->
  holds d OWNER = Ok false.
Proof.
  intros Hu Hv Hd. apply unknown_never_owner; [exact Hu|]. rewrite Hd. apply default_owner_registered. exact Hv.
Qed.

(* a recognised account that does not hold owner never passes `owner` either, whatever the defaults *)
Theorem nonowner_never_owner d u :
  d_user d = Some u -> (u_secure u && negb (d_hostok d)) = false -> smem OWNER (u_caps u) = false ->
  holds d OWNER = Ok false.
Proof.
  intros Hu Hsec Hn. unfold holds, checkCapability. rewrite Hu, Hsec.
  unfold ucs_contains. rewrite fold_owner. cbn [F0 f_ignoreOwner negb andb orb seq_eqb].
  replace (seq_eqb OWNER OWNER) with true by reflexivity. cbn [orb bind].
  unfold user_check, ucs_check. rewrite fold_owner. replace (seq_eqb OWNER OWNER) with true by reflexivity.
  cbn [orb]. rewrite Hn. destruct (u_ignore u); reflexivity.
Qed.

Example default_owner_nonvacuous :
  no_allow [([DASH :: ADMIN], false); ([], false); ([[102;111;111]; OWNER], false)] = true /\
  setValues init_caps [([DASH :: ADMIN], false); ([], false)] = [ANTIOWNER].
Proof. vm_compute. auto. Qed.
