(* C01/Defaults.v — DefaultCapabilities.setValue and the "-owner is always a
   default" mechanism.  The full statement (every sequence of setValue calls
   without allowDefaultOwner leaves -owner in the set) is REFUTED on the pinned
   code: the test `'-owner' not in self.value` uses CapabilitySet.__contains__,
   which also answers True when the inverse capability `owner` is in the set,
   so setValue(['owner']) keeps {owner} (finding F25). *)
From Coq Require Import List NArith ZArith Bool Arith Lia.
Import ListNotations.
Require Import Base.Wire Base.PyStr C03.Model C03.Anti C01.Model.
Require gen.T01.
Open Scope N_scope.

Lemma fold_antiowner : fold ANTIOWNER = ANTIOWNER. Proof. vm_compute. reflexivity. Qed.
Lemma fold_owner : fold OWNER = OWNER. Proof. vm_compute. reflexivity. Qed.
Lemma invert_antiowner : invertCapability ANTIOWNER = Ok OWNER. Proof. vm_compute. reflexivity. Qed.
Lemma invert_owner : invertCapability OWNER = Ok ANTIOWNER. Proof. vm_compute. reflexivity. Qed.

Lemma smem_app c a b : smem c (a ++ b) = smem c a || smem c b.
Proof. unfold smem. apply existsb_app. Qed.

Lemma smem_sremove_same c S0 : smem c (sremove c S0) = false.
Proof.
  unfold smem, sremove. induction S0 as [|x S0 IH]; [reflexivity|]. cbn [filter].
  destruct (seq_eqb c x) eqn:E; cbn [negb]; [exact IH|]. cbn [existsb]. rewrite E. exact IH.
Qed.

Lemma smem_sremove_other c x S0 : seq_eqb x c = false -> smem c (sremove x S0) = smem c S0.
Proof.
  intro Hn. unfold smem, sremove. induction S0 as [|y S0 IH]; [reflexivity|]. cbn [filter existsb].
  destruct (seq_eqb x y) eqn:E; cbn [negb].
  - rewrite IH. apply seq_eqb_eq in E. subst y.
    destruct (seq_eqb c x) eqn:E2; [|reflexivity]. apply seq_eqb_eq in E2. subst. rewrite seq_eqb_refl in Hn. discriminate.
  - cbn [existsb]. rewrite IH. reflexivity.
Qed.

(* what cs_add S0 '-owner' produces *)
Lemma add_antiowner S0 cs :
  cs_add S0 ANTIOWNER = Ok cs -> smem ANTIOWNER cs = true /\ smem OWNER cs = false.
Proof.
  unfold cs_add. rewrite fold_antiowner, invert_antiowner. cbn [bind].
  destruct (smem ANTIOWNER (sremove OWNER S0)) eqn:E; intro H; inversion H; subst.
  - split; [exact E|apply smem_sremove_same].
  - rewrite !smem_app, smem_sremove_same, E. split; reflexivity.
Qed.

Definition owner_entry (cs : cset) : bool := smem ANTIOWNER cs || smem OWNER cs.
Definition owner_safe (cs : cset) : bool := smem ANTIOWNER cs && negb (smem OWNER cs).

(* one setValue without allowDefaultOwner: -owner OR owner is in the new value *)
Lemma setValue_entry v cs : setValue v false = Ok cs -> owner_entry cs = true.
Proof.
  unfold setValue, owner_entry. destruct (cs_of_list v) as [S0|e]; cbn [bind]; [|discriminate].
  unfold cs_contains. rewrite fold_antiowner, invert_antiowner.
  destruct (smem ANTIOWNER S0) eqn:E1; cbn [bind negb andb].
  - intro H. inversion H; subst. rewrite E1. reflexivity.
  - destruct (smem OWNER S0) eqn:E2; cbn [negb andb].
    + intro H. inversion H; subst. rewrite E2. apply orb_true_r.
    + intro H. apply add_antiowner in H as [H _]. rewrite H. reflexivity.
Qed.

(* the values a caller may give without disturbing the mechanism: those not containing `owner` *)
Definition no_owner (v : list str) : bool :=
  match cs_of_list v with Ok S0 => negb (smem OWNER S0) | Raise _ => true end.

Lemma setValue_safe v cs : no_owner v = true -> setValue v false = Ok cs -> owner_safe cs = true.
Proof.
  unfold setValue, owner_safe, no_owner. destruct (cs_of_list v) as [S0|e]; cbn [bind]; [|discriminate].
  intro Hn. apply negb_true_iff in Hn.
  unfold cs_contains. rewrite fold_antiowner, invert_antiowner.
  destruct (smem ANTIOWNER S0) eqn:E1; cbn [bind negb andb].
  - intro H. inversion H; subst. rewrite E1, Hn. reflexivity.
  - rewrite Hn. cbn [negb andb]. intro H. apply add_antiowner in H as [H1 H2]. rewrite H1, H2. reflexivity.
Qed.

Definition dom_values (vs : list (list str * bool)) : bool :=
  forallb (fun va => negb (snd va) && no_owner (fst va)) vs.

(* C01_default_owner_on_domain *)
Theorem default_owner_on_domain init vs :
  owner_safe init = true -> dom_values vs = true -> owner_safe (setValues init vs) = true.
Proof.
  unfold setValues. revert init. induction vs as [|[v a] vs IH]; intros init Hi Hd; [exact Hi|].
  cbn [fold_left]. cbn [dom_values forallb fst snd] in Hd. apply andb_true_iff in Hd as [Hva Hd].
  apply andb_true_iff in Hva as [Ha Hv]. apply negb_true_iff in Ha. subst a.
  apply IH; [|exact Hd]. cbn [fst snd].
  destruct (setValue v false) as [cs|e] eqn:E; [|exact Hi]. eapply setValue_safe; eassumption.
Qed.

(* weaker invariant that does hold for EVERY sequence: -owner or owner stays in the set *)
Theorem default_owner_entry init vs :
  owner_entry init = true -> forallb (fun va => negb (snd va)) vs = true -> owner_entry (setValues init vs) = true.
Proof.
  unfold setValues. revert init. induction vs as [|[v a] vs IH]; intros init Hi Hd; [exact Hi|].
  cbn [fold_left]. cbn [forallb snd] in Hd. apply andb_true_iff in Hd as [Ha Hd]. apply negb_true_iff in Ha. subst a.
  apply IH; [|exact Hd]. cbn [fst snd].
  destruct (setValue v false) as [cs|e] eqn:E; [|exact Hi]. eapply setValue_entry; eassumption.
Qed.

Definition init_caps : cset := match cs_of_list gen.T01.DEFAULT_CAPS with Ok cs => cs | Raise _ => [] end.
Lemma init_safe : owner_safe init_caps = true. Proof. vm_compute. reflexivity. Qed.

(* the full statement fails: one setValue(['owner']) from the registered default *)
Theorem default_owner_refuted :
  exists vs, forallb (fun va => negb (snd va)) vs = true /\ dom_values vs = false /\
             smem ANTIOWNER (setValues init_caps vs) = false /\
             (* ... and then an unknown caller passes the `owner` converter *)
             holds (Db None false [] (setValues init_caps vs) [] true) OWNER = Ok true.
Proof. exists [([OWNER], false)]. vm_compute. auto. Qed.

(* hence: with -owner in the default set (and not owner), an unknown caller -- or a secure
   account recognised only by login -- never passes `owner` *)
Lemma chan_parts_owner : chan_parts OWNER = None. Proof. vm_compute. reflexivity. Qed.

Theorem unknown_never_owner d :
  (d_user d = None \/ exists u, d_user d = Some u /\ u_secure u = true /\ d_hostok d = false) ->
  owner_safe (d_defaults d) = true ->
  holds d OWNER = Ok false.
Proof.
  intros Hu Hs. unfold owner_safe in Hs. apply andb_true_iff in Hs as [H1 H2]. apply negb_true_iff in H2.
  assert (Hc : check_unknown d OWNER false = Ok false).
  { unfold check_unknown. rewrite chan_parts_owner. unfold check_defaults, cs_contains, cs_check.
    rewrite fold_owner, H2, invert_owner. cbn [bind]. rewrite H1. reflexivity. }
  unfold holds, checkCapability. destruct Hu as [Hu|[u [Hu [Hsec Hh]]]]; rewrite Hu.
  - exact Hc.
  - rewrite Hsec, Hh. exact Hc.
Qed.

(* a recognised account that does not hold owner never passes `owner` either, whatever the defaults *)
Theorem nonowner_never_owner d u :
  d_user d = Some u -> (u_secure u && negb (d_hostok d)) = false -> smem OWNER (u_caps u) = false ->
  holds d OWNER = Ok false.
Proof.
  intros Hu Hsec Hn. unfold holds, checkCapability. rewrite Hu, Hsec.
  unfold ucs_contains. rewrite fold_owner. cbn [F0 f_ignoreOwner negb andb orb seq_eqb].
  replace (seq_eqb OWNER OWNER) with true by reflexivity. cbn [orb bind].
  unfold user_check, ucs_check. rewrite fold_owner. replace (seq_eqb OWNER OWNER) with true by reflexivity.
  cbn [orb]. rewrite Hn. destruct (u_ignore u); reflexivity.
Qed.

Example default_owner_nonvacuous :
  dom_values [([DASH :: ADMIN], false); ([], false); ([[102;111;111]; ANTIOWNER], false)] = true /\
  setValues init_caps [([DASH :: ADMIN], false); ([], false)] = [ANTIOWNER].
Proof. vm_compute. auto. Qed.
