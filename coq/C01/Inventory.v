(* C01/Inventory.v — reflection over the regenerated inventory gen/T01.v:
   every occurrence of a capability-asking converter in any wrap(...) of any
   bundled plugin is in a gating position; the context classes catch exactly
   the exceptions the model's combinators catch; _callCommand is only reached
   from the two known dispatch sites; the registered default capability set
   holds -owner and -admin. *)
From Coq Require Import List NArith ZArith Bool Arith.
Import ListNotations.
Require Import Base.Wire Base.PyStr C03.Model C03.Anti C01.Model C01.Denial.
Require gen.T01.
Open Scope N_scope.

Definition s (l : list N) : str := l.

(* converters registered by plugins (commands.addConverter) that ask a capability question themselves *)
Definition PLUGIN_GATING : list str :=
  [ [115;101;116;116;97;98;108;101;99;111;110;102;105;103;118;97;114]   (* settableconfigvar *)
  ; [99;97;110;99;104;97;110;103;101;116;111;112;105;99] ].            (* canchangetopic *)

(* contexts that run their converter unconditionally and let its exceptions through *)
Definition TRANSPARENT : list str :=
  [ [99;111;110;116;101;120;116]; [114;101;118;101;114;115;101] ].     (* context, reverse *)

(* (plugin, command, converter) occurrences reviewed by hand: none on the pinned tree *)
Definition REVIEWED : list (str * str * str) := [].

Definition is_gating (c : str) : bool :=
  str_in (lower c) (map lower gen.T01.GATING) || str_in (lower c) PLUGIN_GATING.
Definition is_unknown (c : str) : bool := hd_is 63 c.                  (* '?...' : shape the extractor did not understand *)

Definition reviewed (p cmd c : str) : bool :=
  existsb (fun r => seq_eqb p (fst (fst r)) && seq_eqb cmd (snd (fst r)) && seq_eqb c (snd r)) REVIEWED.

Definition occ_ok (p cmd : str) (o : str * list str * str) : bool :=
  let c := fst (fst o) in
  let path := snd (fst o) in
  if is_unknown c then reviewed p cmd c
  else if is_gating c then forallb (fun x => str_in x TRANSPARENT) path || reviewed p cmd c
  else true.

Definition wrap_ok (w : str * str * str * list (str * list str * str)) : bool :=
  match w with (p, _, cmd, occs) => forallb (occ_ok p cmd) occs end.

Definition wraps_ok (ws : list (str * str * str * list (str * list str * str))) : bool := forallb wrap_ok ws.

Lemma wraps_ok_current : wraps_ok gen.T01.WRAPS = true.
Proof. vm_compute. reflexivity. Qed.

Lemma wraps_ok_spec ws :
  wraps_ok ws = true ->
  forall p cl cmd occs c path a,
    In (p, cl, cmd, occs) ws -> In (c, path, a) occs -> is_unknown c = false -> is_gating c = true ->
    (forall x, In x path -> str_in x TRANSPARENT = true) \/ reviewed p cmd c = true.
Proof.
  unfold wraps_ok. intros H p cl cmd occs c path a Hw Ho Hu Hg.
  rewrite forallb_forall in H. specialize (H _ Hw). cbn [wrap_ok] in H.
  rewrite forallb_forall in H. specialize (H _ Ho). unfold occ_ok in H. cbn [fst snd] in H.
  rewrite Hu, Hg in H. apply orb_true_iff in H as [H|H]; [left|right; exact H].
  rewrite forallb_forall in H. exact H.
Qed.

(* no spec shape escaped the extractor *)
Lemma no_unknown_current :
  forallb (fun w => match w with (_, _, _, occs) => forallb (fun o => negb (is_unknown (fst (fst o)))) occs end)
          gen.T01.WRAPS = true.
Proof. vm_compute. reflexivity. Qed.

(* number of gating occurrences (non-vacuity of the lemma above) *)
Definition gating_count (ws : list (str * str * str * list (str * list str * str))) : nat :=
  fold_left (fun n w => match w with (_, _, _, occs) =>
     (n + length (filter (fun o => is_gating (fst (fst o))) occs))%nat end) ws O.
Lemma gating_count_current : Nat.leb 60 (gating_count gen.T01.WRAPS) = true.
Proof. vm_compute. reflexivity. Qed.

(* ---- the exception clauses of the context classes are the ones the model implements ---- *)
Definition ascii (l : list N) : str := l.
Definition EXPECTED_CATCHES : list (str * str * list (list str)) :=
  [ ([99;111;110;116;101;120;116], [111;98;106;101;99;116], [])
  ; ([114;101;115;116], [99;111;110;116;101;120;116], [[[69;120;99;101;112;116;105;111;110]]])
  ; ([97;100;100;105;116;105;111;110;97;108], [99;111;110;116;101;120;116], [[[73;110;100;101;120;69;114;114;111;114]]])
  ; ([111;112;116;105;111;110;97;108], [97;100;100;105;116;105;111;110;97;108],
     [[[65;114;103;117;109;101;110;116;69;114;114;111;114]; [69;114;114;111;114]]])
  ; ([97;110;121], [99;111;110;116;101;120;116],
     [[[65;114;103;117;109;101;110;116;69;114;114;111;114]; [69;114;114;111;114]]; [[73;110;100;101;120;69;114;114;111;114]]])
  ; ([109;97;110;121], [97;110;121], [])
  ; ([102;105;114;115;116], [99;111;110;116;101;120;116], [[[69;120;99;101;112;116;105;111;110]]])
  ; ([114;101;118;101;114;115;101], [99;111;110;116;101;120;116], [])
  ; ([99;111;109;109;97;108;105;115;116], [99;111;110;116;101;120;116], [[[69;120;99;101;112;116;105;111;110]]])
  ; ([103;101;116;111;112;116;115], [99;111;110;116;101;120;116], []) ].

Definition lstr_eqb (a b : list str) : bool :=
  Nat.eqb (length a) (length b) && forallb (fun xy => seq_eqb (fst xy) (snd xy)) (combine a b).
Definition llstr_eqb (a b : list (list str)) : bool :=
  Nat.eqb (length a) (length b) && forallb (fun xy => lstr_eqb (fst xy) (snd xy)) (combine a b).
Definition catches_eqb (a b : list (str * str * list (list str))) : bool :=
  Nat.eqb (length a) (length b) &&
  forallb (fun xy => match xy with ((c1, b1, h1), (c2, b2, h2)) => seq_eqb c1 c2 && seq_eqb b1 b2 && llstr_eqb h1 h2 end)
          (combine a b).

Lemma catches_current : catches_eqb gen.T01.CATCHES EXPECTED_CATCHES = true.
Proof. vm_compute. reflexivity. Qed.

(* handlers of _callCommand's try: SilentError | ArgumentError, GetoptError | Error, SyntaxError | Exception *)
Lemma call_handlers_current : Nat.eqb (length gen.T01.CALL_HANDLERS) 4 = true.
Proof. vm_compute. reflexivity. Qed.

(* ---- dispatch sites ---- *)
Definition CALLCMD : str := [95;99;97;108;108;67;111;109;109;97;110;100].              (* _callCommand *)
Definition USE : str := [117;115;101].
Definition EXPECTED_CALLCOMMAND_USES : list (str * str) :=
  [ ([115;114;99;47;99;97;108;108;98;97;99;107;115;46;112;121],
     [78;101;115;116;101;100;67;111;109;109;97;110;100;115;73;114;99;80;114;111;120;121;46;102;105;110;97;108;69;118;97;108])
      (* src/callbacks.py NestedCommandsIrcProxy.finalEval *)
  ; ([115;114;99;47;99;111;109;109;97;110;100;115;46;112;121], [116;104;114;101;97;100;46;110;101;119;102]) ].
      (* src/commands.py thread.newf *)

Definition callcmd_uses (cs : list (str * str * str * str)) : list (str * str) :=
  map (fun x => match x with (f, e, _, _) => (f, e) end)
      (filter (fun x => match x with (_, _, k, n) => seq_eqb k USE && seq_eqb n CALLCMD end) cs).

Definition pairs_eqb (a b : list (str * str)) : bool :=
  Nat.eqb (length a) (length b) &&
  forallb (fun xy => seq_eqb (fst (fst xy)) (fst (snd xy)) && seq_eqb (snd (fst xy)) (snd (snd xy))) (combine a b).

Lemma callsites_current : pairs_eqb (callcmd_uses gen.T01.CALLSITES) EXPECTED_CALLCOMMAND_USES = true.
Proof. vm_compute. reflexivity. Qed.

(* nobody overrides _callCommand: its only definition is Commands._callCommand *)
Definition DEF : str := [100;101;102].
Lemma callcmd_single_def :
  length (filter (fun x => match x with (_, _, k, n) => seq_eqb k DEF && seq_eqb n CALLCMD end) gen.T01.CALLSITES) = 1%nat.
Proof. vm_compute. reflexivity. Qed.

(* ---- the registered default of supybot.capabilities ---- *)
Definition ANTIADMIN : str := DASH :: ADMIN.
Definition defaults_ok (l : list str) : bool :=
  match cs_of_list l with
  | Ok cs => smem ANTIOWNER cs && smem ANTIADMIN cs && set_ok cs && negb (smem OWNER cs) && negb (smem ADMIN cs)
  | Raise _ => false
  end.
Lemma defaults_current : defaults_ok gen.T01.DEFAULT_CAPS = true.
Proof. vm_compute. reflexivity. Qed.

(* ---- the denial primitives have the shape the model's error_ / errorNoCapability mirror ---- *)
(* _error:  if Raise: raise Error(s)   else: return self.error(s, **kwargs) *)
Definition EXPECTED_ERROR_CHAIN : list (str * str) :=
  [([82;97;105;115;101], [114;97;105;115;101;32;69;114;114;111;114;40;115;41]); ([101;108;115;101], [114;101;116;117;114;110;32;115;101;108;102;46;101;114;114;111;114;40;115;44;32;42;42;107;119;97;114;103;115;41])].
(* errorNoCapability:  if 'Raise' not in kwargs: kwargs['Raise'] = True ; ... ;
                       if s: return self._error(s, **kwargs)   elif kwargs['Raise']: raise Error() *)
Definition EXPECTED_ENC_CHAIN : list (str * str) :=
  [([39;82;97;105;115;101;39;32;110;111;116;32;105;110;32;107;119;97;114;103;115], [107;119;97;114;103;115;91;39;82;97;105;115;101;39;93;32;61;32;84;114;117;101]); ([115], [114;101;116;117;114;110;32;115;101;108;102;46;95;101;114;114;111;114;40;115;44;32;42;42;107;119;97;114;103;115;41]); ([107;119;97;114;103;115;91;39;82;97;105;115;101;39;93], [114;97;105;115;101;32;69;114;114;111;114;40;41])].
(* ReplyIrcProxy.error / NestedCommandsIrcProxy.error: the Raise test comes first and raises *)
Definition EXPECTED_PROXY_ERROR_RAISE : list (str * str * str) :=
  [([82;101;112;108;121;73;114;99;80;114;111;120;121], [39;82;97;105;115;101;39;32;105;110;32;107;119;97;114;103;115;32;97;110;100;32;107;119;97;114;103;115;91;39;82;97;105;115;101;39;93], [114;97;105;115;101;32;69;114;114;111;114;40;41]); ([78;101;115;116;101;100;67;111;109;109;97;110;100;115;73;114;99;80;114;111;120;121], [82;97;105;115;101], [114;97;105;115;101;32;69;114;114;111;114;40;115;41])].

Definition triples_eqb (a b : list (str * str * str)) : bool :=
  Nat.eqb (length a) (length b) &&
  forallb (fun xy => match xy with ((a1, a2, a3), (b1, b2, b3)) => seq_eqb a1 b1 && seq_eqb a2 b2 && seq_eqb a3 b3 end) (combine a b).

Definition denial_shape_ok : bool :=
  pairs_eqb gen.T01.ERROR_CHAIN EXPECTED_ERROR_CHAIN && pairs_eqb gen.T01.ENC_CHAIN EXPECTED_ENC_CHAIN
  && triples_eqb gen.T01.PROXY_ERROR_RAISE EXPECTED_PROXY_ERROR_RAISE.
Lemma denial_shape_current : denial_shape_ok = true.
Proof. vm_compute. reflexivity. Qed.

(* ---- every call of errorNoCapability, in src/ and in every plugin, aborts its caller:
        it passes Raise=True or no Raise keyword at all (the method then sets it to True) ---- *)
Definition KW_DEFAULT : str := [100;101;102;97;117;108;116].
Definition KW_TRUE : str := [84;114;117;101].
Definition site_kw (k : str) : option (option bool) :=
  if seq_eqb k KW_DEFAULT then Some None else if seq_eqb k KW_TRUE then Some (Some true) else None.
Definition site_aborts (x : str * str * str) : bool :=
  match site_kw (snd x) with Some kw => kw_raises kw | None => false end.
Definition nocap_sites_ok (l : list (str * str * str)) : bool := forallb site_aborts l.
Lemma nocap_sites_current : nocap_sites_ok gen.T01.NOCAP_SITES = true.
Proof. vm_compute. reflexivity. Qed.
Lemma nocap_sites_count : Nat.leb 20 (length gen.T01.NOCAP_SITES) = true.
Proof. vm_compute. reflexivity. Qed.

Lemma nocap_sites_spec l :
  nocap_sites_ok l = true ->
  forall f e k, In (f, e, k) l -> exists kw, site_kw k = Some kw /\ kw_raises kw = true.
Proof.
  unfold nocap_sites_ok. intros H f e k Hin. rewrite forallb_forall in H. specialize (H _ Hin).
  unfold site_aborts in H. cbn [snd] in H. destruct (site_kw k) as [kw|]; [|discriminate]. eauto.
Qed.

(* ---- the only plugin function that picks the checked capability from its arguments is Channel._voice,
        and its decision table is the one Model.voice_word mirrors ---- *)
Definition EXPECTED_ARGDEP : list (str * str * str) :=
  [([112;108;117;103;105;110;115;47;67;104;97;110;110;101;108;47;112;108;117;103;105;110;46;112;121], [95;118;111;105;99;101], [111;112;32;118;111;105;99;101])].
(*  if nicks:  if len(nicks) == 1 and msg.nick in nicks: capability = 'voice'   else: capability = 'op'
    else: nicks = [msg.nick] ; capability = 'voice' *)
Definition EXPECTED_VOICE_ROWS : list (str * str * str) :=
  [([110;105;99;107;115], [108;101;110;40;110;105;99;107;115;41;32;61;61;32;49;32;97;110;100;32;109;115;103;46;110;105;99;107;32;105;110;32;110;105;99;107;115], [99;97;112;97;98;105;108;105;116;121;32;61;32;39;118;111;105;99;101;39]);
   ([110;105;99;107;115], [101;108;115;101], [99;97;112;97;98;105;108;105;116;121;32;61;32;39;111;112;39]);
   ([101;108;115;101], [], [110;105;99;107;115;32;61;32;91;109;115;103;46;110;105;99;107;93;32;59;32;99;97;112;97;98;105;108;105;116;121;32;61;32;39;118;111;105;99;101;39])].
Definition argdep_ok : bool :=
  triples_eqb gen.T01.ARGDEP EXPECTED_ARGDEP && triples_eqb gen.T01.VOICE_ROWS EXPECTED_VOICE_ROWS.
Lemma argdep_current : argdep_ok = true.
Proof. vm_compute. reflexivity. Qed.

(* ---- Config.channel's write loop checks EVERY channel before writing it (each write goes through _setValue =
        checkCanSetValue ; set), and checkCanSetValue / getCapability are the ones Model.set_value / config_cap mirror ---- *)
Definition EXPECTED_CONFIG_CHANNEL : list str :=
   (* assert irc.isChannel(channel) *)
   (* self._setValue(irc, msg, group.get(channel), value) *)
   (* if network != '*': |     self._setValue(irc, msg, group.get(':' + network.network).get(channel), value) *)
   (* -- *)
   (* irc.replySuccess() *)
   (* -- _setValue *)
   (* checkCanSetValue(irc, msg, group) *)
   (* group.set(value) *)
   (* -- checkCanSetValue *)
   (* if isReadOnly(group._name): irc.error(<text>, Raise=True) *)
   (* capability = getCapability(irc, group._name) *)
   (* if not ircdb.checkCapability(msg.prefix, capability): |     irc.errorNoCapability(capability, Raise=True) *)
   (* -- getCapability *)
   (* capability = 'owner' *)
   (* if not name.startswith('supybot') and (not name.startswith('users')): |     name = 'supybot.' + name *)
   (* parts = registry.split(name) *)
   (* group = getattr(conf, parts.pop(0)) *)
   (* while parts: |     part = parts.pop(0) |     group = group.get(part) |     if not getattr(group, '_opSettable', True): |         return 'owner' |     if irc.isC *)
   (* return capability *)
  [[97;115;115;101;114;116;32;105;114;99;46;105;115;67;104;97;110;110;101;108;40;99;104;97;110;110;101;108;41];
   [115;101;108;102;46;95;115;101;116;86;97;108;117;101;40;105;114;99;44;32;109;115;103;44;32;103;114;111;117;112;46;103;101;116;40;99;104;97;110;110;101;108;41;44;32;118;97;108;117;101;41];
   [105;102;32;110;101;116;119;111;114;107;32;33;61;32;39;42;39;58;10;32;32;32;32;115;101;108;102;46;95;115;101;116;86;97;108;117;101;40;105;114;99;44;32;109;115;103;44;32;103;114;111;117;112;46;103;101;116;40;39;58;39;32;43;32;110;101;116;119;111;114;107;46;110;101;116;119;111;114;107;41;46;103;101;116;40;99;104;97;110;110;101;108;41;44;32;118;97;108;117;101;41];
   [45;45];
   [105;114;99;46;114;101;112;108;121;83;117;99;99;101;115;115;40;41];
   [45;45;32;95;115;101;116;86;97;108;117;101];
   [99;104;101;99;107;67;97;110;83;101;116;86;97;108;117;101;40;105;114;99;44;32;109;115;103;44;32;103;114;111;117;112;41];
   [103;114;111;117;112;46;115;101;116;40;118;97;108;117;101;41];
   [45;45;32;99;104;101;99;107;67;97;110;83;101;116;86;97;108;117;101];
   [105;102;32;105;115;82;101;97;100;79;110;108;121;40;103;114;111;117;112;46;95;110;97;109;101;41;58;32;105;114;99;46;101;114;114;111;114;40;60;116;101;120;116;62;44;32;82;97;105;115;101;61;84;114;117;101;41];
   [99;97;112;97;98;105;108;105;116;121;32;61;32;103;101;116;67;97;112;97;98;105;108;105;116;121;40;105;114;99;44;32;103;114;111;117;112;46;95;110;97;109;101;41];
   [105;102;32;110;111;116;32;105;114;99;100;98;46;99;104;101;99;107;67;97;112;97;98;105;108;105;116;121;40;109;115;103;46;112;114;101;102;105;120;44;32;99;97;112;97;98;105;108;105;116;121;41;58;10;32;32;32;32;105;114;99;46;101;114;114;111;114;78;111;67;97;112;97;98;105;108;105;116;121;40;99;97;112;97;98;105;108;105;116;121;44;32;82;97;105;115;101;61;84;114;117;101;41];
   [45;45;32;103;101;116;67;97;112;97;98;105;108;105;116;121];
   [99;97;112;97;98;105;108;105;116;121;32;61;32;39;111;119;110;101;114;39];
   [105;102;32;110;111;116;32;110;97;109;101;46;115;116;97;114;116;115;119;105;116;104;40;39;115;117;112;121;98;111;116;39;41;32;97;110;100;32;40;110;111;116;32;110;97;109;101;46;115;116;97;114;116;115;119;105;116;104;40;39;117;115;101;114;115;39;41;41;58;10;32;32;32;32;110;97;109;101;32;61;32;39;115;117;112;121;98;111;116;46;39;32;43;32;110;97;109;101];
   [112;97;114;116;115;32;61;32;114;101;103;105;115;116;114;121;46;115;112;108;105;116;40;110;97;109;101;41];
   [103;114;111;117;112;32;61;32;103;101;116;97;116;116;114;40;99;111;110;102;44;32;112;97;114;116;115;46;112;111;112;40;48;41;41];
   [119;104;105;108;101;32;112;97;114;116;115;58;10;32;32;32;32;112;97;114;116;32;61;32;112;97;114;116;115;46;112;111;112;40;48;41;10;32;32;32;32;103;114;111;117;112;32;61;32;103;114;111;117;112;46;103;101;116;40;112;97;114;116;41;10;32;32;32;32;105;102;32;110;111;116;32;103;101;116;97;116;116;114;40;103;114;111;117;112;44;32;39;95;111;112;83;101;116;116;97;98;108;101;39;44;32;84;114;117;101;41;58;10;32;32;32;32;32;32;32;32;114;101;116;117;114;110;32;39;111;119;110;101;114;39;10;32;32;32;32;105;102;32;105;114;99;46;105;115;67;104;97;110;110;101;108;40;112;97;114;116;41;58;10;32;32;32;32;32;32;32;32;99;97;112;97;98;105;108;105;116;121;32;61;32;105;114;99;100;98;46;109;97;107;101;67;104;97;110;110;101;108;67;97;112;97;98;105;108;105;116;121;40;112;97;114;116;44;32;39;111;112;39;41];
   [114;101;116;117;114;110;32;99;97;112;97;98;105;108;105;116;121]].
Lemma config_channel_shape_current : lstr_eqb gen.T01.CONFIG_CHANNEL EXPECTED_CONFIG_CHANNEL = true.
Proof. vm_compute. reflexivity. Qed.

(* ---- a command replayed by the scheduler is dropped when its user is ignored at fire time (plugins/Scheduler) ---- *)
(* ircutils.isUserHostmask(msg.prefix) and ircdb.checkIgnored(msg.prefix, msg.channel) *)
Definition EXPECTED_SCHED_IGNORE_TEST : str :=
  [105;114;99;117;116;105;108;115;46;105;115;85;115;101;114;72;111;115;116;109;97;115;107;40;109;115;103;46;112;114;101;102;105;120;41;32;97;110;100;32;105;114;99;100;98;46;99;104;101;99;107;73;103;110;111;114;101;100;40;109;115;103;46;112;114;101;102;105;120;44;32;109;115;103;46;99;104;97;110;110;101;108;41].
Lemma sched_ignore_current : seq_eqb gen.T01.SCHED_IGNORE_TEST EXPECTED_SCHED_IGNORE_TEST = true.
Proof. vm_compute. reflexivity. Qed.

(* ---- no gating converter of any plugin takes a computed (non-literal) capability argument ---- *)
Definition literal_args_ok (ws : list (str * str * str * list (str * list str * str))) : bool :=
  forallb (fun w => match w with (_, _, _, occs) =>
     forallb (fun o => negb (is_gating (fst (fst o))) || negb (hd_is 63 (snd o))) occs end) ws.
Lemma literal_args_current : literal_args_ok gen.T01.WRAPS = true.
Proof. vm_compute. reflexivity. Qed.

Definition inventory_ok : bool :=
  wraps_ok gen.T01.WRAPS && catches_eqb gen.T01.CATCHES EXPECTED_CATCHES
  && pairs_eqb (callcmd_uses gen.T01.CALLSITES) EXPECTED_CALLCOMMAND_USES && defaults_ok gen.T01.DEFAULT_CAPS
  && denial_shape_ok && nocap_sites_ok gen.T01.NOCAP_SITES && argdep_ok
  && lstr_eqb gen.T01.CONFIG_CHANNEL EXPECTED_CONFIG_CHANNEL
  && seq_eqb gen.T01.SCHED_IGNORE_TEST EXPECTED_SCHED_IGNORE_TEST && literal_args_ok gen.T01.WRAPS.
Lemma inventory_current : inventory_ok = true.
Proof. vm_compute. reflexivity. Qed.
