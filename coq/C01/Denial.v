(* C01/Denial.v — errorNoCapability with Raise=True (or no Raise keyword) always raises,
   whatever the configured message, the blank one included; hence an in-body check
   `if not checkCapability(...): irc.errorNoCapability(cap, Raise=True)` never falls
   through to the effects that follow it. *)
From Coq Require Import List NArith ZArith Bool Arith.
Import ListNotations.
Require Import Base.Wire Base.PyStr C03.Model C01.Model.
Open Scope N_scope.

Definition raises (o : enc_out) : bool := match o with EncRaise _ => true | _ => false end.
Definition kw_raises (kw : option bool) : bool := match kw with None => true | Some b => b end.

Lemma enc_raises text kw : kw_raises kw = true -> exists t, errorNoCapability text kw = EncRaise t.
Proof.
  intro H. unfold errorNoCapability. destruct kw as [[|]|]; try discriminate; cbn [kw_raises] in *;
    destruct (nonempty text); cbn [error_]; eauto.
Qed.

(* C01_denial_aborts *)
Theorem denial_aborts text kw holds_cap rest :
  kw_raises kw = true -> holds_cap = false ->
  (exists t, errorNoCapability text kw = EncRaise t) /\
  (exists t, inbody_check holds_cap text kw rest = [BDenied t]) /\
  (forall n, ~ In (BEffect n) (inbody_check holds_cap text kw rest)).
Proof.
  intros Hk Hh. destruct (enc_raises text kw Hk) as [t Ht]. subst holds_cap.
  unfold inbody_check. rewrite Ht. split; [eauto|]. split; [eauto|].
  intros n [H|[]]. discriminate.
Qed.

(* a visible reply exists exactly when the configured text is not blank *)
Lemma denial_text text kw t : errorNoCapability text kw = EncRaise t -> t = text.
Proof.
  unfold errorNoCapability, error_. destruct (nonempty text) eqn:E.
  - destruct (match kw with Some b => b | None => true end); intro H; inversion H; reflexivity.
  - destruct (match kw with Some b => b | None => true end); intro H; inversion H.
    destruct text; [reflexivity|discriminate].
Qed.

(* why the call sites must keep Raise=True: with Raise=False the body goes on (and with a blank text, silently) *)
Example raise_false_falls_through :
  inbody_check false [] (Some false) [BEffect 1] = [BEffect 1] /\
  inbody_check false [120] (Some false) [BEffect 1] = [BReply [120]; BEffect 1] /\
  inbody_check false [] (Some true) [BEffect 1] = [BDenied []] /\
  inbody_check false [] None [BEffect 1] = [BDenied []] /\
  inbody_check true [] None [BEffect 1] = [BEffect 1].
Proof. vm_compute. auto 6. Qed.

(* the gate of _callCommand and the gating converters refuse for every message text *)
Lemma gate_refusal_always nc v : gate_refusal nc v = [EvNoCap v].
Proof. unfold gate_refusal, errorNoCapability. destruct (nonempty nc); reflexivity. Qed.

Lemma converter_denial_raises nc : exists t, errorNoCapability nc (Some true) = EncRaise t.
Proof. apply enc_raises. reflexivity. Qed.
