(* C01/Conv.v — the converter pipeline: the body runs only after every gating
   converter (top-level position of the spec) asked its capability and got True *)
From Coq Require Import List NArith ZArith Bool Arith Lia.
Import ListNotations.
Require Import Base.Wire Base.PyStr C03.Model C01.Model C01.Denial.
Open Scope N_scope.

Lemma run_spec_app d mc nc l1 l2 s s2 :
  run_spec d mc nc (l1 ++ l2) s = COk s2 ->
  exists s1, run_spec d mc nc l1 s = COk s1 /\ run_spec d mc nc l2 s1 = COk s2.
Proof.
  revert s. induction l1 as [|c l1 IH]; intros s H; cbn [app run_spec] in *.
  - exists s. split; [reflexivity|exact H].
  - destruct (run_conv d mc nc c s) as [s'|x s'] eqn:Ec.
    + apply IH. exact H.
    + destruct x; discriminate.
Qed.

Lemma run_gate_ok d mc nc g s s' :
  run_gate d mc nc g s = COk s' ->
  exists cap, gate_cap mc g s = (COk s', Ok cap) /\ checkCapability d cap (gate_flags g) = Ok true.
Proof.
  unfold run_gate. destruct (gate_cap mc g s) as [[s1|x s1] [cap|e]]; try discriminate.
  destruct (checkCapability d cap (gate_flags g)) as [[|]|e] eqn:Ec; try discriminate.
  - intro H. inversion H; subst. exists cap. split; [reflexivity|exact Ec].
  - (* refused: errorNoCapability(cap, Raise=True) raises for every message text, so the converter cannot return *)
    destruct (converter_denial_raises nc) as [t Ht]. rewrite Ht. discriminate.
Qed.

Lemma gate_cap_fail mc g s x s' r : gate_cap mc g s = (CFail x s', r) -> x = XArg.
Proof.
  destruct g; cbn [gate_cap]; try discriminate.
  unfold getChannel_conv. destruct (s_chan s); [discriminate|]. destruct argchan; [discriminate|].
  destruct mc; [discriminate|]. intro H. inversion H. reflexivity.
Qed.

Lemma loop_it_nobody f coe s :
  (forall st s1, f st <> CFail (XErr EvBody) s1) ->
  forall k st s1, loop_it f coe s k st <> CFail (XErr EvBody) s1.
Proof.
  intros Hf. induction k as [|k IH]; intros st s1; cbn [loop_it]; [discriminate|].
  destruct (f st) as [st'|x st'] eqn:E; [apply IH|].
  destruct x; try discriminate.
  - destruct coe; [discriminate|]. intro H. inversion H; subst. eapply Hf; eassumption.
  - destruct coe; discriminate.
Qed.

Lemma body_spec_ok d chan nc m :
  In EvBody (call_method d chan nc m) ->
  match m with
  | None => True
  | Some (spec, extra) => exists s, run_spec d chan nc spec (CS None false) = COk s /\ extra = false /\ s_err s = false
  end.
Proof.
  destruct m as [[spec extra]|]; [|trivial]. cbn [call_method].
  destruct (run_spec d chan nc spec (CS None false)) as [s|x s] eqn:Er.
  - destruct extra; [cbn; intros [H|[]]; discriminate|].
    destruct (s_err s) eqn:Ee; [cbn; intros []|]. intros _. exists s. auto.
  - intros [H|[]]. destruct x as [ev| | |e]; cbn in H; try discriminate.
    subst ev. exfalso.
    (* a converter never raises Error carrying EvBody *)
    clear -Er. revert Er. generalize (CS None false).
    assert (Hc : forall c s0 s1, run_conv d chan nc c s0 <> CFail (XErr EvBody) s1).
    { induction c; intros s0 s1; cbn [run_conv].
      - unfold run_gate. destruct (gate_cap chan g s0) as [[sa|xa sa] [capa|ea]] eqn:Eg.
        + destruct (checkCapability d capa (gate_flags g)) as [[|]|]; try discriminate.
          destruct (errorNoCapability nc (Some true)); discriminate.
        + discriminate.
        + apply gate_cap_fail in Eg. subst xa. discriminate.
        + apply gate_cap_fail in Eg. subst xa. discriminate.
      - destruct o; discriminate.
      - unfold getChannel_conv. destruct (s_chan s0); [discriminate|]. destruct argchan; [discriminate|].
        destruct chan; discriminate.
      - destruct (run_conv d chan nc c s0) as [?|x ?] eqn:E; [discriminate|].
        destruct x; discriminate.
      - destruct (run_conv d chan nc c s0) as [?|x ?] eqn:E; [discriminate|].
        destruct x; try discriminate; intro H; inversion H; subst; eapply IHc; eassumption.
      - destruct (run_conv d chan nc c1 s0) as [?|x ?] eqn:E; [discriminate|]. apply IHc2.
      - destruct hasargs; [|discriminate]. destruct (run_conv d chan nc c s0) as [?|x ?]; discriminate.
      - apply loop_it_nobody. exact IHc. }
    induction spec as [|c l IHl]; intros s0; cbn [run_spec]; [discriminate|].
    destruct (run_conv d chan nc c s0) as [?|x0 ?] eqn:E; [apply IHl|].
    destruct x0; try discriminate. intro H. inversion H; subst. eapply Hc; eassumption.
Qed.

Lemma trace_body_method d chan nc plugin canon command pre m :
  In EvBody (callCommand_trace d chan nc plugin canon command pre m) -> In EvBody (call_method d chan nc m) /\ pre = false.
Proof.
  unfold callCommand_trace. destruct (gate d chan plugin canon command) as [[v|]|e].
  - rewrite gate_refusal_always. cbn. intros [H|[]]; discriminate.
  - destruct pre; [cbn; intros []|]. auto.
  - cbn. intros [H|[]]; discriminate.
Qed.

(* C01_converters *)
Theorem converters_checked d chan nc plugin canon command pre l1 g l2 extra :
  In EvBody (callCommand_trace d chan nc plugin canon command pre (Some (l1 ++ Gate g :: l2, extra))) ->
  exists s s' cap,
    run_spec d chan nc l1 (CS None false) = COk s /\          (* the state in which converter g runs *)
    gate_cap chan g s = (COk s', Ok cap) /\                (* the capability it asks for *)
    checkCapability d cap (gate_flags g) = Ok true.        (* ... was answered True *)
Proof.
  intro H. apply trace_body_method in H as [H _]. apply body_spec_ok in H as [sf [Hr _]].
  apply run_spec_app in Hr as [s [H1 H2]]. cbn [run_spec run_conv] in H2.
  destruct (run_gate d chan nc g s) as [s'|x s'] eqn:Eg.
  - destruct (run_gate_ok _ _ _ _ _ _ Eg) as [cap [Hc Hk]]. exists s, s', cap. auto.
  - destruct x; discriminate.
Qed.

(* readable instances: 'owner' / 'admin' / ('checkCapability', c) anywhere at top level of the spec *)
Lemma canon_owner : canonicalCapability OWNER = Ok OWNER. Proof. vm_compute. reflexivity. Qed.
Lemma canon_admin : canonicalCapability ADMIN = Ok ADMIN. Proof. vm_compute. reflexivity. Qed.

Corollary owner_converter d chan nc plugin canon command pre spec extra :
  In (Gate GOwner) spec ->
  In EvBody (callCommand_trace d chan nc plugin canon command pre (Some (spec, extra))) ->
  holds d OWNER = Ok true.
Proof.
  intros Hin H. apply in_split in Hin as [l1 [l2 E]]. subst spec.
  apply converters_checked in H as [s [s' [cap [_ [Hc Hk]]]]].
  cbn [gate_cap] in Hc. rewrite canon_owner in Hc. inversion Hc; subst. exact Hk.
Qed.

Corollary admin_converter d chan nc plugin canon command pre spec extra :
  In (Gate GAdmin) spec ->
  In EvBody (callCommand_trace d chan nc plugin canon command pre (Some (spec, extra))) ->
  holds d ADMIN = Ok true.
Proof.
  intros Hin H. apply in_split in Hin as [l1 [l2 E]]. subst spec.
  apply converters_checked in H as [s [s' [cap [_ [Hc Hk]]]]].
  cbn [gate_cap] in Hc. rewrite canon_admin in Hc. inversion Hc; subst. exact Hk.
Qed.

Corollary cap_converter d chan nc plugin canon command pre spec extra c :
  In (Gate (GCap c)) spec ->
  In EvBody (callCommand_trace d chan nc plugin canon command pre (Some (spec, extra))) ->
  isCapability c = true /\ holds d (lower c) = Ok true.
Proof.
  intros Hin H. apply in_split in Hin as [l1 [l2 E]]. subst spec.
  apply converters_checked in H as [s [s' [cap [_ [Hc Hk]]]]].
  cbn [gate_cap] in Hc. unfold canonicalCapability in Hc. destruct (isCapability c); [|discriminate].
  inversion Hc; subst. auto.
Qed.

(* a channel gate asks for "<channel>,<cap>" of the channel commands.getChannel selected *)
Corollary chan_converter d chan nc plugin canon command pre l1 l2 extra c a :
  In EvBody (callCommand_trace d chan nc plugin canon command pre (Some (l1 ++ Gate (GChan c a) :: l2, extra))) ->
  exists s ch, run_spec d chan nc l1 (CS None false) = COk s /\
    getChannel_conv chan a s = COk (CS (Some ch) (s_err s)) /\
    holds d (ch ++ [COMMA] ++ lower c) = Ok true.
Proof.
  intro H. apply converters_checked in H as [s [s' [cap [Hr [Hc Hk]]]]].
  cbn [gate_cap] in Hc. destruct (getChannel_conv chan a s) as [s1|x s1] eqn:Eg; [|discriminate].
  inversion Hc as [[Hs Hcap]]. subst s1. clear Hc.
  unfold canonicalCapability in Hcap. destruct (isCapability c); cbn [bind] in Hcap; [|discriminate].
  destruct (s_chan s') as [ch|] eqn:Ech; [|discriminate].
  unfold makeChannelCapability in Hcap.
  destruct (negb (isCapability (lower c))); [discriminate|]. destruct (negb (isChannel ch)); [discriminate|].
  inversion Hcap; subst cap. exists s, ch. repeat split; try assumption.
  unfold getChannel_conv in *. destruct (s_chan s) eqn:E1.
  - inversion Eg; subst. rewrite E1 in Ech. inversion Ech; subst. destruct s'; cbn in *. subst. reflexivity.
  - destruct a; [inversion Eg; subst; cbn in Ech; inversion Ech; reflexivity|].
    destruct chan; [inversion Eg; subst; cbn in Ech; inversion Ech; reflexivity|discriminate].
Qed.

(* ---- positions that do NOT gate (why the inventory lemma is needed) ---- *)
Definition db_unknown : db := Db None false [] [ANTIOWNER] [] true.
Definition PL : str := [112].   Definition CM : str := [99].
Example optional_does_not_gate :
  holds db_unknown OWNER = Ok false /\
  callCommand_trace db_unknown None [] PL PL [CM] false (Some ([Optional (Gate GOwner)], false)) = [EvBody] /\
  callCommand_trace db_unknown None [] PL PL [CM] false (Some ([First2 (Gate GOwner) (Opaque OOk)], false)) = [EvBody] /\
  callCommand_trace db_unknown None [] PL PL [CM] false (Some ([Rest true (Gate GOwner)], false)) = [] /\
  callCommand_trace db_unknown None [] PL PL [CM] false (Some ([Loop 0 false (Gate GOwner)], false)) = [EvBody] /\
  callCommand_trace db_unknown None [] PL PL [CM] false (Some ([Loop 1 true (Gate GOwner)], false)) = [EvBody] /\
  callCommand_trace db_unknown None [] PL PL [CM] false (Some ([Gate GOwner], false)) = [EvNoCap (PStr OWNER)] /\
  callCommand_trace db_unknown None [] PL PL [CM] false (Some ([Additional (Gate GOwner)], false)) = [EvNoCap (PStr OWNER)].
Proof. vm_compute. repeat split; reflexivity. Qed.

(* non-vacuity of converters_checked: an owner passes 'owner' and ('checkChannelCapability','op') *)
Definition db_owner : db := Db (Some (User [OWNER] false false)) true [] [ANTIOWNER] [] true.
Example converters_nonvacuous :
  callCommand_trace db_owner (Some [35;99]) [] PL PL [CM] false
     (Some ([Opaque OOk; Gate GOwner; Gate (GChan OP None)], false)) = [EvBody].
Proof. vm_compute. reflexivity. Qed.
