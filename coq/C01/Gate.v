(* C01/Gate.v — the command-name gate of _callCommand *)
From Coq Require Import List NArith ZArith Bool Arith Lia.
Import ListNotations.
Require Import Base.Wire Base.PyStr C03.Model C03.Fold C03.CaseInsens C03.Anti C03.Total C01.Model C01.Denial.
Open Scope N_scope.

(* ---- what "the gate lets name n through" means (the property text) ---- *)
Definition name_passes (d : db) (chan : option str) (n : str) : Prop :=
  exists anti,
    makeAntiCapability n = Ok anti /\ holds d anti = Ok false /\           (* caller does not hold -n *)
    match chan with
    | None => d_flag d = true \/ holds d n = Ok true                         (* default-allow, or holds n *)
    | Some ch =>
        exists ca cn,
          makeChannelCapability ch anti = Ok ca /\ holds d ca = Ok false /\  (* nor #chan,-n *)
          makeChannelCapability ch n = Ok cn /\
          ((d_flag d && ch_default (getChannel d ch)) = true \/ holds d n = Ok true \/ holds d cn = Ok true)
    end.

(* ---- lengths: the name returned on refusal is never the empty (falsy) string ---- *)
Lemma isCapability_ne x : isCapability x = true -> x <> [].
Proof. intros H E; subst; discriminate. Qed.

Lemma makeChan_len ch x a : makeChannelCapability ch x = Ok a -> (2 <= length a)%nat.
Proof.
  unfold makeChannelCapability. destruct (isCapability x) eqn:Ex; cbn [negb]; [|discriminate].
  destruct (isChannel ch) eqn:Ec; cbn [negb]; [|discriminate]. intro H. inversion H; subst.
  apply isCapability_ne in Ex. destruct x; [congruence|]. rewrite !app_length. cbn. lia.
Qed.

Lemma makeAnti_len n a : makeAntiCapability n = Ok a -> (2 <= length a)%nat.
Proof.
  unfold makeAntiCapability. destruct (isCapability n) eqn:En; cbn [negb]; [|discriminate].
  destruct (isAntiCapability n); [discriminate|].
  destruct (chan_parts n) as [[ch x]|].
  - apply makeChan_len.
  - intro H. inversion H; subst. apply isCapability_ne in En. destruct n; [congruence|]. cbn. lia.
Qed.

Lemma unAnti_nonempty c r : (2 <= length c)%nat -> unAntiCapability c = Ok r -> nonempty r = true.
Proof.
  unfold unAntiCapability. intro Hl. destruct (isCapability c); cbn [negb]; [|discriminate].
  destruct (isAntiCapability c); cbn [negb]; [|discriminate].
  destruct (chan_parts c) as [[ch x]|]; intro H; inversion H; subst.
  - destruct ch; reflexivity.
  - destruct c as [|a [|b c']]; cbn in Hl; try lia. reflexivity.
Qed.

Lemma denied_truthy c v : (2 <= length c)%nat -> denied c = Ok v -> truthy v = true.
Proof.
  unfold denied. intros Hl. destruct (unAntiCapability c) as [r|e] eqn:E; cbn [bind]; [|discriminate].
  intro H. inversion H; subst. cbn [truthy]. eapply unAnti_nonempty; eassumption.
Qed.

Lemma anti_check_pass d c : anti_check d c = IPass -> holds d c = Ok false.
Proof.
  unfold anti_check. destruct (isAntiCapability c); cbn [negb]; [|discriminate].
  destruct (holds d c) as [[|]|e]; try discriminate. reflexivity.
Qed.

(* ---- one call of checkCommandCapability: either it refuses (truthy) or the name passes ---- *)
Lemma ccc_result d chan n v :
  checkCommandCapability d chan n = Ok v -> truthy v = true \/ (v = PFalse /\ name_passes d chan n).
Proof.
  unfold checkCommandCapability.
  destruct (makeAntiCapability n) as [anti|e] eqn:Ea; cbn [bind]; [|discriminate].
  pose proof (makeAnti_len _ _ Ea) as Hla.
  destruct (anti_check d anti) as [|c|e] eqn:E1; [|intro H|discriminate].
  2:{ left. unfold anti_check in E1. destruct (negb (isAntiCapability anti)); [discriminate|].
      destruct (holds d anti) as [[|]|]; try discriminate. inversion E1; subst. eapply denied_truthy; eassumption. }
  apply anti_check_pass in E1.
  destruct chan as [ch|].
  - destruct (makeChannelCapability ch anti) as [ca|e] eqn:Eca; cbn [bind]; [|discriminate].
    pose proof (makeChan_len _ _ _ Eca) as Hlc.
    destruct (anti_check d ca) as [|c|e] eqn:E2; [|intro H|discriminate].
    2:{ left. unfold anti_check in E2. destruct (negb (isAntiCapability ca)); [discriminate|].
        destruct (holds d ca) as [[|]|]; try discriminate. inversion E2; subst. eapply denied_truthy; eassumption. }
    apply anti_check_pass in E2.
    destruct (makeChannelCapability ch n) as [cn|e] eqn:Ecn; cbn [bind]; [|discriminate].
    destruct (d_flag d && ch_default (getChannel d ch)) eqn:Edef.
    + intro H. inversion H; subst. right. split; [reflexivity|].
      exists anti. repeat split; try assumption. exists ca, cn. repeat split; try assumption. auto.
    + destruct (holds d n) as [[|]|e] eqn:E3; cbn [bind]; try discriminate.
      * intro H. inversion H; subst. right. split; [reflexivity|].
        exists anti. repeat split; try assumption. exists ca, cn. repeat split; try assumption. auto.
      * destruct (holds d cn) as [[|]|e] eqn:E4; cbn [bind]; try discriminate.
        -- intro H. inversion H; subst. right. split; [reflexivity|].
           exists anti. repeat split; try assumption. exists ca, cn. repeat split; try assumption. auto.
        -- intro H. inversion H; subst. left. reflexivity.
  - destruct (d_flag d) eqn:Edef.
    + intro H. inversion H; subst. right. split; [reflexivity|].
      exists anti. repeat split; try assumption. auto.
    + destruct (holds d n) as [[|]|e] eqn:E3; cbn [bind]; try discriminate.
      * intro H. inversion H; subst. right. split; [reflexivity|].
        exists anti. repeat split; try assumption. auto.
      * intro H. inversion H; subst. left. reflexivity.
Qed.

Lemma ccc_pass d chan n v :
  checkCommandCapability d chan n = Ok v -> truthy v = false -> name_passes d chan n.
Proof.
  intros H Ht. destruct (ccc_result _ _ _ _ H) as [H1|[_ H1]]; [congruence|exact H1].
Qed.

(* ---- the names _callCommand asks about ---- *)
Fixpoint prefixes (pre rest : list str) : list (list str) :=
  match rest with
  | [] => []
  | n :: r => (pre ++ [n]) :: prefixes (pre ++ [n]) r
  end.

Definition gate_names (canon : str) (command : list str) : list str :=
  match rev command with
  | [] => []
  | y :: _ => y :: map (join [DOT]) (prefixes [] (fullName canon command))
  end.

Lemma gate_loop_pass d chan plugin pre rest :
  gate_loop d chan plugin pre rest = Ok None ->
  Forall (fun names => name_passes d chan (join [DOT] names)) (prefixes pre rest).
Proof.
  revert pre. induction rest as [|n r IH]; intros pre H; cbn [prefixes]; [constructor|].
  cbn [gate_loop] in H.
  destruct (ccc_list d chan plugin (pre ++ [n])) as [v|e] eqn:Ec; cbn [bind] in H; [|discriminate].
  destruct (truthy v) eqn:Et; [discriminate|].
  constructor; [|apply IH; exact H].
  unfold ccc_list in Ec. destruct (pre ++ [n]) as [|h t] eqn:Ep; [discriminate|].
  destruct (negb (seq_eqb h plugin)); [discriminate|]. eapply ccc_pass; eassumption.
Qed.

(* C01_gate *)
Theorem gate_sound d chan nc plugin canon command pre m :
  In EvBody (callCommand_trace d chan nc plugin canon command pre m) ->
  Forall (name_passes d chan) (gate_names canon command).
Proof.
  unfold callCommand_trace, gate, gate_names.
  destruct (rev command) as [|y r] eqn:Er.
  - cbn. intros [H|[]]; discriminate.
  - destruct (checkCommandCapability d chan y) as [v|e] eqn:Ey; cbn [bind].
    2:{ cbn. intros [H|[]]; discriminate. }
    destruct (truthy v) eqn:Et.
    { rewrite gate_refusal_always. cbn. intros [H|[]]; discriminate. }
    destruct (gate_loop d chan plugin [] (fullName canon command)) as [[v'|]|e] eqn:El.
    { rewrite gate_refusal_always. cbn. intros [H|[]]; discriminate. }
    2:{ cbn. intros [H|[]]; discriminate. }
    intros _. constructor; [eapply ccc_pass; eassumption|].
    apply gate_loop_pass in El. rewrite Forall_map. exact El.
Qed.

(* the gate is the only way to the body: without a pass there is exactly one event *)
Lemma trace_no_body_if_refused d chan nc plugin canon command pre m v :
  gate d chan plugin canon command = Ok (Some v) ->
  callCommand_trace d chan nc plugin canon command pre m = [EvNoCap v].
Proof. unfold callCommand_trace. intro H. rewrite H. apply gate_refusal_always. Qed.

(* ---- well-formed names: totality and the refusal for a held anti-capability ---- *)
Definition wf_name (n : str) : bool := wf_cap n && negb (mem COMMA n) && negb (hd_is DASH n).
Definition chan_ok (chan : option str) : bool :=
  match chan with None => true | Some ch => isChannel ch && nows ch end.

Lemma wf_name_parts n :
  wf_name n = true -> wf_cap n = true /\ chan_parts n = None /\ hd_is DASH n = false.
Proof.
  unfold wf_name. intro H. apply andb_true_iff in H as [H H3]. apply andb_true_iff in H as [H1 H2].
  apply negb_true_iff in H2, H3. repeat split; try assumption.
  unfold chan_parts, isChannelCapability, split_comma. rewrite split1_char_none by exact H2. reflexivity.
Qed.

Lemma wf_name_pair n : wf_name n = true -> antipair n (DASH :: n).
Proof. intro H. destruct (wf_name_parts _ H) as [H1 [H2 H3]]. apply ap_plain; assumption. Qed.

Lemma isChannel_nocomma ch : isChannel ch = true -> mem COMMA ch = false.
Proof.
  unfold isChannel. intro H. repeat (apply andb_true_iff in H as [H ?]).
  match goal with Hx : negb (mem COMMA ch) = true |- _ => apply negb_true_iff in Hx; exact Hx end.
Qed.

Lemma makeAnti_plain n : wf_name n = true -> makeAntiCapability n = Ok (DASH :: n).
Proof.
  intro H. destruct (wf_name_parts _ H) as [H1 [H2 H3]].
  destruct (antipair_facts _ _ (wf_name_pair _ H)) as [Hc [_ [Hna _]]].
  unfold makeAntiCapability. rewrite Hc, Hna, H2. reflexivity.
Qed.

Lemma unAnti_plain n : wf_name n = true -> unAntiCapability (DASH :: n) = Ok n.
Proof.
  intro H. destruct (antipair_facts _ _ (wf_name_pair _ H)) as [_ [Ha [_ [Han _]]]].
  unfold unAntiCapability. rewrite Ha, Han, chan_parts_dash. reflexivity.
Qed.

Lemma wf_name_nonempty n : wf_name n = true -> nonempty n = true.
Proof.
  intro H. destruct (wf_name_parts _ H) as [H1 _]. unfold wf_cap in H1. apply andb_true_iff in H1 as [H1 _]. exact H1.
Qed.

(* holding -n refuses, and the refusal names n *)
Lemma ccc_denied_plain d chan n :
  wf_name n = true -> holds d (DASH :: n) = Ok true -> checkCommandCapability d chan n = Ok (PStr n).
Proof.
  intros H Hh. destruct (antipair_facts _ _ (wf_name_pair _ H)) as [_ [_ [_ [Han _]]]].
  unfold checkCommandCapability. rewrite (makeAnti_plain _ H). cbn [bind].
  unfold anti_check. rewrite Han, Hh. cbn [negb]. unfold denied. rewrite (unAnti_plain _ H). reflexivity.
Qed.

Lemma holds_total d c : wf_cap c = true -> exists b, holds d c = Ok b.
Proof. intro H. exact (check_total d c F0 H). Qed.

Lemma ccc_total d chan n :
  wf_name n = true -> chan_ok chan = true -> exists v, checkCommandCapability d chan n = Ok v.
Proof.
  intros H Hch. destruct (wf_name_parts _ H) as [Hwf [Hcp Hd]].
  pose proof (wf_name_pair _ H) as Hp.
  destruct (antipair_facts _ _ Hp) as [Hc [Ha [Hna [Han _]]]].
  unfold checkCommandCapability. rewrite (makeAnti_plain _ H). cbn [bind].
  unfold anti_check at 1. rewrite Han. cbn [negb].
  destruct (holds_total d (DASH :: n) (wf_dash _ Hwf)) as [b Hb]. rewrite Hb.
  destruct b.
  { unfold denied. rewrite (unAnti_plain _ H). cbn [bind]. eauto. }
  destruct chan as [ch|].
  - cbn [chan_ok] in Hch. apply andb_true_iff in Hch as [Hic Hnw].
    pose proof (isChannel_nocomma _ Hic) as Hnc.
    assert (Hp2 : antipair (ch ++ COMMA :: n) (ch ++ COMMA :: DASH :: n)) by (apply ap_chan; assumption).
    destruct (antipair_facts _ _ Hp2) as [Hc2 [Ha2 [Hna2 [Han2 _]]]].
    unfold makeChannelCapability at 1. rewrite Ha, Hic. cbn [negb bind app].
    unfold anti_check. rewrite Han2. cbn [negb].
    destruct (holds_total d (ch ++ COMMA :: DASH :: n) (wf_chan _ _ Hnw (wf_dash _ Hwf))) as [b2 Hb2]. rewrite Hb2.
    destruct b2.
    { unfold denied, unAntiCapability. rewrite Ha2, Han2. cbn [negb].
      destruct (chan_parts (ch ++ COMMA :: DASH :: n)) as [[? ?]|]; cbn [bind]; eauto. }
    unfold makeChannelCapability. rewrite Hc, Hic. cbn [negb bind app].
    destruct (d_flag d && ch_default (getChannel d ch)); [eauto|].
    destruct (holds_total d n Hwf) as [b3 Hb3]. rewrite Hb3. cbn [bind]. destruct b3; [eauto|].
    destruct (holds_total d (ch ++ COMMA :: n) (wf_chan _ _ Hnw Hwf)) as [b4 Hb4]. rewrite Hb4. cbn [bind]. eauto.
  - destruct (d_flag d); [eauto|].
    destruct (holds_total d n Hwf) as [b3 Hb3]. rewrite Hb3. cbn [bind]. eauto.
Qed.

Lemma fullName_head canon command :
  command <> [] -> exists h t, fullName canon command = h :: t /\ seq_eqb h canon = true.
Proof.
  intro Hne. destruct command as [|h t]; [congruence|]. unfold fullName.
  destruct (Nat.eqb (length (h :: t)) 1 || negb (seq_eqb h canon)) eqn:E.
  - exists canon, (h :: t). split; [reflexivity|apply seq_eqb_refl].
  - exists h, t. split; [reflexivity|]. apply orb_false_iff in E as [_ E]. apply negb_false_iff in E. exact E.
Qed.

(* not holding P  ==>  holding -P  ==>  the first prefix iteration refuses *)
Lemma not_holding_is_anti d P :
  wf_name P = true -> db_ok d = true -> holds d P = Ok false -> holds d (DASH :: P) = Ok true.
Proof.
  intros H Hok Hh. pose proof (anti_opp d P (DASH :: P) F0 (wf_name_pair _ H) Hok eq_refl) as Ho.
  unfold holds in *. rewrite Hh in Ho. inversion Ho. reflexivity.
Qed.

Theorem plugin_denied d chan nc P command pre m :
  wf_name P = true -> db_ok d = true -> chan_ok chan = true ->
  (forall y r, rev command = y :: r -> wf_name y = true) -> command <> [] ->
  holds d P = Ok false ->
  exists v, callCommand_trace d chan nc P P command pre m = [EvNoCap v].
Proof.
  intros HP Hok Hch Hy Hne Hh.
  unfold callCommand_trace, gate.
  destruct (rev command) as [|y r] eqn:Er.
  { apply (f_equal (@rev str)) in Er. rewrite rev_involutive in Er. cbn in Er. congruence. }
  destruct (ccc_total d chan y (Hy _ _ eq_refl) Hch) as [v Hv]. rewrite Hv. cbn [bind].
  destruct (truthy v) eqn:Et; [rewrite gate_refusal_always; eauto|].
  destruct (fullName_head P command Hne) as [h [t [Hf Hh2]]]. rewrite Hf.
  cbn [gate_loop app]. unfold ccc_list. rewrite Hh2. cbn [negb].
  apply seq_eqb_eq in Hh2. subst h. cbn [join].
  rewrite (ccc_denied_plain d chan P HP (not_holding_is_anti d P HP Hok Hh)). cbn [bind truthy].
  rewrite (wf_name_nonempty _ HP). rewrite gate_refusal_always. eauto.
Qed.

Lemma wf_owner : wf_name OWNER = true. Proof. vm_compute. reflexivity. Qed.
Lemma wf_admin : wf_name ADMIN = true. Proof. vm_compute. reflexivity. Qed.

Theorem owner_admin_denied d chan nc P command pre m :
  (P = OWNER \/ P = ADMIN) -> db_ok d = true -> chan_ok chan = true ->
  (forall y r, rev command = y :: r -> wf_name y = true) -> command <> [] ->
  holds d P = Ok false ->
  (exists v, callCommand_trace d chan nc P P command pre m = [EvNoCap v]) /\
  ~ In EvBody (callCommand_trace d chan nc P P command pre m).
Proof.
  intros HP Hok Hch Hy Hne Hh.
  assert (Hwf : wf_name P = true) by (destruct HP; subst; [exact wf_owner|exact wf_admin]).
  destruct (plugin_denied d chan nc P command pre m Hwf Hok Hch Hy Hne Hh) as [v Hv].
  split; [eauto|]. rewrite Hv. cbn. intros [H|[]]. discriminate.
Qed.

(* ---- non-vacuity ---- *)
Definition ex_db_unknown : db :=
  Db None false [] [ANTIOWNER; DASH :: ADMIN] [] true.
Definition LOAD : str := [108; 111; 97; 100].
Definition ECHO : str := [101; 99; 104; 111].
Definition UTIL : str := [117; 116; 105; 108; 105; 116; 105; 101; 115].
Definition CHAN : str := [35; 116; 101; 115; 116].

(* an unknown caller, `owner load` in #test: refused with the owner capability; `utilities echo`: the body runs *)
Example owner_load_refused :
  db_ok ex_db_unknown = true /\ holds ex_db_unknown OWNER = Ok false /\
  callCommand_trace ex_db_unknown (Some CHAN) [120] OWNER OWNER [LOAD] false None = [EvNoCap (PStr OWNER)] /\
  callCommand_trace ex_db_unknown (Some CHAN) [] OWNER OWNER [LOAD] false None = [EvNoCap (PStr OWNER)] /\
  callCommand_trace ex_db_unknown (Some CHAN) [] UTIL UTIL [ECHO] false None = [EvBody] /\
  gate_names UTIL [ECHO] = [ECHO; UTIL; UTIL ++ [DOT] ++ ECHO].
Proof. vm_compute. auto 8. Qed.
