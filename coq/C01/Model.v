(* C01/Model.v — executable model of the GATE every command passes through:
     callbacks.checkCommandCapability        (src/callbacks.py:432-461)
     Commands._callCommand / callCommand     (src/callbacks.py:1326-1389)
     the gating converters and the exception-catching contexts, Spec.__call__,
     the wrapper's state.errored test        (src/commands.py:503-514,599-658,857-1128)
     DefaultCapabilities.setValue            (src/ircdb.py:1321-1334)
     ircdb.checkIgnored                      (src/ircdb.py:1167-1201)
     PluginMixin.__call__ + the decision prefix of Owner.doPrivmsg
                                             (src/callbacks.py:1431-1444, plugins/Owner/plugin.py:230-268)
   Every capability question goes to C03's checkCapability (C03/Model.v); the
   capability algebra is C03's.  The command body is an opaque logged effect
   (EvBody).  Non-gating converters are opaque: their outcome is an input.
   No proofs here. *)
From Coq Require Import List NArith ZArith Bool Arith.
Import ListNotations.
Require Import Base.Wire Base.PyStr C03.Model.
Open Scope N_scope.

Definition DOT : N := 46.
Definition ADMIN : str := [97; 100; 109; 105; 110].
Definition TRUSTED : str := [116; 114; 117; 115; 116; 101; 100].

Definition str_in (s : str) (l : list str) : bool := existsb (seq_eqb s) l.

Definition F0 : flags := Flags false false false.
(* ircdb.checkCapability(msg.prefix, cap): the database snapshot [d] is the
   view of msg.prefix (user lookup is an input, as in C03) *)
Definition holds (d : db) (c : str) : res bool := checkCapability d c F0.

(* ---- checkCommandCapability ---- *)
(* its Python return value: False | True | the capability string *)
Inductive pyv := PFalse | PTrue | PStr (s : str).
Definition truthy (v : pyv) : bool :=
  match v with PFalse => false | PTrue => true | PStr s => nonempty s end.

(* the inner  def checkCapability(capability): assert isAnti; if holds: raise RuntimeError(capability) *)
Inductive inner := IPass | IDeny (c : str) | IRaise (e : exn).
Definition anti_check (d : db) (c : str) : inner :=
  if negb (isAntiCapability c) then IRaise AssertionError
  else match holds d c with
       | Ok true => IDeny c
       | Ok false => IPass
       | Raise e => IRaise e
       end.

(* except RuntimeError as e: return ircdb.unAntiCapability(str(e)) *)
Definition denied (c : str) : res pyv := do s <- unAntiCapability c; Ok (PStr s).

Definition checkCommandCapability (d : db) (chan : option str) (commandName : str) : res pyv :=
  do anti <- makeAntiCapability commandName;
  match anti_check d anti with
  | IRaise e => Raise e
  | IDeny c => denied c
  | IPass =>
      match chan with
      | Some ch =>
          do chanAnti <- makeChannelCapability ch anti;
          match anti_check d chanAnti with
          | IRaise e => Raise e
          | IDeny c => denied c
          | IPass =>
              do chanCommand <- makeChannelCapability ch commandName;
              (* default &= ircdb.channels.getChannel(channel).defaultAllow *)
              if d_flag d && ch_default (getChannel d ch) then Ok PFalse
              else do b1 <- holds d commandName;
                   if b1 then Ok PFalse
                   else do b2 <- holds d chanCommand; Ok (if b2 then PFalse else PTrue)
          end
      | None =>
          if d_flag d then Ok PFalse
          else do b1 <- holds d commandName; Ok (if b1 then PFalse else PTrue)
      end
  end.

(* commandName given as a list: plugin = cb.canonicalName(); assert commandName[0] == plugin; '.'.join
   ([plugin] is that canonical name: _callCommand passes the same string as [canon]) *)
Definition ccc_list (d : db) (chan : option str) (plugin : str) (names : list str) : res pyv :=
  match names with
  | [] => Raise IndexError
  | h :: _ => if negb (seq_eqb h plugin) then Raise AssertionError
              else checkCommandCapability d chan (join [DOT] names)
  end.

(* ---- _callCommand: the "Y" check, then "P", "P.X", "P.X.Y" ---- *)
Definition fullName (canon : str) (command : list str) : list str :=
  match command with
  | [] => canon :: command
  | h :: t => if Nat.eqb (length command) 1 || negb (seq_eqb h canon) then canon :: command else command
  end.

Fixpoint gate_loop (d : db) (chan : option str) (plugin : str) (pre rest : list str) : res (option pyv) :=
  match rest with
  | [] => Ok None
  | n :: rest' =>
      let pre' := pre ++ [n] in
      do v <- ccc_list d chan plugin pre';
      if truthy v then Ok (Some v) else gate_loop d chan plugin pre' rest'
  end.

Definition gate (d : db) (chan : option str) (plugin canon : str) (command : list str) : res (option pyv) :=
  match rev command with
  | [] => Raise IndexError                         (* command[-1] *)
  | y :: _ =>
      do v <- checkCommandCapability d chan y;
      if truthy v then Ok (Some v) else gate_loop d chan plugin [] (fullName canon command)
  end.

(* ---- what the caller can observe of one _callCommand ---- *)
Inductive event :=
| EvNoCap (v : pyv)        (* irc.errorNoCapability(v) aborted the command: one error reply, none when the configured text is blank *)
| EvError                  (* callbacks.Error from a non-gating converter -> irc.error(str(e)) *)
| EvHelp                   (* ArgumentError / GetoptError -> the command's help *)
| EvInternal (e : exn)     (* uncaught exception -> replyError *)
| EvFlood                  (* Owner.doPrivmsg's flood notice *)
| EvBody.                  (* the command body is entered *)

(* ---- RichReplyMethods._error / errorNoCapability (src/callbacks.py:552-580) ----
   [text] = the configured supybot.replies.noCapability / genericNoCapability message after `v %= capability`
   and __makeReply (an input; it is blank exactly when the operator configured a blank message).
     def _error(self, s, Raise=False, **kwargs):
         if Raise: raise Error(s)
         else: return self.error(s, **kwargs)
     def errorNoCapability(self, capability, s='', **kwargs):
         if 'Raise' not in kwargs: kwargs['Raise'] = True
         ...
         if s: return self._error(s, **kwargs)
         elif kwargs['Raise']: raise Error() *)
Inductive enc_out :=
| EncRaise (text : str)      (* raise Error(text): the caller is aborted *)
| EncReplied (text : str)    (* self.error(text) was sent and the method RETURNED: the caller goes on *)
| EncNothing.                (* returned without doing anything: the caller goes on *)

Definition error_ (text : str) (raise_ : bool) : enc_out :=
  if raise_ then EncRaise text else EncReplied text.

(* raise_kw: None = the call site gives no Raise keyword (the method then sets it to True) *)
Definition errorNoCapability (text : str) (raise_kw : option bool) : enc_out :=
  let r := match raise_kw with None => true | Some b => b end in
  if nonempty text then error_ text r
  else if r then EncRaise [] else EncNothing.

(* an in-body check  `if not ircdb.checkCapability(prefix, cap): irc.errorNoCapability(cap, Raise=kw)`
   followed by the rest of the body (its effects are [rest]) *)
Inductive bev := BDenied (text : str) | BReply (text : str) | BEffect (n : N).
Definition inbody_check (holds_cap : bool) (text : str) (raise_kw : option bool) (rest : list bev) : list bev :=
  if holds_cap then rest
  else match errorNoCapability text raise_kw with
       | EncRaise t => [BDenied t]               (* Error propagates to _callCommand: irc.error(t), nothing else *)
       | EncReplied t => BReply t :: rest        (* falls through *)
       | EncNothing => rest                      (* falls through *)
       end.

(* ---- Channel._voice (plugins/Channel/plugin.py:190-205): the one command helper of the bundled plugins that
   picks the capability it requires from its ARGUMENTS (commands `channel voice` and `channel devoice`) ----
     if nicks:
         if len(nicks) == 1 and msg.nick in nicks: capability = 'voice'
         else: capability = 'op'
     else:
         nicks = [msg.nick]; capability = 'voice'
     capability = ircdb.makeChannelCapability(channel, capability)
     if ircdb.checkCapability(msg.prefix, capability): self._sendMsgs(irc, nicks, f)      (MODE +v/-v on nicks)
     else: irc.errorNoCapability(capability) *)
Definition VOICE : str := [118; 111; 105; 99; 101].
Definition voice_word (nicks : list str) (caller : str) : str :=
  match nicks with
  | [] => VOICE
  | _ => if Nat.eqb (length nicks) 1 && str_in caller nicks then VOICE else OP     (* `in` on a list of str: exact comparison *)
  end.
Definition voice_targets (nicks : list str) (caller : str) : list str :=
  match nicks with [] => [caller] | _ => nicks end.

Inductive vout :=
| VMode (targets : list str)      (* the MODE change is sent for these nicks *)
| VDenied (cap : str)             (* irc.errorNoCapability(cap): aborted (C01_denial_aborts) *)
| VRaise (e : exn).
Definition voice_body (d : db) (channel : str) (nicks : list str) (caller : str) : vout :=
  match makeChannelCapability channel (voice_word nicks caller) with
  | Raise e => VRaise e
  | Ok cap =>
      match holds d cap with
      | Ok true => VMode (voice_targets nicks caller)
      | Ok false => VDenied cap
      | Raise e => VRaise e
      end
  end.

(* ---- Config.channel with a value (plugins/Config/plugin.py:65-82,107-114,295-298,313-330):
   `config channel [<network>] #a,#b,... <name> <value>` writes the channel-specific value for every listed channel,
   each write going through _setValue = checkCanSetValue ; group.set(value):
     for channel in channels:
         assert irc.isChannel(channel)
         self._setValue(irc, msg, group.get(channel), value)
         if network != '*':
             self._setValue(irc, msg, group.get(':' + network.network).get(channel), value)
     irc.replySuccess()
   checkCanSetValue: isReadOnly -> error(Raise=True); capability = getCapability(irc, group._name);
                     if not ircdb.checkCapability(msg.prefix, capability): irc.errorNoCapability(capability, Raise=True)
   getCapability: 'owner' unless a part of the name is a channel -> '<channel>,op'; 'owner' again if some node on the
   path is not _opSettable ([opset] is that input, [readonly] is isReadOnly(name)). *)
Inductive cw :=
| CWrite (ch : str) (net : bool)   (* group.get(ch).set(value) / the :network twin *)
| CDenied (cap : str)              (* errorNoCapability(cap, Raise=True): aborted, nothing more is written *)
| CReadOnly                        (* irc.error(..., Raise=True) *)
| CSuccess
| CRaiseW (e : exn).

Definition config_cap (opset : bool) (ch : str) : res str :=
  if opset then makeChannelCapability ch OP else Ok OWNER.

(* one _setValue on the node of channel ch; k = what follows when it is allowed *)
Definition set_value (d : db) (opset readonly : bool) (ch : str) (net : bool) (k : list cw) : list cw :=
  if readonly then [CReadOnly]
  else match config_cap opset ch with
       | Raise e => [CRaiseW e]
       | Ok cap => match holds d cap with
                   | Ok true => CWrite ch net :: k
                   | Ok false => [CDenied cap]
                   | Raise e => [CRaiseW e]
                   end
       end.

Fixpoint config_channel_set (d : db) (opset readonly netspec : bool) (channels : list str) : list cw :=
  match channels with
  | [] => [CSuccess]
  | ch :: r =>
      let rest := config_channel_set d opset readonly netspec r in
      set_value d opset readonly ch false (if netspec then set_value d opset readonly ch true rest else rest)
  end.

(* ---- converters ---- *)
Record cstate := CS { s_chan : option str;     (* state.channel *)
                      s_err : bool }.          (* state.errored *)
Inductive cexn := XErr (ev : event) | XArg | XIdx | XPy (e : exn).
(* state-then-raise: the state a converter leaves behind when it raises *)
Inductive cres := COk (s : cstate) | CFail (x : cexn) (s : cstate).

Inductive gateconv :=
| GOwner | GAdmin
| GCap (c : str)                         (* ('checkCapability', c) *)
| GCapIO (c : str)                       (* ('checkCapabilityButIgnoreOwner', c) *)
| GChan (c : str) (argchan : option str).  (* ('checkChannelCapability', c), 'op', 'halfop', 'voice';
                                              argchan = Some ch when args[0] is a channel name *)
(* outcome of a converter that asks no capability question (input) *)
Inductive oout := OOk | OErr | OArg | OIdx | OSoft | OPy.

Inductive conv :=
| Gate (g : gateconv)
| Opaque (o : oout)
| GetChan (argchan : option str)         (* 'channel': commands.getChannel *)
| Optional (c : conv)                    (* catches IndexError, ArgumentError, Error; errored := False *)
| Additional (c : conv)                  (* catches IndexError *)
| First2 (a b : conv)                    (* first(a, b): any exception of a -> errored := False, try b *)
| Rest (hasargs : bool) (c : conv)       (* rest: catches every exception *)
| Loop (n : nat) (coe : bool) (c : conv). (* any/many: c on a copy of the state while args remain *)

Definition canonicalCapability (c : str) : res str :=
  if isCapability c then Ok (lower c) else Raise AssertionError.

Definition getChannel_conv (msgchan argchan : option str) (s : cstate) : cres :=
  match s_chan s with
  | Some _ => COk s
  | None =>
      match argchan with
      | Some ch => COk (CS (Some ch) (s_err s))
      | None => match msgchan with
                | Some ch => COk (CS (Some ch) (s_err s))
                | None => CFail XArg s
                end
      end
  end.

Definition gate_flags (g : gateconv) : flags :=
  match g with GCapIO _ => Flags true false false | _ => F0 end.

(* the capability a gating converter asks for, and the state after commands.getChannel *)
Definition gate_cap (msgchan : option str) (g : gateconv) (s : cstate) : cres * res str :=
  match g with
  | GOwner => (COk s, canonicalCapability OWNER)
  | GAdmin => (COk s, canonicalCapability ADMIN)
  | GCap c => (COk s, canonicalCapability c)
  | GCapIO c => (COk s, canonicalCapability c)
  | GChan c a =>
      match getChannel_conv msgchan a s with
      | COk s' =>
          (COk s', do cap <- canonicalCapability c;
                   match s_chan s' with
                   | Some ch => makeChannelCapability ch cap
                   | None => Raise AssertionError
                   end)
      | CFail x s' => (CFail x s', Raise OtherError)
      end
  end.

Definition run_gate (d : db) (msgchan : option str) (nc : str) (g : gateconv) (s : cstate) : cres :=
  match gate_cap msgchan g s with
  | (CFail x s', _) => CFail x s'
  | (COk s', Raise e) => CFail (XPy e) s'
  | (COk s', Ok cap) =>
      match checkCapability d cap (gate_flags g) with
      | Ok true => COk s'
      | Ok false =>
          (* state.errorNoCapability(cap, Raise=True): State.__getattr__ sets errored, then the irc method runs *)
          match errorNoCapability nc (Some true) with
          | EncRaise _ => CFail (XErr (EvNoCap (PStr cap))) (CS (s_chan s') true)
          | _ => COk (CS (s_chan s') true)         (* it returned: the converter returns too, errored stays set *)
          end
      | Raise e => CFail (XPy e) s'
      end
  end.

Definition run_opaque (o : oout) (s : cstate) : cres :=
  match o with
  | OOk => COk s
  | OErr => CFail (XErr EvError) (CS (s_chan s) true)    (* state.error(..., Raise=True) *)
  | OArg => CFail XArg s
  | OIdx => CFail XIdx s
  | OSoft => COk (CS (s_chan s) true)                    (* state.error(...) without Raise *)
  | OPy => CFail (XPy OtherError) s
  end.

(* any/many: st = state.essence(); while args: c(st) — the caller's state [s] is untouched;
   k = how many iterations the remaining arguments allow (input) *)
Fixpoint loop_it (f : cstate -> cres) (coe : bool) (s : cstate) (k : nat) (st : cstate) : cres :=
  match k with
  | O => COk s
  | S k' =>
      match f st with
      | COk st' => loop_it f coe s k' st'
      | CFail XIdx _ => COk s
      | CFail (XErr ev) _ => if coe then COk s else CFail (XErr ev) s
      | CFail XArg _ => if coe then COk s else CFail XArg s
      | CFail x _ => CFail x s
      end
  end.

Fixpoint run_conv (d : db) (msgchan : option str) (nc : str) (c : conv) (s : cstate) : cres :=
  match c with
  | Gate g => run_gate d msgchan nc g s
  | Opaque o => run_opaque o s
  | GetChan a => getChannel_conv msgchan a s
  | Optional c' =>
      match run_conv d msgchan nc c' s with
      | COk s' => COk s'
      | CFail XIdx s' => COk s'                          (* additional's handler *)
      | CFail (XErr _) s' | CFail XArg s' => COk (CS (s_chan s') false)
      | CFail x s' => CFail x s'
      end
  | Additional c' =>
      match run_conv d msgchan nc c' s with
      | CFail XIdx s' => COk s'
      | r => r
      end
  | First2 a b =>
      match run_conv d msgchan nc a s with
      | COk s' => COk s'
      | CFail _ s' => run_conv d msgchan nc b (CS (s_chan s') false)
      end
  | Rest hasargs c' =>
      if hasargs then
        match run_conv d msgchan nc c' s with
        | COk s' => COk s'
        | CFail _ s' => COk s'
        end
      else CFail XIdx s
  | Loop n coe c' => loop_it (run_conv d msgchan nc c') coe s n s
  end.

(* Spec.__call__: converters in order; IndexError becomes ArgumentError *)
Fixpoint run_spec (d : db) (msgchan : option str) (nc : str) (l : list conv) (s : cstate) : cres :=
  match l with
  | [] => COk s
  | c :: l' =>
      match run_conv d msgchan nc c s with
      | COk s' => run_spec d msgchan nc l' s'
      | CFail XIdx s' => CFail XArg s'
      | r => r
      end
  end.

(* the handlers of _callCommand *)
Definition handler (x : cexn) : event :=
  match x with
  | XErr ev => ev
  | XArg => EvHelp
  | XIdx => EvInternal IndexError
  | XPy e => EvInternal e
  end.

(* a command method: None = a plain method(irc, msg, args); Some (spec, extra) =
   wrap(f, spec), extra = "arguments remain and not allowExtra" (input) *)
Definition method := option (list conv * bool).

Definition call_method (d : db) (msgchan : option str) (nc : str) (m : method) : list event :=
  match m with
  | None => [EvBody]
  | Some (spec, extra) =>
      match run_spec d msgchan nc spec (CS None false) with
      | COk s => if extra then [EvHelp] else if s_err s then [] else [EvBody]
      | CFail x _ => [handler x]
      end
  end.

(* Commands._callCommand; pre_blocked = some pre_command_callback returned True *)
(* irc.errorNoCapability(cap) ; return   -- in _callCommand, after a truthy checkCommandCapability *)
Definition gate_refusal (nc : str) (v : pyv) : list event :=
  match errorNoCapability nc None with
  | EncNothing => []                (* it returned silently; the explicit `return` still ends the command *)
  | _ => [EvNoCap v]
  end.

Definition callCommand_trace (d : db) (chan : option str) (nc : str) (plugin canon : str) (command : list str)
           (pre_blocked : bool) (m : method) : list event :=
  match gate d chan plugin canon command with
  | Raise e => [EvInternal e]
  | Ok (Some v) => gate_refusal nc v
  | Ok None => if pre_blocked then [] else call_method d chan nc m
  end.

(* ---- DefaultCapabilities.setValue ---- *)
Definition cs_of_list (v : list str) : res cset :=
  fold_left (fun r c => do acc <- r; cs_add acc c) v (Ok []).

(* the new value; Raise = CapabilitySet(v) raised, the old value stays.
   `'-owner' not in set(self.value)`: plain membership among the stored
   (folded) elements, not CapabilitySet.__contains__ *)
Definition setValue (v : list str) (allowDefaultOwner : bool) : res cset :=
  do cs <- cs_of_list v;
  if negb (smem ANTIOWNER cs) && negb allowDefaultOwner then cs_add cs ANTIOWNER else Ok cs.

Definition setValues (init : cset) (vs : list (list str * bool)) : cset :=
  fold_left (fun cur va => match setValue (fst va) (snd va) with Ok cs => cs | Raise _ => cur end) vs init.

(* ---- ircdb.checkIgnored ---- *)
Record ign := Ign {
  i_user : option user;        (* users.getUser(users.getUserId(hostmask)); None = KeyError *)
  i_defaultIgnore : bool;      (* conf.supybot.defaultIgnore() *)
  i_global : bool;             (* ignores.checkIgnored(hostmask) *)
  i_rcpt_chan : bool;          (* ircutils.isChannel(recipient) *)
  i_chan : bool                (* channels.getChannel(recipient).checkIgnored(hostmask) *)
}.

Definition ign_tail (i : ign) : bool := i_global i || (i_rcpt_chan i && i_chan i).

Definition checkIgnored (i : ign) : res bool :=
  match i_user i with
  | None => if i_defaultIgnore i then Ok true else Ok (ign_tail i)
  | Some u =>
      match user_check u TRUSTED false with
      | Ok true => Ok false                               (* trusted users (and owners) are never ignored *)
      | Ok false | Raise KeyError => if u_ignore u then Ok true else Ok (ign_tail i)
      | Raise e => Raise e
      end
  end.

(* ---- PluginMixin.__call__ (for PRIVMSG) and Owner.doPrivmsg up to the dispatch ---- *)
Record dsp := Dsp {
  p_noIgnore : bool;           (* the plugin's noIgnore (Owner: False) *)
  p_noprefix : bool;           (* not msg.prefix *)
  p_userhost : bool;           (* ircutils.isUserHostmask(msg.prefix) *)
  p_ign_chan : ign;            (* inputs of checkIgnored(msg.prefix, msg.channel) *)
  p_ctcp : bool;               (* ircmsgs.isCtcp(msg) *)
  p_addressed : bool;          (* callbacks.addressed(irc, msg) is non-empty *)
  p_ign : ign;                 (* inputs of checkIgnored(msg.prefix) *)
  p_flood : bool;              (* flood.command() and commands.len(msg) > maximum *)
  p_notify : bool;             (* flood.command.notify() *)
  p_syntax : bool              (* tokenize raises SyntaxError *)
}.

Definition doPrivmsg (d : db) (p : dsp) (inner : list event) : res (list event) :=
  if p_ctcp p then Ok []
  else if negb (p_addressed p) then Ok []
  else do ig <- checkIgnored (p_ign p);
       if ig then Ok []
       else do flooded <- (if p_flood p then do t <- holds d TRUSTED; Ok (negb t) else Ok false);
            if flooded then Ok (if p_notify p then [EvFlood] else [])
            else if p_syntax p then Ok [EvError]
            else Ok inner.

Definition pluginCall (d : db) (p : dsp) (inner : list event) : res (list event) :=
  if p_noIgnore p || p_noprefix p || negb (p_userhost p) then doPrivmsg d p inner
  else do ig <- checkIgnored (p_ign_chan p);
       if ig then Ok [] else doPrivmsg d p inner.


(* ---- Scheduler._makeCommandFunction.f (plugins/Scheduler/plugin.py): a command replayed later by the scheduler does not
   pass Owner.doPrivmsg again, so the function itself drops it when the user who scheduled it is ignored NOW:
     def _isIgnored(self, msg): return ircutils.isUserHostmask(msg.prefix) and ircdb.checkIgnored(msg.prefix, msg.channel)
     def f(): ... if self._isIgnored(msg): return ; self.Proxy(irc, msg, tokens)
   [i] = the inputs of checkIgnored(msg.prefix, msg.channel) at the time the event fires. *)
Definition scheduled_fire (userhost : bool) (i : ign) (inner : list event) : res (list event) :=
  if userhost then do ig <- checkIgnored i; if ig then Ok [] else Ok inner
  else Ok inner.

(* ---- wire ---- *)
Definition vPyv (v : pyv) : value :=
  match v with PFalse => L [I 0%Z] | PTrue => L [I 1%Z] | PStr s => L [I 2%Z; vS s] end.
Definition vEvent (e : event) : value :=
  match e with
  | EvNoCap v => L [I 0%Z; vPyv v]
  | EvError => L [I 1%Z]
  | EvHelp => L [I 2%Z]
  | EvInternal x => L [I 3%Z; I (exn_code x)]
  | EvFlood => L [I 4%Z]
  | EvBody => L [I 5%Z]
  end.
Definition vEvents (l : list event) : value := L (map vEvent l).

Definition gGate (v : value) : gateconv :=
  match gN (nth_v 0 v) with
  | 0 => GOwner
  | 1 => GAdmin
  | 2 => GCap (gS (nth_v 1 v))
  | 3 => GCapIO (gS (nth_v 1 v))
  | _ => GChan (gS (nth_v 1 v)) (gO gS (nth_v 2 v))
  end.
Definition gOout (v : value) : oout :=
  match gN v with 0 => OOk | 1 => OErr | 2 => OArg | 3 => OIdx | 4 => OSoft | _ => OPy end.

(* conv on the wire: (tag payload...) ; fuel-bounded decoder (value is not structurally
   visible through gL, so recursion is on an explicit depth) *)
Fixpoint gConv (fuel : nat) (v : value) : conv :=
  match fuel with
  | O => Opaque OPy
  | S f =>
      match gN (nth_v 0 v) with
      | 0 => Gate (gGate (nth_v 1 v))
      | 1 => Opaque (gOout (nth_v 1 v))
      | 2 => GetChan (gO gS (nth_v 1 v))
      | 3 => Optional (gConv f (nth_v 1 v))
      | 4 => Additional (gConv f (nth_v 1 v))
      | 5 => First2 (gConv f (nth_v 1 v)) (gConv f (nth_v 2 v))
      | 6 => Rest (gB (nth_v 1 v)) (gConv f (nth_v 2 v))
      | _ => Loop (N.to_nat (gN (nth_v 1 v))) (gB (nth_v 2 v)) (gConv f (nth_v 3 v))
      end
  end.
Definition gMethod (v : value) : method :=
  match gL v with
  | [] => None
  | x :: _ => Some (map (gConv 8) (gL (nth_v 0 x)), gB (nth_v 1 x))
  end.
Definition gIgn (v : value) : ign :=
  Ign (gO gUser (nth_v 0 v)) (gB (nth_v 1 v)) (gB (nth_v 2 v)) (gB (nth_v 3 v)) (gB (nth_v 4 v)).
Definition gDsp (v : value) : dsp :=
  Dsp (gB (nth_v 0 v)) (gB (nth_v 1 v)) (gB (nth_v 2 v)) (gIgn (nth_v 3 v)) (gB (nth_v 4 v)) (gB (nth_v 5 v))
      (gIgn (nth_v 6 v)) (gB (nth_v 7 v)) (gB (nth_v 8 v)) (gB (nth_v 9 v)).

(* run (op payload):
   0: checkCommandCapability (db chan name)                 -> res pyv
   1: _callCommand (db chan plugin canon command pre method nctext) -> events
   2: setValues (init ((v allow) ...))                       -> set
   3: checkIgnored (ign)                                     -> res bool
   4: pluginCall (db dsp (db chan plugin canon command pre method)) -> res events
   5: ccc_list (db chan plugin names)                        -> res pyv *)
Definition run (v : value) : value :=
  let p := nth_v 1 v in
  let call q := callCommand_trace (gDb (nth_v 0 q)) (gO gS (nth_v 1 q)) (gS (nth_v 7 q)) (gS (nth_v 2 q)) (gS (nth_v 3 q))
                                  (gLS (nth_v 4 q)) (gB (nth_v 5 q)) (gMethod (nth_v 6 q)) in
  match gN (nth_v 0 v) with
  | 0 => vR vPyv (checkCommandCapability (gDb (nth_v 0 p)) (gO gS (nth_v 1 p)) (gS (nth_v 2 p)))
  | 1 => vEvents (call p)
  | 2 => vLS (setValues (gSet (nth_v 0 p)) (map (fun x => (gLS (nth_v 0 x), gB (nth_v 1 x))) (gL (nth_v 1 p))))
  | 3 => vR vB (checkIgnored (gIgn p))
  | 4 => vR vEvents (pluginCall (gDb (nth_v 0 p)) (gDsp (nth_v 1 p)) (call (nth_v 2 p)))
  | 5 => vR vPyv (ccc_list (gDb (nth_v 0 p)) (gO gS (nth_v 1 p)) (gS (nth_v 2 p)) (gLS (nth_v 3 p)))
  | 6 => (* errorNoCapability (text raise_kw) -> (0 text) raise | (1 text) replied+returned | (2) returned *)
         match errorNoCapability (gS (nth_v 0 p)) (gO gB (nth_v 1 p)) with
         | EncRaise t => L [I 0%Z; vS t] | EncReplied t => L [I 1%Z; vS t] | EncNothing => L [I 2%Z]
         end
  | 7 => (* Channel._voice (db channel nicks caller) -> (0 targets) | (1 cap) | (2 exn) *)
         match voice_body (gDb (nth_v 0 p)) (gS (nth_v 1 p)) (gLS (nth_v 2 p)) (gS (nth_v 3 p)) with
         | VMode t => L [I 0%Z; vLS t] | VDenied c => L [I 1%Z; vS c] | VRaise e => L [I 2%Z; I (exn_code e)]
         end
  | 8 => (* Config.channel write (db opset readonly netspec channels) -> ((0 ch net) | (1 cap) | (2) | (3) | (4 exn))* *)
         L (map (fun w => match w with
                          | CWrite ch n => L [I 0%Z; vS ch; vB n] | CDenied c => L [I 1%Z; vS c] | CReadOnly => L [I 2%Z]
                          | CSuccess => L [I 3%Z] | CRaiseW e => L [I 4%Z; I (exn_code e)] end)
                 (config_channel_set (gDb (nth_v 0 p)) (gB (nth_v 1 p)) (gB (nth_v 2 p)) (gB (nth_v 3 p)) (gLS (nth_v 4 p))))
  | 9 => (* scheduled replay (userhost ign) -> 0 dropped | 1 runs | 2 raises *)
         match scheduled_fire (gB (nth_v 0 p)) (gIgn (nth_v 1 p)) [EvBody] with
         | Ok [] => I 0%Z | Ok _ => I 1%Z | Raise _ => I 2%Z end
  | _ => L []
  end.
