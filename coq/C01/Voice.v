(* C01/Voice.v — Channel._voice: (de)voicing anybody but oneself takes #channel,op *)
From Coq Require Import List NArith ZArith Bool Arith Lia.
Import ListNotations.
Require Import Base.Wire Base.PyStr C03.Model C01.Model.
Open Scope N_scope.

Lemma str_in_In x l : str_in x l = true <-> In x l.
Proof.
  unfold str_in. rewrite existsb_exists. split.
  - intros [y [Hy He]]. apply seq_eqb_eq in He. subst. exact Hy.
  - intro H. exists x. split; [exact H|apply seq_eqb_refl].
Qed.

(* the word chosen is `voice` only when the only target is the caller *)
Lemma voice_word_self nicks caller :
  voice_word nicks caller = VOICE \/ voice_word nicks caller = OP.
Proof. unfold voice_word. destruct nicks; [auto|]. destruct (_ && _); auto. Qed.

Lemma voice_word_voice_targets nicks caller :
  voice_word nicks caller = VOICE -> voice_targets nicks caller = [caller].
Proof.
  unfold voice_word, voice_targets. destruct nicks as [|n [|m r]]; [reflexivity| |].
  - cbn [length Nat.eqb andb]. destruct (str_in caller [n]) eqn:E; [|discriminate].
    intros _. apply str_in_In in E. destruct E as [E|[]]. subst. reflexivity.
  - cbn [length Nat.eqb andb]. discriminate.
Qed.

(* C01_voice: if the MODE change is sent, the caller holds #channel,voice or #channel,op; and if any target is
   not the caller himself, the caller holds #channel,op *)
Theorem voice_gate d channel nicks caller targets :
  voice_body d channel nicks caller = VMode targets ->
  targets = voice_targets nicks caller /\
  (exists cap, makeChannelCapability channel (voice_word nicks caller) = Ok cap /\ holds d cap = Ok true) /\
  ((exists n, In n targets /\ n <> caller) ->
   exists cap, makeChannelCapability channel OP = Ok cap /\ holds d cap = Ok true).
Proof.
  unfold voice_body. destruct (makeChannelCapability channel (voice_word nicks caller)) as [cap|e] eqn:Ec; [|discriminate].
  destruct (holds d cap) as [[|]|e] eqn:Eh; try discriminate.
  intro H. inversion H; subst targets. split; [reflexivity|]. split; [eauto|].
  intros [n [Hin Hne]]. destruct (voice_word_self nicks caller) as [Hw|Hw].
  - rewrite (voice_word_voice_targets _ _ Hw) in Hin. destruct Hin as [Hin|[]]. congruence.
  - rewrite Hw in Ec. eauto.
Qed.

(* a caller who does not hold the chosen capability gets the denial and no MODE *)
Theorem voice_denied d channel nicks caller cap :
  makeChannelCapability channel (voice_word nicks caller) = Ok cap -> holds d cap = Ok false ->
  voice_body d channel nicks caller = VDenied cap.
Proof. intros Hc Hh. unfold voice_body. rewrite Hc, Hh. reflexivity. Qed.

(* non-vacuity, and the shapes the seeded simplification got wrong: the caller's own nick next to another nick *)
Definition ME : str := [109; 101].  Definition YOU : str := [121; 111; 117].
Definition TCH : str := [35; 116].
Definition db_voiced : db := Db (Some (User [TCH ++ [COMMA] ++ VOICE] false false)) true [] [ANTIOWNER] [] true.
Example voice_examples :
  voice_body db_voiced TCH [] ME = VMode [ME] /\
  voice_body db_voiced TCH [ME] ME = VMode [ME] /\
  voice_body db_voiced TCH [YOU] ME = VDenied (TCH ++ [COMMA] ++ OP) /\
  voice_body db_voiced TCH [ME; YOU] ME = VDenied (TCH ++ [COMMA] ++ OP) /\
  voice_body db_voiced TCH [YOU; ME] ME = VDenied (TCH ++ [COMMA] ++ OP) /\
  voice_body db_voiced TCH [ME; ME] ME = VDenied (TCH ++ [COMMA] ++ OP).
Proof. vm_compute. auto 8. Qed.
