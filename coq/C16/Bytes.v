(* C16/Bytes.v — what is written to disk is decoded back to the same text, whatever the locale *)
From Coq Require Import List NArith ZArith Bool.
Import ListNotations.
Require Import Base.Wire Base.PyStr C16.Model C16.Roundtrip.
Require gen.T16 C13.Utf8.
Open Scope N_scope.

(* pinned from the source: both readers pass encoding='utf8' *)
Lemma reader_utf8 : gen.T16.READER_DECODES_UTF8 = true. Proof. reflexivity. Qed.
Lemma ign_reader_utf8 : gen.T16.IGN_READER_DECODES_UTF8 = true. Proof. reflexivity. Qed.

Lemma reread_ok locale text : forallb C13.Utf8.scalar text = true -> reread locale text = Ok text.
Proof.
  intro H. unfold reread, file_bytes. destruct (C13.Utf8.utf8_encode_ok _ H) as [b E]. rewrite E. cbn [bind].
  rewrite reader_utf8. cbn [reader_enc decode_as]. apply (C13.Utf8.utf8_decode_encode _ _ E).
Qed.

Lemma reread_ign_ok locale text : forallb C13.Utf8.scalar text = true -> reread_ign locale text = Ok text.
Proof.
  intro H. unfold reread_ign, file_bytes. destruct (C13.Utf8.utf8_encode_ok _ H) as [b E]. rewrite E. cbn [bind].
  rewrite ign_reader_utf8. cbn [reader_enc decode_as]. apply (C13.Utf8.utf8_decode_encode _ _ E).
Qed.

(* what the locale-dependent open() did (reader_enc false): "é" comes back as "Ã©" under latin-1 and the
   file cannot be read at all under an ASCII locale *)
Definition s_eacute : str := [233].
Lemma locale_decoding_refuted :
  forallb C13.Utf8.scalar s_eacute = true /\
  (do b <- file_bytes s_eacute; decode_as (reader_enc false ELatin1) b) = Ok [195; 169] /\
  (do b <- file_bytes s_eacute; decode_as (reader_enc false EAscii) b) = Raise UnicodeError.
Proof. repeat split; vm_compute; reflexivity. Qed.

Lemma users_disk_roundtrip locale db :
  users_dom db = true -> forallb C13.Utf8.scalar (write_users db) = true ->
  exists t, reread locale (write_users db) = Ok t /\
            read_users t = (UState None (sort_users db) (max_id (sort_users db) 0%Z), None).
Proof.
  intros Hd Hs. exists (write_users db). split; [apply reread_ok; exact Hs|apply users_roundtrip; exact Hd].
Qed.
