(* C16/Model.v — executable model of the four on-disk databases of src/ircdb.py:
   writers  IrcUser/IrcChannel/IrcNetwork.preserve + the flush methods + IgnoresDB.flush,
   reader   unpreserve.Reader.read driving IrcUserCreator / IrcChannelCreator /
            IrcNetworkCreator (with their class-level variables), and IgnoresDB.open.
   Everything works on the full file text (str = list of code points):
       write_users : list user -> str          read_users : str -> load_result
   (C02 re-uses exactly these two).  Mirrors the Python statement by statement,
   defects included.  No proofs in this file. *)
From Coq Require Import List NArith ZArith Bool Arith.
Import ListNotations.
Require Import Base.Wire Base.PyStr.
Require gen.T16.
Require C13.Utf8.
Open Scope N_scope.

Definition SP : N := 32.   Definition TAB : N := 9.    Definition LF : N := 10.
Definition CR : N := 13.   Definition HASH : N := 35.  Definition COMMA : N := 44.
Definition DASH : N := 45. Definition BANG : N := 33.  Definition AT : N := 64.
Definition STAR : N := 42. Definition QM : N := 63.    Definition BEL : N := 7.
Definition PLUS : N := 43. Definition DOT : N := 46.

(* ------------------------------------------------------------------ *)
(* Python string primitives used by the reader                         *)

Definition ws (c : N) : bool := mem c gen.T16.WHITESPACE.     (* str.isspace *)
Fixpoint skip_ws (s : str) : str :=
  match s with c :: s' => if ws c then skip_ws s' else s | [] => [] end.
Fixpoint take_word (s : str) : str :=
  match s with c :: s' => if ws c then [] else c :: take_word s' | [] => [] end.
Fixpoint skip_word (s : str) : str :=
  match s with c :: s' => if ws c then s else skip_word s' | [] => [] end.

(* not line.strip() *)
Definition is_blank (s : str) : bool := forallb ws s.

(* s.split(None, 1) *)
Definition split_ws1 (s : str) : list str :=
  match skip_ws s with
  | [] => []
  | t => let w := take_word t in
         match skip_ws (skip_word t) with
         | [] => [w]
         | r => [w; r]
         end
  end.

(* s.split() ; fuel = length s + 1 *)
Fixpoint split_ws_fuel (f : nat) (s : str) : list str :=
  match f with
  | O => []
  | S f' => match skip_ws s with
            | [] => []
            | t => take_word t :: split_ws_fuel f' (skip_word t)
            end
  end.
Definition split_ws (s : str) : list str := split_ws_fuel (S (length s)) s.

(* s.strip() *)
Definition strip_ws (s : str) : str := rev (skip_ws (rev (skip_ws s))).

(* line.expandtabs(): tab size 8, the column restarts after CR / LF *)
Fixpoint expandtabs_go (col : nat) (s : str) : str :=
  match s with
  | [] => []
  | c :: s' =>
      if N.eqb c TAB then
        let k := (8 - Nat.modulo col 8)%nat in repeat SP k ++ expandtabs_go (col + k) s'
      else if N.eqb c LF || N.eqb c CR then c :: expandtabs_go 0 s'
      else c :: expandtabs_go (S col) s'
  end.
Definition expandtabs (s : str) : str := expandtabs_go 0 s.

(* text-mode iteration of the file with universal newlines: "\n", "\r", "\r\n"
   end a line.  The reader drops blank lines and rstrip('\r\n')s the others, so
   a line is modelled by its content without terminator; splitting "\r\n" in two
   only adds an empty (blank, skipped) segment. *)
Definition is_nl (c : N) : bool := N.eqb c LF || N.eqb c CR.
Fixpoint split_nl (s : str) : list str :=
  match s with
  | [] => [[]]
  | c :: s' =>
      if is_nl c then [] :: split_nl s'
      else match split_nl s' with
           | [] => [[c]]
           | p :: ps => (c :: p) :: ps
           end
  end.

(* ASCII str.lower() (modelled domain: no cased non-ASCII letters in commands / names) *)
Definition lower_char (c : N) : N := if (65 <=? c) && (c <=? 90) then c + 32 else c.
Definition lower (s : str) : str := map lower_char s.

(* ircutils.toLower (rfc1459) *)
Fixpoint assocN (c : N) (t : list (N * N)) : option N :=
  match t with
  | [] => None
  | (k, v) :: t' => if N.eqb c k then Some v else assocN c t'
  end.
Definition fold_char (c : N) : N := match assocN c gen.T16.FOLD with Some d => d | None => c end.
Definition fold (s : str) : str := map fold_char s.

(* ---- integers ---- *)
Definition is_digit (c : N) : bool := (48 <=? c) && (c <=? 57).
Definition digits_val (ds : str) : N := fold_left (fun a c => 10 * a + (c - 48)) ds 0.

Fixpoint digits_fuel (f : nat) (n : N) (acc : str) : str :=
  match f with
  | O => acc
  | S f' => let acc' := (48 + n mod 10) :: acc in
            if n / 10 =? 0 then acc' else digits_fuel f' (n / 10) acc'
  end.
Definition dec_N (n : N) : str := digits_fuel (S (N.to_nat (N.log2 n))) n [].
(* '%s' % int  /  '%d' % int *)
Definition dec_Z (z : Z) : str :=
  match z with
  | Z0 => [48]
  | Zpos p => dec_N (Npos p)
  | Zneg p => DASH :: dec_N (Npos p)
  end.

(* int(s) on the modelled domain: surrounding whitespace, optional sign, ASCII
   digits (underscores and non-ASCII digits are outside the modelled domain) *)
Definition parse_int (s : str) : res Z :=
  let t := strip_ws s in
  let '(neg, ds) := match t with
                    | c :: t' => if N.eqb c DASH then (true, t')
                                 else if N.eqb c PLUS then (false, t') else (false, t)
                    | [] => (false, [])
                    end in
  match ds with
  | [] => Raise ValueError
  | _ => if forallb is_digit ds
         then Ok (if neg then Z.opp (Z.of_N (digits_val ds)) else Z.of_N (digits_val ds))
         else Raise ValueError
  end.

(* int(float(s)) on the modelled domain: sign, digits, optional '.' digits*;
   truncation toward zero (exponents, inf, nan are outside the modelled domain) *)
Definition parse_int_float (s : str) : res Z :=
  let t := strip_ws s in
  let '(neg, body) := match t with
                      | c :: t' => if N.eqb c DASH then (true, t')
                                   else if N.eqb c PLUS then (false, t') else (false, t)
                      | [] => (false, [])
                      end in
  let '(ip, fp) := match split1 [DOT] body with Some (a, b) => (a, b) | None => (body, []) end in
  match ip ++ fp with
  | [] => Raise ValueError
  | _ => if forallb is_digit ip && forallb is_digit fp
         then Ok (if neg then Z.opp (Z.of_N (digits_val ip)) else Z.of_N (digits_val ip))
         else Raise ValueError
  end.

(* bool(utils.gen.safeEval(rest)) on the modelled domain: True / False / None /
   decimal integer literals; anything else is reported as ValueError *)
Definition T_True : str := [84; 114; 117; 101].
Definition T_False : str := [70; 97; 108; 115; 101].
Definition T_None : str := [78; 111; 110; 101].
Fixpoint before_hash (s : str) : str :=       (* a '#' starts a comment (no string literals in the modelled domain) *)
  match s with [] => [] | c :: s' => if N.eqb c HASH then [] else c :: before_hash s' end.
Definition safe_eval_bool (rest : str) : res bool :=
  let r := rstrip [SP; TAB; 12] (before_hash rest) in
  if seq_eqb r T_True then Ok true
  else if seq_eqb r T_False then Ok false
  else if seq_eqb r T_None then Ok false
  else match r with
       | [] => Raise ValueError
       | c :: r' =>
           if forallb is_digit r then
             if N.eqb c 48 then (match r' with [] => Ok false | _ =>
                                   if forallb (N.eqb 48) r' then Ok false else Raise ValueError end)
             else Ok true
           else Raise ValueError
       end.
Definition py_bool (b : bool) : str := if b then T_True else T_False.

(* ------------------------------------------------------------------ *)
(* hostmasks                                                           *)

(* ircutils._hostmaskPatternEqual: '*' -> '.*', '?' -> '.', rfc1459-equivalent
   characters and ASCII case folded (re.I), '.' excludes LF, '$' tolerates a final LF *)
Definition end_ok (s : str) : bool :=
  match s with [] => true | [c] => N.eqb c LF | _ => false end.
Fixpoint glob (p : str) : str -> bool :=
  match p with
  | [] => end_ok
  | c :: p' =>
      let rest := glob p' in
      if N.eqb c STAR then
        (fix star (s : str) : bool :=
           rest s || match s with
                     | [] => false
                     | d :: s' => if N.eqb d LF then false else star s'
                     end)
      else if N.eqb c QM then
        (fun s => match s with [] => false | d :: s' => negb (N.eqb d LF) && rest s' end)
      else
        (fun s => match s with [] => false | d :: s' => N.eqb (fold_char c) (fold_char d) && rest s' end)
  end.

Fixpoint index_of (c : N) (s : str) : option nat :=
  match s with
  | [] => None
  | x :: s' => if N.eqb x c then Some O else option_map S (index_of c s')
  end.

(* ircutils.isUserHostmask: re ^\S+!\S+@\S+$ *)
Definition is_user_hostmask (s0 : str) : bool :=
  let s := match rev s0 with c :: r => if N.eqb c LF then rev r else s0 | [] => s0 end in
  forallb (fun c => negb (ws c)) s &&
  match s with
  | [] => false
  | _ :: t =>
      match index_of BANG t with
      | None => false
      | Some k =>
          match skipn (S k) t with
          | [] => false
          | _ :: r' => mem AT (removelast r')
          end
      end
  end.

(* ------------------------------------------------------------------ *)
(* capability algebra (ircdb.py:39-197), as far as CapabilitySet.add needs it *)

Definition one_word (s : str) : bool :=
  match skip_ws s with
  | [] => false
  | t => match skip_ws (skip_word t) with [] => true | _ => false end
  end.
Definition isCapability (c : str) : bool := one_word c.
Definition hd_is (x : N) (s : str) : bool := match s with c :: _ => N.eqb c x | [] => false end.
Definition hd_in (l : list N) (s : str) : bool := match s with c :: _ => mem c l | [] => false end.
Definition isChannel (s : str) : bool :=
  nonempty s && negb (mem COMMA s) && negb (mem BEL s) && hd_in gen.T16.CHANTYPES s
  && Nat.leb (length s) gen.T16.CHANNELLEN && one_word s.
Definition isChannelCapability (c : str) : bool :=
  match split1 [COMMA] c with
  | Some (ch, cap) => isChannel ch && isCapability cap
  | None => false
  end.
Definition chan_parts (c : str) : option (str * str) :=
  if isChannelCapability c then split1 [COMMA] c else None.
Definition isAntiCapability (c : str) : bool :=
  let cap := match chan_parts c with Some (_, cap) => cap | None => c end in
  isCapability cap && hd_is DASH cap.
Definition makeChannelCapability (ch cap : str) : res str :=
  if negb (isCapability cap) then Raise AssertionError
  else if negb (isChannel ch) then Raise AssertionError
  else Ok (ch ++ [COMMA] ++ cap).
Definition invertCapability (c : str) : res str :=
  if negb (isCapability c) then Raise AssertionError
  else if isAntiCapability c then
    match chan_parts c with
    | Some (ch, cap) => Ok (ch ++ [COMMA] ++ tl cap)
    | None => Ok (tl c)
    end
  else
    match chan_parts c with
    | Some (ch, cap) => makeChannelCapability ch (DASH :: cap)
    | None => Ok (DASH :: c)
    end.

(* CapabilitySet: a Python set of folded strings, kept in insertion order *)
Definition smem (c : str) (S : list str) : bool := existsb (seq_eqb c) S.
Definition sremove (c : str) (S : list str) : list str := filter (fun x => negb (seq_eqb c x)) S.
Definition cs_add (S : list str) (c : str) : res (list str) :=
  let c' := fold c in
  do inv <- invertCapability c';
  let S1 := sremove inv S in
  Ok (if smem c' S1 then S1 else S1 ++ [c']).
Definition ANTIOWNER : str := [45; 111; 119; 110; 101; 114].
Definition ucs_add (S : list str) (c : str) : res (list str) :=
  if seq_eqb (fold c) ANTIOWNER then Raise AssertionError else cs_add S (fold c).

(* ircutils.IrcSet: elements keep their spelling, equality is on the folded form *)
Definition iset_mem (h : str) (S : list str) : bool := existsb (fun x => seq_eqb (fold x) (fold h)) S.
Definition iset_add (S : list str) (h : str) : list str := if iset_mem h S then S else S ++ [h].
Definition iset_remove (S : list str) (h : str) : list str :=
  filter (fun x => negb (seq_eqb (fold x) (fold h))) S.

(* ------------------------------------------------------------------ *)
(* users                                                               *)

Record user := User {
  u_id : option Z; u_name : str; u_ignore : bool; u_secure : bool; u_hashed : bool;
  u_password : str; u_caps : list str; u_hosts : list str;
  u_nicks : list (str * list str); u_gpg : list str }.

Definition fresh_user : user := User None [] false false false [] [] [] [] [].

Definition set_id z u := User (Some z) (u_name u) (u_ignore u) (u_secure u) (u_hashed u) (u_password u) (u_caps u) (u_hosts u) (u_nicks u) (u_gpg u).
Definition set_name x u := User (u_id u) x (u_ignore u) (u_secure u) (u_hashed u) (u_password u) (u_caps u) (u_hosts u) (u_nicks u) (u_gpg u).
Definition set_ignore x u := User (u_id u) (u_name u) x (u_secure u) (u_hashed u) (u_password u) (u_caps u) (u_hosts u) (u_nicks u) (u_gpg u).
Definition set_secure x u := User (u_id u) (u_name u) (u_ignore u) x (u_hashed u) (u_password u) (u_caps u) (u_hosts u) (u_nicks u) (u_gpg u).
Definition set_hashed x u := User (u_id u) (u_name u) (u_ignore u) (u_secure u) x (u_password u) (u_caps u) (u_hosts u) (u_nicks u) (u_gpg u).
Definition set_password x u := User (u_id u) (u_name u) (u_ignore u) (u_secure u) (u_hashed u) x (u_caps u) (u_hosts u) (u_nicks u) (u_gpg u).
Definition set_caps x u := User (u_id u) (u_name u) (u_ignore u) (u_secure u) (u_hashed u) (u_password u) x (u_hosts u) (u_nicks u) (u_gpg u).
Definition set_hosts x u := User (u_id u) (u_name u) (u_ignore u) (u_secure u) (u_hashed u) (u_password u) (u_caps u) x (u_nicks u) (u_gpg u).
Definition set_nicks x u := User (u_id u) (u_name u) (u_ignore u) (u_secure u) (u_hashed u) (u_password u) (u_caps u) (u_hosts u) x (u_gpg u).
Definition set_gpg x u := User (u_id u) (u_name u) (u_ignore u) (u_secure u) (u_hashed u) (u_password u) (u_caps u) (u_hosts u) (u_nicks u) x.

(* ---- writer: UsersDictionary.flush + IrcUser.preserve ---- *)
Definition wline (indent kw val : str) : str := indent ++ kw ++ [SP] ++ val ++ [LF].
Definition IND : str := [SP; SP].

Definition write_user_body (u : user) : str :=
  wline IND gen.T16.WU_name (u_name u)
  ++ wline IND gen.T16.WU_ignore (py_bool (u_ignore u))
  ++ wline IND gen.T16.WU_secure (py_bool (u_secure u))
  ++ (match u_password u with
      | [] => []
      | _ => wline IND gen.T16.WU_hashed (py_bool (u_hashed u))
             ++ wline IND gen.T16.WU_password (u_password u)
      end)
  ++ flat_map (fun c => wline IND gen.T16.WU_capability c) (u_caps u)
  ++ flat_map (fun h => wline IND gen.T16.WU_hostmask h) (u_hosts u)
  ++ flat_map (fun nn => wline IND gen.T16.WU_nicks (fst nn ++ [SP] ++ join [SP] (snd nn))) (u_nicks u)
  ++ flat_map (fun k => wline IND gen.T16.WU_gpgkey k) (u_gpg u)
  ++ [LF].

Definition id_of (u : user) : Z := match u_id u with Some z => z | None => 0%Z end.

Definition write_user (u : user) : str :=
  wline [] gen.T16.WH_user (dec_Z (id_of u)) ++ write_user_body u.

(* sorted(self.users.items()): ids are dict keys, hence distinct *)
Fixpoint insert_by {A} (le : A -> A -> bool) (x : A) (l : list A) : list A :=
  match l with
  | [] => [x]
  | y :: l' => if le x y then x :: l else y :: insert_by le x l'
  end.
Definition sort_by {A} (le : A -> A -> bool) (l : list A) : list A :=
  fold_right (insert_by le) [] l.
Definition sort_users (db : list user) : list user :=
  sort_by (fun a b => Z.leb (id_of a) (id_of b)) db.

Definition write_sorted_users (db : list user) : str := flat_map write_user db.
Definition write_users (db : list user) : str := write_sorted_users (sort_users db).

(* ---- UsersDictionary state during a load ---- *)
Record ustate := UState {
  us_u : option user;        (* IrcUserCreator.u  (class attribute, survives the load) *)
  us_db : list user;         (* self.users, insertion order, keyed by id *)
  us_next : Z }.             (* self.nextId *)

Definition same_id (a b : user) : bool :=
  match u_id a, u_id b with Some x, Some y => Z.eqb x y | _, _ => false end.

Fixpoint db_put (u : user) (db : list user) : list user :=
  match db with
  | [] => [u]
  | v :: db' => if same_id u v then u :: db' else v :: db_put u db'
  end.

(* u.checkHostmask(h) with no authentication: first own pattern matching h *)
Definition check_hostmask (u : user) (h : str) : option str := find (fun pat => glob pat h) (u_hosts u).

(* users.getUserId(s): (possibly mutated db, result id) *)
Definition get_user_id (db : list user) (s : str) : list user * res Z :=
  if is_user_hostmask s then
    let hits := flat_map (fun u => match check_hostmask u s with Some pat => [(u, pat)] | None => [] end) db in
    match hits with
    | [] => (db, Raise KeyError)
    | [(u, _)] => (db, Ok (id_of u))
    | _ => (map (fun u => match check_hostmask u s with
                          | Some pat => set_hosts (iset_remove (u_hosts u) pat) u
                          | None => u end) db, Raise DuplicateHostmask)
    end
  else
    match find (fun u => seq_eqb (lower s) (lower (u_name u))) db with
    | Some u => (db, Ok (id_of u))
    | None => (db, Raise KeyError)
    end.

(* the hostmask collision loops of setUser *)
Definition host_conflict (u v : user) : bool :=
  existsb (fun h => match check_hostmask v h with Some _ => true | None => false end
                    || existsb (fun o => glob h o) (u_hosts v)) (u_hosts u).

(* users.setUser(u) while noFlush is set: state-then-raise *)
Definition set_user (st : ustate) (u : user) : ustate * option exn :=
  match u_id u with
  | None => (st, Some TypeError)
  | Some uid =>
      let next := Z.max (us_next st) uid in
      let '(db1, r) := get_user_id (us_db st) (u_name u) in
      let st1 := UState (us_u st) db1 next in
      match r with
      | Raise DuplicateHostmask => (st1, Some DuplicateHostmask)
      | Ok found =>
          if negb (Z.eqb found uid) then (st1, Some DuplicateHostmask)
          else if existsb (fun v => negb (same_id u v) && host_conflict u v) db1
               then (st1, Some DuplicateHostmask)
               else (UState (us_u st) (db_put u db1) next, None)
      | Raise _ =>
          if existsb (fun v => negb (same_id u v) && host_conflict u v) db1
          then (st1, Some DuplicateHostmask)
          else (UState (us_u st) (db_put u db1) next, None)
      end
  end.

(* IrcUserCreator.finish *)
Definition user_finish (st : ustate) : ustate * option exn :=
  match us_u st with
  | None => (st, Some AttributeError)
  | Some u =>
      match u_name u with
      | [] => match u_id u with
              | Some _ => (st, None)
              | None => if gen.T16.FINISH_CLEARS_PRISTINE then (UState None (us_db st) (us_next st), None) else (st, None)
              end
      | _ =>
          match set_user st u with
          | (st1, None) => (UState None (us_db st1) (us_next st1), None)
          | (st1, Some DuplicateHostmask) =>
              let u' := set_hosts [] u in
              let st2 := UState (Some u') (us_db st1) (us_next st1) in
              match set_user st2 u' with
              | (st3, None) => (UState None (us_db st3) (us_next st3), None)
              | (st3, Some e) => (st3, Some e)
              end
          | (st1, Some e) => (st1, Some e)
          end
      end
  end.

(* IrcUserCreator.__init__ *)
Definition user_new (st : ustate) : ustate :=
  match us_u st with
  | None => UState (Some fresh_user) (us_db st) (us_next st)
  | Some _ => st
  end.

Inductive ucmd := UUser | UName | UIgnore | USecure | UHashed | UPassword | UHostmask | UNicks | UCapability | UGpgkey.
Definition user_cmds : list (str * ucmd) :=
  [(gen.T16.RU_user, UUser); (gen.T16.RU_name, UName); (gen.T16.RU_ignore, UIgnore);
   (gen.T16.RU_secure, USecure); (gen.T16.RU_hashed, UHashed); (gen.T16.RU_password, UPassword);
   (gen.T16.RU_hostmask, UHostmask); (gen.T16.RU_nicks, UNicks); (gen.T16.RU_capability, UCapability);
   (gen.T16.RU_gpgkey, UGpgkey)].

(* one handler of IrcUserCreator applied to the class-level user *)
Definition user_handler (k : ucmd) (rest : str) (u : user) : res user :=
  match k with
  | UUser =>
      match u_id u with
      | Some _ => Raise ValueError
      | None => do z <- parse_int rest; Ok (set_id z u)
      end
  | _ =>
      match u_id u with
      | None => Raise ValueError            (* _checkId *)
      | Some _ =>
          match k with
          | UUser => Ok u
          | UName => Ok (set_name rest u)
          | UIgnore => do b <- safe_eval_bool rest; Ok (set_ignore b u)
          | USecure => do b <- safe_eval_bool rest; Ok (set_secure b u)
          | UHashed => do b <- safe_eval_bool rest; Ok (set_hashed b u)
          | UPassword => Ok (set_password rest u)
          | UHostmask => Ok (set_hosts (iset_add (u_hosts u) rest) u)
          | UNicks =>
              match split1 [SP] rest with
              | None => Raise ValueError
              | Some (net, nicks) => Ok (set_nicks (dict_set net (split_char SP nicks) (u_nicks u)) u)
              end
          | UCapability => do cs <- ucs_add (u_caps u) rest; Ok (set_caps cs u)
          | UGpgkey => Ok (set_gpg (u_gpg u ++ [rest]) u)
          end
      end
  end.

Definition user_exec (cmd rest : str) (st : ustate) : ustate * option exn :=
  match dict_get cmd user_cmds with
  | Some k =>
      match us_u st with
      | None => (st, Some AttributeError)
      | Some u => match user_handler k rest u with
                  | Ok u' => (UState (Some u') (us_db st) (us_next st), None)
                  | Raise e => (st, Some e)
                  end
      end
  | None =>
      if gen.T16.READER_HAS_NEXTID && seq_eqb cmd gen.T16.K_nextid then
        (* IrcUserCreator.nextid: self.users.nextId = max(self.users.nextId, int(rest)) *)
        match parse_int rest with
        | Ok z => (UState (us_u st) (us_db st) (Z.max (us_next st) z), None)
        | Raise e => (st, Some e)
        end
      else if existsb (seq_eqb cmd) gen.T16.USER_ATTRS then (st, Some TypeError)   (* not callable / wrong arity *)
      else (st, Some ValueError)                                             (* Creator.badCommand *)
  end.

(* ------------------------------------------------------------------ *)
(* unpreserve.Reader.read, generic in the Creator                      *)

Section Reader.
Variable St : Type.
Variable new_creator : St -> St.
Variable finish : St -> St * option exn.
Variable exec : str -> str -> St -> St * option exn.

Record rstate := RState {
  r_indent : option nat;     (* self.indent *)
  r_has : bool;              (* self.creator is not None *)
  r_mod : bool;              (* self.modifiedCreator *)
  r_st : St }.

Definition indent_differs (i : nat) (o : option nat) : bool :=
  match o with None => true | Some j => negb (Nat.eqb i j) end.

Definition rstep (rs : rstate) (seg : str) : rstate * option exn :=
  if is_blank seg then (rs, None) else
  let line := expandtabs (rstrip [CR; LF] seg) in
  let s := lstrip [SP] line in
  let indent := (length line - length s)%nat in
  let '(rs1, e1) :=
    if indent_differs indent (r_indent rs) then
      let '(st1, e) := if r_has rs then finish (r_st rs) else (r_st rs, None) in
      match e with
      | Some x => (RState (r_indent rs) (r_has rs) (r_mod rs) st1, Some x)
      | None => (RState (Some indent) true false (new_creator st1), None)
      end
    else (rs, None) in
  match e1 with
  | Some x => (rs1, Some x)
  | None =>
      match split_ws1 s with
      | [command; rest] =>
          let '(st2, e2) := exec (lower command) rest (r_st rs1) in
          (RState (r_indent rs1) (r_has rs1) true st2, e2)
      | _ => (rs1, Some ValueError)           (* tuple unpacking *)
      end
  end.

Fixpoint rlines (segs : list str) (rs : rstate) : rstate * option exn :=
  match segs with
  | [] => (rs, None)
  | l :: ls => match rstep rs l with
               | (rs', None) => rlines ls rs'
               | (rs', Some e) => (rs', Some e)
               end
  end.

Definition rread (text : str) (st0 : St) : St * option exn :=
  match rlines (split_nl text) (RState None false false st0) with
  | (rs, Some e) => (r_st rs, Some e)
  | (rs, None) => if r_mod rs then finish (r_st rs) else (r_st rs, None)
  end.
End Reader.
Arguments RState {St}.
Arguments r_indent {St}. Arguments r_has {St}. Arguments r_mod {St}. Arguments r_st {St}.

(* UsersDictionary.open on a fresh dictionary: the exception (if any) is logged
   and swallowed, the partial load stays. *)
Definition load_result := (ustate * option exn)%type.
Definition read_users_from (u0 : option user) (text : str) : load_result :=
  rread ustate user_new user_finish user_exec text (UState u0 [] 0%Z).
Definition read_users (text : str) : load_result := read_users_from None text.

(* ------------------------------------------------------------------ *)
(* channels                                                            *)

Record chan := Chan {
  c_lobo : bool; c_default : bool; c_caps : list str;
  c_bans : list (str * Z); c_ignores : list (str * Z) }.

Definition default_off_caps : list str := map (fun c => DASH :: c) gen.T16.DEFAULT_OFF.
(* self.c of a new IrcChannelCreator: IrcChannel(), whose capability set the creator clears or not (table) *)
Definition creator_caps : list str := if gen.T16.CHAN_CREATOR_DEFAULTS then default_off_caps else [].
Definition fresh_chan : chan := Chan false true creator_caps [] [].

Definition sort_exp (l : list (str * Z)) : list (str * Z) :=
  sort_by (fun a b => Z.leb (snd a) (snd b)) l.

Definition write_chan_body (c : chan) : str :=
  wline IND gen.T16.WC_lobotomized (py_bool (c_lobo c))
  ++ wline IND gen.T16.WC_defaultallow (py_bool (c_default c))
  ++ flat_map (fun x => wline IND gen.T16.WC_capability x) (c_caps c)
  ++ flat_map (fun be => wline IND gen.T16.WC_ban (fst be ++ [SP] ++ dec_Z (snd be))) (sort_exp (c_bans c))
  ++ flat_map (fun be => wline IND gen.T16.WC_ignore (fst be ++ [SP] ++ dec_Z (snd be))) (sort_exp (c_ignores c))
  ++ [LF].

(* Python str ordering = lexicographic on code points *)
Fixpoint str_leb (a b : str) : bool :=
  match a, b with
  | [], _ => true
  | _ :: _, [] => false
  | x :: a', y :: b' => if N.ltb x y then true else if N.eqb x y then str_leb a' b' else false
  end.

Definition write_named {A} (hdr : str) (body : A -> str) (db : list (str * A)) : str :=
  flat_map (fun kc => wline [] hdr (fst kc) ++ body (snd kc))
           (sort_by (fun a b => str_leb (fst a) (fst b)) db).
Definition write_channels (db : list (str * chan)) : str :=
  write_named gen.T16.WH_channel write_chan_body db.

(* IrcDict: key = toLower(k), the spelling of the last assignment is kept *)
Fixpoint idict_set {A} (k : str) (v : A) (d : list (str * A)) : list (str * A) :=
  match d with
  | [] => [(k, v)]
  | (k', v') :: d' => if seq_eqb (fold k) (fold k') then (k, v) :: d' else (k', v') :: idict_set k v d'
  end.

Record cstate := CState {
  cs_name : option str;           (* IrcChannelCreator.name (class attribute) *)
  cs_c : chan;                    (* self.c *)
  cs_had : bool;                  (* self.hadChannel *)
  cs_db : list (str * chan) }.    (* channels.channels *)

Definition chan_new (st : cstate) : cstate :=
  CState (cs_name st) fresh_chan
         (match cs_name st with Some (_ :: _) => true | _ => false end) (cs_db st).

Definition chan_finish (st : cstate) : cstate * option exn :=
  if cs_had st then
    match cs_name st with
    | Some n => (CState None (cs_c st) (cs_had st) (idict_set (lower n) (cs_c st) (cs_db st)), None)
    | None => (st, Some AttributeError)      (* None.lower() *)
    end
  else (st, None).

Inductive ccmd := CChannel | CLobo | CDefault | CCap | CBan | CIgnore.
Definition chan_cmds : list (str * ccmd) :=
  [(gen.T16.RC_channel, CChannel); (gen.T16.RC_lobotomized, CLobo); (gen.T16.RC_defaultallow, CDefault);
   (gen.T16.RC_capability, CCap); (gen.T16.RC_ban, CBan); (gen.T16.RC_ignore, CIgnore)].

Definition set_c (st : cstate) (c : chan) : cstate := CState (cs_name st) c (cs_had st) (cs_db st).

Definition chan_handler (k : ccmd) (rest : str) (st : cstate) : res cstate :=
  match k with
  | CChannel =>
      match cs_name st with
      | Some _ => Raise ValueError
      | None => Ok (CState (Some rest) (cs_c st) (cs_had st) (cs_db st))
      end
  | _ =>
      match cs_name st with
      | None => Raise ValueError
      | Some _ =>
          let c := cs_c st in
          match k with
          | CChannel => Ok st
          | CLobo => do b <- safe_eval_bool rest; Ok (set_c st (Chan b (c_default c) (c_caps c) (c_bans c) (c_ignores c)))
          | CDefault => do b <- safe_eval_bool rest; Ok (set_c st (Chan (c_lobo c) b (c_caps c) (c_bans c) (c_ignores c)))
          | CCap => do cs <- cs_add (c_caps c) rest; Ok (set_c st (Chan (c_lobo c) (c_default c) cs (c_bans c) (c_ignores c)))
          | CBan =>
              match split_ws rest with
              | [pat; e] => do z <- parse_int_float e;
                            Ok (set_c st (Chan (c_lobo c) (c_default c) (c_caps c) (dict_set pat z (c_bans c)) (c_ignores c)))
              | _ => Raise ValueError
              end
          | CIgnore =>
              match split_ws rest with
              | [pat; e] => do z <- parse_int_float e;
                            Ok (set_c st (Chan (c_lobo c) (c_default c) (c_caps c) (c_bans c) (dict_set pat z (c_ignores c))))
              | _ => Raise ValueError
              end
          end
      end
  end.

Definition chan_exec (cmd rest : str) (st : cstate) : cstate * option exn :=
  match dict_get cmd chan_cmds with
  | Some k => match chan_handler k rest st with Ok st' => (st', None) | Raise e => (st, Some e) end
  | None => if existsb (seq_eqb cmd) gen.T16.CHAN_ATTRS then (st, Some TypeError) else (st, Some ValueError)
  end.

Definition read_channels_from (n0 : option str) (text : str) : cstate * option exn :=
  rread cstate chan_new chan_finish chan_exec text (CState n0 fresh_chan false []).
Definition read_channels (text : str) := read_channels_from None text.

(* ------------------------------------------------------------------ *)
(* networks                                                            *)

Record net := Net { n_sts : list (str * str); n_disc : list (str * Z) }.
Definition fresh_net : net := Net [] [].

Definition write_net_body (n : net) : str :=
  flat_map (fun sp => wline IND gen.T16.WN_stspolicy (fst sp ++ [SP] ++ snd sp))
           (sort_by (fun a b => str_leb (fst a) (fst b)) (n_sts n))
  ++ flat_map (fun sp => wline IND gen.T16.WN_lastdisconnecttime (fst sp ++ [SP] ++ dec_Z (snd sp)))
              (sort_by (fun a b => str_leb (fst a) (fst b)) (n_disc n))
  ++ [LF].
Definition write_networks (db : list (str * net)) : str :=
  write_named gen.T16.WH_network write_net_body db.

Record nstate := NState {
  ns_name : option str;          (* IrcNetworkCreator.name (class attribute, never reset) *)
  ns_net : net;                  (* self.net *)
  ns_db : list (str * net) }.

Definition net_new (st : nstate) : nstate := NState (ns_name st) fresh_net (ns_db st).
Definition net_finish (st : nstate) : nstate * option exn :=
  match ns_name st with
  | Some (c :: n) => (NState (ns_name st) fresh_net (idict_set (lower (c :: n)) (ns_net st) (ns_db st)), None)
  | _ => (st, None)
  end.

Inductive ncmd := NNetwork | NSts | NDisc.
Definition net_cmds : list (str * ncmd) :=
  [(gen.T16.RN_network, NNetwork); (gen.T16.RN_stspolicy, NSts); (gen.T16.RN_lastdisconnecttime, NDisc)].

Definition net_handler (k : ncmd) (rest : str) (st : nstate) : res nstate :=
  match k with
  | NNetwork => Ok (NState (Some rest) (ns_net st) (ns_db st))
  | NSts =>
      match split_ws rest with
      | [server; pol] => Ok (NState (ns_name st) (Net (dict_set server pol (n_sts (ns_net st))) (n_disc (ns_net st))) (ns_db st))
      | _ => Raise ValueError
      end
  | NDisc =>
      match split_ws rest with
      | [server; w] => do z <- parse_int w;
                       Ok (NState (ns_name st) (Net (n_sts (ns_net st)) (dict_set server z (n_disc (ns_net st)))) (ns_db st))
      | _ => Raise ValueError
      end
  end.

Definition net_exec (cmd rest : str) (st : nstate) : nstate * option exn :=
  match dict_get cmd net_cmds with
  | Some k => match net_handler k rest st with Ok st' => (st', None) | Raise e => (st, Some e) end
  | None => if existsb (seq_eqb cmd) gen.T16.NET_ATTRS then (st, Some TypeError) else (st, Some ValueError)
  end.

Definition read_networks_from (n0 : option str) (text : str) : nstate * option exn :=
  rread nstate net_new net_finish net_exec text (NState n0 fresh_net []).
Definition read_networks (text : str) := read_networks_from None text.

(* ------------------------------------------------------------------ *)
(* ignores: IgnoresDB.flush / open                                      *)

(* an expiry is an int, or a float given by repr: integer part and fraction digits *)
Record expiry := Exp { e_int : Z; e_frac : option str }.
Definition exp_zero (e : expiry) : bool :=      (* not expiration *)
  Z.eqb (e_int e) 0 && match e_frac e with None => true | Some f => forallb (N.eqb 48) f end.
(* now < expiration, with now in whole seconds (modelled domain: expiry >= 0) *)
Definition frac_nonzero (e : expiry) : bool :=
  match e_frac e with None => false | Some f => negb (forallb (N.eqb 48) f) end.
Definition exp_after (now : Z) (e : expiry) : bool :=
  Z.ltb now (e_int e) || (Z.eqb now (e_int e) && frac_nonzero e).
Definition exp_str (e : expiry) : str :=
  dec_Z (e_int e) ++ match e_frac e with None => [] | Some f => DOT :: f end.

Definition write_ignores (now : Z) (db : list (str * expiry)) : str :=
  flat_map (fun he => if exp_after now (snd he) || exp_zero (snd he)
                      then fst he ++ [SP] ++ exp_str (snd he) ++ [LF] else []) db.

(* one line of IgnoresDB.open; exceptions are logged per line and the loop goes on *)
Definition ignore_line (db : list (str * Z)) (seg : str) : list (str * Z) :=
  if hd_is HASH seg then db
  else if is_blank seg then db
  else
    match split_ws (rstrip [CR; LF] seg) with
    | [] => db                                        (* IndexError, logged *)
    | h :: l =>
        match (match l with [] => Ok 0%Z | e :: _ => parse_int_float e end) with
        | Raise _ => db
        | Ok z => if is_user_hostmask h then dict_set h z db else db     (* assert in add() *)
        end
    end.
Definition read_ignores (text : str) : list (str * Z) := fold_left ignore_line (split_nl text) [].

(* ------------------------------------------------------------------ *)
(* domains on which the round trip is proved (extracted, used by the harness) *)

Definition no_nl_tab (s : str) : bool := negb (mem LF s) && negb (mem CR s) && negb (mem TAB s).
(* a rest-of-line value that the reader returns unchanged *)
Definition safe_field (s : str) : bool :=
  no_nl_tab s && match s with [] => false | c :: _ => negb (ws c) end.
(* a single whitespace-free token *)
Definition token (s : str) : bool := nonempty s && forallb (fun c => negb (ws c)) s.

Definition fold_res {A B} (f : A -> B -> res A) (l : list B) (a : A) : res A :=
  fold_left (fun r b => do x <- r; f x b) l (Ok a).

Fixpoint list_eqb {A} (eq : A -> A -> bool) (a b : list A) : bool :=
  match a, b with
  | [], [] => true
  | x :: a', y :: b' => eq x y && list_eqb eq a' b'
  | _, _ => false
  end.

Definition caps_stable (add : list str -> str -> res (list str)) (init caps : list str) : bool :=
  match fold_res add caps init with Ok r => list_eqb seq_eqb r caps | Raise _ => false end.
Definition hosts_stable (hs : list str) : bool :=
  list_eqb seq_eqb (fold_left iset_add hs []) hs.
Definition nicks_stable (ns : list (str * list str)) : bool :=
  list_eqb (fun a b => seq_eqb (fst a) (fst b) && list_eqb seq_eqb (snd a) (snd b))
           (fold_left (fun d nn => dict_set (fst nn) (snd nn) d) ns []) ns.

Definition user_field_dom (u : user) : bool :=
  match u_id u with Some z => Z.leb 0 z | None => false end
  && safe_field (u_name u)
  && negb (is_user_hostmask (u_name u))
  && (match u_password u with [] => negb (u_hashed u) | p => safe_field p end)
  && forallb token (u_caps u) && caps_stable ucs_add [] (u_caps u)
  && forallb token (u_hosts u) && hosts_stable (u_hosts u)
  && forallb (fun nn : str * list str =>
                token (fst nn) && match snd nn with [] => false | _ => true end
                && forallb (fun n => no_nl_tab n && negb (mem SP n)) (snd nn))
             (u_nicks u)
  && nicks_stable (u_nicks u)
  && forallb safe_field (u_gpg u).

(* no id, name or hostmask collision at load time, in file order *)
Fixpoint load_conflict_free (seen : list user) (db : list user) : bool :=
  match db with
  | [] => true
  | u :: db' =>
      negb (existsb (fun v => same_id u v) seen)
      && negb (existsb (fun v => seq_eqb (lower (u_name u)) (lower (u_name v))) seen)
      && negb (existsb (fun v => host_conflict u v) seen)
      && load_conflict_free (seen ++ [u]) db'
  end.

Definition users_dom_sorted (db : list user) : bool :=
  forallb user_field_dom db && load_conflict_free [] db.
Definition max_id (db : list user) (z0 : Z) : Z := fold_left (fun m u => Z.max m (id_of u)) db z0.
Definition users_dom (db : list user) : bool := users_dom_sorted (sort_users db).

(* ------------------------------------------------------------------ *)
(* domains for channels.conf, networks.conf and the ignores file (added; nothing above changes) *)

Definition sort_named {A} (db : list (str * A)) : list (str * A) :=
  sort_by (fun a b => str_leb (fst a) (fst b)) db.

(* record keys in file order: a rest-of-line value the reader returns unchanged, already lower-cased
   (setChannel/setNetwork store channel.lower()), and new under the rfc1459 folding of IrcDict *)
Fixpoint keys_ok (seen : list str) (ks : list str) : bool :=
  match ks with
  | [] => true
  | k :: ks' =>
      safe_field k && seq_eqb (lower k) k
      && negb (existsb (fun k' => seq_eqb (fold k) (fold k')) seen)
      && keys_ok (seen ++ [k]) ks'
  end.

Fixpoint nodup_b (l : list str) : bool :=
  match l with [] => true | x :: l' => negb (smem x l') && nodup_b l' end.
(* r and l are the same set (r duplicate-free, same length, included) *)
Definition perm_eqb (r l : list str) : bool :=
  Nat.eqb (length r) (length l) && nodup_b r && forallb (fun x => smem x l) r.

(* the capability set a channel has after reload: the written ones re-added on top of what the creator starts from *)
Definition reload_caps (caps : list str) : list str :=
  match fold_res cs_add caps creator_caps with Ok r => r | Raise _ => caps end.
Definition caps_reload_same (caps : list str) : bool :=
  match fold_res cs_add caps creator_caps with Ok r => perm_eqb r caps | Raise _ => false end.

(* a pattern -> value dictionary written one "key value" pair per line: keys are tokens and distinct *)
Definition assoc_stable {V} (eqv : V -> V -> bool) (l : list (str * V)) : bool :=
  forallb (fun kv => token (fst kv)) l
  && list_eqb (fun a b => seq_eqb (fst a) (fst b) && eqv (snd a) (snd b))
              (fold_left (fun d kv => dict_set (fst kv) (snd kv) d) l []) l.

(* every capability the creator starts with (IrcChannel()'s default anticapabilities, table
   CHAN_CREATOR_DEFAULTS) is still in the saved set, or its inverse is: then re-adding is a no-op *)
Definition defaults_covered (caps : list str) : bool :=
  forallb (fun d => smem d caps
                    || match invertCapability d with Ok i => smem i caps | Raise _ => false end) creator_caps.
Definition chan_ok (c : chan) : bool :=
  forallb token (c_caps c) && defaults_covered (c_caps c) && caps_reload_same (c_caps c)
  && assoc_stable Z.eqb (sort_exp (c_bans c)) && assoc_stable Z.eqb (sort_exp (c_ignores c)).
Definition canon_chan (c : chan) : chan :=
  Chan (c_lobo c) (c_default c) (reload_caps (c_caps c)) (sort_exp (c_bans c)) (sort_exp (c_ignores c)).

Definition chan_dom_sorted (db : list (str * chan)) : bool :=
  keys_ok [] (map fst db) && forallb (fun kc => chan_ok (snd kc)) db.
Definition chan_dom (db : list (str * chan)) : bool := chan_dom_sorted (sort_named db).

Definition sort_key {V} (l : list (str * V)) : list (str * V) := sort_by (fun a b => str_leb (fst a) (fst b)) l.
Definition net_ok (n : net) : bool :=
  assoc_stable seq_eqb (sort_key (n_sts n)) && forallb (fun sp => token (snd sp)) (n_sts n)
  && assoc_stable Z.eqb (sort_key (n_disc n)).
Definition canon_net (n : net) : net := Net (sort_key (n_sts n)) (sort_key (n_disc n)).
Definition net_nonempty (n : net) : bool :=
  match n_sts n, n_disc n with [], [] => false | _, _ => true end.
(* what a reload keeps: every network that has a policy or a disconnect time, and the last record of
   the file even if it has none (a record without lines is overwritten by the next header) *)
Fixpoint net_expected (l : list (str * net)) : list (str * net) :=
  match l with
  | [] => []
  | [kn] => [(fst kn, canon_net (snd kn))]
  | kn :: l' => if net_nonempty (snd kn) then (fst kn, canon_net (snd kn)) :: net_expected l' else net_expected l'
  end.
Definition net_dom_sorted (db : list (str * net)) : bool :=
  keys_ok [] (map fst db) && forallb (fun kn => net_ok (snd kn)) db.
Definition net_dom (db : list (str * net)) : bool := net_dom_sorted (sort_named db).

(* ignores: what flush writes at time now, and when the written lines read back one for one *)
Definition ign_kept (now : Z) (he : str * expiry) : bool := exp_after now (snd he) || exp_zero (snd he).
Fixpoint ign_ok (seen : list str) (l : list (str * expiry)) : bool :=
  match l with
  | [] => true
  | he :: l' =>
      token (fst he) && is_user_hostmask (fst he) && negb (hd_is HASH (fst he))
      && Z.leb 0 (e_int (snd he))
      && match e_frac (snd he) with None => true | Some f => forallb is_digit f end
      && negb (existsb (seq_eqb (fst he)) seen)
      && ign_ok (seen ++ [fst he]) l'
  end.
Definition ign_dom (now : Z) (db : list (str * expiry)) : bool := ign_ok [] (filter (ign_kept now) db).
Definition ign_expected (now : Z) (db : list (str * expiry)) : list (str * Z) :=
  map (fun he => (fst he, e_int (snd he))) (filter (ign_kept now) db).

(* ------------------------------------------------------------------ *)
(* configuration as an explicit input (added).  The options the code reachable from each reader and
   from the writers reads are regenerated into T16.CONF_READ_*; the only one any of that code can reach
   today is supybot.protocols.irc.strictRfc, through IrcChannel.addBan, if the channel reader stores its
   records with the setters (tables CHAN_READER_BAN_VIA_SETTER / CHAN_READER_IGN_VIA_SETTER). *)
Record config := Config { cf_strict : bool }.        (* supybot.protocols.irc.strictRfc *)

(* IrcChannel.addBan:    assert not strictRfc() or isUserHostmask(hostmask)
   IrcChannel.addIgnore: assert isUserHostmask(hostmask)                    -- when the reader goes through them *)
Definition chan_post_check (cfg : config) (k : ccmd) (rest : str) : option exn :=
  let pat := match split_ws rest with p :: _ => p | [] => [] end in
  match k with
  | CBan => if gen.T16.CHAN_READER_BAN_VIA_SETTER && cf_strict cfg && negb (is_user_hostmask pat)
            then Some AssertionError else None
  | CIgnore => if gen.T16.CHAN_READER_IGN_VIA_SETTER && negb (is_user_hostmask pat)
               then Some AssertionError else None
  | _ => None
  end.

Definition chan_exec_cf (cfg : config) (cmd rest : str) (st : cstate) : cstate * option exn :=
  match dict_get cmd chan_cmds with
  | Some k => match chan_handler k rest st with
              | Ok st' => match chan_post_check cfg k rest with
                          | Some e => (st, Some e)
                          | None => (st', None)
                          end
              | Raise e => (st, Some e)
              end
  | None => if existsb (seq_eqb cmd) gen.T16.CHAN_ATTRS then (st, Some TypeError) else (st, Some ValueError)
  end.

(* ChannelsDictionary.open under the configuration in force at load time *)
Definition read_channels_from_cf (cfg : config) (n0 : option str) (text : str) : cstate * option exn :=
  rread cstate chan_new chan_finish (chan_exec_cf cfg) text (CState n0 fresh_chan false []).
Definition read_channels_cf (cfg : config) (text : str) := read_channels_from_cf cfg None text.
(* the writers, and the ignores / networks readers, reach no configuration option at all (CONF_READ_* = []) *)
Definition write_channels_cf (cfg : config) (db : list (str * chan)) : str := write_channels db.
Definition write_ignores_cf (cfg : config) (now : Z) (db : list (str * expiry)) : str := write_ignores now db.
Definition read_ignores_cf (cfg : config) (text : str) : list (str * Z) := read_ignores text.

(* ------------------------------------------------------------------ *)
(* the nick mutators of IrcUser (added): state-then-raise, statement order from the source (tables
   ADDNICK_LIST_BEFORE_CHECK, REMOVENICK_DROPS_EMPTY).  [valid] is ircutils.isNick(nick), an input. *)
Definition nick_list (u : user) (net : str) : option (list str) := dict_get net (u_nicks u).
(* users.getUserFromNick(network, nick) *)
Definition get_user_from_nick (db : list user) (net nick : str) : option user :=
  find (fun v => match nick_list v net with Some l => smem nick l | None => false end) db.

Fixpoint remove_first (x : str) (l : list str) : list str :=
  match l with [] => [] | y :: l' => if seq_eqb x y then l' else y :: remove_first x l' end.
Fixpoint dict_del {A} (k : str) (d : list (str * A)) : list (str * A) :=
  match d with [] => [] | (k', v) :: d' => if seq_eqb k k' then d' else (k', v) :: dict_del k d' end.

Definition add_nick (db : list user) (u : user) (net nick : str) (valid : bool) : user * option exn :=
  if negb valid then (u, Some AssertionError) else
  (* network.split() != [network] or nick.split() != [nick]  ->  ValueError (table ADDNICK_REFUSES_WHITESPACE) *)
  if gen.T16.ADDNICK_REFUSES_WHITESPACE && negb (token net && token nick) then (u, Some ValueError) else
  let u1 := if gen.T16.ADDNICK_LIST_BEFORE_CHECK
            then match nick_list u net with Some _ => u | None => set_nicks (dict_set net [] (u_nicks u)) u end
            else u in
  match get_user_from_nick db net nick with
  | Some _ => (u1, Some KeyError)
  | None => let l := match nick_list u1 net with Some l => l | None => [] end in
            (set_nicks (dict_set net (if smem nick l then l else l ++ [nick]) (u_nicks u1)) u1, None)
  end.

Definition remove_nick (u : user) (net nick : str) : user * option exn :=
  match nick_list u net with
  | None => (u, Some KeyError)
  | Some l =>
      if negb (smem nick l) then (u, Some KeyError) else
      let l' := remove_first nick l in
      match l' with
      | [] => if gen.T16.REMOVENICK_DROPS_EMPTY then (set_nicks (dict_del net (u_nicks u)) u, None)
              else (set_nicks (dict_set net [] (u_nicks u)) u, None)
      | _ => (set_nicks (dict_set net l' (u_nicks u)) u, None)
      end
  end.

(* what IrcUser.preserve can write and IrcUserCreator.nicks reads back: no network with an empty nick list *)
Definition nick_lists_nonempty (u : user) : bool :=
  forallb (fun nn : str * list str => match snd nn with [] => false | _ => true end) (u_nicks u).

(* ------------------------------------------------------------------ *)
(* bytes on disk (added).  The writers go through utils.file.AtomicFile, which encodes utf8; the readers
   open the file either with encoding='utf8' or without an encoding, i.e. with the preferred encoding of
   the locale (tables READER_DECODES_UTF8 / IGN_READER_DECODES_UTF8), which is an input of the model.
   Decoding is modelled on the whole file (the real reader decodes in 8 KiB chunks: a file that cannot be
   decoded may be loaded up to the chunk holding the first bad byte). *)
Inductive fenc := EUtf8 | ELatin1 | EAscii.
Definition decode_as (e : fenc) (bs : bytes) : res str :=
  match e with
  | EUtf8 => C13.Utf8.utf8_decode bs
  | ELatin1 => Ok bs
  | EAscii => if forallb C13.Utf8.is_ascii bs then Ok bs else Raise UnicodeError
  end.
Definition file_bytes (text : str) : res bytes := C13.Utf8.utf8_encode text.
Definition reader_enc (explicit_utf8 : bool) (locale : fenc) : fenc := if explicit_utf8 then EUtf8 else locale.
(* the text the Reader-based loaders (users, channels, networks) / IgnoresDB.open see for a flushed text *)
Definition reread (locale : fenc) (text : str) : res str :=
  do b <- file_bytes text; decode_as (reader_enc gen.T16.READER_DECODES_UTF8 locale) b.
Definition reread_ign (locale : fenc) (text : str) : res str :=
  do b <- file_bytes text; decode_as (reader_enc gen.T16.IGN_READER_DECODES_UTF8 locale) b.
Definition gEnc (v : value) : fenc := match gN v with 1 => ELatin1 | 2 => EAscii | _ => EUtf8 end.

(* ------------------------------------------------------------------ *)
(* nextId through save and load (added).  UsersDictionary.flush writes the accounts (write_users) and, since
   the repair C16.k, a trailing `nextid N` line (table FLUSH_WRITES_NEXTID); the reader has the matching
   command (READER_HAS_NEXTID, handled in user_exec). *)
Definition write_users_state (next : Z) (db : list user) : str :=
  write_users db ++ (if gen.T16.FLUSH_WRITES_NEXTID then wline [] gen.T16.K_nextid (dec_Z next) else []).

(* ------------------------------------------------------------------ *)
(* wire                                                                *)

Definition vZ (z : Z) : value := I z.
Definition vUser (u : user) : value :=
  L [vO vZ (u_id u); vS (u_name u); vB (u_ignore u); vB (u_secure u); vB (u_hashed u);
     vS (u_password u); vLS (u_caps u); vLS (u_hosts u);
     L (map (fun nn => L [vS (fst nn); vLS (snd nn)]) (u_nicks u)); vLS (u_gpg u)].
Definition gUser (v : value) : user :=
  User (gO gZ (nth_v 0 v)) (gS (nth_v 1 v)) (gB (nth_v 2 v)) (gB (nth_v 3 v)) (gB (nth_v 4 v))
       (gS (nth_v 5 v)) (gLS (nth_v 6 v)) (gLS (nth_v 7 v))
       (map (fun nn => (gS (nth_v 0 nn), gLS (nth_v 1 nn))) (gL (nth_v 8 v))) (gLS (nth_v 9 v)).
Definition vExn (e : option exn) : value := vO (fun x => I (exn_code x)) e.
Definition vLoadU (r : load_result) : value :=
  let st := fst r in
  L [L (map vUser (us_db st)); vZ (us_next st); vExn (snd r); vO vUser (us_u st)].

Definition vPairs {A} (f : A -> value) (l : list (str * A)) : value :=
  L (map (fun kv => L [vS (fst kv); f (snd kv)]) l).
Definition gPairs {A} (f : value -> A) (v : value) : list (str * A) :=
  map (fun kv => (gS (nth_v 0 kv), f (nth_v 1 kv))) (gL v).
Definition vChan (c : chan) : value :=
  L [vB (c_lobo c); vB (c_default c); vLS (c_caps c); vPairs vZ (c_bans c); vPairs vZ (c_ignores c)].
Definition gChan (v : value) : chan :=
  Chan (gB (nth_v 0 v)) (gB (nth_v 1 v)) (gLS (nth_v 2 v)) (gPairs gZ (nth_v 3 v)) (gPairs gZ (nth_v 4 v)).
Definition vNet (n : net) : value := L [vPairs vS (n_sts n); vPairs vZ (n_disc n)].
Definition gNet (v : value) : net := Net (gPairs gS (nth_v 0 v)) (gPairs gZ (nth_v 1 v)).
Definition gExp (v : value) : expiry := Exp (gZ (nth_v 0 v)) (gO gS (nth_v 1 v)).

(* run: (op payload) *)
Definition run (v : value) : value :=
  let p := nth_v 1 v in
  match gN (nth_v 0 v) with
  | 0 => vS (write_users (map gUser (gL p)))
  | 1 => vLoadU (read_users_from (gO gUser (nth_v 0 p)) (gS (nth_v 1 p)))
  | 2 => vB (users_dom (map gUser (gL p)))
  | 3 => vS (write_channels (gPairs gChan p))
  | 4 => let r := read_channels_from (gO gS (nth_v 0 p)) (gS (nth_v 1 p)) in
         L [vPairs vChan (cs_db (fst r)); vExn (snd r); vO vS (cs_name (fst r))]
  | 5 => vB (chan_dom (gPairs gChan p))
  | 6 => vS (write_networks (gPairs gNet p))
  | 7 => let r := read_networks_from (gO gS (nth_v 0 p)) (gS (nth_v 1 p)) in
         L [vPairs vNet (ns_db (fst r)); vExn (snd r); vO vS (ns_name (fst r))]
  | 8 => vB (net_dom (gPairs gNet p))
  | 9 => vS (write_ignores (gZ (nth_v 0 p)) (gPairs gExp (nth_v 1 p)))
  | 10 => vPairs vZ (read_ignores (gS p))
  | 11 => vB (ign_dom (gZ (nth_v 0 p)) (gPairs gExp (nth_v 1 p)))
  | 14 => let r := read_channels_from_cf (Config (gB (nth_v 0 p))) (gO gS (nth_v 1 p)) (gS (nth_v 2 p)) in
          L [vPairs vChan (cs_db (fst r)); vExn (snd r); vO vS (cs_name (fst r))]
  | 15 => let r := add_nick (map gUser (gL (nth_v 0 p))) (gUser (nth_v 1 p)) (gS (nth_v 2 p)) (gS (nth_v 3 p)) (gB (nth_v 4 p)) in
          L [vUser (fst r); vExn (snd r)]
  | 16 => let r := remove_nick (gUser (nth_v 0 p)) (gS (nth_v 1 p)) (gS (nth_v 2 p)) in L [vUser (fst r); vExn (snd r)]
  | 17 => L [vR vS (reread (gEnc (nth_v 0 p)) (gS (nth_v 1 p))); vR vS (reread_ign (gEnc (nth_v 0 p)) (gS (nth_v 1 p)))]
  | 18 => vS (write_users_state (gZ (nth_v 0 p)) (map gUser (gL (nth_v 1 p))))
  | 12 => vB (glob (gS (nth_v 0 p)) (gS (nth_v 1 p)))
  | 13 => vB (is_user_hostmask (gS p))
  | _ => L []
  end.
