(* C16/Nicks.v — the nick mutators of IrcUser never leave a state users.conf cannot represent *)
From Coq Require Import List NArith ZArith Bool.
Import ListNotations.
Require Import Base.Wire Base.PyStr C16.Model.
Require gen.T16.
Open Scope N_scope.

(* statement order pinned from the source *)
Lemma addnick_checks_first : gen.T16.ADDNICK_LIST_BEFORE_CHECK = false. Proof. reflexivity. Qed.
Lemma removenick_drops_empty : gen.T16.REMOVENICK_DROPS_EMPTY = true. Proof. reflexivity. Qed.

Definition ne_list (nn : str * list str) : bool := match snd nn with [] => false | _ => true end.

Lemma dict_set_forallb (P : str * list str -> bool) k v d :
  (forall k', P (k', v) = P (k, v)) -> P (k, v) = true -> forallb P d = true -> forallb P (dict_set k v d) = true.
Proof.
  intros Hk Hv. induction d as [|[k' v'] d IH]; cbn [dict_set forallb]; intro H.
  - rewrite Hv. reflexivity.
  - apply andb_true_iff in H as [H1 H2]. destruct (seq_eqb k k').
    + cbn [forallb]. rewrite Hk, Hv, H2. reflexivity.
    + cbn [forallb]. rewrite H1, (IH H2). reflexivity.
Qed.

Lemma dict_del_forallb (P : str * list str -> bool) k d : forallb P d = true -> forallb P (dict_del k d) = true.
Proof.
  induction d as [|[k' v'] d IH]; cbn [dict_del forallb]; intro H; [reflexivity|].
  apply andb_true_iff in H as [H1 H2]. destruct (seq_eqb k k'); [exact H2|].
  cbn [forallb]. rewrite H1, (IH H2). reflexivity.
Qed.

(* a refused claim (assertion, nick already taken) leaves the account exactly as it was *)
Lemma refused_addnick_unchanged db u net nick valid e :
  snd (add_nick db u net nick valid) = Some e -> fst (add_nick db u net nick valid) = u.
Proof.
  unfold add_nick. rewrite addnick_checks_first. destruct valid; cbn [negb]; [|reflexivity].
  destruct (get_user_from_nick db net nick); cbn [fst snd]; [reflexivity|discriminate].
Qed.

Lemma refused_removenick_unchanged u net nick e :
  snd (remove_nick u net nick) = Some e -> fst (remove_nick u net nick) = u.
Proof.
  unfold remove_nick. destruct (nick_list u net) as [l|]; [|reflexivity].
  destruct (negb (smem nick l)); [reflexivity|]. rewrite removenick_drops_empty.
  destruct (remove_first nick l); cbn [snd]; discriminate.
Qed.

Lemma set_nicks_nonempty x u : nick_lists_nonempty (set_nicks x u) = forallb ne_list x.
Proof. reflexivity. Qed.

Lemma add_nick_keeps_nonempty db u net nick valid :
  nick_lists_nonempty u = true -> nick_lists_nonempty (fst (add_nick db u net nick valid)) = true.
Proof.
  intro H. unfold add_nick. rewrite addnick_checks_first. destruct valid; cbn [negb]; [|exact H].
  destruct (get_user_from_nick db net nick); cbn [fst]; [exact H|].
  rewrite set_nicks_nonempty. apply dict_set_forallb; [reflexivity| |exact H].
  unfold ne_list. cbn [snd]. destruct (nick_list u net) as [l|].
  - destruct (smem nick l) eqn:E; [|destruct l; reflexivity].
    destruct l; [discriminate E|reflexivity].
  - reflexivity.
Qed.

Lemma remove_nick_keeps_nonempty u net nick :
  nick_lists_nonempty u = true -> nick_lists_nonempty (fst (remove_nick u net nick)) = true.
Proof.
  intro H. unfold remove_nick. destruct (nick_list u net) as [l|]; [|exact H].
  destruct (negb (smem nick l)); [exact H|]. rewrite removenick_drops_empty.
  destruct (remove_first nick l) as [|x l'] eqn:E; cbn [fst]; rewrite set_nicks_nonempty.
  - apply dict_del_forallb. exact H.
  - apply dict_set_forallb; [reflexivity|reflexivity|exact H].
Qed.

(* non-vacuity: a refused claim by an account without nicks on that network *)
Definition nk_a : user := User (Some 1%Z) [97] false false true [112] [] [] [([110], [[120]])] [].
Definition nk_b : user := User (Some 2%Z) [98] false false true [112] [] [] [] [].
Example refused_claim :
  add_nick [nk_a; nk_b] nk_b [110] [120] true = (nk_b, Some KeyError)
  /\ fst (add_nick [nk_a; nk_b] nk_b [110] [121] true) = set_nicks [([110], [[121]])] nk_b.
Proof. split; vm_compute; reflexivity. Qed.
